#!/usr/bin/env python3
"""Generates /verif/MANIFEST.json from the table below (kept in one place so the
manifest, the not_applicable list and DESIGN.md stay in step)."""
import json, os, subprocess, sys

HERE = os.path.dirname(os.path.abspath(__file__))

TRUST = ("trusts the Go type checker, go/cfg, go/ssa, the documented semantics of the library "
         "functions named by the rules; decides the named structural clauses only")

# property id -> (claimed text, technique, design_ref)   (only built properties appear here)
CLAIMS = {
    "C11": (
        "Does not run a schema validator; conformance of documents is NOT decided. Decided: all 68 files under data/schemas parse, declare draft "
        "2020-12, carry the $id their path implies, every $ref resolves to a $defs entry or another published file, required members are declared "
        "properties, patterns compile, keyword values have the right JSON type; each pattern a type's JSONSchema publishes is the very "
        "constant/variable from which a regexp used by its validator or text parser is compiled (cal.DateTime, parsed by a library routine, must "
        "reject the surplus the routine accepts); members serialised without omitempty that marshal to null when empty are required by their "
        "struct's validator. 1 known finding (\"rates\": null in preceding tax).",
        "static analysis: artefact lint of the shipped schema files, writer/reader agreement on shared pattern constants, struct-tag × validation-table coverage",
        "§4 C11"),
    "C03": (
        "The re-adding identity itself is a numerical identity between presented figures and is NOT decided. Decided are three structural "
        "necessary conditions: the rounding-rule dispatch (ApplyRoundingRule rounds to the currency's decimals in both directions under "
        "'currency' and only raises precision otherwise; the precision-matching helper keeps the accumulator's precision under 'currency'); "
        "the line sum and each document discount/charge amount are last assigned from ApplyRoundingRule before they feed the sums; the "
        "presentation rounding covers every amount of a line, its discounts, charges and breakdown rows, of the document totals and of the tax "
        "summary. Breaking any of the three breaks the identity; holding all three does not prove it.",
        "static analysis: switch folding of the rounding-rule dispatch, reaching-definition check, field coverage of the rounding walkers",
        "§4 C03"),
    "C19": (
        "Decides: every rate table folded from the Go sources equals data/regimes/*.json value for value; every regime/addon literal and "
        "catalogue registration has its data file and every data file its definition; the aggregator packages import every defining package "
        "and the root imports the aggregators; every schema registration has its data/schemas file and vice versa; data.Content embeds the "
        "five directories; in the published definitions currencies are published currencies, time zones exist in the tz database, correction "
        "types are invoice types, correction/category/rate/scenario extension keys are defined somewhere, required addons exist, the rounding "
        "rule is defined, and every tag a scenario filters on is offered by the definition or the regime of its country; definition "
        "self-validation lists every field (4 listed exceptions with reasons). Not decided: byte equality of regenerated files.",
        "static analysis: constant folding of definition literals, set comparison with the shipped data files, import-graph and embed-directive checks",
        "§4 C19"),
    "C13": (
        "Wiring only: in every regime package each function that validates or normalises a *tax.Identity is reachable from the function the "
        "regime definition registers as Validator / Normalizer through that dispatcher's `case *tax.Identity`; every regime that validates "
        "tax identities normalises them in its registered Normalizer's identity case, which reaches the common tax.NormalizeIdentity (listed "
        "exception: MX, whose alphabet the common routine would damage); Identity.Normalize falls back to the common routine without a regime. "
        "Does not check any check-digit algorithm against its national specification, nor idempotence of normalisation as a value property.",
        "static analysis: registry/dispatch reachability over resolved function references, sibling agreement across regimes",
        "§4 C13"),
    "C04": (
        "Decides necessary conditions of the calculate/serialise fixpoint: fields the tax-total recalculation accumulates into are reset "
        "unconditionally first, and document totals are reset before being read; every range over a map in library code is classified "
        "order-independent (keyed writes, flags, key-equality searches, sorted-afterwards collections) or is an accepted, caller-less helper "
        "— i18n.String's arbitrary-entry fallback is unreachable because all 1049 literals have the default language or one entry; clocks "
        "and random identifiers are referenced only by cal/uuid/dsig and every cal.Today*/uuid.V* in calculation code is guarded by an "
        "emptiness test or belongs to correct/replicate/New*; custom (un)marshallers lose no member and schema.Object keeps the document's "
        "own $schema; scenario notes are removed first and appended only when absent; Validate/Digest/Verify/Extract and the header comparison "
        "neither store through nor sort anything reachable from the envelope. Not decided: byte equality of two runs, regex normalisers.",
        "static analysis: reset-before-accumulate rule, effect classification of map loops, who-may-call fencing with branch-fact guards, marshaller shape rules, effect (no-store) rule",
        "§4 C04"),
    "C16": (
        "Decides: Envelope.Correct/Replicate store nothing through the source, call only Clone on its document, operate on the clone and "
        "return Envelop(clone) — a new envelope with a freshly generated header identifier, no stamps and an empty signature list; Clone is "
        "json round trip into a new object; Invoice.Correct copies identifier, type, series, code and issue date into the preceding "
        "reference before any is re-assigned, takes reason and extensions from the options, replaces the preceding list by that reference, "
        "clears code and identifier, takes the requested type and ends by recalculating; success is dominated by the requirement check, "
        "which turns each of the definition's stamps/types/reason requirements into a refusal; Replicable documents clear identifier and code "
        "and take today's date; no pointer into the source header is installed in options or result without a copy. Not decided: the regimes' "
        "requirement tables, CLI option values.",
        "static analysis: effect (no-store) rule, def-use and statement-order rules on go/cfg, field coverage of the preceding literal, aliasing rule",
        "§4 C16"),
    "C01": (
        "Decides three structural necessary conditions of 'rounding happens only at the documented points': every sum seeded with the "
        "currency's zero (line sums, breakdowns, discount/charge sums, advances, payment lines, tax bases, category, surcharge and tax sums) "
        "raises its precision to each addend first, and tax rate rows are created with the currency zero, not a line-derived precision; "
        "every amount of bill.Totals that the pass assigns is rescaled by Totals.round and cleared by Totals.reset, Totals.round only "
        "rescales, and tax.Total.round rescales every amount leaf of the summary for every row; in each calculation pass nothing but "
        "rounding, setters and return follows the first rounding-only call. Not decided: precision constants, exactness of each product "
        "(C05), the full-minor-unit bound, exchange-rate values.",
        "static analysis: accumulator idiom check with zero-seed provenance, field coverage of the rounding/reset walkers, statement-order rule with derived rounding-only functions",
        "§4 C01"),
    "C02": (
        "Decides: both rate-group matching functions, interpreted as boolean functions over every combination of nil/non-nil percent and "
        "surcharge and equal/unequal country, extensions, percent and surcharge (100 feasible rows each), equal the specified group identity and "
        "dereference no nil; a new row copies the identity fields from the combo; the retained branch of the tax total mirrors the ordinary one "
        "with Subtract, surcharges included; the tax accumulators raise precision to each addend; the included tax is taken out of every line "
        "having that category with a percentage, with that combo's own percentage. Not decided: amount = percent of base, the sums.",
        "static analysis: exhaustive abstract interpretation of the matching predicates, mirror-branch comparison, accumulator rule, every-iteration rule",
        "§4 C02"),
    "C17": (
        "Decides necessary conditions only (the symmetry relations compare two calculations and are not decided): every amount operation rounds "
        "with math.Round, an odd function, so rounding commutes with negation; every zero-seeded accumulator raises its precision to each "
        "addend and rate rows are created with the currency zero, so sums do not depend on row order; removing included taxes records old "
        "minus new total with tax in the rounding field and recalculates. Not decided: which inputs Invoice.Invert negates.",
        "static analysis: rounding-primitive inventory (shared with C05), accumulator rule (shared with C01), def-use of the rounding residue",
        "§4 C17"),
    "C07": (
        "Decides for package c14n: success of the reader requires a further Token() found to be io.EOF, EOF inside a value is an error, "
        "and the reader never succeeds with a nil value; separators written after skippable elements do not depend on the range index; "
        "safeSet is true exactly for 0x20–0x7F except the quote and the backslash, the two-character escapes are exactly the seven of "
        "README §8.1 and the fallback is u00 plus two digits from the upper-case hex table; members are sorted with a plain < on keys before "
        "every object is returned; a decoding error in a string is rejected; no break that merely ends a switch case sits inside a loop of "
        "the formatters. Not decided: the number formatter's digits (value-level), idempotence and injectivity.",
        "static analysis: branch-fact dataflow on go/cfg, constant folding of tables against the specification, shape lints",
        "§4 C07"),
    "C05": (
        "Decides for package num: the only float→integer path is int64(math.Round(x)) (half away from zero, sign-symmetric) and the "
        "precision-changing operations still round with it; a symbolic decimal-scale type system over every amount operation (values carry "
        "their exponent, intPow(10,e) carries e, products add, quotients subtract; sums/differences/comparisons need equal scales; every Amount "
        "literal is labelled with the scale of its value; each result carries its documented precision); nothing is computed from the result of "
        "a floating-point division before rounding (single inexact step); the ±2 percentage shift and the Of/From/Factor/Remove definitions; "
        "Split's remainder identity; the threshold rules' truth table against the relation each constructor's error names; Compare's sign "
        "table. Not decided: float64 exactness inside 2^52 (numerical), overflow.",
        "static analysis: primitive inventory, symbolic exponent-dimension checking on the AST, finite truth-table evaluation",
        "§4 C05"),
    "C06": (
        "Decides: every success return of AmountFromString lies where the input matched a regexp compiled from the very constant "
        "Amount.JSONSchema publishes, and the two parts are combined only after a range check against MaxInt64; the percentage reader strips "
        "one optional trailing % and delegates to the amount reader, and its pattern is the amount pattern plus %; both UnmarshalJSON are "
        "UnmarshalText(unquote(v)), unquote needs a complete pair of quotes around a non-empty body, MarshalText writes String(); the printer "
        "returns no constant text outside the pattern within the 0–18 decimal domain and prefixes only \"\" or \"-\". Recorded, not decided: "
        "PercentageFromString accepts \"\" and numbers without % (documented in code). Not decided: round-trip equality for all values.",
        "static analysis: writer/reader table agreement on a shared constant, branch-fact dataflow to success returns, constant folding",
        "§4 C06"),
    "C15": (
        "Decides the ownership discipline the property's mechanism states: every write to a package-level variable of the module (assignment, "
        "element/field store, delete, mutating method incl. receiver-mutating module methods) is in initialisation-only code or a Register* "
        "function called only from it; no runtime-reachable function stores into or appends to a slice owned by a possibly shared definition "
        "object (origins Nil/Fresh/Shared/parameter propagated through function summaries with the nil-receiver return idiom); the bulk loop "
        "has per-iteration request and sequence variables, Add before go, send before Done, a single final marker after Wait, one response "
        "per request carrying its own ids, and payloads that do not alias reusable buffers. Not decided: data races in general, result "
        "equivalence under interleavings.",
        "static analysis: global-write who-may-call over an init-reachability call index, summary-based ownership/freshness analysis, shape rules on the bulk loop",
        "§4 C15"),
    "C18": (
        "Decides soundness of validation structurally: from every registered document type, each field whose type is or contains a reference "
        "type (currency code, country codes, extensions, combos, addons, regime) is listed in its struct's ValidateStruct call without an "
        "unconditional Skip, each struct on the path has a validator, and each type is held in a way the validation library recurses into "
        "(pointer-receiver validators on value fields are skipped by the library); every reference type's validator reaches its registry "
        "lookup (through rule objects and package-level rule variables); documents embedding tax.Tags check the list with TagsIn; a combo is "
        "checked against its own country's regime. 5 known findings (preceding[].tax unvalidated; tags of order/delivery/payment unchecked). "
        "Not decided: the value-level behaviour of each rule, completeness of the registries (C19).",
        "static analysis: type-graph reachability × parsed validation tables (field coverage), method-set check against the validation library's dispatch, call reachability",
        "§4 C18"),
    "C14": (
        "Decides six exact crash / error shapes, not general panic-freedom: values handed to tax.Normalize (nullable members, elements of "
        "document arrays) are nil-receiver-safe or provably non-nil; dereferenced currency definitions come from constants, definition "
        "fields or codes checked on that path (interprocedural requirement propagation); no element removal inside a range over the same "
        "slice; every panic() is init-only, a Must* API without runtime callers, a reviewed site, or follows a type dispatch that covers "
        "every type its producer can return; every error returned by the exported root-package API is a keyed gobl error; nullable envelope "
        "members (head, doc) are nil-tested before dereference in exported Envelope methods. The 15 findings of round 0 (null array elements reach "
        "non-nil-safe Normalize methods) are repaired (fix commits in known_findings.json). Not decided: other dereferences of optional members, overflow, recursion depth, termination.",
        "static analysis: nil-receiver safety by branch-fact dataflow, interprocedural precondition propagation for currency codes, shape lint, who-may-call for panic sites, return-origin analysis",
        "§4 C14"),
    "C20": (
        "Decides: Negate assigns to every amount leaf of the summary types (enumerated from the struct declarations) the negation of that "
        "same leaf, for every row; Merge combines every leaf of matched rows with Add of the operand's leaf after MatchPrecision, never "
        "overwrites a possibly non-nil pointer leaf, for every row; Merge/Clone/Negate and their helpers install no operand-owned pointer or "
        "slice to amount-carrying objects in the result and store nothing through operands; no result of a pure num method is discarded "
        "anywhere in the module; payment line and payment totals accumulate with precision match on every line; the payment tax summary "
        "is the Merge fold over clones of recalculated line summaries. Not decided: the numeric equalities themselves.",
        "static analysis: field-coverage of struct walkers by value-origin tracking, ownership/aliasing rule, discarded-result lint, accumulator idiom check",
        "§4 C20"),
    "C08": (
        "Decides: every success exit of Envelope.Validate/ValidateWithContext passes through and heeds Digest.Equals(header digest, "
        "freshly computed digest); Equals compares every field of Digest; the digest is SHA-256 over c14n.CanonicalJSON(json.Marshal("
        "whole document object)) and is stored in the header after the document was calculated; no registered document type hides a "
        "data field from serialisation (json:\"-\" only on function-typed fields and option structs; migration unmarshallers decode every "
        "field and do not shadow real members). Not decided: sensitivity of SHA-256/canonical bytes to each edit (value-level).",
        "static analysis: must-pass-through + heeded-error dataflow on go/cfg, def-use chain of the hashed bytes, field-comparison coverage, type-graph closure of registered schema types",
        "§4 C08"),
    "C10": (
        "Decides the guards the lifecycle rests on: Sign appends only after a successful key.Sign, validates after the append and "
        "clears the signature list on every failing path after it; Signature.UnmarshalJSON reports success only where a successfully "
        "parsed JWS was stored; the signed flag is derived exactly from a non-empty signature list and handed to struct validation; "
        "header stamps must be empty unless signed and are duplicate-checked; all 4 document types with code+uuid+regime require the "
        "code when signed (sibling agreement). Not decided: outcomes over operation histories (model checking is another family).",
        "static analysis: branch-fact and must-pass dataflow on go/cfg, validation-rule table parsing, sibling cross-check",
        "§4 C10"),
    "C12": (
        "Decides: the acceptance predicate of RateDef.Value by finite abstract evaluation over all orderings of (start date, document "
        "date) and nil/invalid axes — accept iff undated or start ≤ date, first accepted value returned; the order validator's truth "
        "table; exhaustively, that all 68 rate tables folded from source and all data/regimes/*.json tables are strictly descending per "
        "qualification with undated values last; that the combo takes percent and surcharge from the one selected value, errors when none, "
        "clears both when exempt; that the tax date is value date else issue date; and that code tables equal the published tables value "
        "for value. Not decided: whether the percentages match national law.",
        "static analysis: finite abstract evaluation of the comparison predicate, constant folding of definition literals, table comparison with data files, def-use",
        "§4 C12"),
    "C09": (
        "Decides, for every path of every function that can say 'verified': only Envelope.verifySignature touches JWS "
        "verification outside package dsig (plus callers that heed it); success there is control-dependent on "
        "Header.Contains(current, signed payload) with a key-verified payload whenever keys are given; Contains compares "
        "all 7 serialised header fields on both headers; every caller up to the CLI, bulk and HTTP entry points cannot "
        "reach a success marker unless the verification error was found nil; Sign signs the envelope's own header. "
        "Not decided: ES256 itself (go-jose) and value-level behaviour of the comparison loops.",
        "static analysis: who-may-call over resolved references + must-dataflow of branch facts on go/cfg + field-comparison coverage",
        "§4 C09"),
}

NOT_APPLICABLE = {
}

ALL = ["C%02d" % i for i in range(1, 21)]


# Sentences added when rules were strengthened against the second round of seeded changes.
ADDENDA = {
    "C10": " The signed state reaches the document's validation: the context handed on derives from the one built where signatures exist (R5); every signature is tried against the keys (R6, shared with C09-R4). The CLI and bulk build path removes signatures before it validates, not after (R7). Every algorithm a private key can sign with is accepted when signatures are parsed: a signed envelope can be read back (R8, shared with C09-R8).",
    "C13": " A regime's identity normaliser applies the common normalisation before its own steps (R3). A direct call of an asserting validation function passes a value of an asserted type (R4). A regime normaliser does not assign the identity's country after the common normalisation has trimmed the prefix of the previous one (R3, #country-before-common). A test of the identity's country inside a regime package that names the regime's own code names its alternative codes too — identities filed under XI or EL reach the same validator (R5). The alternative country codes a regime is registered under are the ones its published definition lists (R6, shared with C19-R5). Every party member — and every member that has its own Normalize and holds a party or tax identity — of a structure with a Normalize method is handed to tax.Normalize there (R7).",
    "C19": " Every $regime enumeration under data/schemas equals the countries and alternative codes of the regime definition literals of the code, every $addons enumeration the addon keys, and data/regimes/<cc>.json lists the literal's alternative codes (R5). The registered definitions are not rewritten at run time (R6, shared with C15). The shipped currency enumeration equals the definitions the library loads (R7, shared with C11-R10).",
    "C17": " Also decided (R4): every sign flip of Invoice.Invert applies to every row, every walked array has one, row-own inputs from which a flipped amount is recomputed (explicit base; rate and own quantity) and totals members the calculation takes as given (rounding) are flipped too, and the invoice is recalculated afterwards; the row-grouping predicate is the symmetric group identity (R5, shared with C02-R1). A loop over lines, discounts, charges or their nested rows carries nothing from one row to the next except a fold, a constant flag, a search exit, an extremum or a per-iteration temporary (R6); nothing reachable from the calculation decides by the sign of an amount — IsPositive, IsNegative, Compare, Abs or an ordered comparison of a raw value (R7). The grouping predicate includes Extensions.Equals being two-sided (R5 includes C02-R6). Loops over preceding references are row loops (R6). No function of bill, tax, pay or org stores through a *num.Amount or *num.Percentage parameter (R8).",
    "C07": " The escapes are decided by evaluating one iteration of the string encoder's loop for each of the 128 ASCII bytes: what is written, and where the current position and the start of the pending run are left, match README §8 (safe bytes untouched, seven two-character escapes, \\u00XX upper-case otherwise). Invalid UTF-8 is recognised by evaluating the loop for the three answers of DecodeRuneInString (R6); keys and string values reach the output only through encodeString (R8). An array writes every element, null or not (R9). The exported entry points of package c14n hand every value to the canonical writer: none returns bytes produced by a value's own marshaller (R10).",
    "C06": " The range check is decided exactly: the product int*10^e lies where `int > (MaxInt64 - dec)/10^e` is known false, with the same int, dec and scale. A success return of UnmarshalText lies after a heeded read of the whole text by the type's reader or where the text was found to be exactly \"null\"; unquote hands back the decoded string only when it has content. Constant tables of powers of ten hold 10^i at index i (R5). The `pattern` a shipped schema gives a type is the constant the type's JSONSchema method publishes (R6, shared with C11-R9).",
    "C05": " R5 follows float-returning module callees (Amount.Float64 divides); the scale evaluator inlines one-line accessors. The threshold rule decides by Amount.Compare of value and threshold; an operation of package num never rescales down the result of a division or inexact multiplication (R6). Equals of amounts and percentages is Compare == 0 of both whole operands, read through locals (R4).",
    "C02": " The retained/ordinary rule (R2) is decided by evaluating one iteration of the category loop for the four kinds of category (retained or not, with or without surcharge): the Sum must change by plus or minus (Amount [+ Surcharge]), minus exactly for retained ones; each group's amount and surcharge are Percent.Of(the group's stored Base) (R5). Extensions.Equals is a two-way equality (R6); no store goes through a row member that may hold the address of a working variable such as `zero` (R7). Every taxable line is mapped into the calculation (R8); unexported working values are never lowered in precision (R9). Amount.Equals and Percentage.Equals are Compare == 0 of the two whole quantities (R6). Every totals member the calculation assigns is cleared by Totals.reset (R11, shared with C01-R2). The percentage a rate key stands for on a date is the table value in force on that date, its first day included (R12, shared with C12-R1).",
    "C01": " Also decided: a value lowered in precision with Rescale is not multiplied or divided afterwards in the same function (R4); the rounding primitive of every amount operation is math.Round (R5, shared with C05-R1). No float factor in the arithmetic path (R6, shared with C05-R5); the totals are derived in the stated order with the running total as receiver (R7, shared with C03-R7). In currency conversions a product is computed at no less than the precision it is rescaled to (R8). A line's combo joins only the rate row of its own country, percentage, surcharge and extensions (R9, shared with C02-R1/R6). A loop over document rows (preceding references included) carries nothing from one row to the next except a fold (R10, shared with C17-R6).",
    "C03": " Also decided: the base a percentage line discount/charge is taken of is, by reaching definitions, the rule-rounded line sum or last assigned from ApplyRoundingRule, and the sum handed in is itself rule-rounded; no running sum in bill/tax is the argument (instead of the receiver) of Add, which would give it the addend's precision (R4). Included-tax removal ends with a recalculation (R5, shared with C17-R3); each rate row's amount is Percent.Of(its stored Base) (R6). Payable is complete (rounding included) before Due, advances and due dates are derived from it (R7); the document's own rounding rule reaches the rule variable on every path where it is set, whatever else is set (R8). A row's presentation precision is at least the currency's (R9). Sibling document operations that recalculate a shallow copy of the receiver (ConvertInto of Invoice, Order, Delivery) detach the same members first — Totals above all, which the calculation fills in place (R10). A regime or addon normaliser creates an optional object of the document (the tax object) only where it is known to be nil, so what the document said in it — the rounding rule — reaches the calculation (R11). An advance's amount rewritten outside the calculation with Upscale(k) comes back with Downscale(k) (R12).",
    "C04": " Also decided (R7): no calculation function keeps a plain value computed by a module function from document fields across a statement whose callees rewrite those fields and then uses it (field read/write summaries over the call graph) — the first pass would see the data as typed, the repeat as normalised. Totals.round rewrites only members that Totals.reset clears (R8); an amount derived from a percentage is derived again on every pass, never conditioned on its own current value (R9). CleanExtensions never returns the map it was given (R11). Document-level normalisers take no decision on member text that the member's own normalisation rewrites afterwards (R12); the bill calculation writes no tax combo member that combo normalisers read (R13). A regime or addon function that takes a combo decides the same for an empty country and for the package's own country, which the calculation blanks afterwards — every condition and switch on tax.Combo.Country is evaluated under both values over all assignments of its other terms (R14). Addon requirements are one level deep unless tax.Addons.normalizeAddons expands them transitively (R15). schema.Object decodes into a payload obtained for this parse on every path (R16). A Normalize method assigns no member its regime and addon normalisers read after it has run them on the receiver (R17).",
    "C08": " Also decided: the schema ID of raw bytes is a member of a value decoded by encoding/json with its error checked (member-order independent; R5), and the canonical string encoder advances its segment cursor only after flushing the pending segment and flushes the tail (R6) — no text is left out of the digest input. Custom UnmarshalJSON methods hand the bytes to encoding/json and never work on the raw text (R7: string escapes are decoded) and do not re-order decoded members (R8). No validator of the envelope or of a document type writes a member of a document type (R9); the canonical form keeps every array element (R10). Validation — the Validate methods of the document types and the Validator of every regime and addon definition — writes no member of a document, including through a map handed to a helper that stores into its parameter and through a local that holds the member's map (R9). Nothing validation reaches re-orders in place (sort.*, slices.Sort*, slices.Reverse) a slice that comes out of the validated value (R9).",
    "C09": " The contents-only branch must test the caller's own key list (the parameter must not have been replaced by a filtered copy). A public-key parameter outside dsig is handed on, ranged over or kept (R7); every algorithm a private key can sign with is in the list accepted when signatures are parsed (R8). The current header may be a local or helper parameter that is the receiver's Head at every call site; helpers that hand the checked payload back with a verdict count as protected routines.",
    "C11": " Also decided: closed enumerations that JSONSchemaExtend publishes from a package-level table are enforced by the type's validator with validation.In over the same table (R4); the $regime and $addons enumerations are published from the same definition fields the registries take their lookup keys from (R5); patterns assigned in JSONSchemaExtend fall under R2 as well. Keyword values of every published file have the JSON type the draft requires (enum is an array, ...); a type's own validator does not skip a member whose type publishes a pattern; nullable members that validation does not require are given a non-nil value by every library function that allocates their struct (producer clause of R3); alternative regime codes outside the tax-country-code enumeration are canonicalised by every document's Calculate. Lookups deciding membership of a published closed list use the value as given (R6); bounds published for a property are enforced by its validation rules (R7). Arrays of objects reject null entries (R8). R2's not-skipped clause now covers the types of addon and regime packages (complements). Type-level patterns of the shipped schemas equal the constants the code publishes (R9); the shipped currency enumeration equals the definitions loaded from data/currency (R10).",
    "C12": " The table value is chosen with the combo's own extensions and every return where no value applies is an error (R4). The order validator is evaluated for first entry / earlier / same / later / undated-after-dated entries (no error, no error, error, error, no error and no nil dereference); the tax date is decided by evaluating the calculation up to the calculator with and without a value date. The document interface's value-date / issue-date getters return the document's own field of that name on every path. The rate tables cannot be written through a calculated document or at run time (R7, shared with C15). Every taxable line goes through the rate lookup (R8, shared with C02-R8).",
    "C14": " Also decided: the num text parsers evaluate 10^e only where e <= 18 is known (short-circuit or dominating guard) — no wrapped or zero power in a range check (R8); a slice of definitions built from registry lookups holds no unchecked lookup result when some caller ranges over it and reads a field of the element without a nil test (R9). Possibly-nil input pointers — elements of the envelope's signature list, pointer arguments of exported Envelope methods — are nil-tested before a dereferencing use, followed into same-package callees (R10). Elements of the documents' slices of pointers (a JSON null in an array) are nil-tested before their first dereference — range values, X[i], slices handed to functions or returned by getters, lists asserted by validation.By functions, receivers of named list types, elements appended to lists of interface values; followed into callees — in the core packages bill, pay, org, tax, head, note, schema, cbc, currency, regimes/common and the root package; regime and addon packages are not covered (R11). tax.Normalize is evaluated for a nil pointer in a non-nil interface and must return before calling anything on it (R1). Every single-value type assertion has a settled dynamic type (R12); the rate-row matching predicates dereference no nil member on any combination (R13). R11 also follows document slices into members of rule objects (&exchangeRateValidation{rates: rates}) and now covers the regime and addon packages. A map member of a module map type is written only where known non-nil (R14); R10 follows pointers across packages and into the methods they are receivers of; R11 also judges elements used in place (X[i].F). Optional pointer members of document structures are nil-tested before they are dereferenced, in everything the operations reach: field selection, value-receiver and non-nil-safe methods, `*m`, members handed to functions that dereference their parameter, locals that hold the member, and validation.By functions that dereference the asserted pointer without an unconditional Required before them; call sites vouch for unexported helpers, and the document type's own Required members for what only regime/addon validators reach (R15). A constant index into a slice member of a document is covered by a length fact (R16). No registered schema type re-enters Object.UnmarshalJSON on the same bytes unless the payload's type is tested first (R17). Function-valued members of definitions (Normalizer, Validator, Filter) are nil-tested before they are called or listed for calling (R18); the exponent of every shipped currency definition keeps 10^e within int64 (R19); R10 follows the elements of variadic pointer lists (Verify(nil)).",
    "C15": " Maps of the module's named map types (tax.Extensions, cbc.Meta) are tracked as well: a map that may have been taken from a package-level table (through a field store or a by-value struct copy) is never written or deleted from; the bulk worker is identified by its send, and wg.Done may not run inside a function evaluated for the value being sent. A document map field (tax.Combo.Ext ...) into which run-time code stores a map that may be a shared definition's own — directly, through Extensions.Merge's hand-out of its argument, or through a callee's parameter — is treated as possibly shared everywhere: every in-place write or delete through it is reported. A run-time method of a definition type writes no member of a definition type, itself or through callees (R4). Functions used as values (normalisers and validators held by the definitions) and implementations of module interface methods are in the run-time scope. No pointer member of a document is made to point into data of a registered definition. Package-level state is not written through local aliases, memoised results (sync.OnceValue(s)) or shallow copies of them (R5).",
    "C16": " The source envelope receives no call of a method that (transitively) writes fields; CorrectionDefinition.Merge reads every serialised field of both operands, so no requirement of the regime or an addon is dropped when definitions are combined; the CLI/bulk wrappers return the new, validated envelope (R6). The clone is only returned after being filled (no new identifier); Envelope.Correct hands the source header on as the last option (R7). Nothing follows an unconditional validation.Skip in a rule list (R8). Every command-line flag of cmd/gobl has a destination of its own and every option read is bound (R9). A regime or addon normaliser replaces an extension map of the document only where it is known to be nil or empty (R10).",
    "C18": " The registry lookups that decide `defined` (extension, addon, regime, currency) use the given key exactly — map index and equality only, no derived key (R5). A field leading to a reference position is not listed with a conditional skip either (Skip.When, a rule variable that is Skip on some path). The TagsIn rule returns nil only after testing every entry against its keys or after a failed type assertion of the value (R6). Nothing follows an unconditional validation.Skip in a rule list (R7); Key.Has / HasPrefix match whole `+` components. ValidateWithContext methods pass their context — which carries the regime and addons references are judged against — to every nested validation (R8, shared with C10-R5). A rule constructor that can return validation.Skip is a conditional Skip where it is listed (R1). The sets of offered keys and tags are not kept in package-level state written at run time (R9, shared with C15-R1).",
    "C20": " A by-value copy of an operand's row (`x := *row`) counts as installing its pointer members unless each is re-assigned; PaymentLine.calculate applies debit and credit each under no other condition than its own presence. The row-matching predicate Merge uses is the group identity decided under C02-R1, constants included (R7). Extensions.Equals is two-sided (R7 includes C02-R6); a payment line converts debit and credit each on its own (R8). The equalities Merge's row matching is built from (Percentage.Equals, Amount.Equals) are Compare == 0 of both whole operands (R7).",
}


def main():
    checks = []
    for pid in ALL:
        if pid not in CLAIMS:
            continue
        text, tech, ref = CLAIMS[pid]
        text += ADDENDA.get(pid, "")
        checks.append({
            "property_id": pid,
            "quick_cmd": "./check %s quick" % pid,
            "thorough_cmd": "./check %s thorough" % pid,
            "evidence_file": "evidence/%s.json" % pid,
            "replay_cmd_template": "./check %s quick  # violations listed in {path}" % pid,
            "engine": "goblcheck",
            "level_claimed": {"category": "other", "text": text, "design_ref": ref},
            "level_note": TRUST,
            "technique": tech,
        })
    na = []
    for pid in ALL:
        if pid in CLAIMS:
            continue
        na.append({"property_id": pid,
                   "reason": NOT_APPLICABLE.get(pid, "rules designed in DESIGN.md §4 but not built yet; not claimed through a weaker proxy")})
    fixes = subprocess.run(["git", "-C", "/repo", "log", "--format=%H %s"], capture_output=True, text=True).stdout.splitlines()
    fix_commits = [l.split()[0] for l in fixes if l.split(" ", 1)[1].startswith("fix:")]
    m = {
        "version": 1,
        "setup_cmd": "cd /verif/checker && GOFLAGS=-mod=mod GOPROXY=off GOSUMDB=off GOTOOLCHAIN=local GOWORK=off go build -o ../bin/goblcheck ./cmd/goblcheck",
        "hooks": {
            "guard": "verif",
            "enable": "n/a: static analysis needs no hooks; nothing in /repo is guarded by the tag",
            "baseline_off_cmd": "cd /repo && GOFLAGS=-mod=mod GOPROXY=off GOSUMDB=off go test -vet=off -count=1 -timeout 25m ./...",
            "source_commits": [],
            "add_only": True,
        },
        "engines": [{
            "name": "goblcheck",
            "path": "/verif/checker",
            "serves_properties": sorted(CLAIMS),
            "kind_free_text": "custom Go static analyser (go/packages + go/types + go/cfg): who-may-call, must-pass-through / branch-fact dataflow, field coverage, ownership, table folding, finite abstract evaluation; every property is decided on the declarations as written and, where something is reported, on a normalised view (same-package helpers inlined, shapes normalised) of the same program; re-loads /repo's working tree on every run, executes nothing from it",
        }],
        "checks": checks,
        "notes": "All checks are static: they type-check /repo's current working tree and decide rule instances; no test, harness or solver is run. Regression corpora kept with the machinery: /verif/seeded (changes that break a property; tools/run_seeds.sh expects each to be reported) and /verif/refactors (behaviour-preserving variants; tools/run_refactors.sh expects all 20 checks to stay quiet on each). Genuine defects found are repaired by 'fix:' commits in /repo (listed in known_findings.json as fixed) or listed as known findings. fix commits so far: " + ", ".join(c[:7] for c in fix_commits),
        "not_applicable": na,
    }
    with open(os.path.join(HERE, "MANIFEST.json"), "w") as f:
        json.dump(m, f, indent=1)
        f.write("\n")
    try:
        import jsonschema
        jsonschema.validate(m, json.load(open("/root/.vp/MANIFEST.schema.json")))
        print("MANIFEST.json valid:", len(checks), "checks,", len(na), "not applicable")
    except ImportError:
        print("written (jsonschema not available for validation)")


if __name__ == "__main__":
    main()
