#!/bin/bash
# usage: verify_seed.sh <name> <patch.diff> <demo_test.go> <pkgdir-relative-to-repo> <go test -run regex> [props...]
# Confirms in a scratch worktree that the seeded change compiles, passes the existing suite,
# fails its demonstration, and that the demonstration passes without it; then applies it to /repo,
# runs the given property checks, and reverts /repo.
set -u
name=$1; diff=$(readlink -f "$2"); demo=$(readlink -f "$3"); pkg=$4; run=$5; shift 5
export GOFLAGS=-mod=mod GOPROXY=off GOSUMDB=off GOTOOLCHAIN=local
wt=/tmp/wt/verify-$name
git -C /repo worktree remove --force $wt >/dev/null 2>&1
git -C /repo worktree add --detach $wt HEAD >/dev/null 2>&1 || { echo "worktree failed"; exit 2; }
res() { echo "[$name] $1"; }
cd $wt
cp "$demo" $wt/$pkg/zz_seed_demo_test.go
if go test -vet=off -count=1 -run "$run" ./$pkg/ >/tmp/wt/verify-$name.base.log 2>&1; then res "demo passes on unchanged tree: yes"; else res "demo passes on unchanged tree: NO"; tail -5 /tmp/wt/verify-$name.base.log; fi
rm $wt/$pkg/zz_seed_demo_test.go
if ! git apply "$diff" 2>/dev/null; then
  if ! patch -p1 --no-backup-if-mismatch -s < "$diff"; then res "patch does not apply"; cd /; git -C /repo worktree remove --force $wt; exit 3; fi
fi
git diff > /tmp/wt/verify-$name.applied.diff
if go build ./... >/tmp/wt/verify-$name.build.log 2>&1; then res "builds: yes"; else res "builds: NO"; fi
if go test -vet=off -count=1 ./... 2>&1 | grep -v "^ok\|no test files" | head -5 | grep -q .; then res "existing suite passes with change: NO"; else res "existing suite passes with change: yes"; fi
cp "$demo" $wt/$pkg/zz_seed_demo_test.go
if go test -vet=off -count=1 -run "$run" ./$pkg/ >/tmp/wt/verify-$name.mut.log 2>&1; then res "demo fails with change: NO (passed)"; else res "demo fails with change: yes"; fi
cd /
git -C /repo worktree remove --force $wt
# now the checks against /repo
if [ -n "$(git -C /repo status --porcelain)" ]; then res "/repo not clean, skipping checks"; exit 4; fi
git -C /repo apply /tmp/wt/verify-$name.applied.diff || { res "cannot apply to /repo"; exit 5; }
for p in "$@"; do
  out=$(cd /verif && ./check $p quick 2>&1)
  if echo "$out" | grep -q "^VIOLATION"; then res "check $p: DETECTS"; echo "$out" | grep -v "^VIOLATION\|^KNOWN" | head -4 | cut -c1-300; else res "check $p: silent"; fi
done
git -C /repo checkout -- . && git -C /repo clean -fdq
(cd /verif && git checkout -- evidence 2>/dev/null)
