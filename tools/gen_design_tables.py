#!/usr/bin/env python3
"""Regenerates the generated part of DESIGN.md (between the GENERATED markers) from the
evidence files, known_findings.json and seeded/*/meta.json."""
import os, json, glob, os, re
V='/verif'
out=[]
out.append("### A. Rules as built (from the last quick run's evidence)\n")
out.append("| Property | Rule | What is decided | Instances | Min |")
out.append("|---|---|---|---|---|")
for f in sorted(glob.glob(V+'/evidence/C??.json')):
    ev=json.load(open(f))
    for r in ev['coverage']['rules']:
        out.append("| %s | %s | %s | %d | %d |" % (ev['property_id'], r['rule'], r['doc'].replace('|','/'), r['instances'], r['min_instances']))
out.append("\n### B. Genuine defects found (known_findings.json)\n")
out.append("| Property | Rule / key | Status | Commit | What failed |")
out.append("|---|---|---|---|---|")
for k in json.load(open(V+'/known_findings.json')):
    what=k['what'].replace('|','/')
    if len(what)>260: what=what[:257]+'…'
    out.append("| %s | %s `%s` | %s | %s | %s |" % (k['property'], k['rule'], k['key'].replace('|','/'), k['status'], k.get('commit',''), what))
out.append("\n### C. Seeded changes and the checks that catch them\n")
out.append("| Seed | Breaks | Needs, in order to manifest | Caught by |")
out.append("|---|---|---|---|")
for d in sorted(glob.glob(V+'/seeded/*')):
    m=json.load(open(d+'/meta.json'))
    det=m['detected_by'].replace('|','/')
    if m.get('status'): det += " — " + m['status'][:120]
    needs=m['needs_to_manifest'].replace('|','/')
    if len(needs)>220: needs=needs[:217]+'…'
    out.append("| %s | %s | %s | %s |" % (m['seed'], m['breaks_property'], needs, det))
out.append("\n### D. Behaviour-preserving variants that must stay quiet (refactors/)\n")
out.append("| Variant | Files touched | What it reshapes (from the author's note) |")
out.append("|---|---|---|")
import re
for d in sorted(glob.glob(V+'/refactors/*')):
    name=os.path.basename(d)
    files=sorted(set(re.findall(r'^\+\+\+ b/(\S+)', open(d+'/patch.diff').read(), re.M)))
    note=''
    if os.path.exists(d+'/notes.md'):
        for line in open(d+'/notes.md'):
            line=line.strip()
            if line and not line.startswith('#'):
                note=line
                break
    note=note.replace('|','/')
    if len(note)>200: note=note[:197]+'…'
    out.append("| %s | %s | %s |" % (name, ", ".join(files), note))
txt="\n".join(out)+"\n"
p=V+'/DESIGN.md'
s=open(p).read()
a='<!-- GENERATED:BEGIN -->'; b='<!-- GENERATED:END -->'
if a in s:
    s=s[:s.index(a)+len(a)]+"\n"+txt+s[s.index(b):]
else:
    s+="\n"+a+"\n"+txt+b+"\n"
open(p,'w').write(s)
print("tables regenerated:", len(out), "lines")
