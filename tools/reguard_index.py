#!/usr/bin/env python3
"""reguard_index.py <refactor-dir>...: a variant written before the null-entry guards existed may use
elements in place (X[i].F) in an index loop without a guard; on today's tree that is a behaviour change
(it panics on a null entry where the tree skips it). Apply the variant, insert `if X[i] == nil { continue }`
at the top of each loop C14-R11 names, until the rule is quiet, and rewrite the patch."""
import os, re, subprocess, sys
env = dict(os.environ, GOFLAGS='-mod=mod', GOPROXY='off', GOSUMDB='off', GOTOOLCHAIN='local')
def sh(cmd, **kw):
    return subprocess.run(cmd, shell=True, capture_output=True, text=True, env=env, **kw)
for d in sys.argv[1:]:
    patch = os.path.join('/verif', d, 'patch.diff')
    if sh('git -C /repo apply ' + patch).returncode != 0:
        print(d, 'DOES NOT APPLY'); continue
    for round_ in range(12):
        out = sh('cd /verif && GOBLCHECK_EVIDENCE_DIR=$(mktemp -d) ./bin/goblcheck -p C14 -tier quick').stdout
        reps = re.findall(r'^(\S+?):(\d+): \[C14/C14-R11\] \S+#(.+?)~\d+: `', out, re.M)
        if not reps:
            break
        f, line, path = reps[0]
        line = int(line)
        src = open('/repo/' + f).read().split('\n')
        # the enclosing loop header: nearest `for` above with smaller indentation
        ind = len(src[line-1]) - len(src[line-1].lstrip('\t'))
        k = line - 2
        while k >= 0:
            l = src[k]
            li = len(l) - len(l.lstrip('\t'))
            if l.lstrip().startswith('for ') and l.rstrip().endswith('{') and li < ind:
                break
            k -= 1
        if k < 0:
            print(d, 'no loop found for', f, line); break
        li = len(src[k]) - len(src[k].lstrip('\t'))
        tabs = '\t' * (li + 1)
        src[k+1:k+1] = [tabs + 'if %s == nil {' % path, tabs + '\tcontinue', tabs + '}']
        open('/repo/' + f, 'w').write('\n'.join(src))
        sh('cd /repo && gofmt -w ' + f)
    b = sh('cd /repo && go build ./...')
    if b.returncode != 0:
        print(d, 'DOES NOT BUILD', b.stderr[:300])
    else:
        open(patch, 'w').write(sh('git -C /repo diff').stdout)
        print(d, 'reguarded')
    sh('git -C /repo checkout -- . && git -C /repo clean -fdq')
