#!/bin/sh
# r7.sh <Cnn> <i> <pkgdir> [props...]: verify seed i of the r6 round for property Cnn and run the given checks (default: the property's)
id=$1; i=$2; pkg=$3; shift 3
props="${@:-$id}"
cd /verif
tools/verify_seed.sh r7-$id-$i /tmp/wt/r7-$id-out/change$i.diff /tmp/wt/r7-$id-out/demo${i}_test.go $pkg "Test${id}Demo$i" $props 2>&1 | grep "^\[\|\] C[0-9][0-9]-R\|/C[0-9][0-9]-R" | cut -c1-330
