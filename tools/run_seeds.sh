#!/bin/bash
# Applies every seeded change to /repo in turn, runs the check of the property it breaks (and any extra given),
# reports DETECTS / silent, and restores /repo. Usage: tools/run_seeds.sh [seed-id ...]
cd /verif
[ -n "$(git -C /repo status --porcelain)" ] && { echo "/repo not clean"; exit 2; }
seeds="$@"; [ -z "$seeds" ] && seeds=$(ls seeded)
for s in $seeds; do
  d=seeded/$s
  prop=$(python3 -c "import json;print(json.load(open('$d/meta.json'))['breaks_property'])")
  if ! git -C /repo apply $PWD/$d/patch.diff 2>/dev/null; then
    if ! (cd /repo && patch -p1 --no-backup-if-mismatch -s < /verif/$d/patch.diff >/dev/null 2>&1); then
      echo "$s: PATCH DOES NOT APPLY"; git -C /repo checkout -- . ; git -C /repo clean -fdq; continue
    fi
    # refresh the stored patch so that it applies to the current tree
    git -C /repo diff > $d/patch.diff
  fi
  det=""
  for p in $prop $EXTRA_PROPS; do
    out=$(./check $p quick 2>&1)
    if echo "$out" | grep -q "^VIOLATION"; then det="$det $p"; fi
  done
  if [ -n "$det" ]; then echo "$s: DETECTS by$det"; else echo "$s: silent ($prop)"; fi
  git -C /repo checkout -- . ; git -C /repo clean -fdq
done
git checkout -- evidence 2>/dev/null
