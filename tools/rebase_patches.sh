#!/bin/bash
# rebase_patches.sh <dir>...: for every <dir>/patch.diff that no longer applies to /repo's HEAD,
# try a three-way apply; when it merges without conflict and the tree builds, the patch is rewritten.
export GOFLAGS=-mod=mod GOPROXY=off GOSUMDB=off GOTOOLCHAIN=local
for d in "$@"; do
  p=$d/patch.diff
  [ -f "$p" ] || continue
  if git -C /repo apply --check "$PWD/$p" 2>/dev/null; then continue; fi
  if git -C /repo apply -3 "$PWD/$p" >/dev/null 2>&1 && [ -z "$(git -C /repo diff --name-only --diff-filter=U)" ]; then
    git -C /repo reset -q
    if (cd /repo && go build ./... >/dev/null 2>&1); then
      git -C /repo diff > "$p"; echo "$d: rebased"
    else
      echo "$d: MERGED BUT DOES NOT BUILD"
    fi
  else
    echo "$d: CONFLICT"
  fi
  git -C /repo reset -q; git -C /repo checkout -- . ; git -C /repo clean -fdq
done
