#!/bin/sh
# import_refactors.sh <round> <prefix> <Cnn>...: copy /tmp/wt/<round>-<Cnn>-out/refactor<i>.{diff,md} to refactors/<prefix>-<Cnn>-<i>/
round=$1; prefix=$2; shift 2
for id in "$@"; do
  for i in 1 2 3 4; do
    src=/tmp/wt/$round-$id-out
    [ -f $src/refactor$i.diff ] || { echo "$id-$i: missing"; continue; }
    d=/verif/refactors/$prefix-$id-$i
    mkdir -p $d
    cp $src/refactor$i.diff $d/patch.diff
    [ -f $src/refactor$i.md ] && cp $src/refactor$i.md $d/notes.md
  done
done
