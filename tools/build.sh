#!/bin/sh
cd /verif/checker && GOFLAGS=-mod=mod GOPROXY=off GOSUMDB=off GOTOOLCHAIN=local GOWORK=off go build -o ../bin/goblcheck ./cmd/goblcheck
