#!/bin/sh
# run_refactors.sh [name-prefix]: every behaviour-preserving variant under
# /verif/refactors must leave all 20 checks quiet.
cd /verif || exit 2
for d in refactors/${1:-}*/; do
  ./tools/run_refactor.sh /verif/$d/patch.diff
done 2>&1 | sed 's#/verif/refactors/##; s#/patch.diff##'
