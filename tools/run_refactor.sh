#!/bin/sh
# run_refactor.sh <diff>...: apply a behaviour-preserving change to /repo, run all
# 20 quick checks (one load), report every check that does not stay OK, restore.
cd /verif || exit 2
./check C01 >/dev/null 2>&1 # make sure the binary is built
ev=$(mktemp -d)
for d in "$@"; do
  if ! git -C /repo apply --check "$d" 2>/dev/null; then echo "$d: DOES NOT APPLY"; continue; fi
  git -C /repo apply "$d"
  GOBLCHECK_EVIDENCE_DIR=$ev ./bin/goblcheck -p all -tier quick > $ev/out.txt 2>&1
  if grep -q "^VIOLATION" $ev/out.txt; then
    echo "$d: ALARM: $(grep '^VIOLATION' $ev/out.txt | sed 's/VIOLATION property=\([A-Z0-9]*\).*/\1/' | tr '\n' ' ')"
    grep -v "^KNOWN-FINDING\|^VIOLATION\|^OK " $ev/out.txt | cut -c1-330 | head -8
  else
    echo "$d: quiet ($(grep -c '^OK ' $ev/out.txt) checks OK)"
  fi
  git -C /repo checkout -- . ; git -C /repo clean -fdq
done
rm -rf "$ev"
