#!/usr/bin/env python3
"""save_seed.py <seed-id> <property> <diff> <demo> <pkgdir> <run-regex> <needs> <detected-by> [notes.md]"""
import json, os, shutil, sys
sid, prop, diff, demo, pkg, run, needs, det = sys.argv[1:9]
if det.startswith("NOT DETECTED"):
    det = "MISSED" + det[len("NOT DETECTED"):]  # the thorough tier leaves out seeds marked MISSED
d = os.path.join('/verif/seeded', sid)
os.makedirs(d, exist_ok=True)
shutil.copy(diff, os.path.join(d, 'patch.diff'))
shutil.copy(demo, os.path.join(d, 'demo_test.go.txt'))
if len(sys.argv) > 9 and os.path.exists(sys.argv[9]):
    shutil.copy(sys.argv[9], os.path.join(d, 'notes.md'))
meta = {
    "seed": sid, "breaks_property": prop,
    "needs_to_manifest": needs,
    "demonstration": {"file": "demo_test.go.txt", "place_in_package_dir": pkg, "run": "go test -vet=off -count=1 -run '%s' ./%s/" % (run, pkg)},
    "confirmed": "tools/verify_seed.sh in a scratch worktree of /repo HEAD: demo passes on the unchanged tree; with patch: go build ./... ok, existing suite all ok, demo fails",
    "detected_by": det,
}
json.dump(meta, open(os.path.join(d, 'meta.json'), 'w'), indent=1)
print("saved", d)
