#!/bin/sh
# alarm.sh <refactor-name> <prop> [width]: final report (two-view merged) of one property on a variant
cd /verif; ev=$(mktemp -d)
git -C /repo apply /verif/refactors/$1/patch.diff || exit 1
GOBLCHECK_EVIDENCE_DIR=$ev ./bin/goblcheck -p $2 2>&1 | grep -v "KNOWN\|^VIOLATION\|^OK" | cut -c1-${3:-500}
git -C /repo checkout -- .; rm -rf $ev
