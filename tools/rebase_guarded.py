#!/usr/bin/env python3
"""rebase_guarded.py <dir>...: rebuild a stored patch (a behaviour-preserving variant or a seeded
change) that was written against the tree before the null-entry fixes (base ac2e1d0) on top of
/repo's HEAD: the files it touches are taken from the old base with the patch applied, the nil
guards that HEAD has in those files are put back where C14-R11 asks for them, and the difference
to HEAD is stored as the new patch."""
import subprocess, sys, os, re, shutil
OLD='ac2e1d0'
W='/tmp/wt/rb'
env=dict(os.environ, GOFLAGS='-mod=mod', GOPROXY='off', GOSUMDB='off', GOTOOLCHAIN='local')
def run(c, **kw): return subprocess.run(c, shell=True, capture_output=True, text=True, env=env, **kw)
def guard(path, line_no, var):
    lines=open(path).read().split('\n')
    line=lines[line_no-1]
    m=re.match(r'^(\s*)for\s+.*range', line)
    if m and line.rstrip().endswith('{'):
        ind=m.group(1)
        lines[line_no:line_no]=[ind+'\tif '+var+' == nil {', ind+'\t\tcontinue', ind+'\t}']
    else:
        m=re.match(r'^(\s*)'+re.escape(var)+r'\s*:=', line)
        if not m: return False
        ind=m.group(1)
        lines[line_no:line_no]=[ind+'if '+var+' == nil {', ind+'\tcontinue', ind+'}']
    open(path,'w').write('\n'.join(lines)); return True
for d in sys.argv[1:]:
    p=os.path.abspath(d+'/patch.diff')
    if not os.path.exists(p): continue
    if run(f'git -C /repo apply --check {p}').returncode==0: continue
    run(f'git -C /repo worktree remove --force {W}'); shutil.rmtree(W, ignore_errors=True)
    r=run(f'git -C /repo worktree add --detach {W} HEAD')
    files=[l[6:].strip() for l in open(p) if l.startswith('+++ b/')]
    for f in files:
        old=run(f'git -C /repo show {OLD}:{f}')
        if old.returncode==0:
            open(f'{W}/{f}','w').write(old.stdout)
    r=run(f'git -C {W} apply --whitespace=nowarn {p}')
    if r.returncode!=0:
        print(f'{d}: DOES NOT APPLY TO OLD BASE'); continue
    # hand-made parts of the fixes
    for f,old_s,new_s in [
        ('org/notes.go','func (n *Note) SameAs(n2 *Note) bool {\n\treturn n.Key','func (n *Note) SameAs(n2 *Note) bool {\n\tif n == nil || n2 == nil {\n\t\treturn n == n2\n\t}\n\treturn n.Key'),
        ('tax/tax.go','\tif doc == nil {\n\t\treturn\n\t}\n\tif n, ok := doc.(normalizeImpl); ok {','\tif doc == nil {\n\t\treturn\n\t}\n\tif v := reflect.ValueOf(doc); v.Kind() == reflect.Ptr && v.IsNil() {\n\t\treturn // nothing to normalize, e.g. a null entry in an array\n\t}\n\tif n, ok := doc.(normalizeImpl); ok {'),
        ('tax/regime_def.go','if v.Since.IsValid() && !v.Since.Before(date.Date)','if v.Since != nil && v.Since.IsValid() && !v.Since.Before(date.Date)'),
        ('num/amount.go','func unquote(value []byte) []byte {\n\t// If the amount is quoted, strip the quotes\n\tif len(value) > 2 && value[0] == \'"\' && value[len(value)-1] == \'"\' {\n\t\tvalue = value[1 : len(value)-1]\n\t}\n\treturn value\n}\n',
         'func unquote(value []byte) []byte {\n\t// If the amount is quoted, use the contents of the string: decoding it,\n\t// as opposed to just stripping the quotes, deals with escaped characters.\n\tvar s string\n\tif err := json.Unmarshal(value, &s); err != nil {\n\t\treturn value // not a string, e.g. a plain number\n\t}\n\tif s == "" {\n\t\treturn value // nothing inside the quotes (or null)\n\t}\n\treturn []byte(s)\n}\n'),
        ('num/amount.go','import (\n\t"errors"','import (\n\t"encoding/json"\n\t"errors"'),
    ]:
        if f in files:
            s=open(f'{W}/{f}').read()
            if old_s in s: open(f'{W}/{f}','w').write(s.replace(old_s,new_s))
    ok=True
    for it in range(8):
        r=run(f'GOBLCHECK_R11_ROOTS=1 GOBLCHECK_NO_INLINE_VIEW=1 GOBLCHECK_EVIDENCE_DIR=/tmp/wt/ev /verif/bin/goblcheck -repo {W} -p C14')
        roots=sorted(set(l.split()[1:3] and tuple(l.split()[1:3]) for l in r.stderr.split('\n') if l.startswith('R11ROOT')))
        if not roots: break
        byfile={}
        for loc,var in roots:
            f,ln=loc.rsplit(':',1); byfile.setdefault(f,[]).append((int(ln),var))
        progress=False
        for f,lst in byfile.items():
            for ln,var in sorted(set(lst),reverse=True):
                if guard(f'{W}/{f}',ln,var): progress=True
        if not progress: ok=False; break
    else:
        ok=False
    b=run(f'cd {W} && gofmt -l {" ".join(files)}; go build ./...')
    if b.returncode!=0 or not ok:
        print(f'{d}: NOT REBASED (build={b.returncode} guards_ok={ok}) {b.stderr[:300]}'); continue
    diff=run(f'git -C {W} diff').stdout
    if not diff.strip():
        print(f'{d}: EMPTY DIFF'); continue
    open(p,'w').write(diff)
    print(f'{d}: rebased with guards')
run(f'git -C /repo worktree remove --force {W}')
