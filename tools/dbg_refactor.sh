#!/bin/sh
# dbg_refactor.sh <refactor-name> <prop>: show what a rule reports on the view as
# written and on the inlined view, for the rules that fail as written.
cd /verif; ev=$(mktemp -d)
git -C /repo apply /verif/refactors/$1/patch.diff || exit 1
GOBLCHECK_NO_INLINE_VIEW=1 GOBLCHECK_EVIDENCE_DIR=$ev ./bin/goblcheck -p $2 2>&1 | grep -v "KNOWN\|^VIOLATION\|^OK" | cut -c1-${3:-400} > $ev/raw.txt
rules=$(sed -n 's/.*\[\([A-Z0-9]*\/[A-Z0-9-]*\)\].*/\1/p' $ev/raw.txt | sort -u)
echo "== as written"; cat $ev/raw.txt
echo "== inlined view (same rules)"
GOBLCHECK_VIEW=inlined GOBLCHECK_EVIDENCE_DIR=$ev ./bin/goblcheck -p $2 2>&1 | grep -v "KNOWN\|^VIOLATION\|^OK" | cut -c1-${3:-400} > $ev/inl.txt
for r in $rules; do grep -F "[$r]" $ev/inl.txt; done
git -C /repo checkout -- .; rm -rf $ev
