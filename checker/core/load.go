// Package core holds the loader, obligation bookkeeping and evidence writer of
// the gobl static checker.
package core

import (
	"fmt"
	"go/ast"
	"go/token"
	"go/types"
	"os"
	"path/filepath"
	"sort"
	"strings"
	"sync"

	"golang.org/x/tools/go/callgraph"
	"golang.org/x/tools/go/callgraph/cha"
	"golang.org/x/tools/go/callgraph/vta"
	"golang.org/x/tools/go/packages"
	"golang.org/x/tools/go/ssa"
	"golang.org/x/tools/go/ssa/ssautil"
)

// ModPath is the module path of the subject.
const ModPath = "github.com/invopop/gobl"

// Program is the loaded, type-checked subject.
type Program struct {
	Repo    string
	Fset    *token.FileSet
	Pkgs    []*packages.Package          // module packages, sorted by path
	ByPath  map[string]*packages.Package // all packages incl. deps
	Overlay map[string][]byte

	ssaOnce sync.Once
	SSAProg *ssa.Program
	ssaPkgs map[*types.Package]*ssa.Package

	cgOnce sync.Once
	cg     *callgraph.Graph

	// InlineMode makes Func, Funcs, AllFuncs and DeclOf hand out the inlined
	// view of every declaration (core/inline.go): the second of the two
	// behaviour-equivalent views a rule may be discharged on.
	InlineMode bool

	// inlining (core/inline.go)
	inlineBusy int
	wasInlined map[*types.Func]bool
	dissolved  map[*packages.Package]map[*types.Func]bool
	anchors    map[*types.Func]bool
	inlined    map[*types.Func]*FuncDecl
	posOrigin  map[token.Pos]token.Pos
}

// LoadOpts configures a load.
type LoadOpts struct {
	Repo    string
	Env     []string          // extra environment (GOOS=js ...)
	Overlay map[string][]byte // absolute file name -> content
	Tests   bool
	Pattern []string
}

// Load type-checks the subject from its current working tree.
func Load(o LoadOpts) (*Program, error) {
	if o.Repo == "" {
		o.Repo = "/repo"
	}
	env := append(os.Environ(),
		"GOFLAGS=-mod=mod", "GOPROXY=off", "GOSUMDB=off", "GOTOOLCHAIN=local", "GOWORK=off")
	env = append(env, o.Env...)
	fset := token.NewFileSet()
	cfg := &packages.Config{
		Mode: packages.NeedName | packages.NeedFiles | packages.NeedCompiledGoFiles |
			packages.NeedImports | packages.NeedDeps | packages.NeedTypes |
			packages.NeedSyntax | packages.NeedTypesInfo | packages.NeedTypesSizes | packages.NeedModule,
		Dir:     o.Repo,
		Env:     env,
		Fset:    fset,
		Overlay: o.Overlay,
		Tests:   o.Tests,
	}
	pat := o.Pattern
	if len(pat) == 0 {
		pat = []string{"./..."}
	}
	pkgs, err := packages.Load(cfg, pat...)
	if err != nil {
		return nil, fmt.Errorf("load: %w", err)
	}
	p := &Program{Repo: o.Repo, Fset: fset, ByPath: map[string]*packages.Package{}, Overlay: o.Overlay}
	var errs []string
	packages.Visit(pkgs, nil, func(pk *packages.Package) {
		p.ByPath[pk.ID] = pk
		if _, ok := p.ByPath[pk.PkgPath]; !ok || pk.ID == pk.PkgPath {
			p.ByPath[pk.PkgPath] = pk
		}
		if strings.HasPrefix(pk.PkgPath, ModPath) {
			for _, e := range pk.Errors {
				errs = append(errs, e.Error())
			}
		}
	})
	if len(errs) > 0 {
		sort.Strings(errs)
		if len(errs) > 10 {
			errs = errs[:10]
		}
		return nil, fmt.Errorf("type errors in subject: %s", strings.Join(errs, "; "))
	}
	for _, pk := range pkgs {
		if strings.HasPrefix(pk.PkgPath, ModPath) {
			p.Pkgs = append(p.Pkgs, pk)
		}
	}
	sort.Slice(p.Pkgs, func(i, j int) bool { return p.Pkgs[i].ID < p.Pkgs[j].ID })
	if len(p.Pkgs) == 0 {
		return nil, fmt.Errorf("no module packages loaded from %s", o.Repo)
	}
	return p, nil
}

// ReadFile reads a file of the subject, honouring the overlay (used by the
// positive controls of the thorough tier).
func (p *Program) ReadFile(abs string) ([]byte, error) {
	if b, ok := p.Overlay[abs]; ok {
		return b, nil
	}
	return os.ReadFile(abs)
}

// Pkg returns the module package with the given path relative to the module
// root ("" for the root package).
func (p *Program) Pkg(rel string) *packages.Package {
	path := ModPath
	if rel != "" {
		path = ModPath + "/" + rel
	}
	return p.ByPath[path]
}

// Rel renders a position relative to the repository root.
func (p *Program) Rel(pos token.Pos) string {
	if !pos.IsValid() {
		return "-"
	}
	if o, ok := p.posOrigin[pos]; ok {
		pos = o
	}
	ps := p.Fset.Position(pos)
	r, err := filepath.Rel(p.Repo, ps.Filename)
	if err != nil {
		r = ps.Filename
	}
	return fmt.Sprintf("%s:%d", r, ps.Line)
}

// RelFile renders the file of pos relative to the repo.
func (p *Program) RelFile(pos token.Pos) string {
	if o, ok := p.posOrigin[pos]; ok {
		pos = o
	}
	ps := p.Fset.Position(pos)
	r, err := filepath.Rel(p.Repo, ps.Filename)
	if err != nil {
		r = ps.Filename
	}
	return r
}

// IsTestFile reports whether the position is in a _test.go file.
func (p *Program) IsTestFile(pos token.Pos) bool {
	if o, ok := p.posOrigin[pos]; ok {
		pos = o
	}
	return strings.HasSuffix(p.Fset.Position(pos).Filename, "_test.go")
}

// FuncDecl is a resolved function declaration.
type FuncDecl struct {
	Pkg  *packages.Package
	Decl *ast.FuncDecl
	Obj  *types.Func
}

// Name is a stable display name: pkg.(Recv).Name
func (f *FuncDecl) Name() string { return FuncName(f.Obj) }

// FuncName renders pkgrel.(Recv).Name for a function object.
func FuncName(fn *types.Func) string {
	if fn == nil {
		return "<nil>"
	}
	pk := ""
	if fn.Pkg() != nil {
		pk = RelPkg(fn.Pkg().Path())
	}
	sig := fn.Type().(*types.Signature)
	if r := sig.Recv(); r != nil {
		t := r.Type()
		ptr := ""
		if pt, ok := t.(*types.Pointer); ok {
			t = pt.Elem()
			ptr = "*"
		}
		tn := "?"
		if n, ok := t.(*types.Named); ok {
			tn = n.Obj().Name()
		}
		return fmt.Sprintf("%s.(%s%s).%s", pk, ptr, tn, fn.Name())
	}
	return pk + "." + fn.Name()
}

// RelPkg strips the module prefix of a package path.
func RelPkg(path string) string {
	if path == ModPath {
		return "gobl"
	}
	return strings.TrimPrefix(path, ModPath+"/")
}

// Funcs enumerates all function declarations with bodies in a package
// (non-test files).
func (p *Program) Funcs(pk *packages.Package) []*FuncDecl {
	out := p.rawFuncs(pk)
	if !p.InlineMode {
		return out
	}
	for i, d := range out {
		out[i] = p.Inlined(d)
	}
	// an unexported helper that has been inlined into its callers and is no longer
	// referenced by any (inlined) body of the package has no existence of its own
	// on this view: it is not a unit of analysis
	if p.dissolved == nil {
		p.dissolved = map[*packages.Package]map[*types.Func]bool{}
	}
	dis, ok := p.dissolved[pk]
	if !ok {
		refs := map[*types.Func]bool{}
		for _, d := range out {
			ast.Inspect(d.Decl.Body, func(n ast.Node) bool {
				if id, ok := n.(*ast.Ident); ok {
					if f, ok := pk.TypesInfo.Uses[id].(*types.Func); ok && f != d.Obj {
						refs[f] = true
					}
				}
				return true
			})
		}
		// references from package-level initialisers
		for _, file := range pk.Syntax {
			if p.IsTestFile(file.Pos()) {
				continue
			}
			for _, decl := range file.Decls {
				if gd, ok := decl.(*ast.GenDecl); ok {
					ast.Inspect(gd, func(n ast.Node) bool {
						if id, ok := n.(*ast.Ident); ok {
							if f, ok := pk.TypesInfo.Uses[id].(*types.Func); ok {
								refs[f] = true
							}
						}
						return true
					})
				}
			}
		}
		dis = map[*types.Func]bool{}
		for _, d := range out {
			if !d.Obj.Exported() && p.wasInlined[d.Obj] && !refs[d.Obj] {
				dis[d.Obj] = true
			}
		}
		p.dissolved[pk] = dis
	}
	var kept []*FuncDecl
	for _, d := range out {
		if !dis[d.Obj] {
			kept = append(kept, d)
		}
	}
	return kept
}

// RawFuncs is Funcs without inlining.
func (p *Program) RawFuncs(pk *packages.Package) []*FuncDecl { return p.rawFuncs(pk) }

func (p *Program) rawFuncs(pk *packages.Package) []*FuncDecl {
	var out []*FuncDecl
	for _, f := range pk.Syntax {
		if p.IsTestFile(f.Pos()) {
			continue
		}
		for _, d := range f.Decls {
			fd, ok := d.(*ast.FuncDecl)
			if !ok || fd.Body == nil {
				continue
			}
			obj, _ := pk.TypesInfo.Defs[fd.Name].(*types.Func)
			if obj == nil {
				continue
			}
			out = append(out, &FuncDecl{Pkg: pk, Decl: fd, Obj: obj})
		}
	}
	return out
}

// AllFuncs enumerates function declarations over all module packages.
func (p *Program) AllFuncs() []*FuncDecl {
	var out []*FuncDecl
	for _, pk := range p.Pkgs {
		out = append(out, p.Funcs(pk)...)
	}
	return out
}

// Func finds a function or method by package (relative), receiver type name
// ("" for functions) and name. It returns nil if it does not exist.
func (p *Program) Func(rel, recv, name string) *FuncDecl {
	fd := p.RawFunc(rel, recv, name)
	if p.InlineMode {
		return p.Inlined(fd)
	}
	return fd
}

// RawFunc is Func without inlining: the declaration as written.
func (p *Program) RawFunc(rel, recv, name string) *FuncDecl {
	return p.rawFunc(rel, recv, name)
}

// DissolvedNames lists the display names of the helpers that have no existence
// of their own on the inlined view (see Funcs).
func (p *Program) DissolvedNames() []string {
	var out []string
	for _, m := range p.dissolved {
		for f := range m {
			out = append(out, FuncName(f))
		}
	}
	sort.Strings(out)
	return out
}

// Anchor marks a function as analysed as a unit (never inlined into callers).
func (p *Program) Anchor(fn *types.Func) {
	if p.anchors == nil {
		p.anchors = map[*types.Func]bool{}
	}
	p.anchors[fn] = true
}

func (p *Program) rawFunc(rel, recv, name string) *FuncDecl {
	pk := p.Pkg(rel)
	if pk == nil {
		return nil
	}
	for _, f := range p.rawFuncs(pk) {
		if f.Obj.Name() != name {
			continue
		}
		r := RecvNamed(f.Obj)
		if recv == "" && r == nil {
			return f
		}
		if r != nil && r.Obj().Name() == recv {
			return f
		}
	}
	return nil
}

// RecvNamed returns the named receiver type of a method (pointer stripped).
func RecvNamed(fn *types.Func) *types.Named {
	sig, ok := fn.Type().(*types.Signature)
	if !ok || sig.Recv() == nil {
		return nil
	}
	t := sig.Recv().Type()
	if pt, ok := t.(*types.Pointer); ok {
		t = pt.Elem()
	}
	n, _ := t.(*types.Named)
	return n
}

// DeclOf finds the declaration of a function object inside the module.
func (p *Program) DeclOf(fn *types.Func) *FuncDecl {
	fd := p.RawDeclOf(fn)
	if p.InlineMode && fd != nil {
		return p.Inlined(fd)
	}
	return fd
}

// RawDeclOf is DeclOf without inlining.
func (p *Program) RawDeclOf(fn *types.Func) *FuncDecl {
	if fn == nil || fn.Pkg() == nil {
		return nil
	}
	pk := p.ByPath[fn.Pkg().Path()]
	if pk == nil || pk.TypesInfo == nil {
		return nil
	}
	for _, f := range pk.Syntax {
		if f.Pos() <= fn.Pos() && fn.Pos() <= f.End() {
			for _, d := range f.Decls {
				if fd, ok := d.(*ast.FuncDecl); ok && fd.Name.Pos() == fn.Pos() && fd.Body != nil {
					return &FuncDecl{Pkg: pk, Decl: fd, Obj: fn}
				}
			}
		}
	}
	return nil
}

// Named looks up a named type in a module package.
func (p *Program) Named(rel, name string) *types.Named {
	pk := p.Pkg(rel)
	if pk == nil || pk.Types == nil {
		return nil
	}
	o := pk.Types.Scope().Lookup(name)
	if o == nil {
		return nil
	}
	n, _ := o.Type().(*types.Named)
	return n
}

// SSA builds (once) the SSA form of the whole program.
func (p *Program) SSA() *ssa.Program {
	p.ssaOnce.Do(func() {
		var roots []*packages.Package
		for _, pk := range p.Pkgs {
			roots = append(roots, pk)
		}
		prog, _ := ssautil.AllPackages(roots, ssa.InstantiateGenerics)
		prog.Build()
		p.SSAProg = prog
	})
	return p.SSAProg
}

// SSAFunc returns the SSA function of a declared function.
func (p *Program) SSAFunc(fn *types.Func) *ssa.Function {
	return p.SSA().FuncValue(fn)
}

// CallGraph builds (once) the VTA call graph.
func (p *Program) CallGraph() *callgraph.Graph {
	p.cgOnce.Do(func() {
		prog := p.SSA()
		fns := ssautil.AllFunctions(prog)
		p.cg = vta.CallGraph(fns, cha.CallGraph(prog))
	})
	return p.cg
}

// InModule reports whether a types package belongs to the subject module.
func InModule(pk *types.Package) bool {
	return pk != nil && strings.HasPrefix(pk.Path(), ModPath)
}
