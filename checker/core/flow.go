package core

import (
	"fmt"
	"os"
	"go/ast"
	"go/token"
	"go/types"

	"golang.org/x/tools/go/cfg"
	"golang.org/x/tools/go/types/typeutil"
)

// Flow is a per-function must-dataflow over the go/cfg graph: which branch
// conditions are known to have evaluated to which value (most recent
// evaluation) and which call sites have been executed on every path to a node.
type Flow struct {
	Info  *types.Info
	Body  *ast.BlockStmt
	CFG   *cfg.CFG
	leafs map[ast.Expr]bool // condition leaves (if/for/tagless switch)
	conds map[ast.Expr]bool // whole condition expressions as they appear as CFG nodes
	in    []*flowState      // per block
	loc   map[ast.Node]nodeLoc
}

type nodeLoc struct {
	b   *cfg.Block
	idx int
}

type flowState struct {
	top   bool
	conds map[ast.Expr]bool
	calls map[*ast.CallExpr]bool
	asgs  map[*ast.AssignStmt]bool
}

func (s *flowState) clone() *flowState {
	n := &flowState{conds: map[ast.Expr]bool{}, calls: map[*ast.CallExpr]bool{}, asgs: map[*ast.AssignStmt]bool{}}
	for k, v := range s.conds {
		n.conds[k] = v
	}
	for k := range s.calls {
		n.calls[k] = true
	}
	for k := range s.asgs {
		n.asgs[k] = true
	}
	return n
}

// meet intersects o into s; returns true when s changed.
func (s *flowState) meet(o *flowState) bool {
	if o.top {
		return false
	}
	if s.top {
		s.top = false
		s.conds = map[ast.Expr]bool{}
		s.calls = map[*ast.CallExpr]bool{}
		s.asgs = map[*ast.AssignStmt]bool{}
		for k, v := range o.conds {
			s.conds[k] = v
		}
		for k := range o.calls {
			s.calls[k] = true
		}
		for k := range o.asgs {
			s.asgs[k] = true
		}
		return true
	}
	ch := false
	for k, v := range s.conds {
		if ov, ok := o.conds[k]; !ok || ov != v {
			delete(s.conds, k)
			ch = true
		}
	}
	for k := range s.calls {
		if !o.calls[k] {
			delete(s.calls, k)
			ch = true
		}
	}
	for k := range s.asgs {
		if !o.asgs[k] {
			delete(s.asgs, k)
			ch = true
		}
	}
	return ch
}

// NoReturn reports whether a call never returns (panic, os.Exit, log.Fatal*).
func NoReturn(info *types.Info, call *ast.CallExpr) bool {
	if id, ok := call.Fun.(*ast.Ident); ok && id.Name == "panic" {
		if _, isB := info.Uses[id].(*types.Builtin); isB {
			return true
		}
	}
	fn, _ := typeutil.Callee(info, call).(*types.Func)
	if fn == nil || fn.Pkg() == nil {
		return false
	}
	switch fn.Pkg().Path() + "." + fn.Name() {
	case "os.Exit", "log.Fatal", "log.Fatalf", "log.Fatalln", "log.Panic", "log.Panicf":
		return true
	}
	return false
}

// condLeaves decomposes a condition into its short-circuit leaves.
func condLeaves(e ast.Expr, out map[ast.Expr]bool) {
	switch x := e.(type) {
	case *ast.ParenExpr:
		condLeaves(x.X, out)
		return
	case *ast.UnaryExpr:
		if x.Op == token.NOT {
			condLeaves(x.X, out)
			return
		}
	case *ast.BinaryExpr:
		if x.Op == token.LAND || x.Op == token.LOR {
			condLeaves(x.X, out)
			condLeaves(x.Y, out)
			return
		}
	}
	out[e] = true
}

// deriveCond records what the value of a whole condition implies for its
// short-circuit leaves (go/cfg keeps the condition as one node).
func deriveCond(e ast.Expr, val bool, out map[ast.Expr]bool) {
	switch x := e.(type) {
	case *ast.ParenExpr:
		deriveCond(x.X, val, out)
		return
	case *ast.UnaryExpr:
		if x.Op == token.NOT {
			deriveCond(x.X, !val, out)
			return
		}
	case *ast.BinaryExpr:
		if x.Op == token.LAND {
			if val {
				deriveCond(x.X, true, out)
				deriveCond(x.Y, true, out)
			}
			return
		}
		if x.Op == token.LOR {
			if !val {
				deriveCond(x.X, false, out)
				deriveCond(x.Y, false, out)
			}
			return
		}
	}
	out[e] = val
}

// NewFlow builds the analysis for a function body.
func NewFlow(info *types.Info, body *ast.BlockStmt) *Flow {
	f := &Flow{Info: info, Body: body, leafs: map[ast.Expr]bool{}, conds: map[ast.Expr]bool{}, loc: map[ast.Node]nodeLoc{}}
	ast.Inspect(body, func(n ast.Node) bool {
		switch s := n.(type) {
		case *ast.FuncLit:
			return false
		case *ast.IfStmt:
			condLeaves(s.Cond, f.leafs)
			f.conds[s.Cond] = true
		case *ast.ForStmt:
			if s.Cond != nil {
				condLeaves(s.Cond, f.leafs)
				f.conds[s.Cond] = true
			}
		case *ast.SwitchStmt:
			if s.Tag == nil {
				for _, c := range s.Body.List {
					for _, e := range c.(*ast.CaseClause).List {
						condLeaves(e, f.leafs)
						f.conds[e] = true
					}
				}
			}
		}
		return true
	})
	f.CFG = cfg.New(body, func(c *ast.CallExpr) bool { return !NoReturn(info, c) })
	n := len(f.CFG.Blocks)
	f.in = make([]*flowState, n)
	for i := range f.in {
		f.in[i] = &flowState{top: true}
	}
	f.in[0] = &flowState{conds: map[ast.Expr]bool{}, calls: map[*ast.CallExpr]bool{}, asgs: map[*ast.AssignStmt]bool{}}
	for _, b := range f.CFG.Blocks {
		for i, nd := range b.Nodes {
			f.loc[nd] = nodeLoc{b, i}
		}
	}
	work := []*cfg.Block{f.CFG.Blocks[0]}
	inq := map[*cfg.Block]bool{f.CFG.Blocks[0]: true}
	for len(work) > 0 {
		b := work[0]
		work = work[1:]
		inq[b] = false
		st := f.in[b.Index]
		if st.top {
			continue
		}
		out := st.clone()
		for _, nd := range b.Nodes {
			for _, c := range callsInNode(nd) {
				out.calls[c] = true
			}
			if as, ok := nd.(*ast.AssignStmt); ok {
				out.asgs[as] = true
			}
		}
		for si, s := range b.Succs {
			o := out
			if len(b.Succs) == 2 && len(b.Nodes) > 0 {
				if e, ok := b.Nodes[len(b.Nodes)-1].(ast.Expr); ok && f.conds[e] {
					o = out.clone()
					kill := map[ast.Expr]bool{}
					condLeaves(e, kill)
					for l := range kill {
						delete(o.conds, l)
					}
					deriveCond(e, si == 0, o.conds)
				}
			}
			if f.in[s.Index].meet(o) && !inq[s] {
				work = append(work, s)
				inq[s] = true
			} else if f.in[s.Index].top {
				// unreachable predecessor state was top; nothing
			}
		}
	}
	return f
}

func callsInNode(n ast.Node) []*ast.CallExpr {
	var out []*ast.CallExpr
	// Range statements appear as their key/value/X parts in go/cfg, not whole.
	ast.Inspect(n, func(m ast.Node) bool {
		switch x := m.(type) {
		case *ast.FuncLit:
			return false
		case *ast.CallExpr:
			out = append(out, x)
		}
		return true
	})
	return out
}

// Located reports whether the node is a CFG node of this function.
func (f *Flow) Located(n ast.Node) bool { _, ok := f.loc[n]; return ok }

// Reachable reports whether the CFG node is reachable from the entry.
func (f *Flow) Reachable(n ast.Node) bool {
	l, ok := f.loc[n]
	return ok && !f.in[l.b.Index].top
}

// CondAt returns the known value of a condition leaf at a CFG node.
func (f *Flow) CondAt(n ast.Node, leaf ast.Expr) (val, known bool) {
	l, ok := f.loc[n]
	if !ok {
		return false, false
	}
	st := f.in[l.b.Index]
	if st.top {
		return false, false
	}
	v, ok := st.conds[leaf]
	return v, ok
}

// CondsAt returns every condition fact holding at a CFG node.
func (f *Flow) CondsAt(n ast.Node) map[ast.Expr]bool {
	l, ok := f.loc[n]
	if !ok {
		return nil
	}
	st := f.in[l.b.Index]
	if st.top {
		return nil
	}
	return st.conds
}

// PassedAt returns the call sites executed on every path before the CFG node.
func (f *Flow) PassedAt(n ast.Node) map[*ast.CallExpr]bool {
	l, ok := f.loc[n]
	if !ok {
		return nil
	}
	st := f.in[l.b.Index]
	if st.top {
		return nil
	}
	out := map[*ast.CallExpr]bool{}
	for k := range st.calls {
		out[k] = true
	}
	for i := 0; i < l.idx; i++ {
		for _, c := range callsInNode(l.b.Nodes[i]) {
			out[c] = true
		}
	}
	return out
}

// Returns lists the return statements of the body (not of nested closures),
// including the implicit one materialised by go/cfg at the closing brace.
func (f *Flow) Returns() []*ast.ReturnStmt {
	var out []*ast.ReturnStmt
	for _, b := range f.CFG.Blocks {
		for _, nd := range b.Nodes {
			if r, ok := nd.(*ast.ReturnStmt); ok {
				out = append(out, r)
			}
		}
	}
	return out
}

// EnclosingNode finds the CFG node that contains the given AST node.
func (f *Flow) EnclosingNode(n ast.Node) ast.Node {
	for nd := range f.loc {
		if nd.Pos() <= n.Pos() && n.End() <= nd.End() {
			// pick the smallest enclosing
			best := nd
			for nd2 := range f.loc {
				if nd2.Pos() <= n.Pos() && n.End() <= nd2.End() && (nd2.End()-nd2.Pos()) < (best.End()-best.Pos()) {
					best = nd2
				}
			}
			return best
		}
	}
	return nil
}

// Guard describes how a condition leaf tests something.
type Guard struct {
	Leaf ast.Expr
	// Call is the call whose boolean result (Kind "bool") or error result
	// (Kind "err") the leaf tests; nil for other leaves.
	Call *ast.CallExpr
	Kind string // "bool" | "err" | "nil" | "len" | "other"
	// Neg: for "err"/"nil": leaf is `x != nil` (true means non-nil);
	// for "len": operator and constant are in Op/Const.
	Neg   bool
	X     ast.Expr // tested expression for "nil"/"len"
	Op    token.Token
	Const int64
}

// GuardOf classifies a condition leaf. defs resolves `err` style idents to the
// call that last assigned them (see ErrDefs).
func GuardOf(info *types.Info, leaf ast.Expr, defs map[ast.Expr]*ast.CallExpr) Guard {
	g := Guard{Leaf: leaf, Kind: "other"}
	e := ast.Unparen(leaf)
	if c, ok := e.(*ast.CallExpr); ok {
		if isLen, _ := isLenCall(info, c); !isLen {
			g.Kind, g.Call = "bool", c
			return g
		}
	}
	be, ok := e.(*ast.BinaryExpr)
	if !ok {
		return g
	}
	x, y := ast.Unparen(be.X), ast.Unparen(be.Y)
	if isNil(info, x) {
		x, y = y, x
	}
	if isNil(info, y) && (be.Op == token.EQL || be.Op == token.NEQ) {
		g.Neg = be.Op == token.NEQ
		g.X = x
		g.Kind = "nil"
		if c := defs[leaf]; c != nil {
			g.Kind, g.Call = "err", c
		}
		if c, ok := x.(*ast.CallExpr); ok {
			g.Call = c
		}
		return g
	}
	// len(x) OP const
	if c, ok := x.(*ast.CallExpr); ok {
		if isLen, arg := isLenCall(info, c); isLen {
			if tv, ok := info.Types[y]; ok && tv.Value != nil {
				if v, ok := constInt(tv); ok {
					g.Kind, g.X, g.Op, g.Const = "len", arg, be.Op, v
				}
			}
		}
	}
	return g
}

func constInt(tv types.TypeAndValue) (int64, bool) {
	if tv.Value == nil {
		return 0, false
	}
	s := tv.Value.ExactString()
	var v int64
	neg := false
	if len(s) == 0 {
		return 0, false
	}
	for i, ch := range s {
		if i == 0 && ch == '-' {
			neg = true
			continue
		}
		if ch < '0' || ch > '9' {
			return 0, false
		}
		v = v*10 + int64(ch-'0')
	}
	if neg {
		v = -v
	}
	return v, true
}

func isLenCall(info *types.Info, c *ast.CallExpr) (bool, ast.Expr) {
	id, ok := c.Fun.(*ast.Ident)
	if !ok || id.Name != "len" || len(c.Args) != 1 {
		return false, nil
	}
	if _, ok := info.Uses[id].(*types.Builtin); !ok {
		return false, nil
	}
	return true, c.Args[0]
}

func isNil(info *types.Info, e ast.Expr) bool {
	id, ok := e.(*ast.Ident)
	if !ok {
		return false
	}
	_, ok = info.Uses[id].(*types.Nil)
	return ok
}

// IsNil reports whether e is the predeclared nil.
func IsNil(info *types.Info, e ast.Expr) bool { return isNil(info, ast.Unparen(e)) }

// ErrDefs maps each local variable that is assigned exactly the (last) result
// of a call to that call, when every assignment to the variable in the
// function is such a call result assignment immediately tested (the repo's
// `if err := f(); err != nil` and `x, err := f(); if err != nil` idioms). The
// map is keyed by (variable, position): because `err` is re-assigned many
// times, the lookup is per test site.
func ErrDefs(info *types.Info, body *ast.BlockStmt) map[ast.Expr]*ast.CallExpr {
	out := map[ast.Expr]*ast.CallExpr{}
	// cond leaf expr -> call
	assignCall := func(s ast.Stmt, v *types.Var) *ast.CallExpr {
		as, ok := s.(*ast.AssignStmt)
		if !ok || len(as.Rhs) != 1 {
			return nil
		}
		call, ok := ast.Unparen(as.Rhs[0]).(*ast.CallExpr)
		if !ok {
			return nil
		}
		for _, l := range as.Lhs {
			if id, ok := l.(*ast.Ident); ok {
				var o types.Object = info.Defs[id]
				if o == nil {
					o = info.Uses[id]
				}
				if o == v {
					return call
				}
			}
		}
		return nil
	}
	var visitList func(list []ast.Stmt)
	testVar := func(cond ast.Expr) []struct {
		leaf ast.Expr
		v    *types.Var
	} {
		leaves := map[ast.Expr]bool{}
		condLeaves(cond, leaves)
		var res []struct {
			leaf ast.Expr
			v    *types.Var
		}
		for l := range leaves {
			be, ok := ast.Unparen(l).(*ast.BinaryExpr)
			if !ok || (be.Op != token.EQL && be.Op != token.NEQ) {
				continue
			}
			x, y := ast.Unparen(be.X), ast.Unparen(be.Y)
			if isNil(info, x) {
				x, y = y, x
			}
			if !isNil(info, y) {
				continue
			}
			if id, ok := x.(*ast.Ident); ok {
				if v, ok := info.Uses[id].(*types.Var); ok {
					res = append(res, struct {
						leaf ast.Expr
						v    *types.Var
					}{l, v})
				}
			}
		}
		return res
	}
	visitList = func(list []ast.Stmt) {
		for i, s := range list {
			if is, ok := s.(*ast.IfStmt); ok {
				for _, t := range testVar(is.Cond) {
					if is.Init != nil {
						if c := assignCall(is.Init, t.v); c != nil {
							out[t.leaf] = c
							continue
						}
					}
					if i > 0 {
						if c := assignCall(list[i-1], t.v); c != nil {
							out[t.leaf] = c
						}
					}
				}
			}
		}
	}
	ast.Inspect(body, func(n ast.Node) bool {
		switch b := n.(type) {
		case *ast.BlockStmt:
			visitList(b.List)
		case *ast.CaseClause:
			visitList(b.Body)
		case *ast.CommClause:
			visitList(b.Body)
		}
		return true
	})
	return out
}

// Callee resolves the static callee of a call (function or method), or nil.
func Callee(info *types.Info, call *ast.CallExpr) *types.Func {
	fn, _ := typeutil.Callee(info, call).(*types.Func)
	return fn
}

// RootVar returns the variable at the root of a selector/index/star/paren
// chain (e.g. e for e.Head.Digest), or nil.
func RootVar(info *types.Info, e ast.Expr) *types.Var {
	for {
		switch x := e.(type) {
		case *ast.ParenExpr:
			e = x.X
		case *ast.StarExpr:
			e = x.X
		case *ast.UnaryExpr:
			if x.Op != token.AND {
				return nil
			}
			e = x.X
		case *ast.SelectorExpr:
			if sel := info.Selections[x]; sel == nil {
				// qualified identifier pkg.Name
				v, _ := info.Uses[x.Sel].(*types.Var)
				return v
			}
			e = x.X
		case *ast.IndexExpr:
			e = x.X
		case *ast.SliceExpr:
			e = x.X
		case *ast.Ident:
			v, _ := info.Uses[x].(*types.Var)
			if v == nil {
				v, _ = info.Defs[x].(*types.Var)
			}
			return v
		default:
			return nil
		}
	}
}

// FieldOf returns the struct field object selected by e (a selector
// expression denoting a field), or nil.
func FieldOf(info *types.Info, e ast.Expr) *types.Var {
	e = ast.Unparen(e)
	if u, ok := e.(*ast.UnaryExpr); ok && u.Op == token.AND {
		e = ast.Unparen(u.X)
	}
	se, ok := e.(*ast.SelectorExpr)
	if !ok {
		return nil
	}
	sel := info.Selections[se]
	if sel == nil || sel.Kind() != types.FieldVal {
		return nil
	}
	v, _ := sel.Obj().(*types.Var)
	return v
}

// CanReach reports whether control can flow from CFG node a (after it) to CFG
// node b.
func (f *Flow) CanReach(a, b ast.Node) bool {
	la, ok1 := f.loc[a]
	lb, ok2 := f.loc[b]
	if !ok1 || !ok2 {
		return false
	}
	if la.b == lb.b && la.idx < lb.idx {
		return true
	}
	seen := map[*cfg.Block]bool{}
	work := append([]*cfg.Block{}, la.b.Succs...)
	for len(work) > 0 {
		x := work[len(work)-1]
		work = work[:len(work)-1]
		if seen[x] {
			continue
		}
		seen[x] = true
		if x == lb.b {
			return true
		}
		work = append(work, x.Succs...)
	}
	return false
}

// AssignsPassedAt returns the assignment statements executed on every path
// before the CFG node.
func (f *Flow) AssignsPassedAt(n ast.Node) map[*ast.AssignStmt]bool {
	l, ok := f.loc[n]
	if !ok {
		return nil
	}
	st := f.in[l.b.Index]
	if st.top {
		return nil
	}
	out := map[*ast.AssignStmt]bool{}
	for k := range st.asgs {
		out[k] = true
	}
	for i := 0; i < l.idx; i++ {
		if as, ok := l.b.Nodes[i].(*ast.AssignStmt); ok {
			out[as] = true
		}
	}
	return out
}

// EveryPathPasses reports whether every path from the entry to CFG node n goes
// through some CFG node satisfying pred (nodes of n's own block before n count).
func (f *Flow) EveryPathPasses(n ast.Node, pred func(ast.Node) bool) bool {
	l, ok := f.loc[n]
	if !ok {
		return false
	}
	for i := 0; i < l.idx; i++ {
		if pred(l.b.Nodes[i]) {
			return true
		}
	}
	// search backwards-free: forward reachability from entry avoiding blocks that satisfy pred
	blocked := map[*cfg.Block]bool{}
	for _, b := range f.CFG.Blocks {
		if b == l.b {
			continue
		}
		for _, nd := range b.Nodes {
			if pred(nd) {
				blocked[b] = true
			}
		}
	}
	entry := f.CFG.Blocks[0]
	if blocked[entry] {
		return true
	}
	seen := map[*cfg.Block]bool{}
	work := []*cfg.Block{entry}
	for len(work) > 0 {
		b := work[len(work)-1]
		work = work[:len(work)-1]
		if seen[b] || blocked[b] {
			continue
		}
		seen[b] = true
		if b == l.b {
			if os.Getenv("GOBLCHECK_DEBUG_PATH") != "" {
				for sb := range seen {
					fmt.Fprintf(os.Stderr, "  reached block %d %s nodes=%d\n", sb.Index, sb.String(), len(sb.Nodes))
				}
			}
			return false
		}
		work = append(work, b.Succs...)
	}
	return true
}

// DeriveCond exposes deriveCond: the leaves implied by e having value val.
func DeriveCond(e ast.Expr, val bool, out map[ast.Expr]bool) { deriveCond(e, val, out) }
