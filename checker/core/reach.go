package core

import (
	"go/ast"
	"go/types"
	"sync"
)

var (
	refMu    sync.Mutex
	refCache = map[refKey]map[*types.Func][]*types.Func{}
)

type refKey struct {
	p      *Program
	inline bool
}

// FuncRefs returns every function object referenced (called or used as a
// value) in the body of fn, in source order, de-duplicated. Closures count as
// part of their enclosing function. Only module functions have bodies; for
// others the result is nil.
func (p *Program) FuncRefs(fn *types.Func) []*types.Func {
	refMu.Lock()
	defer refMu.Unlock()
	k := refKey{p, p.InlineMode}
	m := refCache[k]
	if m == nil {
		m = map[*types.Func][]*types.Func{}
		refCache[k] = m
	}
	if r, ok := m[fn]; ok {
		return r
	}
	var out []*types.Func
	fd := p.DeclOf(fn)
	if fd != nil {
		seen := map[*types.Func]bool{}
		ast.Inspect(fd.Decl.Body, func(n ast.Node) bool {
			id, ok := n.(*ast.Ident)
			if !ok {
				return true
			}
			if f, ok := fd.Pkg.TypesInfo.Uses[id].(*types.Func); ok {
				f = f.Origin()
				if !seen[f] {
					seen[f] = true
					out = append(out, f)
				}
			}
			return true
		})
	}
	m[fn] = out
	return out
}

// Reaches reports whether fn statically reaches a function satisfying pred
// through at most depth module-internal static references; it returns the path.
// Interface method calls are resolved to the interface method object only (not
// to implementations): use the VTA call graph when dynamic dispatch matters.
func (p *Program) Reaches(fn *types.Func, pred func(*types.Func) bool, depth int) []*types.Func {
	seen := map[*types.Func]bool{}
	var rec func(f *types.Func, d int) []*types.Func
	rec = func(f *types.Func, d int) []*types.Func {
		if pred(f) {
			return []*types.Func{f}
		}
		if d == 0 || seen[f] {
			return nil
		}
		seen[f] = true
		for _, g := range p.FuncRefs(f) {
			if r := rec(g, d-1); r != nil {
				return append([]*types.Func{f}, r...)
			}
		}
		return nil
	}
	return rec(fn, depth)
}

// PathString renders a call path.
func PathString(path []*types.Func) string {
	s := ""
	for i, f := range path {
		if i > 0 {
			s += " → "
		}
		s += FuncName(f)
	}
	return s
}

// IsFunc reports whether fn is the function/method pkgpath.(recv).name
// (recv "" for plain functions).
func IsFunc(fn *types.Func, pkgPath, recv, name string) bool {
	if fn == nil || fn.Pkg() == nil || fn.Pkg().Path() != pkgPath || fn.Name() != name {
		return false
	}
	r := RecvNamed(fn)
	if recv == "" {
		return r == nil
	}
	return r != nil && r.Obj().Name() == recv
}
