package core

import (
	"fmt"
	"go/ast"
	"go/token"
	"go/types"
)

// FuncFlow bundles the flow analysis of a declared function.
type FuncFlow struct {
	FD   *FuncDecl
	Info *types.Info
	Flow *Flow
	Errs map[ast.Expr]*ast.CallExpr // condition leaf -> call whose error it tests
}

// NewFuncFlow analyses a function.
func NewFuncFlow(fd *FuncDecl) *FuncFlow {
	info := fd.Pkg.TypesInfo
	return &FuncFlow{FD: fd, Info: info, Flow: NewFlow(info, fd.Decl.Body), Errs: ErrDefs(info, fd.Decl.Body)}
}

// ErrLeafOf returns the condition leaf that tests the error of call, if any,
// and whether the leaf is `err != nil` (neg) or `err == nil`.
func (ff *FuncFlow) ErrLeafOf(call *ast.CallExpr) (leaf ast.Expr, neg bool) {
	for l, c := range ff.Errs {
		if c == call {
			be := ast.Unparen(l).(*ast.BinaryExpr)
			return l, be.Op == token.NEQ
		}
	}
	return nil, false
}

// ErrNilAt reports whether at CFG node n the error of call is known to be nil
// (1), known to be non-nil (-1) or unknown (0).
func (ff *FuncFlow) ErrNilAt(n ast.Node, call *ast.CallExpr) int {
	leaf, neg := ff.ErrLeafOf(call)
	if leaf == nil {
		return 0
	}
	v, known := ff.Flow.CondAt(n, leaf)
	if !known {
		return 0
	}
	if v == neg { // (err != nil)==true or (err == nil)==false
		return -1
	}
	return 1
}

// ReturnKind classifies the error position of a return statement.
type ReturnKind int

// Return kinds.
const (
	RetUnknown  ReturnKind = iota
	RetSuccess             // literal nil error
	RetFailure             // certainly non-nil error
	RetTransfer            // the error of another call, passed through (possibly wrapped)
)

// ErrResultIndex returns the index of the error result in the signature, or -1.
func ErrResultIndex(sig *types.Signature) int {
	rs := sig.Results()
	for i := rs.Len() - 1; i >= 0; i-- {
		if isErrorType(rs.At(i).Type()) {
			return i
		}
	}
	return -1
}

func isErrorType(t types.Type) bool {
	return types.Identical(t, types.Universe.Lookup("error").Type())
}

// IsErrorType reports whether t is the predeclared error type.
func IsErrorType(t types.Type) bool { return isErrorType(t) }

// ClassifyReturn classifies the error-position expression of ret in ff.
// For RetTransfer it returns the innermost call whose error is passed through.
func (ff *FuncFlow) ClassifyReturn(p *Program, ret *ast.ReturnStmt) (ReturnKind, *ast.CallExpr) {
	sig := ff.FD.Obj.Type().(*types.Signature)
	ei := ErrResultIndex(sig)
	if ei < 0 {
		return RetUnknown, nil
	}
	if len(ret.Results) == 0 {
		return RetUnknown, nil // named results / implicit: not used on the paths concerned
	}
	var e ast.Expr
	if len(ret.Results) == sig.Results().Len() {
		e = ret.Results[ei]
	} else if len(ret.Results) == 1 {
		// return f() with multiple results
		if c, ok := ast.Unparen(ret.Results[0]).(*ast.CallExpr); ok {
			return RetTransfer, c
		}
		return RetUnknown, nil
	}
	return ff.classifyErrExpr(p, ret, e, 0)
}

func (ff *FuncFlow) classifyErrExpr(p *Program, at ast.Node, e ast.Expr, depth int) (ReturnKind, *ast.CallExpr) {
	e = ast.Unparen(e)
	if isNil(ff.Info, e) {
		return RetSuccess, nil
	}
	if t := ff.Info.TypeOf(e); t != nil {
		if _, isIface := t.Underlying().(*types.Interface); !isIface {
			// a value of concrete type converted to the error interface is a
			// non-nil interface value, whatever the pointer inside
			return RetFailure, nil
		}
	}
	switch x := e.(type) {
	case *ast.CallExpr:
		fn := Callee(ff.Info, x)
		if fn == nil {
			return RetUnknown, nil
		}
		if IsErrorConstructor(p, fn) {
			return RetFailure, nil
		}
		// transparent wrapper: nil iff its error argument is nil
		if ai := TransparentWrapperArg(p, fn); ai >= 0 && ai < len(x.Args) {
			if depth < 3 {
				k, c := ff.classifyErrExpr(p, at, x.Args[ai], depth+1)
				if k != RetUnknown {
					return k, c
				}
			}
			return RetUnknown, nil
		}
		return RetTransfer, x
	case *ast.Ident:
		// variable known nil / non-nil here? An error variable is typically re-used: only the
		// textually latest test of it that holds here, with no assignment to the variable in
		// between, speaks about its current value.
		var best ast.Expr
		bestVal, bestNeg := false, false
		for leaf, v := range ff.Flow.CondsAt(at) {
			g := GuardOf(ff.Info, leaf, ff.Errs)
			if (g.Kind == "nil" || g.Kind == "err") && g.X != nil {
				if id, ok := ast.Unparen(g.X).(*ast.Ident); ok && ff.Info.Uses[id] == ff.Info.Uses[x] && ff.Info.Uses[x] != nil {
					if leaf.Pos() < at.Pos() && (best == nil || leaf.Pos() > best.Pos()) {
						best, bestVal, bestNeg = leaf, v, g.Neg
					}
				}
			}
		}
		if best != nil {
			reassigned := false
			if vv, ok := ff.Info.Uses[x].(*types.Var); ok {
				ld := NewLocalDefs(ff.Info, ff.FD.Decl.Body)
				for _, d := range ld.All(vv) {
					// the assignment that the test itself belongs to (if err := f(); err != nil) precedes the leaf
					if d.Pos > best.Pos() && d.Pos < at.Pos() {
						reassigned = true
					}
				}
			}
			if !reassigned {
				if bestVal == bestNeg {
					return RetFailure, nil
				}
				return RetSuccess, nil
			}
		}
		if v, ok := ff.Info.Uses[x].(*types.Var); ok && v.Pkg() != nil && v.Parent() == v.Pkg().Scope() {
			// package-level error value (ErrNoDocument ...): non-nil by construction
			return RetFailure, nil
		}
	case *ast.SelectorExpr:
		// qualified package-level error value (io.EOF, io.ErrUnexpectedEOF ...): non-nil by convention
		if ff.Info.Selections[x] == nil {
			if v, ok := ff.Info.Uses[x.Sel].(*types.Var); ok && v.Pkg() != nil && v.Parent() == v.Pkg().Scope() {
				return RetFailure, nil
			}
		}
	case *ast.UnaryExpr:
		if x.Op == token.AND {
			return RetFailure, nil
		}
	}
	return RetUnknown, nil
}

// IsErrorConstructor recognises calls that always produce a non-nil error:
// errors.New, fmt.Errorf, and module methods named With* on an error type whose
// result is a fresh copy (gobl.(*Error).WithCause/WithReason, cli.wrapErrorf...).
func IsErrorConstructor(p *Program, fn *types.Func) bool {
	if fn.Pkg() == nil {
		return false
	}
	switch fn.Pkg().Path() + "." + fn.Name() {
	case "errors.New", "fmt.Errorf":
		return true
	case "github.com/labstack/echo/v4.NewHTTPError":
		return true
	}
	if !InModule(fn.Pkg()) {
		return false
	}
	sig := fn.Type().(*types.Signature)
	if sig.Results().Len() != 1 {
		return false
	}
	rt := sig.Results().At(0).Type()
	if isErrorType(rt) {
		return alwaysFails(p, fn)
	}
	pt, ok := rt.(*types.Pointer)
	if !ok {
		return false
	}
	// returns *T implementing error, and every return of the body returns a
	// value that is a fresh allocation (new/&lit) or another such constructor.
	if !types.Implements(pt, types.Universe.Lookup("error").Type().Underlying().(*types.Interface)) {
		return false
	}
	return neverReturnsNilPtr(p, fn, 0)
}

var alwaysFailsMemo = map[*types.Func]int{}

// alwaysFails: a module function with a single error result all of whose
// returns are certainly non-nil errors.
func alwaysFails(p *Program, fn *types.Func) bool {
	switch alwaysFailsMemo[fn] {
	case 1:
		return true
	case 2, 3:
		return false // 3 = in progress (recursion): be conservative
	}
	alwaysFailsMemo[fn] = 3
	fd := p.DeclOf(fn)
	res := false
	if fd != nil {
		ff := NewFuncFlow(fd)
		res = true
		n := 0
		for _, r := range ff.Flow.Returns() {
			if !ff.Flow.Reachable(r) {
				continue
			}
			n++
			if k, _ := ff.ClassifyReturn(p, r); k != RetFailure {
				res = false
			}
		}
		if n == 0 {
			res = false
		}
	}
	if res {
		alwaysFailsMemo[fn] = 1
	} else {
		alwaysFailsMemo[fn] = 2
	}
	return res
}

func neverReturnsNilPtr(p *Program, fn *types.Func, depth int) bool {
	fd := p.DeclOf(fn)
	if fd == nil || depth > 3 {
		return false
	}
	info := fd.Pkg.TypesInfo
	ok := true
	fresh := map[types.Object]bool{}
	ast.Inspect(fd.Decl.Body, func(n ast.Node) bool {
		if as, isA := n.(*ast.AssignStmt); isA && len(as.Lhs) == len(as.Rhs) {
			for i, l := range as.Lhs {
				if id, isId := l.(*ast.Ident); isId {
					if isFreshPtr(p, info, as.Rhs[i], fresh, depth) {
						if o := info.Defs[id]; o != nil {
							fresh[o] = true
						}
					}
				}
			}
		}
		return true
	})
	ast.Inspect(fd.Decl.Body, func(n ast.Node) bool {
		if _, isLit := n.(*ast.FuncLit); isLit {
			return false
		}
		r, isR := n.(*ast.ReturnStmt)
		if !isR {
			return true
		}
		if len(r.Results) != 1 || !isFreshPtr(p, info, r.Results[0], fresh, depth) {
			ok = false
		}
		return true
	})
	return ok
}

func isFreshPtr(p *Program, info *types.Info, e ast.Expr, fresh map[types.Object]bool, depth int) bool {
	e = ast.Unparen(e)
	switch x := e.(type) {
	case *ast.UnaryExpr:
		if x.Op == token.AND {
			_, ok := ast.Unparen(x.X).(*ast.CompositeLit)
			return ok
		}
	case *ast.Ident:
		return fresh[info.Uses[x]]
	case *ast.CallExpr:
		if id, ok := x.Fun.(*ast.Ident); ok && id.Name == "new" {
			if _, isB := info.Uses[id].(*types.Builtin); isB {
				return true
			}
		}
		if fn := Callee(info, x); fn != nil && InModule(fn.Pkg()) {
			if _, isPtr := fn.Type().(*types.Signature).Results().At(0).Type().(*types.Pointer); isPtr && fn.Type().(*types.Signature).Results().Len() == 1 {
				return neverReturnsNilPtr(p, fn, depth+1)
			}
		}
	case *ast.TypeAssertExpr:
		// `te` bound in a type switch on a non-nil case: handled by caller
		return false
	}
	return false
}

// TransparentWrapperArg returns the index of the error parameter of a module
// function that returns nil exactly when that parameter is nil (the repo's
// wrapError idiom: the first statement is `if err == nil { return nil }` and no
// other return yields literal nil), or -1.
func TransparentWrapperArg(p *Program, fn *types.Func) int {
	if !InModule(fn.Pkg()) {
		return -1
	}
	fd := p.DeclOf(fn)
	if fd == nil {
		return -1
	}
	sig := fn.Type().(*types.Signature)
	if sig.Results().Len() != 1 || !isErrorType(sig.Results().At(0).Type()) {
		return -1
	}
	pi := -1
	for i := 0; i < sig.Params().Len(); i++ {
		if isErrorType(sig.Params().At(i).Type()) {
			if pi >= 0 {
				return -1
			}
			pi = i
		}
	}
	if pi < 0 {
		return -1
	}
	ff := NewFuncFlow(fd)
	param := sig.Params().At(pi)
	for _, r := range ff.Flow.Returns() {
		if !ff.Flow.Reachable(r) || len(r.Results) != 1 {
			continue
		}
		isNilRet := isNil(ff.Info, ast.Unparen(r.Results[0]))
		// fact: param == nil ?
		paramNil := 0
		for leaf, v := range ff.Flow.CondsAt(r) {
			g := GuardOf(ff.Info, leaf, ff.Errs)
			if g.Kind == "nil" {
				if id, ok := ast.Unparen(g.X).(*ast.Ident); ok && ff.Info.Uses[id] == param {
					if v == g.Neg {
						paramNil = -1
					} else {
						paramNil = 1
					}
				}
			}
		}
		if isNilRet && paramNil != 1 {
			return -1 // may return nil for a non-nil error
		}
		if !isNilRet && paramNil != -1 {
			// returns something when param may be nil: it must be certainly non-nil or param itself
			k, _ := ff.classifyErrExpr(p, r, r.Results[0], 3)
			_ = k
			if id, ok := ast.Unparen(r.Results[0]).(*ast.Ident); ok && ff.Info.Uses[id] == param {
				continue
			}
			if paramNil == 1 {
				return -1
			}
		}
	}
	return pi
}

// HeedResult describes how a function treats the error of a call.
type HeedResult struct {
	OK   bool
	How  string // "transfer" | "guard" | "collect"
	Why  string
	Leaf ast.Expr
}

// Heeds decides whether function ff cannot reach a success marker without the
// error of `call` having been found nil. Success markers are the return
// statements whose error position is the literal nil, plus the extra nodes
// given (e.g. an `OK: true` literal). Accepted idioms, enumerated from the
// subject: (1) transfer — the call is the returned error, possibly inside a
// transparent wrapper; (2) guard — the error is tested at once and every
// success marker after the call lies where the test found nil; (3) collect —
// inside a loop the non-nil error is stored into a local map/slice M and every
// success marker lies where len(M) is known to be zero.
func (ff *FuncFlow) Heeds(p *Program, call *ast.CallExpr, extraMarkers []ast.Node) HeedResult {
	// (1) transfer
	for _, r := range ff.Flow.Returns() {
		k, c := ff.ClassifyReturn(p, r)
		if k == RetTransfer && c == call {
			return HeedResult{OK: true, How: "transfer"}
		}
	}
	leaf, _ := ff.ErrLeafOf(call)
	if leaf == nil {
		return HeedResult{Why: "error result is neither returned nor tested immediately"}
	}
	type marker struct {
		n    ast.Node
		what string
	}
	var markers []marker
	for _, r := range ff.Flow.Returns() {
		if !ff.Flow.Reachable(r) {
			continue
		}
		k, _ := ff.ClassifyReturn(p, r)
		if k == RetSuccess {
			markers = append(markers, marker{r, "return nil"})
		}
		if k == RetUnknown && ErrResultIndex(ff.FD.Obj.Type().(*types.Signature)) >= 0 {
			markers = append(markers, marker{r, "return of undetermined error"})
		}
	}
	for _, m := range extraMarkers {
		cn := ff.Flow.EnclosingNode(m)
		if cn == nil {
			return HeedResult{Why: "success marker not located in the control-flow graph"}
		}
		markers = append(markers, marker{cn, "success marker"})
	}
	// collect idiom?
	coll := ff.collector(call, leaf)
	how := "guard"
	for _, m := range markers {
		switch ff.ErrNilAt(m.n, call) {
		case 1:
			continue
		case -1:
			return HeedResult{Why: fmt.Sprintf("%s at %s lies where the error is known to be non-nil", m.what, p.Rel(m.n.Pos()))}
		}
		// unknown: before the call, or collected
		if !ff.Flow.PassedAt(m.n)[call] && !ff.mayFollow(call, m.n) {
			continue // marker cannot follow the call
		}
		if coll != nil && ff.lenZeroAt(m.n, coll) {
			how = "collect"
			continue
		}
		return HeedResult{Why: fmt.Sprintf("%s at %s is reachable after the call without the error having been found nil", m.what, p.Rel(m.n.Pos()))}
	}
	return HeedResult{OK: true, How: how, Leaf: leaf}
}

// mayFollow reports whether CFG node n may execute after the call.
func (ff *FuncFlow) mayFollow(call *ast.CallExpr, n ast.Node) bool {
	cn := ff.Flow.EnclosingNode(call)
	if cn == nil {
		return true
	}
	if cn == n {
		return false
	}
	return ff.Flow.CanReach(cn, n)
}

// collector finds the local variable M such that the non-nil branch of the
// error test of call stores into M (M[k] = ... or M = append(M, ...)).
func (ff *FuncFlow) collector(call *ast.CallExpr, leaf ast.Expr) *types.Var {
	var res *types.Var
	ast.Inspect(ff.FD.Decl.Body, func(n ast.Node) bool {
		is, ok := n.(*ast.IfStmt)
		if !ok {
			return true
		}
		leaves := map[ast.Expr]bool{}
		condLeaves(is.Cond, leaves)
		if !leaves[leaf] || len(leaves) != 1 {
			return true
		}
		be := ast.Unparen(leaf).(*ast.BinaryExpr)
		branch := is.Body
		if be.Op == token.EQL {
			if eb, ok := is.Else.(*ast.BlockStmt); ok {
				branch = eb
			} else if is.Else == nil && len(is.Body.List) > 0 {
				// `if err == nil { continue }`: what follows in the same list is the non-nil branch
				last, isBr := is.Body.List[len(is.Body.List)-1].(*ast.BranchStmt)
				if !isBr || last.Tok != token.CONTINUE {
					return true
				}
				var rest []ast.Stmt
				ast.Inspect(ff.FD.Decl.Body, func(m ast.Node) bool {
					var list []ast.Stmt
					switch b := m.(type) {
					case *ast.BlockStmt:
						list = b.List
					case *ast.CaseClause:
						list = b.Body
					}
					for i, st := range list {
						if st == ast.Stmt(is) {
							rest = list[i+1:]
						}
					}
					return rest == nil
				})
				branch = &ast.BlockStmt{List: rest}
			} else {
				return true
			}
		}
		for _, s := range branch.List {
			as, ok := s.(*ast.AssignStmt)
			if !ok || len(as.Lhs) != 1 {
				continue
			}
			switch l := as.Lhs[0].(type) {
			case *ast.IndexExpr:
				if v := RootVar(ff.Info, l.X); v != nil {
					res = v
				}
			case *ast.Ident:
				if c, ok := as.Rhs[0].(*ast.CallExpr); ok {
					if id, ok := c.Fun.(*ast.Ident); ok && id.Name == "append" {
						if v, ok := ff.Info.Uses[l].(*types.Var); ok {
							res = v
						}
					}
				}
			}
		}
		return true
	})
	return res
}

func (ff *FuncFlow) lenZeroAt(n ast.Node, m *types.Var) bool {
	for leaf, v := range ff.Flow.CondsAt(n) {
		g := GuardOf(ff.Info, leaf, ff.Errs)
		if g.Kind != "len" || RootVar(ff.Info, g.X) != m {
			continue
		}
		if _, isId := ast.Unparen(g.X).(*ast.Ident); !isId {
			continue
		}
		switch {
		case g.Op == token.GTR && g.Const == 0 && !v,
			g.Op == token.EQL && g.Const == 0 && v,
			g.Op == token.NEQ && g.Const == 0 && !v,
			g.Op == token.GEQ && g.Const == 1 && !v,
			g.Op == token.LSS && g.Const == 1 && v:
			return true
		}
	}
	return false
}

// LenFactAt reports the known relation of len(x) to zero at node n for an
// expression x satisfying match: +1 means len>0 known, -1 means len==0 known.
func (ff *FuncFlow) LenFactAt(n ast.Node, match func(ast.Expr) bool) int {
	for leaf, v := range ff.Flow.CondsAt(n) {
		g := GuardOf(ff.Info, leaf, ff.Errs)
		if g.Kind != "len" || !match(g.X) {
			continue
		}
		zero := false
		known := true
		switch {
		case g.Op == token.GTR && g.Const == 0:
			zero = !v
		case g.Op == token.EQL && g.Const == 0:
			zero = v
		case g.Op == token.NEQ && g.Const == 0:
			zero = !v
		case g.Op == token.GEQ && g.Const == 1:
			zero = !v
		case g.Op == token.LSS && g.Const == 1:
			zero = v
		default:
			known = false
		}
		if known {
			if zero {
				return -1
			}
			return 1
		}
	}
	return 0
}
