package core

import (
	"go/ast"
	"go/types"
)

// ReachingDefs computes, over the structured statements of body, the
// assignments to local variable v that may be the latest one when control
// reaches the node `at` (which must lie inside body). A nil entry in the result
// stands for "no assignment inside body" (the parameter value or the zero
// value). Loops are handled by iterating their bodies to a fixed point; goto is
// not modelled (callers should refuse functions with labels).
func ReachingDefs(info *types.Info, body *ast.BlockStmt, v *types.Var, at ast.Node) map[*ast.AssignStmt]bool {
	type set = map[*ast.AssignStmt]bool
	var result set
	found := false
	union := func(a, b set) set {
		out := set{}
		for k := range a {
			out[k] = true
		}
		for k := range b {
			out[k] = true
		}
		return out
	}
	contains := func(n ast.Node) bool { return n != nil && n.Pos() <= at.Pos() && at.End() <= n.End() }
	assigns := func(as *ast.AssignStmt) bool {
		for _, l := range as.Lhs {
			if id, ok := ast.Unparen(l).(*ast.Ident); ok && (info.Uses[id] == v || info.Defs[id] == v) {
				return true
			}
		}
		return false
	}
	var stmts func(list []ast.Stmt, in set) set
	var stmt func(s ast.Stmt, in set) set
	stmt = func(s ast.Stmt, in set) set {
		if s == nil {
			return in
		}
		if !found && s == at {
			result, found = in, true
		}
		switch x := s.(type) {
		case *ast.AssignStmt:
			if !found && contains(x) {
				result, found = in, true
			}
			if assigns(x) {
				return set{x: true}
			}
			return in
		case *ast.BlockStmt:
			return stmts(x.List, in)
		case *ast.IfStmt:
			in = stmt(x.Init, in)
			if !found && contains(x.Cond) {
				result, found = in, true
			}
			a := stmt(x.Body, in)
			b := in
			if x.Else != nil {
				b = stmt(x.Else, in)
			}
			return union(a, b)
		case *ast.ForStmt:
			in = stmt(x.Init, in)
			cur := in
			for i := 0; i < 3; i++ {
				out := stmt(x.Body, cur)
				out = stmt(x.Post, out)
				cur = union(cur, out)
			}
			if !found && (contains(x.Cond) || contains(x.Post)) {
				result, found = cur, true
			}
			return cur
		case *ast.RangeStmt:
			cur := in
			for i := 0; i < 3; i++ {
				cur = union(cur, stmt(x.Body, cur))
			}
			return cur
		case *ast.SwitchStmt:
			in = stmt(x.Init, in)
			out := set{}
			hasDefault := false
			for _, cc := range x.Body.List {
				cl := cc.(*ast.CaseClause)
				if cl.List == nil {
					hasDefault = true
				}
				out = union(out, stmts(cl.Body, in))
			}
			if !hasDefault {
				out = union(out, in)
			}
			return out
		case *ast.TypeSwitchStmt:
			out := in
			for _, cc := range x.Body.List {
				out = union(out, stmts(cc.(*ast.CaseClause).Body, in))
			}
			return out
		case *ast.LabeledStmt:
			return stmt(x.Stmt, in)
		default:
			if !found && contains(s) {
				result, found = in, true
			}
			return in
		}
	}
	stmts = func(list []ast.Stmt, in set) set {
		for _, s := range list {
			in = stmt(s, in)
		}
		return in
	}
	stmts(body.List, set{nil: true})
	if !found {
		return nil
	}
	return result
}
