package core

import (
	"go/ast"
	"go/token"
	"go/types"
)

const validationPkg = "github.com/invopop/validation"

// FieldRule is one validation.Field(&x.F, rules...) entry.
type FieldRule struct {
	Field *types.Var
	// Cond: the field is listed only when this holds (the list is built with a
	// conditional append); nil when it is always listed
	Cond ast.Expr
	Base  *types.Var // the variable whose field is taken
	Rules []ast.Expr
	Call  *ast.CallExpr
}

// StructValidation is one validation.ValidateStruct* call.
type StructValidation struct {
	Call   *ast.CallExpr
	Target *types.Var // the struct pointer being validated (root variable)
	Fields []FieldRule
	// Opaque is true when the field list is not a literal argument list (e.g.
	// spread from a slice): coverage cannot be decided from the call alone.
	Opaque bool
}

// StructValidations finds the ValidateStruct / ValidateStructWithContext calls
// in a function body.
func StructValidations(info *types.Info, body ast.Node) []*StructValidation {
	var out []*StructValidation
	ast.Inspect(body, func(n ast.Node) bool {
		call, ok := n.(*ast.CallExpr)
		if !ok {
			return true
		}
		fn := Callee(info, call)
		if fn == nil || fn.Pkg() == nil {
			return true
		}
		first := 0
		switch {
		case fn.Pkg().Path() == validationPkg && fn.Name() == "ValidateStruct":
			first = 1
		case fn.Pkg().Path() == validationPkg && fn.Name() == "ValidateStructWithContext":
			first = 2
		case InModule(fn.Pkg()):
			// module wrapper with the same shape: (..., obj any, fields ...*validation.FieldRules)
			sig := fn.Type().(*types.Signature)
			np := sig.Params().Len()
			if !sig.Variadic() || np < 2 {
				return true
			}
			sl, ok := sig.Params().At(np - 1).Type().(*types.Slice)
			if !ok {
				return true
			}
			if n, _ := StructOf(sl.Elem()); n == nil || n.Obj().Pkg() == nil || n.Obj().Pkg().Path() != validationPkg || n.Obj().Name() != "FieldRules" {
				return true
			}
			first = np - 1
		default:
			return true
		}
		if len(call.Args) < first {
			return true
		}
		sv := &StructValidation{Call: call, Target: RootVar(info, call.Args[first-1])}
		fieldArgs := call.Args[first:]
		if call.Ellipsis != token.NoPos {
			// a spread slice: a literal, or a local defined once by a literal, is its elements
			if els, ok := spreadElements(info, body, fieldArgs[len(fieldArgs)-1]); ok {
				fieldArgs = append(append([]ast.Expr{}, fieldArgs[:len(fieldArgs)-1]...), els...)
			} else {
				sv.Opaque = true
			}
		}
		// a conditional append of field entries arrives as validation.When(c, Field(...)...)
		conds := map[ast.Expr]ast.Expr{}
		var flat []ast.Expr
		for _, a := range fieldArgs {
			if wc, ok := ast.Unparen(a).(*ast.CallExpr); ok && len(wc.Args) >= 2 {
				if wf := Callee(info, wc); wf != nil && wf.Pkg() != nil && wf.Pkg().Path() == validationPkg && wf.Name() == "When" {
					allFields := true
					for _, x := range wc.Args[1:] {
						xc, ok := ast.Unparen(x).(*ast.CallExpr)
						if !ok {
							allFields = false
							break
						}
						if xf := Callee(info, xc); xf == nil || xf.Name() != "Field" {
							allFields = false
						}
					}
					if allFields {
						for _, x := range wc.Args[1:] {
							conds[x] = wc.Args[0]
							flat = append(flat, x)
						}
						continue
					}
				}
			}
			flat = append(flat, a)
		}
		fieldArgs = flat
		for _, a := range fieldArgs {
			fc, ok := ast.Unparen(a).(*ast.CallExpr)
			if !ok {
				sv.Opaque = true
				continue
			}
			ffn := Callee(info, fc)
			if ffn == nil || ffn.Pkg() == nil || ffn.Pkg().Path() != validationPkg || ffn.Name() != "Field" || len(fc.Args) == 0 {
				sv.Opaque = true
				continue
			}
			fld := FieldOf(info, fc.Args[0])
			if fld == nil {
				sv.Opaque = true
				continue
			}
			rules := fc.Args[1:]
			if fc.Ellipsis != token.NoPos && len(rules) > 0 {
				if els, ok := spreadElements(info, body, rules[len(rules)-1]); ok {
					rules = append(append([]ast.Expr{}, rules[:len(rules)-1]...), els...)
				}
			}
			// a rule held in a local that is defined exactly once stands for its definition
			var ld *LocalDefs
			copied := false
			for i, r := range rules {
				v := VarOf(info, r)
				if v == nil || v.IsField() || (v.Pkg() != nil && v.Parent() == v.Pkg().Scope()) {
					continue
				}
				if ld == nil {
					ld = NewLocalDefs(info, body)
				}
				if ds := ld.All(v); len(ds) == 1 && ds[0].RHS != nil && ds[0].N == 1 {
					if !copied {
						rules, copied = append([]ast.Expr{}, rules...), true
					}
					rules[i] = ds[0].RHS
				}
			}
			sv.Fields = append(sv.Fields, FieldRule{Field: fld, Base: RootVar(info, fc.Args[0]), Rules: rules, Call: fc, Cond: conds[a]})
		}
		out = append(out, sv)
		return true
	})
	return out
}

// spreadElements: the elements of a slice given as `x...`: x is a slice literal,
// or a local variable of the body with exactly one definition, a slice literal,
// that is not modified otherwise (no append, no element assignment).
func spreadElements(info *types.Info, body ast.Node, e ast.Expr) ([]ast.Expr, bool) {
	e = ast.Unparen(e)
	if els, ok := builtByAppends(info, body, e); ok {
		return els, true
	}
	if els, ok := chosenByIf(info, body, e); ok {
		return els, true
	}
	if v := VarOf(info, e); v != nil && !v.IsField() {
		ld := NewLocalDefs(info, body)
		ds := ld.All(v)
		var lit ast.Expr
		for _, d := range ds {
			if d.RHS == nil {
				if _, isDecl := d.Stmt.(*ast.ValueSpec); isDecl {
					continue // var x T
				}
				return nil, false
			}
			if lit != nil || d.N != 1 {
				return nil, false
			}
			lit = d.RHS
		}
		if lit == nil {
			return nil, false
		}
		// the one definition is `append(y, els...)` of another such list: y's elements, then els
		if call, ok := ast.Unparen(lit).(*ast.CallExpr); ok && len(call.Args) >= 1 && !call.Ellipsis.IsValid() {
			if id, ok := call.Fun.(*ast.Ident); ok && id.Name == "append" {
				if y := VarOf(info, call.Args[0]); y != nil && y != v {
					if base, ok := spreadElements(info, body, call.Args[0]); ok {
						return append(append([]ast.Expr{}, base...), call.Args[1:]...), true
					}
				}
				return nil, false
			}
		}
		// no element assignment
		bad := false
		ast.Inspect(body, func(n ast.Node) bool {
			if as, ok := n.(*ast.AssignStmt); ok {
				for _, l := range as.Lhs {
					if ix, ok := ast.Unparen(l).(*ast.IndexExpr); ok && VarOf(info, ix.X) == v {
						bad = true
					}
				}
			}
			return true
		})
		if bad {
			return nil, false
		}
		e = ast.Unparen(lit)
	}
	cl, ok := e.(*ast.CompositeLit)
	if !ok {
		return nil, false
	}
	if _, isSlice := info.TypeOf(cl).Underlying().(*types.Slice); !isSlice {
		return nil, false
	}
	for _, el := range cl.Elts {
		if _, isKV := el.(*ast.KeyValueExpr); isKV {
			return nil, false
		}
	}
	return cl.Elts, true
}

// IsValidationVar reports whether e denotes the package-level variable
// validation.<name> (e.g. validation.Required, validation.Skip).
func IsValidationVar(info *types.Info, e ast.Expr, name string) bool {
	se, ok := ast.Unparen(e).(*ast.SelectorExpr)
	if !ok {
		return false
	}
	v, ok := info.Uses[se.Sel].(*types.Var)
	return ok && v.Pkg() != nil && v.Pkg().Path() == validationPkg && v.Name() == name
}

// RequiredFields returns the fields that a struct's validator marks with the
// unconditional validation.Required rule.
func RequiredFields(p *Program, named *types.Named) map[*types.Var]bool {
	out := map[*types.Var]bool{}
	for _, mname := range []string{"Validate", "ValidateWithContext"} {
		obj, _, _ := types.LookupFieldOrMethod(types.NewPointer(named), true, named.Obj().Pkg(), mname)
		fn, _ := obj.(*types.Func)
		fd := p.DeclOf(fn)
		if fd == nil {
			continue
		}
		for _, sv := range StructValidations(fd.Pkg.TypesInfo, fd.Decl.Body) {
			for _, fr := range sv.Fields {
				for _, r := range fr.Rules {
					if IsValidationVar(fd.Pkg.TypesInfo, r, "Required") {
						out[fr.Field] = true
					}
				}
			}
		}
	}
	return out
}


// builtByAppends: a rule list kept in a local that starts empty (`var rules
// []validation.Rule`, or a slice literal) and grows by `rules = append(rules,
// r...)` statements standing directly in one statement list, each either
// unconditional or the only statement of an `if c { … }` without else: the
// list is the literal's elements followed by r (unconditional) or
// validation.When(c, r...) (conditional), in order.
func builtByAppends(info *types.Info, body ast.Node, e ast.Expr) ([]ast.Expr, bool) {
	v := VarOf(info, e)
	if v == nil || v.IsField() {
		return nil, false
	}
	ld := NewLocalDefs(info, body)
	var out []ast.Expr
	nApp := 0
	selfAppend := func(s ast.Stmt) ([]ast.Expr, bool) {
		as, ok := s.(*ast.AssignStmt)
		if !ok || len(as.Lhs) != 1 || len(as.Rhs) != 1 || as.Tok != token.ASSIGN || VarOf(info, as.Lhs[0]) != v {
			return nil, false
		}
		call, ok := ast.Unparen(as.Rhs[0]).(*ast.CallExpr)
		if !ok || len(call.Args) < 2 || call.Ellipsis.IsValid() {
			return nil, false
		}
		if id, ok := call.Fun.(*ast.Ident); !ok || id.Name != "append" || VarOf(info, call.Args[0]) != v {
			return nil, false
		}
		return call.Args[1:], true
	}
	// the statement list that holds the declaration
	var list []ast.Stmt
	ast.Inspect(body, func(n ast.Node) bool {
		var l []ast.Stmt
		switch x := n.(type) {
		case *ast.BlockStmt:
			l = x.List
		case *ast.CaseClause:
			l = x.Body
		}
		for _, s := range l {
			switch d := s.(type) {
			case *ast.DeclStmt:
				if gd, ok := d.Decl.(*ast.GenDecl); ok {
					for _, sp := range gd.Specs {
						if vs, ok := sp.(*ast.ValueSpec); ok {
							for _, nm := range vs.Names {
								if info.Defs[nm] == types.Object(v) {
									list = l
								}
							}
						}
					}
				}
			case *ast.AssignStmt:
				if d.Tok == token.DEFINE {
					for _, lh := range d.Lhs {
						if id, ok := lh.(*ast.Ident); ok && info.Defs[id] == types.Object(v) {
							list = l
						}
					}
				}
			}
		}
		return list == nil
	})
	if list == nil {
		return nil, false
	}
	var when *types.Func
	for _, o := range info.Uses {
		if pn, ok := o.(*types.PkgName); ok && pn.Imported().Path() == validationPkg {
			when, _ = pn.Imported().Scope().Lookup("When").(*types.Func)
			break
		}
	}
	started := false
	accounted := 0
	for _, s := range list {
		switch x := s.(type) {
		case *ast.DeclStmt:
			gd, _ := x.Decl.(*ast.GenDecl)
			if gd == nil {
				continue
			}
			for _, sp := range gd.Specs {
				vs, _ := sp.(*ast.ValueSpec)
				if vs == nil {
					continue
				}
				for i, nm := range vs.Names {
					if info.Defs[nm] != types.Object(v) {
						continue
					}
					started = true
					accounted++
					if len(vs.Values) > i {
						cl, ok := ast.Unparen(vs.Values[i]).(*ast.CompositeLit)
						if !ok {
							return nil, false
						}
						out = append(out, cl.Elts...)
					}
				}
			}
		case *ast.AssignStmt:
			if x.Tok == token.DEFINE && len(x.Lhs) == 1 && len(x.Rhs) == 1 {
				if id, ok := x.Lhs[0].(*ast.Ident); ok && info.Defs[id] == types.Object(v) {
					started = true
					accounted++
					cl, ok := ast.Unparen(x.Rhs[0]).(*ast.CompositeLit)
					if !ok {
						return nil, false
					}
					for _, el := range cl.Elts {
						if _, isKV := el.(*ast.KeyValueExpr); isKV {
							return nil, false
						}
					}
					out = append(out, cl.Elts...)
					continue
				}
			}
			if els, ok := selfAppend(x); ok && started {
				out = append(out, els...)
				accounted++
				nApp++
			}
		case *ast.IfStmt:
			if !started || x.Init != nil || x.Else != nil || len(x.Body.List) != 1 {
				continue
			}
			els, ok := selfAppend(x.Body.List[0])
			if !ok {
				continue
			}
			if when == nil {
				return nil, false
			}
			pos := x.Body.List[0].Pos()
			pk := &ast.Ident{Name: "validation", NamePos: pos}
			sel := &ast.Ident{Name: "When", NamePos: pos}
			fun := &ast.SelectorExpr{X: pk, Sel: sel}
			info.Uses[sel] = when
			call := &ast.CallExpr{Fun: fun, Lparen: pos, Args: append([]ast.Expr{x.Cond}, els...), Rparen: x.Body.List[0].End()}
			if sig, ok := when.Type().(*types.Signature); ok && sig.Results().Len() == 1 {
				info.Types[call] = types.TypeAndValue{Type: sig.Results().At(0).Type()}
			}
			out = append(out, call)
			accounted++
			nApp++
		}
	}
	// every definition of the variable is one of those seen, and nothing writes its elements
	if !started || nApp == 0 || accounted != len(ld.All(v)) {
		return nil, false
	}
	bad := false
	ast.Inspect(body, func(n ast.Node) bool {
		if as, ok := n.(*ast.AssignStmt); ok {
			for _, l := range as.Lhs {
				if ix, ok := ast.Unparen(l).(*ast.IndexExpr); ok && VarOf(info, ix.X) == v {
					bad = true
				}
			}
		}
		return true
	})
	if bad {
		return nil, false
	}
	return out, true
}


// chosenByIf: a rule list held in a local that is nil unless one condition
// holds: `var r []T; if c { r = []T{…} }`, or `if !c { r = nil } else { r =
// []T{…} }` (what an inlined helper with an early `return nil` becomes): the
// list is validation.When(c, …).
func chosenByIf(info *types.Info, body ast.Node, e ast.Expr) ([]ast.Expr, bool) {
	v := VarOf(info, e)
	if v == nil || v.IsField() {
		return nil, false
	}
	ld := NewLocalDefs(info, body)
	var lit *ast.CompositeLit
	var litStmt ast.Node
	for _, d := range ld.All(v) {
		if d.RHS == nil {
			if _, isDecl := d.Stmt.(*ast.ValueSpec); isDecl {
				continue
			}
			return nil, false
		}
		if IsNil(info, d.RHS) {
			continue
		}
		cl, ok := ast.Unparen(d.RHS).(*ast.CompositeLit)
		if !ok || lit != nil || d.N != 1 {
			return nil, false
		}
		lit, litStmt = cl, d.Stmt
	}
	if lit == nil || litStmt == nil {
		return nil, false
	}
	for _, el := range lit.Elts {
		if _, isKV := el.(*ast.KeyValueExpr); isKV {
			return nil, false
		}
	}
	// the if statement one of whose branches is exactly that assignment
	var cond ast.Expr
	ast.Inspect(body, func(n ast.Node) bool {
		is, ok := n.(*ast.IfStmt)
		if !ok || cond != nil || is.Init != nil {
			return true
		}
		only := func(b *ast.BlockStmt) bool { return b != nil && len(b.List) == 1 && b.List[0] == litStmt }
		if only(is.Body) {
			cond = is.Cond
		} else if eb, ok := is.Else.(*ast.BlockStmt); ok && only(eb) {
			if u, ok := ast.Unparen(is.Cond).(*ast.UnaryExpr); ok && u.Op == token.NOT {
				cond = u.X
			} else {
				n := &ast.UnaryExpr{Op: token.NOT, OpPos: is.Cond.Pos(), X: is.Cond}
				info.Types[n] = types.TypeAndValue{Type: types.Typ[types.Bool]}
				cond = n
			}
		}
		return true
	})
	if cond == nil {
		return nil, false
	}
	var when *types.Func
	for _, o := range info.Uses {
		if pn, ok := o.(*types.PkgName); ok && pn.Imported().Path() == validationPkg {
			when, _ = pn.Imported().Scope().Lookup("When").(*types.Func)
			break
		}
	}
	if when == nil {
		return nil, false
	}
	pos := lit.Pos()
	sel := &ast.Ident{Name: "When", NamePos: pos}
	fun := &ast.SelectorExpr{X: &ast.Ident{Name: "validation", NamePos: pos}, Sel: sel}
	info.Uses[sel] = when
	call := &ast.CallExpr{Fun: fun, Lparen: pos, Args: append([]ast.Expr{cond}, lit.Elts...), Rparen: lit.End()}
	if sig, ok := when.Type().(*types.Signature); ok && sig.Results().Len() == 1 {
		info.Types[call] = types.TypeAndValue{Type: sig.Results().At(0).Type()}
	}
	return []ast.Expr{call}, true
}
