package core

import (
	"go/ast"
	"go/token"
	"go/types"
)

const validationPkg = "github.com/invopop/validation"

// FieldRule is one validation.Field(&x.F, rules...) entry.
type FieldRule struct {
	Field *types.Var
	Base  *types.Var // the variable whose field is taken
	Rules []ast.Expr
	Call  *ast.CallExpr
}

// StructValidation is one validation.ValidateStruct* call.
type StructValidation struct {
	Call   *ast.CallExpr
	Target *types.Var // the struct pointer being validated (root variable)
	Fields []FieldRule
	// Opaque is true when the field list is not a literal argument list (e.g.
	// spread from a slice): coverage cannot be decided from the call alone.
	Opaque bool
}

// StructValidations finds the ValidateStruct / ValidateStructWithContext calls
// in a function body.
func StructValidations(info *types.Info, body ast.Node) []*StructValidation {
	var out []*StructValidation
	ast.Inspect(body, func(n ast.Node) bool {
		call, ok := n.(*ast.CallExpr)
		if !ok {
			return true
		}
		fn := Callee(info, call)
		if fn == nil || fn.Pkg() == nil {
			return true
		}
		first := 0
		switch {
		case fn.Pkg().Path() == validationPkg && fn.Name() == "ValidateStruct":
			first = 1
		case fn.Pkg().Path() == validationPkg && fn.Name() == "ValidateStructWithContext":
			first = 2
		case InModule(fn.Pkg()):
			// module wrapper with the same shape: (..., obj any, fields ...*validation.FieldRules)
			sig := fn.Type().(*types.Signature)
			np := sig.Params().Len()
			if !sig.Variadic() || np < 2 {
				return true
			}
			sl, ok := sig.Params().At(np - 1).Type().(*types.Slice)
			if !ok {
				return true
			}
			if n, _ := StructOf(sl.Elem()); n == nil || n.Obj().Pkg() == nil || n.Obj().Pkg().Path() != validationPkg || n.Obj().Name() != "FieldRules" {
				return true
			}
			first = np - 1
		default:
			return true
		}
		if len(call.Args) < first {
			return true
		}
		sv := &StructValidation{Call: call, Target: RootVar(info, call.Args[first-1])}
		fieldArgs := call.Args[first:]
		if call.Ellipsis != token.NoPos {
			// a spread slice: a literal, or a local defined once by a literal, is its elements
			if els, ok := spreadElements(info, body, fieldArgs[len(fieldArgs)-1]); ok {
				fieldArgs = append(append([]ast.Expr{}, fieldArgs[:len(fieldArgs)-1]...), els...)
			} else {
				sv.Opaque = true
			}
		}
		for _, a := range fieldArgs {
			fc, ok := ast.Unparen(a).(*ast.CallExpr)
			if !ok {
				sv.Opaque = true
				continue
			}
			ffn := Callee(info, fc)
			if ffn == nil || ffn.Pkg() == nil || ffn.Pkg().Path() != validationPkg || ffn.Name() != "Field" || len(fc.Args) == 0 {
				sv.Opaque = true
				continue
			}
			fld := FieldOf(info, fc.Args[0])
			if fld == nil {
				sv.Opaque = true
				continue
			}
			rules := fc.Args[1:]
			if fc.Ellipsis != token.NoPos && len(rules) > 0 {
				if els, ok := spreadElements(info, body, rules[len(rules)-1]); ok {
					rules = append(append([]ast.Expr{}, rules[:len(rules)-1]...), els...)
				}
			}
			// a rule held in a local that is defined exactly once stands for its definition
			var ld *LocalDefs
			copied := false
			for i, r := range rules {
				v := VarOf(info, r)
				if v == nil || v.IsField() || (v.Pkg() != nil && v.Parent() == v.Pkg().Scope()) {
					continue
				}
				if ld == nil {
					ld = NewLocalDefs(info, body)
				}
				if ds := ld.All(v); len(ds) == 1 && ds[0].RHS != nil && ds[0].N == 1 {
					if !copied {
						rules, copied = append([]ast.Expr{}, rules...), true
					}
					rules[i] = ds[0].RHS
				}
			}
			sv.Fields = append(sv.Fields, FieldRule{Field: fld, Base: RootVar(info, fc.Args[0]), Rules: rules, Call: fc})
		}
		out = append(out, sv)
		return true
	})
	return out
}

// spreadElements: the elements of a slice given as `x...`: x is a slice literal,
// or a local variable of the body with exactly one definition, a slice literal,
// that is not modified otherwise (no append, no element assignment).
func spreadElements(info *types.Info, body ast.Node, e ast.Expr) ([]ast.Expr, bool) {
	e = ast.Unparen(e)
	if v := VarOf(info, e); v != nil && !v.IsField() {
		ld := NewLocalDefs(info, body)
		ds := ld.All(v)
		var lit ast.Expr
		for _, d := range ds {
			if d.RHS == nil {
				if _, isDecl := d.Stmt.(*ast.ValueSpec); isDecl {
					continue // var x T
				}
				return nil, false
			}
			if lit != nil || d.N != 1 {
				return nil, false
			}
			lit = d.RHS
		}
		if lit == nil {
			return nil, false
		}
		// no element assignment
		bad := false
		ast.Inspect(body, func(n ast.Node) bool {
			if as, ok := n.(*ast.AssignStmt); ok {
				for _, l := range as.Lhs {
					if ix, ok := ast.Unparen(l).(*ast.IndexExpr); ok && VarOf(info, ix.X) == v {
						bad = true
					}
				}
			}
			return true
		})
		if bad {
			return nil, false
		}
		e = ast.Unparen(lit)
	}
	cl, ok := e.(*ast.CompositeLit)
	if !ok {
		return nil, false
	}
	if _, isSlice := info.TypeOf(cl).Underlying().(*types.Slice); !isSlice {
		return nil, false
	}
	for _, el := range cl.Elts {
		if _, isKV := el.(*ast.KeyValueExpr); isKV {
			return nil, false
		}
	}
	return cl.Elts, true
}

// IsValidationVar reports whether e denotes the package-level variable
// validation.<name> (e.g. validation.Required, validation.Skip).
func IsValidationVar(info *types.Info, e ast.Expr, name string) bool {
	se, ok := ast.Unparen(e).(*ast.SelectorExpr)
	if !ok {
		return false
	}
	v, ok := info.Uses[se.Sel].(*types.Var)
	return ok && v.Pkg() != nil && v.Pkg().Path() == validationPkg && v.Name() == name
}

// RequiredFields returns the fields that a struct's validator marks with the
// unconditional validation.Required rule.
func RequiredFields(p *Program, named *types.Named) map[*types.Var]bool {
	out := map[*types.Var]bool{}
	for _, mname := range []string{"Validate", "ValidateWithContext"} {
		obj, _, _ := types.LookupFieldOrMethod(types.NewPointer(named), true, named.Obj().Pkg(), mname)
		fn, _ := obj.(*types.Func)
		fd := p.DeclOf(fn)
		if fd == nil {
			continue
		}
		for _, sv := range StructValidations(fd.Pkg.TypesInfo, fd.Decl.Body) {
			for _, fr := range sv.Fields {
				for _, r := range fr.Rules {
					if IsValidationVar(fd.Pkg.TypesInfo, r, "Required") {
						out[fr.Field] = true
					}
				}
			}
		}
	}
	return out
}
