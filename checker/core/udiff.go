package core

import (
	"fmt"
	"os"
	"path/filepath"
	"strconv"
	"strings"
)

// ApplyUnifiedDiff applies a unified diff (as produced by `git diff`) to the
// files under repo, in memory, and returns the new content per absolute file
// name. Hunks are located by their context (exact match, searched near the
// stated line and then anywhere), so a diff keeps applying after unrelated
// edits elsewhere in the file. Only text files and in-place modifications are
// supported (no renames); new files are supported.
func ApplyUnifiedDiff(repo, diff string) (map[string][]byte, error) {
	out := map[string][]byte{}
	lines := strings.Split(diff, "\n")
	i := 0
	for i < len(lines) {
		if !strings.HasPrefix(lines[i], "--- ") {
			i++
			continue
		}
		if i+1 >= len(lines) || !strings.HasPrefix(lines[i+1], "+++ ") {
			i++
			continue
		}
		oldName := strings.TrimPrefix(strings.Fields(lines[i])[1], "a/")
		newName := strings.TrimPrefix(strings.Fields(lines[i+1])[1], "b/")
		i += 2
		name := newName
		if name == "/dev/null" {
			return nil, fmt.Errorf("deleting %s is not supported", oldName)
		}
		abs := filepath.Join(repo, name)
		var content []string
		if oldName != "/dev/null" {
			if b, ok := out[abs]; ok {
				content = strings.Split(string(b), "\n")
			} else {
				b, err := os.ReadFile(abs)
				if err != nil {
					return nil, err
				}
				content = strings.Split(string(b), "\n")
			}
		}
		offset := 0
		for i < len(lines) && strings.HasPrefix(lines[i], "@@") {
			// @@ -a,b +c,d @@
			hdr := strings.Fields(lines[i])
			if len(hdr) < 3 {
				return nil, fmt.Errorf("bad hunk header %q", lines[i])
			}
			start, _ := strconv.Atoi(strings.SplitN(strings.TrimPrefix(hdr[1], "-"), ",", 2)[0])
			i++
			var oldL, newL []string
			for i < len(lines) && !strings.HasPrefix(lines[i], "@@") && !strings.HasPrefix(lines[i], "diff ") && !strings.HasPrefix(lines[i], "--- ") {
				l := lines[i]
				switch {
				case strings.HasPrefix(l, "+"):
					newL = append(newL, l[1:])
				case strings.HasPrefix(l, "-"):
					oldL = append(oldL, l[1:])
				case strings.HasPrefix(l, " "):
					oldL = append(oldL, l[1:])
					newL = append(newL, l[1:])
				case l == "":
					// a blank context line may have lost its leading space; the final split element is empty too
					if i == len(lines)-1 {
						i++
						continue
					}
					oldL = append(oldL, "")
					newL = append(newL, "")
				case strings.HasPrefix(l, "\\"):
				default:
					i = len(lines)
				}
				i++
			}
			// locate oldL in content
			at := -1
			match := func(pos int) bool {
				if pos < 0 || pos+len(oldL) > len(content) {
					return false
				}
				for k := range oldL {
					if content[pos+k] != oldL[k] {
						return false
					}
				}
				return true
			}
			guess := start - 1 + offset
			for d := 0; d < len(content)+1 && at < 0; d++ {
				if match(guess + d) {
					at = guess + d
				} else if match(guess - d) {
					at = guess - d
				}
			}
			if at < 0 {
				// trailing blank context lines are sometimes absent: retry without them
				for len(oldL) > 0 && oldL[len(oldL)-1] == "" && len(newL) > 0 && newL[len(newL)-1] == "" {
					oldL, newL = oldL[:len(oldL)-1], newL[:len(newL)-1]
					for d := 0; d < len(content)+1 && at < 0; d++ {
						if match(guess + d) {
							at = guess + d
						} else if match(guess - d) {
							at = guess - d
						}
					}
					if at >= 0 {
						break
					}
				}
			}
			if at < 0 {
				return nil, fmt.Errorf("hunk at line %d of %s does not apply", start, name)
			}
			nc := append([]string{}, content[:at]...)
			nc = append(nc, newL...)
			nc = append(nc, content[at+len(oldL):]...)
			content = nc
			offset += len(newL) - len(oldL)
		}
		out[abs] = []byte(strings.Join(content, "\n"))
	}
	if len(out) == 0 {
		return nil, fmt.Errorf("no file changes found in diff")
	}
	return out, nil
}
