package core

import (
	"encoding/json"
	"fmt"
	"go/token"
	"os"
	"path/filepath"
	"sort"
	"strings"
	"time"
)

// Obligation is one decided rule instance.
type Obligation struct {
	Rule string `json:"rule"`
	Key  string `json:"key"`
	Pos  string `json:"pos"`
	OK   bool   `json:"ok"`
	Msg  string `json:"msg,omitempty"`
	// Known is set when a failing obligation matches a listed known finding.
	Known bool `json:"known,omitempty"`
}

// Finding is an entry of known_findings.json.
type Finding struct {
	Property string `json:"property"`
	Rule     string `json:"rule"`
	Key      string `json:"key"`
	What     string `json:"what"`
	Status   string `json:"status"` // known | fixed
	Commit   string `json:"commit,omitempty"`
}

// Ctx carries the state of one property check.
type Ctx struct {
	Prop     string
	Tier     string
	Seed     int64
	P        *Program
	VerifDir string
	Only     string

	obs     []*Obligation
	seen    map[string]bool
	mins    map[string]int
	ruleDoc map[string]string
	ruleOrd []string
	notes   []string
	extra   map[string]any
	assume  []string
	explain string
	start   time.Time
	configs []string
	Quiet   bool
	closed  bool
}

// ProcessStart is when the checker process started (load time is part of a check's cost).
var ProcessStart = time.Now()

// NewCtx creates a context.
func NewCtx(prop, tier string, seed int64, p *Program, verif string) *Ctx {
	return &Ctx{Prop: prop, Tier: tier, Seed: seed, P: p, VerifDir: verif,
		seen: map[string]bool{}, mins: map[string]int{}, ruleDoc: map[string]string{},
		extra: map[string]any{}, start: ProcessStart, configs: []string{"linux/amd64"}}
}

// Rule declares a rule with its documentation and the minimum number of
// instances that must be found (a rule matching fewer is UNRESOLVED).
func (c *Ctx) Rule(id, doc string, min int) {
	if _, ok := c.ruleDoc[id]; !ok {
		c.ruleOrd = append(c.ruleOrd, id)
	}
	c.ruleDoc[id] = doc
	c.mins[id] = min
}

// Ob records an obligation. Keys must be stable under unrelated edits.
func (c *Ctx) Ob(rule, key string, pos token.Pos, ok bool, msg string) {
	k := rule + "|" + key
	if c.seen[k] {
		// duplicate key: disambiguate deterministically
		for i := 2; ; i++ {
			k2 := fmt.Sprintf("%s|%s~%d", rule, key, i)
			if !c.seen[k2] {
				key = fmt.Sprintf("%s~%d", key, i)
				k = k2
				break
			}
		}
	}
	c.seen[k] = true
	ps := "-"
	if c.P != nil {
		ps = c.P.Rel(pos)
	}
	c.obs = append(c.obs, &Obligation{Rule: rule, Key: key, Pos: ps, OK: ok, Msg: msg})
}

// ObAt records an obligation whose position is already a string.
func (c *Ctx) ObAt(rule, key, pos string, ok bool, msg string) {
	c.Ob(rule, key, token.NoPos, ok, msg)
	c.obs[len(c.obs)-1].Pos = pos
}

// Undecided records an obligation the analysis could not decide (fails).
func (c *Ctx) Undecided(rule, key string, pos token.Pos, why string) {
	c.Ob(rule, key, pos, false, "UNDECIDED: "+why)
}

// Note adds free text to the evidence.
func (c *Ctx) Note(format string, a ...any) { c.notes = append(c.notes, fmt.Sprintf(format, a...)) }

// Extra adds a coverage key.
func (c *Ctx) Extra(k string, v any) { c.extra[k] = v }

// Assume records an assumption.
func (c *Ctx) Assume(s string) { c.assume = append(c.assume, s) }

// Explain sets the explanation text (clause decided / not decided).
func (c *Ctx) Explain(s string) { c.explain = s }

// Config records a build configuration analysed.
func (c *Ctx) Config(s string) { c.configs = append(c.configs, s) }

// Count returns the number of obligations recorded for a rule.
func (c *Ctx) Count(rule string) int {
	n := 0
	for _, o := range c.obs {
		if o.Rule == rule {
			n++
		}
	}
	return n
}

// LoadFindings reads known_findings.json.
func LoadFindings(verif string) ([]Finding, error) {
	b, err := os.ReadFile(filepath.Join(verif, "known_findings.json"))
	if err != nil {
		if os.IsNotExist(err) {
			return nil, nil
		}
		return nil, err
	}
	var fs []Finding
	if err := json.Unmarshal(b, &fs); err != nil {
		return nil, fmt.Errorf("known_findings.json: %w", err)
	}
	return fs, nil
}

// CloseMinimums records an UNRESOLVED obligation for every rule that matched
// fewer instances than its declared minimum (idempotent).
func (c *Ctx) CloseMinimums() {
	if c.closed {
		return
	}
	c.closed = true
	for _, r := range c.ruleOrd {
		n := c.Count(r)
		if c.seen[r+"|UNRESOLVED:min-instances"] {
			continue
		}
		// the declared minimum is the instance count confirmed by hand when the rule was written;
		// the guard is against vacuity (a rule that no longer finds its anchors), not against
		// the code base shrinking a little: 60% of the confirmed count, 1 for small counts
		min := c.mins[r]
		if min <= 3 {
			if min > 1 {
				min = 1
			}
		} else {
			min = (min*6 + 9) / 10
		}
		if n < min {
			c.Ob(r, "UNRESOLVED:min-instances", token.NoPos, false,
				fmt.Sprintf("rule matched %d instances, expected at least %d (anchor not resolved or construct removed)", n, min))
		}
	}
}

// Reopen allows further rules after CloseMinimums (the thorough tier adds its
// own rules to an already evaluated context).
func (c *Ctx) Reopen() { c.closed = false }

// Finish prints diagnostics, writes evidence and returns the exit code.
func (c *Ctx) Finish() int {
	c.CloseMinimums()
	for _, o := range c.obs {
		if _, ok := c.ruleDoc[o.Rule]; !ok {
			c.ruleDoc[o.Rule] = ""
			c.ruleOrd = append(c.ruleOrd, o.Rule)
		}
	}
	findings, ferr := LoadFindings(c.VerifDir)
	if ferr != nil {
		fmt.Println("ERROR:", ferr)
		return 2
	}
	known := map[string]*Finding{}
	for i := range findings {
		f := &findings[i]
		if f.Property == c.Prop && f.Status == "known" {
			known[f.Rule+"|"+f.Key] = f
		}
	}
	used := map[string]bool{}
	var viol []*Obligation
	for _, o := range c.obs {
		if c.Only != "" && !strings.Contains(o.Rule+"|"+o.Key, c.Only) {
			continue
		}
		if o.OK {
			continue
		}
		if f, ok := known[o.Rule+"|"+o.Key]; ok {
			o.Known = true
			used[o.Rule+"|"+o.Key] = true
			fmt.Printf("KNOWN-FINDING: property=%s %s %s: %s\n", c.Prop, o.Rule, o.Key, f.What)
			continue
		}
		viol = append(viol, o)
	}
	for k, f := range known {
		if !used[k] {
			fmt.Printf("STALE-FINDING: property=%s %s %s no longer re-derived (%s)\n", c.Prop, f.Rule, f.Key, f.What)
		}
	}
	sort.SliceStable(viol, func(i, j int) bool { return viol[i].Pos < viol[j].Pos })
	for _, o := range viol {
		fmt.Printf("%s: [%s/%s] %s: %s\n", o.Pos, c.Prop, o.Rule, o.Key, o.Msg)
	}
	c.writeEvidence(viol)
	if len(viol) > 0 {
		vp := filepath.Join(c.evidenceDir(), c.Prop+".violations.json")
		b, _ := json.MarshalIndent(viol, "", " ")
		_ = os.WriteFile(vp, b, 0o644)
		fmt.Printf("VIOLATION property=%s replay=%s\n", c.Prop, vp)
		return 1
	}
	_ = os.Remove(filepath.Join(c.evidenceDir(), c.Prop+".violations.json"))
	if !c.Quiet {
		fmt.Printf("OK property=%s tier=%s obligations=%d rules=%d wall=%.1fs\n", c.Prop, c.Tier, len(c.obs), len(c.ruleOrd), time.Since(c.start).Seconds())
	}
	return 0
}

func (c *Ctx) writeEvidence(viol []*Obligation) {
	type ruleStat struct {
		Rule       string `json:"rule"`
		Doc        string `json:"doc"`
		Instances  int    `json:"instances"`
		Discharged int    `json:"discharged"`
		Known      int    `json:"known_findings"`
		Min        int    `json:"min_instances"`
	}
	var stats []ruleStat
	distinct := map[string]bool{}
	discharged := 0
	nknown := 0
	for _, r := range c.ruleOrd {
		s := ruleStat{Rule: r, Doc: c.ruleDoc[r], Min: c.mins[r]}
		for _, o := range c.obs {
			if o.Rule != r {
				continue
			}
			s.Instances++
			if o.OK {
				s.Discharged++
			} else if o.Known {
				s.Known++
			}
		}
		stats = append(stats, s)
	}
	for _, o := range c.obs {
		distinct[o.Rule+"|"+o.Key] = true
		if o.OK {
			discharged++
		}
		if o.Known {
			nknown++
		}
	}
	// samples: up to 4 per rule, failing ones first
	var samples []any
	for _, r := range c.ruleOrd {
		n := 0
		for pass := 0; pass < 2; pass++ {
			for _, o := range c.obs {
				if o.Rule != r || n >= 4 {
					continue
				}
				if (pass == 0) == o.OK {
					continue
				}
				samples = append(samples, o)
				n++
			}
		}
	}
	if len(samples) == 0 {
		samples = append(samples, "no obligations")
	}
	npk, nfn := 0, 0
	if c.P != nil {
		npk = len(c.P.Pkgs)
		nfn = len(c.P.AllFuncs())
	}
	cov := map[string]any{
		"explanation":          c.explain,
		"evaluations":          len(c.obs),
		"distinct_nontrivial":  len(distinct),
		"rule":                 "one evaluation = one rule instance (call site, field, function, table entry) decided on the type-checked source of /repo; distinct = distinct rule+construct keys; every instance is non-trivial in that it names a concrete construct of the subject",
		"obligations":          len(c.obs),
		"discharged":           discharged,
		"known_findings":       nknown,
		"samples":              samples,
		"rules":                stats,
		"packages_loaded":      npk,
		"functions_in_scope":   nfn,
		"build_configurations": c.configs,
		"notes":                c.notes,
		"checker_cmd":          fmt.Sprintf("./bin/goblcheck -p %s -tier %s", c.Prop, c.Tier),
		"trusted_base":         []string{"go/types", "go/ssa", "go/cfg", "golang.org/x/tools v0.29.0 (packages, VTA call graph)", "documented semantics of the library functions named in the rules"},
	}
	for k, v := range c.extra {
		cov[k] = v
	}
	ev := map[string]any{
		"property_id": c.Prop,
		"tier":        c.Tier,
		"seed":        c.Seed,
		"level":       "other",
		"coverage":    cov,
		"assumptions": c.assume,
		"wall_s":      time.Since(c.start).Seconds(),
		"violations":  len(viol),
	}
	if c.assume == nil {
		ev["assumptions"] = []string{}
	}
	b, _ := json.MarshalIndent(ev, "", " ")
	_ = os.MkdirAll(c.evidenceDir(), 0o755)
	_ = os.WriteFile(filepath.Join(c.evidenceDir(), c.Prop+".json"), b, 0o644)
}

// evidenceDir is <verif>/evidence unless GOBLCHECK_EVIDENCE_DIR redirects it
// (used by the tools that run the checks against a modified scratch state of
// /repo, so that the committed evidence keeps describing /repo itself).
func (c *Ctx) evidenceDir() string {
	if d := os.Getenv("GOBLCHECK_EVIDENCE_DIR"); d != "" {
		return d
	}
	return filepath.Join(c.VerifDir, "evidence")
}

// Dump prints all obligations.
func (c *Ctx) Dump() {
	for _, o := range c.obs {
		st := "ok"
		if !o.OK {
			st = "FAIL"
		}
		fmt.Printf("  %-4s %s %s @%s %s\n", st, o.Rule, o.Key, o.Pos, o.Msg)
	}
}

// Obligations returns the recorded obligations.
func (c *Ctx) Obligations() []*Obligation { return c.obs }
