package core

import (
	"go/ast"
	"go/token"
	"go/types"
	"sort"
)

// DefSite is one assignment to a local variable.
type DefSite struct {
	Pos  token.Pos
	RHS  ast.Expr // the assigned expression; for tuple assignments the call
	Idx  int      // index of the variable among the LHS (tuple position)
	N    int      // number of LHS
	Stmt ast.Node
}

// LocalDefs collects the assignments to local variables in a body (closures included).
type LocalDefs struct {
	Info *types.Info
	defs map[*types.Var][]DefSite
}

// NewLocalDefs scans a function body.
func NewLocalDefs(info *types.Info, body ast.Node) *LocalDefs {
	ld := &LocalDefs{Info: info, defs: map[*types.Var][]DefSite{}}
	add := func(lhs ast.Expr, d DefSite) {
		id, ok := lhs.(*ast.Ident)
		if !ok || id.Name == "_" {
			return
		}
		v, _ := info.Defs[id].(*types.Var)
		if v == nil {
			v, _ = info.Uses[id].(*types.Var)
		}
		if v != nil {
			ld.defs[v] = append(ld.defs[v], d)
		}
	}
	ast.Inspect(body, func(n ast.Node) bool {
		switch s := n.(type) {
		case *ast.AssignStmt:
			if len(s.Lhs) == len(s.Rhs) {
				for i, l := range s.Lhs {
					add(l, DefSite{Pos: s.Pos(), RHS: s.Rhs[i], Idx: 0, N: 1, Stmt: s})
				}
			} else if len(s.Rhs) == 1 {
				for i, l := range s.Lhs {
					add(l, DefSite{Pos: s.Pos(), RHS: s.Rhs[0], Idx: i, N: len(s.Lhs), Stmt: s})
				}
			}
		case *ast.ValueSpec:
			for i, nm := range s.Names {
				var rhs ast.Expr
				if len(s.Values) == len(s.Names) {
					rhs = s.Values[i]
					add(nm, DefSite{Pos: s.Pos(), RHS: rhs, N: 1, Stmt: s})
				} else if len(s.Values) == 1 {
					add(nm, DefSite{Pos: s.Pos(), RHS: s.Values[0], Idx: i, N: len(s.Names), Stmt: s})
				} else {
					add(nm, DefSite{Pos: s.Pos(), RHS: nil, N: 1, Stmt: s})
				}
			}
		case *ast.RangeStmt:
			if s.Key != nil {
				add(s.Key, DefSite{Pos: s.Pos(), RHS: s.X, Idx: 0, N: 2, Stmt: s})
			}
			if s.Value != nil {
				add(s.Value, DefSite{Pos: s.Pos(), RHS: s.X, Idx: 1, N: 2, Stmt: s})
			}
		}
		return true
	})
	for v := range ld.defs {
		d := ld.defs[v]
		sort.Slice(d, func(i, j int) bool { return d[i].Pos < d[j].Pos })
	}
	return ld
}

// All returns all definitions of a variable.
func (ld *LocalDefs) All(v *types.Var) []DefSite { return ld.defs[v] }

// Before returns the textually nearest definition of v before pos.
func (ld *LocalDefs) Before(v *types.Var, pos token.Pos) (DefSite, bool) {
	d := ld.defs[v]
	for i := len(d) - 1; i >= 0; i-- {
		if d[i].Pos < pos {
			return d[i], true
		}
	}
	return DefSite{}, false
}

// Resolve follows plain local copies of an identifier back to the defining
// expression (nearest textual definition), at most depth steps.
func (ld *LocalDefs) Resolve(e ast.Expr, depth int) ast.Expr {
	for i := 0; i < depth; i++ {
		id, ok := ast.Unparen(e).(*ast.Ident)
		if !ok {
			return e
		}
		v, _ := ld.Info.Uses[id].(*types.Var)
		if v == nil {
			return e
		}
		d, ok := ld.Before(v, id.Pos())
		if !ok || d.RHS == nil {
			return e
		}
		if _, isRange := d.Stmt.(*ast.RangeStmt); isRange {
			return e
		}
		e = d.RHS
	}
	return e
}

// VarOf returns the variable an identifier expression denotes.
func VarOf(info *types.Info, e ast.Expr) *types.Var {
	id, ok := ast.Unparen(e).(*ast.Ident)
	if !ok {
		return nil
	}
	v, _ := info.Uses[id].(*types.Var)
	if v == nil {
		v, _ = info.Defs[id].(*types.Var)
	}
	return v
}

// CallsTo lists the calls in body whose static callee satisfies pred.
func CallsTo(info *types.Info, body ast.Node, pred func(*types.Func) bool) []*ast.CallExpr {
	var out []*ast.CallExpr
	ast.Inspect(body, func(n ast.Node) bool {
		if c, ok := n.(*ast.CallExpr); ok {
			if fn := Callee(info, c); fn != nil && pred(fn) {
				out = append(out, c)
			}
		}
		return true
	})
	return out
}

// RecvExpr returns the receiver expression of a method call.
func RecvExpr(call *ast.CallExpr) ast.Expr {
	if se, ok := ast.Unparen(call.Fun).(*ast.SelectorExpr); ok {
		return se.X
	}
	return nil
}

// IsFieldOfVar reports whether e is exactly <v>.<field>.
func IsFieldOfVar(info *types.Info, e ast.Expr, v *types.Var, field string) bool {
	se, ok := ast.Unparen(e).(*ast.SelectorExpr)
	if !ok {
		return false
	}
	f := FieldOf(info, se)
	if f == nil || f.Name() != field {
		return false
	}
	return VarOf(info, se.X) == v && v != nil
}

// FieldPath renders a selector chain rooted at a variable as "v.A.B" using
// field names, or "" if e is not such a chain.
func FieldPath(info *types.Info, e ast.Expr) (root *types.Var, path string) {
	e = ast.Unparen(e)
	switch x := e.(type) {
	case *ast.Ident:
		return VarOf(info, x), ""
	case *ast.SelectorExpr:
		f := FieldOf(info, x)
		if f == nil {
			return nil, ""
		}
		r, p := FieldPath(info, x.X)
		if r == nil {
			return nil, ""
		}
		if p == "" {
			return r, f.Name()
		}
		return r, p + "." + f.Name()
	case *ast.StarExpr:
		return FieldPath(info, x.X)
	}
	return nil, ""
}

// DefPosIn returns the position of the identifier that declares v inside root
// (on an inlined declaration the syntax has positions of its own, which differ
// from the object's recorded position); v.Pos() when it is not declared there.
func DefPosIn(info *types.Info, root ast.Node, v *types.Var) token.Pos {
	if v == nil {
		return token.NoPos
	}
	pos := v.Pos()
	found := false
	ast.Inspect(root, func(n ast.Node) bool {
		if id, ok := n.(*ast.Ident); ok && !found && info.Defs[id] == types.Object(v) {
			pos, found = id.Pos(), true
		}
		return true
	})
	return pos
}
