package core

import (
	"go/ast"
	"go/token"
	"go/types"
	"sort"
)

// RegType is a type registered with the schema package.
type RegType struct {
	Named *types.Named
	Pos   token.Pos
	Func  string // Register, RegisterIn ...
	Call  *ast.CallExpr
	Info  *types.Info
}

// RegisteredTypes finds every type passed to schema.Register* in non-test code.
func (p *Program) RegisteredTypes() []RegType {
	var out []RegType
	for _, fd := range p.AllFuncs() {
		info := fd.Pkg.TypesInfo
		ast.Inspect(fd.Decl.Body, func(n ast.Node) bool {
			call, ok := n.(*ast.CallExpr)
			if !ok {
				return true
			}
			fn := Callee(info, call)
			if fn == nil || fn.Pkg() == nil || fn.Pkg().Path() != ModPath+"/schema" {
				return true
			}
			if len(fn.Name()) < 8 || fn.Name()[:8] != "Register" {
				return true
			}
			for _, a := range call.Args[1:] {
				t := info.TypeOf(a)
				if t == nil {
					continue
				}
				if n, _ := StructOf(t); n != nil {
					out = append(out, RegType{Named: n, Pos: a.Pos(), Func: fn.Name(), Call: call, Info: info})
				} else if pt, ok := t.(*types.Pointer); ok {
					if n, ok := pt.Elem().(*types.Named); ok {
						out = append(out, RegType{Named: n, Pos: a.Pos(), Func: fn.Name(), Call: call, Info: info})
					}
				} else if n, ok := t.(*types.Named); ok {
					out = append(out, RegType{Named: n, Pos: a.Pos(), Func: fn.Name(), Call: call, Info: info})
				}
			}
			return true
		})
	}
	sort.Slice(out, func(i, j int) bool {
		return out[i].Named.Obj().Pkg().Path()+"."+out[i].Named.Obj().Name() < out[j].Named.Obj().Pkg().Path()+"."+out[j].Named.Obj().Name()
	})
	return out
}

// TypeEdge is one step of a path through the type graph.
type TypeEdge struct {
	From  *types.Named
	Field *types.Var
	Tag   string
}

// StructClosure walks from the given named types through the fields of module
// struct types (pointers, slices, arrays and map values followed) and returns
// every module named struct type reached, with one path to each.
func StructClosure(roots []*types.Named, follow func(from *types.Named, f *types.Var, tag string) bool) (order []*types.Named, path map[*types.Named][]TypeEdge) {
	path = map[*types.Named][]TypeEdge{}
	seen := map[*types.Named]bool{}
	var queue []*types.Named
	for _, r := range roots {
		if !seen[r] {
			seen[r] = true
			queue = append(queue, r)
			path[r] = nil
		}
	}
	for len(queue) > 0 {
		n := queue[0]
		queue = queue[1:]
		order = append(order, n)
		st, ok := n.Underlying().(*types.Struct)
		if !ok {
			// named slice / map / pointer types: follow their elements
			for _, m := range NamedIn(n.Underlying()) {
				if !InModule(m.Obj().Pkg()) || seen[m] {
					continue
				}
				seen[m] = true
				path[m] = append([]TypeEdge{}, path[n]...)
				queue = append(queue, m)
			}
			continue
		}
		for i := 0; i < st.NumFields(); i++ {
			f := st.Field(i)
			if follow != nil && !follow(n, f, st.Tag(i)) {
				continue
			}
			for _, m := range NamedIn(f.Type()) {
				if !InModule(m.Obj().Pkg()) || seen[m] {
					continue
				}
				seen[m] = true
				path[m] = append(append([]TypeEdge{}, path[n]...), TypeEdge{n, f, st.Tag(i)})
				queue = append(queue, m)
			}
		}
	}
	return order, path
}

// NamedIn returns the named types directly inside t (through pointer, slice,
// array, map key/value).
func NamedIn(t types.Type) []*types.Named {
	switch x := t.(type) {
	case *types.Named:
		return []*types.Named{x}
	case *types.Alias:
		return NamedIn(types.Unalias(x))
	case *types.Pointer:
		return NamedIn(x.Elem())
	case *types.Slice:
		return NamedIn(x.Elem())
	case *types.Array:
		return NamedIn(x.Elem())
	case *types.Map:
		return append(NamedIn(x.Key()), NamedIn(x.Elem())...)
	}
	return nil
}

// TypeName renders pkgrel.Name.
func TypeName(n *types.Named) string {
	if n.Obj().Pkg() == nil {
		return n.Obj().Name()
	}
	return RelPkg(n.Obj().Pkg().Path()) + "." + n.Obj().Name()
}

// TypeString renders a type with module-relative package qualifiers.
func TypeString(t types.Type) string {
	return types.TypeString(t, func(p *types.Package) string { return RelPkg(p.Path()) })
}
