package core

import (
	"go/ast"
	"go/token"
	"go/types"
	"reflect"
	"strings"
)

// Origin says that a value derives from Root by following Path (field names,
// "[]" for an element, "[k]" for a key).
type Origin struct {
	Root *types.Var
	Path string
}

func (o Origin) ext(s string) Origin {
	if o.Path == "" {
		return Origin{o.Root, s}
	}
	return Origin{o.Root, o.Path + "." + s}
}

// OriginMap derives, for the local variables of a function body, which part of
// the given root variables they hold: range variables, index reads, and plain
// copies are followed; method calls on a value keep the value's origin
// (h.UUID.String() derives from h.UUID).
type OriginMap struct {
	Info *types.Info
	vars map[*types.Var]Origin
}

// NewOriginMap computes origins in body relative to roots.
func NewOriginMap(info *types.Info, body *ast.BlockStmt, roots ...*types.Var) *OriginMap {
	om := &OriginMap{Info: info, vars: map[*types.Var]Origin{}}
	for _, r := range roots {
		om.vars[r] = Origin{r, ""}
	}
	def := func(id ast.Expr, o Origin) {
		i, ok := id.(*ast.Ident)
		if !ok || i.Name == "_" {
			return
		}
		v, _ := info.Defs[i].(*types.Var)
		if v == nil {
			v, _ = info.Uses[i].(*types.Var)
		}
		if v != nil {
			if _, isRoot := om.vars[v]; !isRoot {
				om.vars[v] = o
			}
		}
	}
	// iterate to a fixpoint (two passes suffice for nested ranges in source order)
	for pass := 0; pass < 3; pass++ {
		ast.Inspect(body, func(n ast.Node) bool {
			switch s := n.(type) {
			case *ast.RangeStmt:
				if o, ok := om.Of(s.X); ok {
					if s.Key != nil {
						if _, isMap := info.TypeOf(s.X).Underlying().(*types.Map); isMap {
							def(s.Key, o.ext("[k]"))
						}
					}
					if s.Value != nil {
						def(s.Value, o.ext("[]"))
					}
				}
			case *ast.AssignStmt:
				if len(s.Rhs) == 1 && len(s.Lhs) >= 1 {
					if o, ok := om.Of(s.Rhs[0]); ok {
						def(s.Lhs[0], o)
					}
				} else if len(s.Rhs) == len(s.Lhs) {
					for i := range s.Rhs {
						if o, ok := om.Of(s.Rhs[i]); ok {
							def(s.Lhs[i], o)
						}
					}
				}
			}
			return true
		})
	}
	return om
}

// Of returns the origin of an expression.
func (om *OriginMap) Of(e ast.Expr) (Origin, bool) {
	e = ast.Unparen(e)
	switch x := e.(type) {
	case *ast.Ident:
		v, _ := om.Info.Uses[x].(*types.Var)
		if v == nil {
			v, _ = om.Info.Defs[x].(*types.Var)
		}
		o, ok := om.vars[v]
		return o, ok && v != nil
	case *ast.SelectorExpr:
		sel := om.Info.Selections[x]
		if sel == nil {
			return Origin{}, false
		}
		o, ok := om.Of(x.X)
		if !ok {
			return Origin{}, false
		}
		if sel.Kind() == types.FieldVal {
			return o.ext(sel.Obj().Name()), true
		}
		return o, true // method value on derived value
	case *ast.IndexExpr:
		o, ok := om.Of(x.X)
		if !ok {
			return Origin{}, false
		}
		return o.ext("[]"), true
	case *ast.StarExpr:
		return om.Of(x.X)
	case *ast.UnaryExpr:
		if x.Op == token.AND {
			return om.Of(x.X)
		}
	case *ast.CallExpr:
		// method call on a derived value, or conversion of a derived value
		if se, ok := ast.Unparen(x.Fun).(*ast.SelectorExpr); ok {
			if sel := om.Info.Selections[se]; sel != nil && sel.Kind() == types.MethodVal {
				// a projection of the value (String(), Equals ...): only results of
				// basic type keep the origin; Clone() and friends do not
				if t := om.Info.TypeOf(x); t != nil {
					if _, isBasic := t.Underlying().(*types.Basic); isBasic {
						return om.Of(se.X)
					}
				}
				return Origin{}, false
			}
		}
		if tv, ok := om.Info.Types[x.Fun]; ok && tv.IsType() && len(x.Args) == 1 {
			return om.Of(x.Args[0])
		}
	}
	return Origin{}, false
}

// ComparedPaths returns the set of paths P such that the body contains an
// equality comparison (== or !=) between a value derived from a.P and one
// derived from b.P.
func (om *OriginMap) ComparedPaths(body ast.Node, a, b *types.Var) map[string]token.Pos {
	out := map[string]token.Pos{}
	ast.Inspect(body, func(n ast.Node) bool {
		// slices.Contains(S, x) / slices.Index(S, x): the elements of S are compared with x
		if call, ok := n.(*ast.CallExpr); ok && len(call.Args) == 2 {
			if fn := Callee(om.Info, call); fn != nil && fn.Pkg() != nil && fn.Pkg().Path() == "slices" && (fn.Name() == "Contains" || fn.Name() == "Index") {
				os, ok1 := om.Of(call.Args[0])
				oe, ok2 := om.Of(call.Args[1])
				if ok1 && ok2 && os.Path+".[]" == oe.Path && ((os.Root == a && oe.Root == b) || (os.Root == b && oe.Root == a)) {
					out[oe.Path] = call.Pos()
				}
			}
			return true
		}
		be, ok := n.(*ast.BinaryExpr)
		if !ok || (be.Op != token.EQL && be.Op != token.NEQ) {
			return true
		}
		ox, ok1 := om.Of(be.X)
		oy, ok2 := om.Of(be.Y)
		if !ok1 || !ok2 || ox.Path != oy.Path {
			return true
		}
		if (ox.Root == a && oy.Root == b) || (ox.Root == b && oy.Root == a) {
			out[ox.Path] = be.Pos()
		}
		return true
	})
	return out
}

// JSONName returns the JSON member name of a struct field ("" when the field
// is not serialised) and whether it has omitempty.
func JSONName(tag string, fieldName string) (string, bool) {
	t, ok := reflect.StructTag(tag).Lookup("json")
	if !ok {
		return fieldName, false
	}
	parts := strings.Split(t, ",")
	if parts[0] == "-" && len(parts) == 1 {
		return "", false
	}
	name := parts[0]
	if name == "" {
		name = fieldName
	}
	omit := false
	for _, p := range parts[1:] {
		if p == "omitempty" {
			omit = true
		}
	}
	return name, omit
}

// StructOf returns the struct underlying a named type (pointer stripped).
func StructOf(t types.Type) (*types.Named, *types.Struct) {
	if p, ok := t.(*types.Pointer); ok {
		t = p.Elem()
	}
	n, ok := t.(*types.Named)
	if !ok {
		return nil, nil
	}
	s, _ := n.Underlying().(*types.Struct)
	return n, s
}

// ElemStruct returns the named struct type of the elements of a slice, array
// or map type (pointer stripped), or nil.
func ElemStruct(t types.Type) (*types.Named, *types.Struct) {
	switch u := t.Underlying().(type) {
	case *types.Slice:
		return StructOf(u.Elem())
	case *types.Array:
		return StructOf(u.Elem())
	case *types.Map:
		return StructOf(u.Elem())
	}
	return nil, nil
}
