package core

import (
	"go/ast"
	"go/constant"
	"go/token"
	"go/types"
)

// AbsEval evaluates a small, loop-free function body for concrete values of
// designated opaque expressions (finite abstract evaluation): the rule supplies
// Atom, which gives a value (int64 or bool) to expressions it recognises — a
// call whose result is being enumerated, a field, a quantity of one operand —
// and the evaluator runs if / switch / return / local assignments over them.
// ok is false as soon as control depends on something without a value.
type AbsEval struct {
	Info *types.Info
	Atom func(e ast.Expr) (any, bool)
	// Branch, when set, turns a break/continue into an outcome (values returned
	// by Run); without it such statements cannot be evaluated.
	Branch func(b *ast.BranchStmt) ([]any, bool)
	vars   map[*types.Var]any

	preset map[*types.Var]any
}

// RunList executes a statement list (e.g. a loop body for one element); the
// second result tells whether an outcome (return or Branch) was reached.
func (a *AbsEval) RunList(list []ast.Stmt) ([]any, bool, bool) {
	a.vars = map[*types.Var]any{}
	for k, v := range a.preset {
		a.vars[k] = v
	}
	return a.exec(list)
}

// Set gives a variable an initial value (before Run).
func (a *AbsEval) Set(v *types.Var, val any) {
	if a.preset == nil {
		a.preset = map[*types.Var]any{}
	}
	a.preset[v] = val
}

// Run executes the body and returns the values of the first return reached.
func (a *AbsEval) Run(body *ast.BlockStmt) ([]any, bool) {
	a.vars = map[*types.Var]any{}
	for k, v := range a.preset {
		a.vars[k] = v
	}
	ret, returned, ok := a.exec(body.List)
	return ret, ok && returned
}

func (a *AbsEval) exec(list []ast.Stmt) ([]any, bool, bool) {
	for _, s := range list {
		switch x := s.(type) {
		case *ast.ReturnStmt:
			var out []any
			for _, r := range x.Results {
				v, ok := a.Eval(r)
				if !ok {
					return nil, true, false
				}
				out = append(out, v)
			}
			return out, true, true
		case *ast.BlockStmt:
			if r, ret, ok := a.exec(x.List); ret || !ok {
				return r, ret, ok
			}
		case *ast.LabeledStmt:
			if r, ret, ok := a.exec([]ast.Stmt{x.Stmt}); ret || !ok {
				return r, ret, ok
			}
		case *ast.IfStmt:
			if x.Init != nil {
				if r, ret, ok := a.exec([]ast.Stmt{x.Init}); ret || !ok {
					return r, ret, ok
				}
			}
			c, ok := a.Eval(x.Cond)
			cb, isB := c.(bool)
			if !ok || !isB {
				return nil, false, false
			}
			if cb {
				if r, ret, ok := a.exec(x.Body.List); ret || !ok {
					return r, ret, ok
				}
			} else if x.Else != nil {
				if r, ret, ok := a.exec([]ast.Stmt{x.Else}); ret || !ok {
					return r, ret, ok
				}
			}
		case *ast.SwitchStmt:
			if x.Init != nil {
				if r, ret, ok := a.exec([]ast.Stmt{x.Init}); ret || !ok {
					return r, ret, ok
				}
			}
			var tag any
			if x.Tag != nil {
				t, ok := a.Eval(x.Tag)
				if !ok {
					return nil, false, false
				}
				tag = t
			}
			var chosen *ast.CaseClause
			var deflt *ast.CaseClause
			for _, cc := range x.Body.List {
				cl := cc.(*ast.CaseClause)
				if cl.List == nil {
					deflt = cl
					continue
				}
				for _, ce := range cl.List {
					v, ok := a.Eval(ce)
					if !ok {
						return nil, false, false
					}
					hit := false
					if x.Tag != nil {
						hit = absEqual(tag, v)
					} else if b, isB := v.(bool); isB {
						hit = b
					}
					if hit && chosen == nil {
						chosen = cl
					}
				}
				if chosen != nil {
					break
				}
			}
			if chosen == nil {
				chosen = deflt
			}
			if chosen != nil {
				r, ret, ok := a.exec(chosen.Body)
				if ret || !ok {
					return r, ret, ok
				}
			}
		case *ast.AssignStmt:
			if len(x.Lhs) == len(x.Rhs) {
				for i, l := range x.Lhs {
					id, isID := ast.Unparen(l).(*ast.Ident)
					if !isID {
						continue
					}
					v, _ := a.Info.Defs[id].(*types.Var)
					if v == nil {
						v, _ = a.Info.Uses[id].(*types.Var)
					}
					if v == nil {
						continue
					}
					if val, ok := a.Eval(x.Rhs[i]); ok {
						a.vars[v] = val
					} else {
						delete(a.vars, v)
						a.vars[v] = nil
					}
				}
			}
		case *ast.DeclStmt, *ast.ExprStmt, *ast.EmptyStmt, *ast.IncDecStmt:
		case *ast.BranchStmt:
			if a.Branch != nil {
				if v, ok := a.Branch(x); ok {
					return v, true, true
				}
			}
			return nil, false, false
		case *ast.ForStmt, *ast.RangeStmt, *ast.TypeSwitchStmt, *ast.SelectStmt, *ast.GoStmt, *ast.DeferStmt:
			return nil, false, false
		}
	}
	return nil, false, true
}

func absEqual(x, y any) bool {
	switch a := x.(type) {
	case int64:
		b, ok := y.(int64)
		return ok && a == b
	case bool:
		b, ok := y.(bool)
		return ok && a == b
	case string:
		b, ok := y.(string)
		return ok && a == b
	}
	return false
}

// Eval evaluates an expression to int64, bool or string.
func (a *AbsEval) Eval(e ast.Expr) (any, bool) {
	e = ast.Unparen(e)
	if tv, ok := a.Info.Types[e]; ok && tv.Value != nil {
		switch tv.Value.Kind() {
		case constant.Int:
			if v, ok := constant.Int64Val(tv.Value); ok {
				return v, true
			}
		case constant.Bool:
			return constant.BoolVal(tv.Value), true
		case constant.String:
			return constant.StringVal(tv.Value), true
		}
	}
	if a.Atom != nil {
		if v, ok := a.Atom(e); ok {
			return v, true
		}
	}
	switch x := e.(type) {
	case *ast.Ident:
		if v, ok := a.Info.Uses[x].(*types.Var); ok {
			if val, has := a.vars[v]; has && val != nil {
				return val, true
			}
		}
	case *ast.UnaryExpr:
		v, ok := a.Eval(x.X)
		if !ok {
			return nil, false
		}
		switch x.Op {
		case token.NOT:
			if b, isB := v.(bool); isB {
				return !b, true
			}
		case token.SUB:
			if n, isN := v.(int64); isN {
				return -n, true
			}
		case token.ADD:
			return v, true
		}
	case *ast.BinaryExpr:
		if x.Op == token.LAND || x.Op == token.LOR {
			l, ok := a.Eval(x.X)
			lb, isB := l.(bool)
			if !ok || !isB {
				return nil, false
			}
			if x.Op == token.LAND && !lb {
				return false, true
			}
			if x.Op == token.LOR && lb {
				return true, true
			}
			r, ok := a.Eval(x.Y)
			rb, isB := r.(bool)
			if !ok || !isB {
				return nil, false
			}
			return rb, true
		}
		l, ok1 := a.Eval(x.X)
		r, ok2 := a.Eval(x.Y)
		if !ok1 || !ok2 {
			return nil, false
		}
		switch x.Op {
		case token.EQL:
			return absEqual(l, r), true
		case token.NEQ:
			return !absEqual(l, r), true
		}
		ln, okL := l.(int64)
		rn, okR := r.(int64)
		if !okL || !okR {
			return nil, false
		}
		switch x.Op {
		case token.LSS:
			return ln < rn, true
		case token.GTR:
			return ln > rn, true
		case token.LEQ:
			return ln <= rn, true
		case token.GEQ:
			return ln >= rn, true
		case token.ADD:
			return ln + rn, true
		case token.SUB:
			return ln - rn, true
		case token.MUL:
			return ln * rn, true
		}
	case *ast.CallExpr:
		// conversion of an evaluable value
		if tv, ok := a.Info.Types[x.Fun]; ok && tv.IsType() && len(x.Args) == 1 {
			return a.Eval(x.Args[0])
		}
	}
	return nil, false
}
