package core

import (
	"go/ast"
	"go/constant"
	"go/token"
	"go/types"
)

// AbsEval evaluates a small, loop-free function body for concrete values of
// designated opaque expressions (finite abstract evaluation): the rule supplies
// Atom, which gives a value (int64 or bool) to expressions it recognises — a
// call whose result is being enumerated, a field, a quantity of one operand —
// and the evaluator runs if / switch / return / local assignments over them.
// ok is false as soon as control depends on something without a value.
type AbsEval struct {
	Info *types.Info
	Atom func(e ast.Expr) (any, bool)
	// Branch, when set, turns a break/continue into an outcome (values returned
	// by Run); without it such statements cannot be evaluated.
	Branch func(b *ast.BranchStmt) ([]any, bool)
	// Cell, when set, names the non-local storage locations (fields) whose value
	// is followed through assignments: it returns a key for such an lvalue.
	Cell func(e ast.Expr) (string, bool)
	// SkipLoop, when set and true for a nested loop, lets the evaluation continue
	// past it: everything the loop assigns (locals, cells) becomes unknown.
	SkipLoop func(s ast.Stmt) bool
	// UnknownIf, when set and true for an if statement whose condition cannot be
	// evaluated, lets the evaluation go on after the statement with everything
	// either branch assigns forgotten (the values after it over-approximate both).
	UnknownIf func(s *ast.IfStmt) bool
	// Zero, when set, gives the zero value of a declared variable's type
	// (`var x T`) for types other than pointers, booleans, integers and strings.
	Zero func(t types.Type) (any, bool)
	// Tuple, when set, gives the values of a multi-value call (`a, b := f(x)`).
	Tuple func(call *ast.CallExpr) ([]any, bool)
	// Effect, when set, is told of every call made as a statement (a write to a
	// buffer, say); false stops the evaluation as undecidable.
	Effect func(call *ast.CallExpr) bool
	vars     map[*types.Var]any
	cells    map[string]any

	preset     map[*types.Var]any
	presetCell map[string]any
}

// SetCell gives a followed storage location its initial value.
func (a *AbsEval) SetCell(key string, val any) {
	if a.presetCell == nil {
		a.presetCell = map[string]any{}
	}
	a.presetCell[key] = val
}

// CellValue is the value of a followed location after Run / RunList (nil: unknown).
func (a *AbsEval) CellValue(key string) any { return a.cells[key] }

// VarValue is the value of a local after Run / RunList (nil: unknown).
func (a *AbsEval) VarValue(v *types.Var) any { return a.vars[v] }

func (a *AbsEval) reset() {
	a.vars = map[*types.Var]any{}
	for k, v := range a.preset {
		a.vars[k] = v
	}
	a.cells = map[string]any{}
	for k, v := range a.presetCell {
		a.cells[k] = v
	}
}

// havoc forgets everything assigned below n.
func (a *AbsEval) havoc(n ast.Node) {
	ast.Inspect(n, func(m ast.Node) bool {
		var lhs []ast.Expr
		switch x := m.(type) {
		case *ast.AssignStmt:
			lhs = x.Lhs
		case *ast.IncDecStmt:
			lhs = []ast.Expr{x.X}
		case *ast.RangeStmt:
			lhs = []ast.Expr{x.Key, x.Value}
		}
		for _, l := range lhs {
			if l == nil {
				continue
			}
			if id, ok := ast.Unparen(l).(*ast.Ident); ok {
				v, _ := a.Info.Defs[id].(*types.Var)
				if v == nil {
					v, _ = a.Info.Uses[id].(*types.Var)
				}
				if v != nil {
					a.vars[v] = nil
				}
				continue
			}
			if a.Cell != nil {
				if k, ok := a.Cell(l); ok {
					a.cells[k] = nil
				}
			}
		}
		return true
	})
}

// AbsPtr is the address of a value (the result of &x for a local x).
type AbsPtr struct{ Elem any }

// RunMore executes a further statement list without forgetting the values left
// by the previous run (the next iteration of a loop, say).
func (a *AbsEval) RunMore(list []ast.Stmt) ([]any, bool, bool) {
	if a.vars == nil {
		a.reset()
	}
	return a.exec(list)
}

// RunList executes a statement list (e.g. a loop body for one element); the
// second result tells whether an outcome (return or Branch) was reached.
func (a *AbsEval) RunList(list []ast.Stmt) ([]any, bool, bool) {
	a.reset()
	return a.exec(list)
}

// Set gives a variable an initial value (before Run).
func (a *AbsEval) Set(v *types.Var, val any) {
	if a.preset == nil {
		a.preset = map[*types.Var]any{}
	}
	a.preset[v] = val
}

// Run executes the body and returns the values of the first return reached.
func (a *AbsEval) Run(body *ast.BlockStmt) ([]any, bool) {
	a.reset()
	ret, returned, ok := a.exec(body.List)
	return ret, ok && returned
}

func (a *AbsEval) exec(list []ast.Stmt) ([]any, bool, bool) {
	if a.UnknownIf == nil {
		return a.exec1(list)
	}
	// tolerant mode: a compound statement that cannot be evaluated is passed over,
	// forgetting everything it assigns
	for _, s := range list {
		switch s.(type) {
		case *ast.IfStmt, *ast.SwitchStmt, *ast.LabeledStmt, *ast.BlockStmt, *ast.TypeSwitchStmt, *ast.SelectStmt:
			save, saveCells := a.vars, a.cells
			a.vars, a.cells = map[*types.Var]any{}, map[string]any{}
			for k, v := range save {
				a.vars[k] = v
			}
			for k, v := range saveCells {
				a.cells[k] = v
			}
			r, ret, ok := a.exec1([]ast.Stmt{s})
			if !ok {
				a.vars, a.cells = save, saveCells
				a.havoc(s)
				continue
			}
			if ret {
				return r, ret, ok
			}
		default:
			if r, ret, ok := a.exec1([]ast.Stmt{s}); ret || !ok {
				return r, ret, ok
			}
		}
	}
	return nil, false, true
}

func (a *AbsEval) exec1(list []ast.Stmt) ([]any, bool, bool) {
stmts:
	for _, s := range list {
		switch x := s.(type) {
		case *ast.ReturnStmt:
			var out []any
			for _, r := range x.Results {
				v, ok := a.Eval(r)
				if !ok {
					return nil, true, false
				}
				out = append(out, v)
			}
			return out, true, true
		case *ast.BlockStmt:
			if r, ret, ok := a.exec(x.List); ret || !ok {
				return r, ret, ok
			}
		case *ast.LabeledStmt:
			if r, ret, ok := a.exec([]ast.Stmt{x.Stmt}); ret || !ok {
				return r, ret, ok
			}
		case *ast.IfStmt:
			if x.Init != nil {
				if r, ret, ok := a.exec([]ast.Stmt{x.Init}); ret || !ok {
					return r, ret, ok
				}
			}
			c, ok := a.Eval(x.Cond)
			cb, isB := c.(bool)
			if !ok || !isB {
				if a.UnknownIf != nil && a.UnknownIf(x) {
					a.havoc(x)
					continue
				}
				return nil, false, false
			}
			if cb {
				if r, ret, ok := a.exec(x.Body.List); ret || !ok {
					return r, ret, ok
				}
			} else if x.Else != nil {
				if r, ret, ok := a.exec([]ast.Stmt{x.Else}); ret || !ok {
					return r, ret, ok
				}
			}
		case *ast.SwitchStmt:
			if x.Init != nil {
				if r, ret, ok := a.exec([]ast.Stmt{x.Init}); ret || !ok {
					return r, ret, ok
				}
			}
			var tag any
			if x.Tag != nil {
				t, ok := a.Eval(x.Tag)
				if !ok {
					if a.UnknownIf != nil {
						a.havoc(x)
						continue
					}
					return nil, false, false
				}
				tag = t
			}
			var chosen *ast.CaseClause
			var deflt *ast.CaseClause
			for _, cc := range x.Body.List {
				cl := cc.(*ast.CaseClause)
				if cl.List == nil {
					deflt = cl
					continue
				}
				for _, ce := range cl.List {
					v, ok := a.Eval(ce)
					if !ok {
						if a.UnknownIf != nil {
							a.havoc(x)
							continue stmts
						}
						return nil, false, false
					}
					hit := false
					if x.Tag != nil {
						hit = absEqual(tag, v)
					} else if b, isB := v.(bool); isB {
						hit = b
					}
					if hit && chosen == nil {
						chosen = cl
					}
				}
				if chosen != nil {
					break
				}
			}
			if chosen == nil {
				chosen = deflt
			}
			if chosen != nil {
				r, ret, ok := a.exec(chosen.Body)
				if ret || !ok {
					return r, ret, ok
				}
			}
		case *ast.AssignStmt:
			if x.Tok != token.ASSIGN && x.Tok != token.DEFINE {
				// v op= e on a local
				if id, ok := ast.Unparen(x.Lhs[0]).(*ast.Ident); ok && len(x.Lhs) == 1 && len(x.Rhs) == 1 {
					if v, ok := a.Info.Uses[id].(*types.Var); ok {
						op := map[token.Token]token.Token{token.ADD_ASSIGN: token.ADD, token.SUB_ASSIGN: token.SUB, token.MUL_ASSIGN: token.MUL}[x.Tok]
						l, isL := a.vars[v].(int64)
						r, okR := a.Eval(x.Rhs[0])
						rn, isR := r.(int64)
						switch {
						case !isL || !okR || !isR || op == token.ILLEGAL:
							a.vars[v] = nil
						case op == token.ADD:
							a.vars[v] = l + rn
						case op == token.SUB:
							a.vars[v] = l - rn
						default:
							a.vars[v] = l * rn
						}
					}
				}
				continue
			}
			if len(x.Rhs) == 1 && len(x.Lhs) > 1 {
				var vals []any
				if call, ok := ast.Unparen(x.Rhs[0]).(*ast.CallExpr); ok && a.Tuple != nil {
					if vs, ok := a.Tuple(call); ok && len(vs) == len(x.Lhs) {
						vals = vs
					}
				}
				for i, l := range x.Lhs {
					id, isID := ast.Unparen(l).(*ast.Ident)
					if !isID {
						continue
					}
					v, _ := a.Info.Defs[id].(*types.Var)
					if v == nil {
						v, _ = a.Info.Uses[id].(*types.Var)
					}
					if v == nil {
						continue
					}
					if vals != nil {
						a.vars[v] = vals[i]
					} else {
						a.vars[v] = nil
					}
				}
				continue
			}
			if len(x.Lhs) == len(x.Rhs) {
				for i, l := range x.Lhs {
					id, isID := ast.Unparen(l).(*ast.Ident)
					if !isID {
						if a.Cell != nil {
							if k, ok := a.Cell(l); ok {
								if val, ok := a.Eval(x.Rhs[i]); ok {
									a.cells[k] = val
								} else {
									a.cells[k] = nil
								}
							}
						}
						continue
					}
					v, _ := a.Info.Defs[id].(*types.Var)
					if v == nil {
						v, _ = a.Info.Uses[id].(*types.Var)
					}
					if v == nil {
						continue
					}
					if val, ok := a.Eval(x.Rhs[i]); ok {
						a.vars[v] = val
					} else {
						delete(a.vars, v)
						a.vars[v] = nil
					}
				}
			}
		case *ast.ExprStmt:
			if call, ok := ast.Unparen(x.X).(*ast.CallExpr); ok && a.Effect != nil {
				if !a.Effect(call) {
					return nil, false, false
				}
			}
		case *ast.IncDecStmt:
			if id, ok := ast.Unparen(x.X).(*ast.Ident); ok {
				if v, ok := a.Info.Uses[id].(*types.Var); ok {
					if n, isN := a.vars[v].(int64); isN {
						if x.Tok == token.INC {
							a.vars[v] = n + 1
						} else {
							a.vars[v] = n - 1
						}
					} else {
						a.vars[v] = nil
					}
				}
			}
		case *ast.DeclStmt:
			// var x T: the zero value
			if gd, ok := x.Decl.(*ast.GenDecl); ok {
				for _, sp := range gd.Specs {
					vs, ok := sp.(*ast.ValueSpec)
					if !ok {
						continue
					}
					for i, nm := range vs.Names {
						v, _ := a.Info.Defs[nm].(*types.Var)
						if v == nil {
							continue
						}
						if i < len(vs.Values) && len(vs.Values) == len(vs.Names) {
							if val, ok := a.Eval(vs.Values[i]); ok {
								a.vars[v] = val
							} else {
								a.vars[v] = nil
							}
							continue
						}
						if len(vs.Values) != 0 {
							a.vars[v] = nil
							continue
						}
						switch u := v.Type().Underlying().(type) {
						case *types.Pointer, *types.Slice, *types.Map, *types.Interface:
							a.vars[v] = "nil"
						case *types.Basic:
							switch {
							case u.Info()&types.IsBoolean != 0:
								a.vars[v] = false
							case u.Info()&types.IsInteger != 0:
								a.vars[v] = int64(0)
							case u.Info()&types.IsString != 0:
								a.vars[v] = ""
							}
						default:
							if a.Zero != nil {
								if z, ok := a.Zero(v.Type()); ok {
									a.vars[v] = z
									break
								}
							}
							if z, ok := zeroOf(v.Type()); ok {
								a.vars[v] = z
							}
						}
					}
				}
			}
		case *ast.EmptyStmt:
		case *ast.BranchStmt:
			if a.Branch != nil {
				if v, ok := a.Branch(x); ok {
					return v, true, true
				}
			}
			return nil, false, false
		case *ast.ForStmt, *ast.RangeStmt:
			if a.SkipLoop != nil && a.SkipLoop(x) {
				a.havoc(x)
				continue
			}
			return nil, false, false
		case *ast.TypeSwitchStmt, *ast.SelectStmt:
			if a.UnknownIf != nil {
				a.havoc(x)
				continue
			}
			return nil, false, false
		case *ast.GoStmt, *ast.DeferStmt:
			if a.UnknownIf != nil {
				continue
			}
			return nil, false, false
		}
	}
	return nil, false, true
}

func absEqual(x, y any) bool {
	switch a := x.(type) {
	case int64:
		b, ok := y.(int64)
		return ok && a == b
	case bool:
		b, ok := y.(bool)
		return ok && a == b
	case string:
		b, ok := y.(string)
		return ok && a == b
	}
	return false
}

// Eval evaluates an expression to int64, bool or string.
func (a *AbsEval) Eval(e ast.Expr) (any, bool) {
	e = ast.Unparen(e)
	if tv, ok := a.Info.Types[e]; ok && tv.Value != nil {
		switch tv.Value.Kind() {
		case constant.Int:
			if v, ok := constant.Int64Val(tv.Value); ok {
				return v, true
			}
		case constant.Bool:
			return constant.BoolVal(tv.Value), true
		case constant.String:
			return constant.StringVal(tv.Value), true
		}
	}
	if a.Cell != nil {
		if _, isSel := e.(*ast.SelectorExpr); isSel {
			if k, ok := a.Cell(e); ok {
				if val, has := a.cells[k]; has && val != nil {
					return val, true
				}
				return nil, false
			}
		}
	}
	if a.Atom != nil {
		if v, ok := a.Atom(e); ok {
			return v, true
		}
	}
	switch x := e.(type) {
	case *ast.Ident:
		if _, isNil := a.Info.Uses[x].(*types.Nil); isNil {
			return "nil", true
		}
		if v, ok := a.Info.Uses[x].(*types.Var); ok {
			if val, has := a.vars[v]; has && val != nil {
				return val, true
			}
		}
	case *ast.StarExpr:
		if v, ok := a.Eval(x.X); ok {
			if p, isP := v.(AbsPtr); isP {
				return p.Elem, true
			}
		}
	case *ast.UnaryExpr:
		v, ok := a.Eval(x.X)
		if !ok {
			return nil, false
		}
		switch x.Op {
		case token.AND:
			return AbsPtr{Elem: v}, true
		case token.NOT:
			if b, isB := v.(bool); isB {
				return !b, true
			}
		case token.SUB:
			if n, isN := v.(int64); isN {
				return -n, true
			}
		case token.ADD:
			return v, true
		}
	case *ast.BinaryExpr:
		if x.Op == token.LAND || x.Op == token.LOR {
			l, ok := a.Eval(x.X)
			lb, isB := l.(bool)
			if !ok || !isB {
				return nil, false
			}
			if x.Op == token.LAND && !lb {
				return false, true
			}
			if x.Op == token.LOR && lb {
				return true, true
			}
			r, ok := a.Eval(x.Y)
			rb, isB := r.(bool)
			if !ok || !isB {
				return nil, false
			}
			return rb, true
		}
		l, ok1 := a.Eval(x.X)
		r, ok2 := a.Eval(x.Y)
		if !ok1 || !ok2 {
			return nil, false
		}
		switch x.Op {
		case token.EQL:
			return absEqual(l, r), true
		case token.NEQ:
			return !absEqual(l, r), true
		}
		ln, okL := l.(int64)
		rn, okR := r.(int64)
		if !okL || !okR {
			return nil, false
		}
		switch x.Op {
		case token.LSS:
			return ln < rn, true
		case token.GTR:
			return ln > rn, true
		case token.LEQ:
			return ln <= rn, true
		case token.GEQ:
			return ln >= rn, true
		case token.ADD:
			return ln + rn, true
		case token.SUB:
			return ln - rn, true
		case token.MUL:
			return ln * rn, true
		case token.SHR:
			if rn >= 0 && rn < 63 {
				return ln >> uint(rn), true
			}
		case token.SHL:
			if rn >= 0 && rn < 32 {
				return ln << uint(rn), true
			}
		case token.AND:
			return ln & rn, true
		case token.OR:
			return ln | rn, true
		case token.REM:
			if rn != 0 {
				return ln % rn, true
			}
		case token.QUO:
			if rn != 0 {
				return ln / rn, true
			}
		}
	case *ast.IndexExpr:
		// a character of a known string
		sv, ok1 := a.Eval(x.X)
		iv, ok2 := a.Eval(x.Index)
		str, isS := sv.(string)
		idx, isN := iv.(int64)
		if ok1 && ok2 && isS && isN && idx >= 0 && int(idx) < len(str) {
			return int64(str[idx]), true
		}
	case *ast.CallExpr:
		// conversion of an evaluable value
		if tv, ok := a.Info.Types[x.Fun]; ok && tv.IsType() && len(x.Args) == 1 {
			return a.Eval(x.Args[0])
		}
	case *ast.CompositeLit:
		// a struct value with keyed members: members not given hold their zero value
		t := a.Info.TypeOf(x)
		if t == nil {
			break
		}
		st, ok := t.Underlying().(*types.Struct)
		if !ok {
			break
		}
		out := AbsStruct{}
		for _, el := range x.Elts {
			kv, ok := el.(*ast.KeyValueExpr)
			if !ok {
				return nil, false
			}
			id, ok := kv.Key.(*ast.Ident)
			if !ok {
				return nil, false
			}
			v, ok := a.Eval(kv.Value)
			if !ok {
				return nil, false
			}
			out[id.Name] = v
		}
		for i := 0; i < st.NumFields(); i++ {
			f := st.Field(i)
			if _, has := out[f.Name()]; has {
				continue
			}
			if z, ok := zeroOf(f.Type()); ok {
				out[f.Name()] = z
			}
		}
		return out, true
	case *ast.SelectorExpr:
		// a member of a struct value held by a local
		if sel := a.Info.Selections[x]; sel != nil && sel.Kind() == types.FieldVal {
			if bv, ok := a.Eval(x.X); ok {
				if sv, isS := bv.(AbsStruct); isS {
					if v, has := sv[x.Sel.Name]; has {
						return v, true
					}
				}
			}
		}
	}
	return nil, false
}

// AbsStruct is a struct value: member name → value.
type AbsStruct map[string]any

func zeroOf(t types.Type) (any, bool) {
	switch u := t.Underlying().(type) {
	case *types.Pointer, *types.Slice, *types.Map, *types.Interface:
		return "nil", true
	case *types.Basic:
		switch {
		case u.Info()&types.IsBoolean != 0:
			return false, true
		case u.Info()&types.IsInteger != 0:
			return int64(0), true
		case u.Info()&types.IsString != 0:
			return "", true
		}
	case *types.Struct:
		out := AbsStruct{}
		for i := 0; i < u.NumFields(); i++ {
			if z, ok := zeroOf(u.Field(i).Type()); ok {
				out[u.Field(i).Name()] = z
			}
		}
		return out, true
	}
	return nil, false
}
