package core

import (
	"sort"
	"os"
	"go/constant"
	"fmt"
	"go/ast"
	"go/token"
	"go/types"
	"reflect"
	"strings"
)

// Inlining. Many rules decide a property from the shape of one function: what
// is assigned last, which condition dominates a return, what a loop does for
// every element. Extracting part of such a function into a helper of the same
// package does not change behaviour but hides the shape. Inlined(fd) returns a
// copy of the declaration in which calls to functions of the same package are
// replaced, where this can be done exactly, by the callee's statements:
//
//	x, err := h(a, b)        =>   p1 := a; p2 := b; <body of h, with
//	                              `return e1, e2` as `x, err := e1, e2`>
//
// Supported call positions: expression statements, the single right-hand side
// of an assignment, a tail `return h(..)`, the init statement of an if, and —
// through a temporary — the first-evaluated call inside a condition, an
// assignment's right-hand side, a return value or a sent value. Supported
// callees: declared in the same package, with a body, not (mutually)
// recursive, without defer/go/recover, without bare returns of named results,
// not variadic unless called with an ellipsis argument. A callee with early
// returns is wrapped as `L: switch { default: … break L … }` so that control
// flow stays exact. Everything else is left as a call.
//
// The copy gets fresh, strictly increasing positions in a synthetic file of the
// FileSet (rules compare positions for textual order); Program.Rel maps them
// back to the original source line. types.Info entries are copied for every
// cloned node, parameters keep their *types.Var objects, so object identity in
// the callee body is preserved.

type inlineState struct {
	p       *Program
	root    *FuncDecl
	info    *types.Info
	stack   map[*types.Func]bool
	count   map[*types.Func]int
	budget  int
	labels  int
	temps   int
	changed bool

	curNRes     int                     // number of results of the function whose body is being processed
	funcArgs    map[*types.Var]ast.Expr // function-valued parameters bound by the inliner -> argument
	closures    map[*types.Var]*FuncDecl
	closureDefs map[*types.Var]int

	names  map[string]bool       // identifier names in use in the function being built
	rename map[*types.Var]string // locals of inlined callees renamed to avoid a clash of names
}

// AnchorNames: functions the rules recognise by name (as callees or as units of
// analysis). They keep their identity: the inliner never dissolves them.
var AnchorNames = map[string]bool{
	"hasAnyTag":                   true,
	"Add":                         true,
	"AddonDefs":                   true,
	"AddonForKey":                 true,
	"AddonRegistered":             true,
	"Amount":                      true,
	"AmountFromString":            true,
	"ApplyRoundingRule":           true,
	"Bulk":                        true,
	"Calculate":                   true,
	"CanonicalJSON":               true,
	"Clone":                       true,
	"Code":                        true,
	"Compare":                     true,
	"Contains":                    true,
	"Convert":                     true,
	"Correct":                     true,
	"Def":                         true,
	"DetectDuplicateStamps":       true,
	"Digest":                      true,
	"Divide":                      true,
	"Downscale":                   true,
	"Empty":                       true,
	"Envelop":                     true,
	"Equals":                      true,
	"Exp":                         true,
	"ExtensionForKey":             true,
	"Extract":                     true,
	"Factor":                      true,
	"Float64":                     true,
	"For":                         true,
	"From":                        true,
	"Get":                         true,
	"ISO":                         true,
	"In":                          true,
	"InCategories":                true,
	"InCategoryRates":             true,
	"Includes":                    true,
	"Insert":                      true,
	"Invert":                      true,
	"IsEmpty":                     true,
	"IsSigned":                    true,
	"IsZero":                      true,
	"JSONSchema":                  true,
	"JSONSchemaExtend":            true,
	"JSONWebSignature":            true,
	"MakeAmount":                  true,
	"MarshalJSON":                 true,
	"MarshalText":                 true,
	"MatchPrecision":              true,
	"Matches":                     true,
	"Merge":                       true,
	"Multiply":                    true,
	"Negate":                      true,
	"NewEnvelope":                 true,
	"NewHeader":                   true,
	"NewSHA256Digest":             true,
	"Normalize":                   true,
	"NormalizeIdentity":           true,
	"NoteFromScenario":            true,
	"Of":                          true,
	"Percent":                     true,
	"PercentageFromAmount":        true,
	"PercentageFromString":        true,
	"RegimeDef":                   true,
	"RegimeDefFor":                true,
	"RegimeDefFromContext":        true,
	"RegisterCatalogueDef":        true,
	"Remove":                      true,
	"RemoveIncludedTaxes":         true,
	"Replicate":                   true,
	"Rescale":                     true,
	"RescaleDown":                 true,
	"RescaleUp":                   true,
	"Reverse":                     true,
	"SameAs":                      true,
	"SetRegime":                   true,
	"SetUUID":                     true,
	"Sign":                        true,
	"SignedContext":               true,
	"Split":                       true,
	"String":                      true,
	"Subtract":                    true,
	"TagsIn":                      true,
	"UnmarshalJSON":               true,
	"UnmarshalText":               true,
	"Upscale":                     true,
	"Validate":                    true,
	"ValidateWithContext":         true,
	"Value":                       true,
	"Verify":                      true,
	"VerifySignature":             true,
	"Zero":                        true,
	"calculate":                   true,
	"calculateBaseCategoryTotal":  true,
	"calculateBaseRateTotals":     true,
	"calculateChargeSum":          true,
	"calculateCharges":            true,
	"calculateDiscountSum":        true,
	"calculateDiscounts":          true,
	"calculateFinalSum":           true,
	"calculateLine":               true,
	"calculateLineCharges":        true,
	"calculateLineDiscounts":      true,
	"calculateLineSum":            true,
	"calculateSubLine":            true,
	"checkRateValuesOrder":        true,
	"compare":                     true,
	"correct":                     true,
	"correctionDef":               true,
	"encodeString":                true,
	"get":                         true,
	"handleNextToken":             true,
	"intPow":                      true,
	"matchRoundingPrecision":      true,
	"matches":                     true,
	"newCategoryTotal":            true,
	"newRateTotal":                true,
	"prepareRate":                 true,
	"prepareScenarios":            true,
	"processRequest":              true,
	"rateTotalFor":                true,
	"removeIncludedTaxes":         true,
	"removeLineIncludedTaxes":     true,
	"removePreviousScenarioNotes": true,
	"replicate":                   true,
	"reset":                       true,
	"round":                       true,
	"tokenToValue":                true,
	"totalAdvance":                true,
	"unquote":                     true,
	"validatePrecedingData":       true,
	"verifyDigest":                true,
	"verifySignature":             true,
	"wrapError":                   true,
}

const (
	inlineMaxDepth   = 4
	inlineMaxPerFunc = 24
	inlineMaxStmts   = 800
)

// Inlined returns the declaration with same-package calls inlined (memoised).
// If nothing can be inlined the original declaration is returned.
func (p *Program) Inlined(fd *FuncDecl) *FuncDecl {
	if fd == nil || fd.Decl == nil || fd.Decl.Body == nil {
		return fd
	}
	if p.inlineBusy > 0 {
		return fd // no nested inlining requests while one is being built
	}
	p.inlineBusy++
	defer func() { p.inlineBusy-- }()
	if p.inlined == nil {
		p.inlined = map[*types.Func]*FuncDecl{}
	}
	if r, ok := p.inlined[fd.Obj]; ok {
		return r
	}
	p.inlined[fd.Obj] = fd // recursion guard / default
	st := &inlineState{p: p, root: fd, info: fd.Pkg.TypesInfo, stack: map[*types.Func]bool{fd.Obj: true}, count: map[*types.Func]int{}, budget: inlineMaxStmts}
	body := st.cloneNode(fd.Decl.Body).(*ast.BlockStmt)
	st.curNRes = fd.Obj.Type().(*types.Signature).Results().Len()
	st.names, st.rename = map[string]bool{}, map[*types.Var]string{}
	ast.Inspect(fd.Decl, func(n ast.Node) bool {
		if id, ok := n.(*ast.Ident); ok {
			st.names[id.Name] = true
		}
		return true
	})
	st.desugarDefers(body)
	st.block(body, 0)
	st.normalise(body)
	if !st.changed {
		return fd
	}
	nd := *fd.Decl
	nd.Body = body
	p.renumber(&nd, fd)
	out := &FuncDecl{Pkg: fd.Pkg, Decl: &nd, Obj: fd.Obj}
	p.inlined[fd.Obj] = out
	return out
}

// InlinedFunc is Func followed by Inlined.
func (p *Program) InlinedFunc(rel, recv, name string) *FuncDecl {
	return p.Inlined(p.RawFunc(rel, recv, name))
}

// ---- cloning -------------------------------------------------------------

var (
	nodeType = reflect.TypeOf((*ast.Node)(nil)).Elem()
	posType  = reflect.TypeOf(token.NoPos)
)

// cloneNode deep-copies an AST subtree and copies the types.Info entries of
// every copied node.
func (st *inlineState) cloneNode(n ast.Node) ast.Node {
	if n == nil || reflect.ValueOf(n).IsNil() {
		return n
	}
	v := reflect.ValueOf(n)
	out := st.cloneValue(v)
	return out.Interface().(ast.Node)
}

func (st *inlineState) cloneValue(v reflect.Value) reflect.Value {
	switch v.Kind() {
	case reflect.Ptr:
		if v.IsNil() {
			return v
		}
		switch v.Interface().(type) {
		case *ast.Object, *ast.Scope:
			return reflect.Zero(v.Type())
		}
		if !v.Type().Implements(nodeType) {
			return v
		}
		nv := reflect.New(v.Type().Elem())
		ev, ne := v.Elem(), nv.Elem()
		for i := 0; i < ev.NumField(); i++ {
			if !ne.Field(i).CanSet() {
				continue
			}
			ne.Field(i).Set(st.cloneValue(ev.Field(i)))
		}
		st.copyInfo(v.Interface().(ast.Node), nv.Interface().(ast.Node))
		return nv
	case reflect.Interface:
		if v.IsNil() {
			return v
		}
		c := st.cloneValue(v.Elem())
		nv := reflect.New(v.Type()).Elem()
		nv.Set(c)
		return nv
	case reflect.Slice:
		if v.IsNil() {
			return v
		}
		nv := reflect.MakeSlice(v.Type(), v.Len(), v.Len())
		for i := 0; i < v.Len(); i++ {
			nv.Index(i).Set(st.cloneValue(v.Index(i)))
		}
		return nv
	}
	return v
}

func (st *inlineState) copyInfo(old, nw ast.Node) {
	info := st.info
	if oe, ok := old.(ast.Expr); ok {
		ne := nw.(ast.Expr)
		if tv, ok := info.Types[oe]; ok {
			info.Types[ne] = tv
		}
	}
	switch o := old.(type) {
	case *ast.Ident:
		n := nw.(*ast.Ident)
		if d, ok := info.Defs[o]; ok {
			info.Defs[n] = d
		}
		if u, ok := info.Uses[o]; ok {
			info.Uses[n] = u
		}
		if in, ok := info.Instances[o]; ok {
			info.Instances[n] = in
		}
	case *ast.SelectorExpr:
		if s, ok := info.Selections[o]; ok {
			info.Selections[nw.(*ast.SelectorExpr)] = s
		}
	}
	if imp, ok := info.Implicits[old]; ok {
		info.Implicits[nw] = imp
	}
}

// ---- synthesis helpers ---------------------------------------------------

func (st *inlineState) nameOf(v *types.Var) string {
	if n, ok := st.rename[v]; ok {
		return n
	}
	return v.Name()
}

// uncollide gives the variables the cloned callee body declares (and its
// parameters that will be bound by assignment) names that are not in use in the
// function being built: rules that compare expressions by their text must not
// take a callee's `ct` for the caller's.
func (st *inlineState) uncollide(cfd *FuncDecl, body *ast.BlockStmt, subst map[*types.Var]bool) {
	if st.names == nil {
		return
	}
	var vars []*types.Var
	seen := map[*types.Var]bool{}
	add := func(v *types.Var) {
		if v != nil && !seen[v] && v.Name() != "_" && v.Name() != "" {
			seen[v] = true
			vars = append(vars, v)
		}
	}
	sig := cfd.Obj.Type().(*types.Signature)
	if r := sig.Recv(); r != nil && !subst[r] {
		add(r)
	}
	for i := 0; i < sig.Params().Len(); i++ {
		if pv := sig.Params().At(i); !subst[pv] {
			add(pv)
		}
	}
	for i := 0; i < sig.Results().Len(); i++ {
		add(sig.Results().At(i))
	}
	ast.Inspect(body, func(n ast.Node) bool {
		if id, ok := n.(*ast.Ident); ok {
			if v, ok := st.info.Defs[id].(*types.Var); ok && !v.IsField() {
				add(v)
			}
		}
		return true
	})
	for _, v := range vars {
		if _, done := st.rename[v]; done {
			continue
		}
		if !st.names[v.Name()] {
			st.names[v.Name()] = true
			st.rename[v] = v.Name()
			continue
		}
		for k := 1; ; k++ {
			nn := fmt.Sprintf("%s·%d", v.Name(), k)
			if !st.names[nn] {
				st.names[nn] = true
				st.rename[v] = nn
				break
			}
		}
	}
	ast.Inspect(body, func(n ast.Node) bool {
		if id, ok := n.(*ast.Ident); ok {
			var v *types.Var
			if d, ok := st.info.Defs[id].(*types.Var); ok {
				v = d
			} else if u, ok := st.info.Uses[id].(*types.Var); ok {
				v = u
			}
			if v != nil {
				if nn, ok := st.rename[v]; ok {
					id.Name = nn
				}
			}
		}
		return true
	})
}

func (st *inlineState) useIdent(v *types.Var, pos token.Pos) *ast.Ident {
	id := &ast.Ident{Name: st.nameOf(v), NamePos: pos}
	st.info.Uses[id] = v
	st.info.Types[id] = types.TypeAndValue{Type: v.Type()}
	return id
}

func (st *inlineState) defIdent(v *types.Var, pos token.Pos) *ast.Ident {
	id := &ast.Ident{Name: st.nameOf(v), NamePos: pos}
	st.info.Defs[id] = v
	return id
}

func (st *inlineState) newVar(name string, t types.Type, pos token.Pos) *types.Var {
	st.temps++
	return types.NewVar(pos, st.root.Obj.Pkg(), fmt.Sprintf("%s·%d", name, st.temps), t)
}

// ---- the transformation --------------------------------------------------

func (st *inlineState) block(b *ast.BlockStmt, depth int) {
	if b == nil {
		return
	}
	b.List = st.stmts(b.List, depth)
}

func (st *inlineState) stmts(list []ast.Stmt, depth int) []ast.Stmt {
	var out []ast.Stmt
	for _, s := range list {
		out = append(out, st.stmt(s, depth)...)
	}
	return out
}

// desugarDefers: in a function whose results are all named (or that has none),
// a `defer f(args)` standing directly in the function body, with a receiver and
// arguments that are the same at the time of the return as at the time of the
// defer (plain variables never assigned afterwards, their addresses, constants),
// is the call made at every later return: `return X` becomes
// `res = X; f(args); return res`. (What the deferred call does when the
// function panics is outside this view.) Nothing is done when a defer stands
// anywhere else — in a branch, a loop, a closure.
func (st *inlineState) desugarDefers(body *ast.BlockStmt) {
	sig := st.root.Obj.Type().(*types.Signature)
	var results []*types.Var
	for i := 0; i < sig.Results().Len(); i++ {
		r := sig.Results().At(i)
		if r.Name() == "" || r.Name() == "_" {
			return
		}
		results = append(results, r)
	}
	// every defer must be a direct child of the body
	top := map[*ast.DeferStmt]int{}
	for i, s := range body.List {
		if d, ok := s.(*ast.DeferStmt); ok {
			top[d] = i
		}
	}
	n := 0
	ast.Inspect(body, func(m ast.Node) bool {
		if _, isLit := m.(*ast.FuncLit); isLit {
			return false
		}
		if d, ok := m.(*ast.DeferStmt); ok {
			n++
			if _, isTop := top[d]; !isTop {
				n = -1000
			}
		}
		return true
	})
	if n <= 0 || n != len(top) {
		return
	}
	assignedAfter := func(v *types.Var, from token.Pos) bool {
		found := false
		ast.Inspect(body, func(m ast.Node) bool {
			switch x := m.(type) {
			case *ast.AssignStmt:
				if x.Pos() > from {
					for _, l := range x.Lhs {
						if VarOf(st.info, l) == v {
							found = true
						}
					}
				}
			case *ast.IncDecStmt:
				if x.Pos() > from && VarOf(st.info, x.X) == v {
					found = true
				}
			}
			return !found
		})
		return found
	}
	stable := func(e ast.Expr, from token.Pos, addrOK bool) bool {
		e = ast.Unparen(e)
		if tv, ok := st.info.Types[e]; ok && (tv.Value != nil || tv.IsNil()) {
			return true
		}
		if u, ok := e.(*ast.UnaryExpr); ok && u.Op == token.AND && addrOK {
			_, isId := ast.Unparen(u.X).(*ast.Ident)
			return isId && VarOf(st.info, u.X) != nil
		}
		if id, ok := e.(*ast.Ident); ok {
			v := VarOf(st.info, id)
			return v != nil && !v.IsField() && !assignedAfter(v, from)
		}
		return false
	}
	for d := range top {
		if _, isLit := ast.Unparen(d.Call.Fun).(*ast.FuncLit); isLit {
			if len(d.Call.Args) != 0 {
				return
			}
			usesRecover := false
			ast.Inspect(d.Call.Fun, func(m ast.Node) bool {
				if id, ok := m.(*ast.Ident); ok && id.Name == "recover" {
					usesRecover = true
				}
				return true
			})
			if usesRecover {
				return
			}
			continue
		}
		if re := RecvExpr(d.Call); re != nil && Callee(st.info, d.Call) != nil && Callee(st.info, d.Call).Type().(*types.Signature).Recv() != nil {
			if !stable(re, d.Pos(), false) {
				return
			}
		}
		for _, a := range d.Call.Args {
			if !stable(a, d.Pos(), true) {
				return
			}
		}
	}
	// rewrite the returns after each defer
	var defers []*ast.DeferStmt
	for d := range top {
		defers = append(defers, d)
	}
	sort.Slice(defers, func(i, j int) bool { return top[defers[i]] < top[defers[j]] })
	var rewrite func(list []ast.Stmt, active []*ast.DeferStmt) []ast.Stmt
	rewriteStmt := func(s ast.Stmt, active []*ast.DeferStmt) ast.Stmt { return s }
	var inStmt func(s ast.Stmt, active []*ast.DeferStmt)
	mkReturn := func(r *ast.ReturnStmt, active []*ast.DeferStmt) []ast.Stmt {
		pos := r.Pos()
		var out []ast.Stmt
		if len(r.Results) > 0 {
			var lhs []ast.Expr
			for _, v := range results {
				lhs = append(lhs, st.useIdent(v, pos))
			}
			if len(r.Results) == len(results) || len(r.Results) == 1 {
				out = append(out, &ast.AssignStmt{Lhs: lhs, TokPos: pos, Tok: token.ASSIGN, Rhs: r.Results})
			} else {
				return []ast.Stmt{r}
			}
		}
		for i := len(active) - 1; i >= 0; i-- {
			call := st.cloneNode(active[i].Call).(*ast.CallExpr)
			// `defer func() { … }()` without parameters, results or returns: the body itself
			if lit, ok := ast.Unparen(call.Fun).(*ast.FuncLit); ok && len(call.Args) == 0 && !hasReturn(lit.Body) {
				out = append(out, &ast.BlockStmt{Lbrace: lit.Body.Lbrace, List: lit.Body.List, Rbrace: lit.Body.Rbrace})
				continue
			}
			out = append(out, &ast.ExprStmt{X: call})
		}
		var res []ast.Expr
		for _, v := range results {
			res = append(res, st.useIdent(v, pos))
		}
		out = append(out, &ast.ReturnStmt{Return: pos, Results: res})
		return out
	}
	rewrite = func(list []ast.Stmt, active []*ast.DeferStmt) []ast.Stmt {
		var out []ast.Stmt
		for _, s := range list {
			if r, ok := s.(*ast.ReturnStmt); ok && len(active) > 0 {
				out = append(out, mkReturn(r, active)...)
				continue
			}
			inStmt(s, active)
			out = append(out, rewriteStmt(s, active))
		}
		return out
	}
	inStmt = func(s ast.Stmt, active []*ast.DeferStmt) {
		if len(active) == 0 {
			return
		}
		switch x := s.(type) {
		case *ast.BlockStmt:
			x.List = rewrite(x.List, active)
		case *ast.IfStmt:
			x.Body.List = rewrite(x.Body.List, active)
			switch e := x.Else.(type) {
			case *ast.BlockStmt:
				e.List = rewrite(e.List, active)
			case *ast.IfStmt:
				inStmt(e, active)
			}
		case *ast.ForStmt:
			x.Body.List = rewrite(x.Body.List, active)
		case *ast.RangeStmt:
			x.Body.List = rewrite(x.Body.List, active)
		case *ast.SwitchStmt:
			for _, cc := range x.Body.List {
				c := cc.(*ast.CaseClause)
				c.Body = rewrite(c.Body, active)
			}
		case *ast.TypeSwitchStmt:
			for _, cc := range x.Body.List {
				c := cc.(*ast.CaseClause)
				c.Body = rewrite(c.Body, active)
			}
		case *ast.SelectStmt:
			for _, cc := range x.Body.List {
				c := cc.(*ast.CommClause)
				c.Body = rewrite(c.Body, active)
			}
		case *ast.LabeledStmt:
			inStmt(x.Stmt, active)
		}
	}
	var out []ast.Stmt
	var active []*ast.DeferStmt
	endsInReturn := false
	for _, s := range body.List {
		if d, ok := s.(*ast.DeferStmt); ok {
			active = append(active, d)
			continue // the statement itself disappears
		}
		if r, ok := s.(*ast.ReturnStmt); ok && len(active) > 0 {
			out = append(out, mkReturn(r, active)...)
			endsInReturn = true
			continue
		}
		inStmt(s, active)
		out = append(out, s)
		_, endsInReturn = s.(*ast.ReturnStmt)
	}
	// falling off the end of a function without results
	if len(results) == 0 && !endsInReturn && len(active) > 0 {
		for i := len(active) - 1; i >= 0; i-- {
			out = append(out, &ast.ExprStmt{X: st.cloneNode(active[i].Call).(*ast.CallExpr)})
		}
	}
	body.List = out
	st.changed = true
}

// callee returns the declaration of an inlinable callee of call.
func (st *inlineState) callee(call *ast.CallExpr, depth int) *FuncDecl {
	if depth >= inlineMaxDepth || st.budget <= 0 {
		return nil
	}
	fn := Callee(st.info, call)
	if fn == nil {
		if cfd := st.closureCallee(call); cfd != nil {
			return cfd
		}
	}
	if fn == nil || fn.Pkg() != st.root.Obj.Pkg() || st.stack[fn] || st.count[fn] >= inlineMaxPerFunc || st.p.anchors[fn] || AnchorNames[fn.Name()] {
		return nil
	}
	// method values / interface methods are not calls of a declared body
	if se, ok := ast.Unparen(call.Fun).(*ast.SelectorExpr); ok {
		if sel := st.info.Selections[se]; sel != nil && sel.Kind() != types.MethodVal {
			return nil
		}
	}
	// functions that the error classification understands as a whole stay calls
	if IsErrorConstructor(st.p, fn) || alwaysFails(st.p, fn) || TransparentWrapperArg(st.p, fn) >= 0 {
		return nil
	}
	cfd := st.p.RawDeclOf(fn)
	if cfd == nil || cfd.Decl.Body == nil || cfd.Pkg.TypesInfo != st.info {
		return nil
	}
	// exported API of the package is inlined only when it is a small accessor
	// (at most two statements): larger exported functions are anchors of their own
	if fn.Exported() && len(cfd.Decl.Body.List) > 2 {
		return nil
	}
	sig := fn.Type().(*types.Signature)
	if sig.TypeParams() != nil || sig.RecvTypeParams() != nil {
		return nil
	}
	if sig.Variadic() && !call.Ellipsis.IsValid() {
		return nil
	}
	if len(call.Args) != sig.Params().Len() {
		return nil // f(g()) with a multi-value g
	}
	bad := false
	named := false
	for i := 0; i < sig.Results().Len(); i++ {
		if sig.Results().At(i).Name() != "" {
			named = true
		}
	}
	ast.Inspect(cfd.Decl.Body, func(n ast.Node) bool {
		switch x := n.(type) {
		case *ast.DeferStmt, *ast.GoStmt, *ast.FuncLit:
			if _, isLit := x.(*ast.FuncLit); !isLit {
				bad = true
			}
			if _, isLit := x.(*ast.FuncLit); isLit {
				// returns inside a literal belong to the literal: refuse to keep things simple
				bad = true
			}
			return false
		case *ast.ReturnStmt:
			if len(x.Results) != sig.Results().Len() {
				// `return f()` handing on a tuple is fine (it becomes `a, b = f()`); a bare return is not
				if _, isCall := ast.Unparen(firstOrNil(x.Results)).(*ast.CallExpr); !(len(x.Results) == 1 && isCall) {
					bad = true
				}
			}
		case *ast.CallExpr:
			if id, ok := x.Fun.(*ast.Ident); ok && id.Name == "recover" {
				bad = true
			}
		case *ast.BranchStmt:
			if x.Tok == token.GOTO {
				bad = true
			}
		}
		return true
	})
	if bad || (named && false) {
		return nil
	}
	// parameters must not be unnamed when used (unnamed ones are simply not bound)
	return cfd
}

// closureCallee: call of a local variable that is defined exactly once, by a
// function literal, in the function being processed: the literal's body can be
// inlined like a declared helper (its free variables are in scope).
func (st *inlineState) closureCallee(call *ast.CallExpr) *FuncDecl {
	id, ok := ast.Unparen(call.Fun).(*ast.Ident)
	if !ok {
		return nil
	}
	v, ok := st.info.Uses[id].(*types.Var)
	if !ok || v.IsField() {
		return nil
	}
	if arg, ok := st.funcArgs[v]; ok {
		switch a := arg.(type) {
		case *ast.FuncLit:
			sig, _ := st.info.TypeOf(a).(*types.Signature)
			if sig == nil || sig.Variadic() || len(call.Args) != sig.Params().Len() {
				return nil
			}
			bad := false
			ast.Inspect(a.Body, func(n ast.Node) bool {
				switch x := n.(type) {
				case *ast.DeferStmt, *ast.GoStmt, *ast.FuncLit:
					bad = true
					return false
				case *ast.ReturnStmt:
					if len(x.Results) != sig.Results().Len() {
						bad = true
					}
				}
				return true
			})
			if bad {
				return nil
			}
			obj := types.NewFunc(a.Pos(), st.root.Obj.Pkg(), v.Name(), sig)
			return &FuncDecl{Pkg: st.root.Pkg, Decl: &ast.FuncDecl{Name: &ast.Ident{Name: v.Name(), NamePos: a.Pos()}, Type: a.Type, Body: a.Body}, Obj: obj}
		case *ast.SelectorExpr:
			// a method expression (*T).M: f(x, args…) is x.M(args…)
			if m, ok := st.info.Uses[a.Sel].(*types.Func); ok && len(call.Args) >= 1 {
				if tv, ok := st.info.Types[a.X]; ok && tv.IsType() {
					sel := &ast.Ident{Name: m.Name(), NamePos: call.Pos()}
					st.info.Uses[sel] = m
					call.Fun = &ast.SelectorExpr{X: call.Args[0], Sel: sel}
					call.Args = call.Args[1:]
					st.changed = true
				}
			}
			return nil
		}
		return nil
	}
	if st.closures == nil {
		st.closures = map[*types.Var]*FuncDecl{}
		st.closureDefs = map[*types.Var]int{}
		ast.Inspect(st.root.Decl.Body, func(n ast.Node) bool {
			as, ok := n.(*ast.AssignStmt)
			if !ok {
				return true
			}
			for i, l := range as.Lhs {
				li, ok := l.(*ast.Ident)
				if !ok {
					continue
				}
				lv, _ := st.info.Defs[li].(*types.Var)
				if lv == nil {
					lv, _ = st.info.Uses[li].(*types.Var)
				}
				if lv == nil {
					continue
				}
				st.closureDefs[lv]++
				if len(as.Lhs) == len(as.Rhs) {
					if lit, ok := ast.Unparen(as.Rhs[i]).(*ast.FuncLit); ok {
						sig, _ := st.info.TypeOf(lit).(*types.Signature)
						if sig != nil {
							obj := types.NewFunc(lit.Pos(), st.root.Obj.Pkg(), lv.Name(), sig)
							st.closures[lv] = &FuncDecl{Pkg: st.root.Pkg, Decl: &ast.FuncDecl{Name: &ast.Ident{Name: lv.Name(), NamePos: lit.Pos()}, Type: lit.Type, Body: lit.Body}, Obj: obj}
						}
					}
				}
			}
			return true
		})
	}
	cfd := st.closures[v]
	if cfd == nil || st.closureDefs[v] != 1 || st.stack[cfd.Obj] || st.count[cfd.Obj] >= 4*inlineMaxPerFunc {
		return nil
	}
	sig := cfd.Obj.Type().(*types.Signature)
	if sig.Variadic() || len(call.Args) != sig.Params().Len() {
		return nil
	}
	bad := false
	ast.Inspect(cfd.Decl.Body, func(n ast.Node) bool {
		switch x := n.(type) {
		case *ast.DeferStmt, *ast.GoStmt, *ast.FuncLit:
			bad = true
			return false
		case *ast.ReturnStmt:
			if len(x.Results) != sig.Results().Len() {
				bad = true
			}
		case *ast.BranchStmt:
			if x.Tok == token.GOTO {
				bad = true
			}
		}
		return true
	})
	if bad {
		return nil
	}
	return cfd
}

// endsWithSingleReturn: the body's only return is its last top-level statement.
func endsWithSingleReturn(body *ast.BlockStmt) bool {
	n := 0
	ast.Inspect(body, func(m ast.Node) bool {
		if _, ok := m.(*ast.ReturnStmt); ok {
			n++
		}
		return true
	})
	if n == 0 {
		return true
	}
	if n != 1 || len(body.List) == 0 {
		return false
	}
	_, ok := body.List[len(body.List)-1].(*ast.ReturnStmt)
	return ok
}

// substitute replaces, in the cloned callee body, every use of a parameter (or
// the receiver) whose argument is a plain variable of the caller by that
// variable, provided the callee never assigns the parameter or takes its
// address and the types are identical: no binding statement, no alias.
func (st *inlineState) substitute(call *ast.CallExpr, cfd *FuncDecl, body *ast.BlockStmt) map[*types.Var]bool {
	out := map[*types.Var]bool{}
	sig := cfd.Obj.Type().(*types.Signature)
	try := func(pv *types.Var, arg ast.Expr) {
		if pv == nil || pv.Name() == "" || pv.Name() == "_" || arg == nil {
			return
		}
		if tv, ok := st.info.Types[ast.Unparen(arg)]; ok && tv.Value != nil {
			// a constant argument: the parameter, if never written, is that constant
			if b, isBasic := pv.Type().Underlying().(*types.Basic); isBasic && b.Info()&(types.IsBoolean|types.IsInteger|types.IsString) != 0 && !st.paramWritten(pv, body) {
				st.replaceUses(reflect.ValueOf(body), pv, ast.Unparen(arg))
				out[pv] = true
			}
			return
		}
		id, ok := ast.Unparen(arg).(*ast.Ident)
		if !ok {
			st.substituteExpr(pv, arg, body, out)
			return
		}
		if _, isNilObj := st.info.Uses[id].(*types.Nil); isNilObj {
			// a nil argument: the parameter, if never written, is nil
			if !st.paramWritten(pv, body) {
				st.replaceUses(reflect.ValueOf(body), pv, id)
				out[pv] = true
			}
			return
		}
		cv, ok := st.info.Uses[id].(*types.Var)
		if !ok || cv.IsField() || !(types.Identical(cv.Type(), pv.Type()) || sameChan(cv.Type(), pv.Type())) {
			return
		}
		if cv.Pkg() != nil && cv.Parent() == cv.Pkg().Scope() {
			return // package-level variable: may change under the callee
		}
		written := st.paramWritten(pv, body)
		if written {
			return
		}
		ast.Inspect(body, func(n ast.Node) bool {
			if li, ok := n.(*ast.Ident); ok && st.info.Uses[li] == types.Object(pv) {
				st.info.Uses[li] = cv
				li.Name = cv.Name()
			}
			return true
		})
		out[pv] = true
	}
	if sig.Recv() != nil {
		try(sig.Recv(), RecvExpr(call))
	}
	for i := 0; i < sig.Params().Len() && i < len(call.Args); i++ {
		try(sig.Params().At(i), call.Args[i])
	}
	return out
}

// sameChan: a bidirectional channel handed over as a directional one of the same element type.
func sameChan(arg, param types.Type) bool {
	a, ok1 := arg.Underlying().(*types.Chan)
	b, ok2 := param.Underlying().(*types.Chan)
	return ok1 && ok2 && a.Dir() == types.SendRecv && types.Identical(a.Elem(), b.Elem())
}

// paramWritten: the callee assigns the parameter, takes its address or ranges into it.
func (st *inlineState) paramWritten(pv *types.Var, body *ast.BlockStmt) bool {
	written := false
	ast.Inspect(body, func(n ast.Node) bool {
		switch x := n.(type) {
		case *ast.AssignStmt:
			for _, l := range x.Lhs {
				if li, ok := ast.Unparen(l).(*ast.Ident); ok && (st.info.Uses[li] == types.Object(pv) || st.info.Defs[li] == types.Object(pv)) {
					written = true
				}
			}
		case *ast.IncDecStmt:
			if li, ok := ast.Unparen(x.X).(*ast.Ident); ok && st.info.Uses[li] == types.Object(pv) {
				written = true
			}
		case *ast.UnaryExpr:
			if li, ok := ast.Unparen(x.X).(*ast.Ident); ok && x.Op == token.AND && st.info.Uses[li] == types.Object(pv) {
				written = true
			}
		case *ast.RangeStmt:
			for _, e := range []ast.Expr{x.Key, x.Value} {
				if li, ok := e.(*ast.Ident); ok && e != nil && st.info.Uses[li] == types.Object(pv) {
					written = true
				}
			}
		}
		return true
	})
	return written
}

// substituteExpr: the argument is a field path of a local variable (x.F.G) or the
// address of one (&x.F). If the callee neither writes the parameter nor assigns
// anything rooted at x (it could only do so as a closure), every use of the
// parameter is replaced by a copy of the argument; `*&p` and `(&p).m` are
// simplified to `p` and `p.m`.
func (st *inlineState) substituteExpr(pv *types.Var, arg ast.Expr, body *ast.BlockStmt, out map[*types.Var]bool) {
	e := ast.Unparen(arg)
	inner := e
	if u, ok := e.(*ast.UnaryExpr); ok && u.Op == token.AND {
		inner = ast.Unparen(u.X)
	}
	// inner must be a pure selector chain on an identifier
	root := (*types.Var)(nil)
	for x := inner; ; {
		switch y := x.(type) {
		case *ast.SelectorExpr:
			if sel := st.info.Selections[y]; sel == nil || sel.Kind() != types.FieldVal {
				return
			}
			x = ast.Unparen(y.X)
			continue
		case *ast.Ident:
			root, _ = st.info.Uses[y].(*types.Var)
		}
		break
	}
	if root == nil || root.IsField() || (root.Pkg() != nil && root.Parent() == root.Pkg().Scope()) {
		return
	}
	if _, isSel := inner.(*ast.SelectorExpr); !isSel {
		// the address of a plain local (&err): `*p` in the callee is the local itself
		if _, isAddr := e.(*ast.UnaryExpr); !isAddr {
			return
		}
	}
	if st.paramWritten(pv, body) {
		return
	}
	// nothing rooted at the same variable is assigned in the callee
	clobber := false
	ast.Inspect(body, func(n ast.Node) bool {
		if as, ok := n.(*ast.AssignStmt); ok {
			for _, l := range as.Lhs {
				if RootVar(st.info, l) == root {
					clobber = true
				}
			}
		}
		return true
	})
	if clobber {
		return
	}
	st.replaceUses(reflect.ValueOf(body), pv, arg)
	out[pv] = true
}

// replaceUses replaces identifier uses of pv below v by clones of arg.
func (st *inlineState) replaceUses(v reflect.Value, pv *types.Var, arg ast.Expr) {
	switch v.Kind() {
	case reflect.Ptr:
		if v.IsNil() || !v.Type().Implements(nodeType) {
			return
		}
		switch v.Interface().(type) {
		case *ast.Object, *ast.Scope:
			return
		}
		ev := v.Elem()
		for i := 0; i < ev.NumField(); i++ {
			f := ev.Field(i)
			if f.Kind() == reflect.Interface && !f.IsNil() && f.CanSet() {
				if id, ok := f.Interface().(*ast.Ident); ok && st.info.Uses[id] == types.Object(pv) {
					repl := st.cloneNode(arg).(ast.Expr)
					f.Set(reflect.ValueOf(repl))
					continue
				}
			}
			st.replaceUses(f, pv, arg)
		}
		// simplify *&x and (&x).sel
		switch n := v.Interface().(type) {
		case *ast.SelectorExpr:
			if u, ok := ast.Unparen(n.X).(*ast.UnaryExpr); ok && u.Op == token.AND {
				n.X = u.X
			}
		}
		for i := 0; i < ev.NumField(); i++ {
			f := ev.Field(i)
			if f.Kind() == reflect.Interface && !f.IsNil() && f.CanSet() {
				if se, ok := f.Interface().(*ast.StarExpr); ok {
					if u, ok := ast.Unparen(se.X).(*ast.UnaryExpr); ok && u.Op == token.AND {
						f.Set(reflect.ValueOf(u.X))
					}
				}
			}
		}
	case reflect.Interface:
		if !v.IsNil() {
			st.replaceUses(v.Elem(), pv, arg)
		}
	case reflect.Slice:
		for i := 0; i < v.Len(); i++ {
			el := v.Index(i)
			if el.Kind() == reflect.Interface && !el.IsNil() {
				if id, ok := el.Interface().(*ast.Ident); ok && st.info.Uses[id] == types.Object(pv) {
					el.Set(reflect.ValueOf(st.cloneNode(arg).(ast.Expr)))
					continue
				}
				if se, ok := el.Interface().(*ast.StarExpr); ok {
					st.replaceUses(reflect.ValueOf(se), pv, arg)
					if u, ok := ast.Unparen(se.X).(*ast.UnaryExpr); ok && u.Op == token.AND {
						el.Set(reflect.ValueOf(u.X))
					}
					continue
				}
			}
			st.replaceUses(el, pv, arg)
		}
	}
}

func firstOrNil(l []ast.Expr) ast.Expr {
	if len(l) == 0 {
		return nil
	}
	return l[0]
}

func hasLoop(body *ast.BlockStmt) bool {
	found := false
	ast.Inspect(body, func(n ast.Node) bool {
		switch n.(type) {
		case *ast.ForStmt, *ast.RangeStmt:
			found = true
		}
		return true
	})
	return found
}

func hasReturn(body *ast.BlockStmt) bool {
	n := 0
	ast.Inspect(body, func(m ast.Node) bool {
		if _, ok := m.(*ast.ReturnStmt); ok {
			n++
		}
		return true
	})
	return n > 0
}

// bind emits `param := arg` statements for the receiver and parameters.
func (st *inlineState) bind(call *ast.CallExpr, cfd *FuncDecl, subst map[*types.Var]bool) []ast.Stmt {
	var out []ast.Stmt
	sig := cfd.Obj.Type().(*types.Signature)
	pos := call.Pos()
	emit := func(v *types.Var, arg ast.Expr) {
		if subst[v] {
			return
		}
		if v == nil || v.Name() == "" || v.Name() == "_" {
			// still evaluate the argument for its effects? arguments here are pure in practice; keep as blank assign
			out = append(out, &ast.AssignStmt{Lhs: []ast.Expr{&ast.Ident{Name: "_", NamePos: pos}}, TokPos: pos, Tok: token.ASSIGN, Rhs: []ast.Expr{arg}})
			return
		}
		out = append(out, &ast.AssignStmt{Lhs: []ast.Expr{st.defIdent(v, pos)}, TokPos: pos, Tok: token.DEFINE, Rhs: []ast.Expr{arg}})
		// a function-valued argument: calls of the parameter inside the callee can be resolved
		if _, isSig := v.Type().Underlying().(*types.Signature); isSig {
			if st.funcArgs == nil {
				st.funcArgs = map[*types.Var]ast.Expr{}
			}
			st.funcArgs[v] = ast.Unparen(arg)
		}
	}
	if sig.Recv() != nil {
		if re := RecvExpr(call); re != nil {
			arg := re
			// value receiver called on a pointer, or pointer receiver called on an addressable value
			_, wantPtr := sig.Recv().Type().(*types.Pointer)
			_, havePtr := st.info.TypeOf(re).(*types.Pointer)
			switch {
			case wantPtr && !havePtr:
				u := &ast.UnaryExpr{OpPos: pos, Op: token.AND, X: re}
				st.info.Types[u] = types.TypeAndValue{Type: sig.Recv().Type()}
				arg = u
			case !wantPtr && havePtr:
				s := &ast.StarExpr{Star: pos, X: re}
				st.info.Types[s] = types.TypeAndValue{Type: sig.Recv().Type()}
				arg = s
			}
			emit(sig.Recv(), arg)
		}
	}
	for i := 0; i < sig.Params().Len(); i++ {
		emit(sig.Params().At(i), call.Args[i])
	}
	return out
}

// expand returns the statements that compute the call and the expressions
// holding its results. tail: the call is the operand of a return statement of
// the enclosing function — the callee's returns can stay returns.
func (st *inlineState) expand(call *ast.CallExpr, cfd *FuncDecl, depth int, tail bool, targets []ast.Expr, tok token.Token) ([]ast.Stmt, []ast.Expr, bool) {
	fn := cfd.Obj
	st.count[fn]++
	if st.p.wasInlined == nil {
		st.p.wasInlined = map[*types.Func]bool{}
	}
	st.p.wasInlined[fn] = true
	st.stack[fn] = true
	defer delete(st.stack, fn)
	body := st.cloneNode(cfd.Decl.Body).(*ast.BlockStmt)
	st.budget -= len(body.List)
	sig := fn.Type().(*types.Signature)
	subst := st.substitute(call, cfd, body)
	st.uncollide(cfd, body, subst)
	pre := st.bind(call, cfd, subst)
	saveN := st.curNRes
	st.curNRes = sig.Results().Len()
	st.block(body, depth+1)
	st.curNRes = saveN
	st.normalise(body)
	// named results are ordinary locals of the callee
	for i := 0; i < sig.Results().Len(); i++ {
		if r := sig.Results().At(i); r.Name() != "" && r.Name() != "_" {
			spec := &ast.ValueSpec{Names: []*ast.Ident{st.defIdent(r, call.Pos())}}
			pre = append(pre, &ast.DeclStmt{Decl: &ast.GenDecl{TokPos: call.Pos(), Tok: token.VAR, Specs: []ast.Spec{spec}}})
		}
	}
	st.changed = true
	if tail {
		return append(pre, body.List...), nil, true
	}
	nres := sig.Results().Len()
	// where do results go?
	var resExprs []ast.Expr
	var decl []ast.Stmt
	mkAssign := func(vals []ast.Expr, pos token.Pos) ast.Stmt {
		if nres == 0 {
			return &ast.EmptyStmt{Semicolon: pos}
		}
		lhs := make([]ast.Expr, len(targets))
		for i, t := range targets {
			lhs[i] = st.cloneNode(t).(ast.Expr)
		}
		return &ast.AssignStmt{Lhs: lhs, TokPos: pos, Tok: token.ASSIGN, Rhs: vals}
	}
	if tok == token.DEFINE && len(targets) == nres && endsWithSingleReturn(body) {
		// deliver with the defining assignment itself; where the value returned is a local of
		// the callee and the caller defines a fresh variable from it, the two are one variable
		unified := map[int]bool{}
		if n := len(body.List); n > 0 {
			if r, ok := body.List[n-1].(*ast.ReturnStmt); ok && len(r.Results) == nres {
				for i := range r.Results {
					rid, ok1 := ast.Unparen(r.Results[i]).(*ast.Ident)
					tid, ok2 := targets[i].(*ast.Ident)
					if !ok1 || !ok2 {
						continue
					}
					cv, _ := st.info.Uses[rid].(*types.Var)
					tv, _ := st.info.Defs[tid].(*types.Var)
					if cv == nil || tv == nil || cv.IsField() || !types.Identical(cv.Type(), tv.Type()) {
						continue
					}
					// cv must be declared inside the callee body (not a parameter or a captured variable)
					declared := false
					ast.Inspect(body, func(m ast.Node) bool {
						if id, ok := m.(*ast.Ident); ok && st.info.Defs[id] == types.Object(cv) {
							declared = true
						}
						return true
					})
					if !declared {
						continue
					}
					ast.Inspect(body, func(m ast.Node) bool {
						if id, ok := m.(*ast.Ident); ok {
							if st.info.Uses[id] == types.Object(cv) {
								st.info.Uses[id] = tv
								id.Name = tv.Name()
							}
							if st.info.Defs[id] == types.Object(cv) {
								st.info.Defs[id] = tv
								id.Name = tv.Name()
							}
						}
						return true
					})
					unified[i] = true
				}
			}
		}
		mkAssign = func(vals []ast.Expr, pos token.Pos) ast.Stmt {
			var lhs, rhs []ast.Expr
			for i := range vals {
				if unified[i] {
					continue
				}
				lhs = append(lhs, targets[i])
				rhs = append(rhs, vals[i])
			}
			if len(lhs) == 0 {
				return &ast.EmptyStmt{Semicolon: pos}
			}
			tk := token.DEFINE
			allOld := true
			for _, l := range lhs {
				if id, ok := l.(*ast.Ident); ok && st.info.Defs[id] != nil {
					allOld = false
				}
			}
			if allOld {
				tk = token.ASSIGN
			}
			return &ast.AssignStmt{Lhs: lhs, TokPos: pos, Tok: tk, Rhs: rhs}
		}
	} else if tok == token.DEFINE && len(targets) == nres {
		// early returns: declare the variables being defined, then assign them at every return
		nt := make([]ast.Expr, len(targets))
		for i, t := range targets {
			nt[i] = t
			tid, ok := t.(*ast.Ident)
			if !ok {
				continue
			}
			if tv, ok := st.info.Defs[tid].(*types.Var); ok && tv != nil {
				nt[i] = st.useIdent(tv, call.Pos())
				// every return hands back one and the same local of the callee, defined at the top
				// level of its body: that local and the variable being defined are one variable
				if cv := st.commonReturnedLocal(body, i, nres); cv != nil && types.Identical(cv.Type(), tv.Type()) {
					ast.Inspect(body, func(m ast.Node) bool {
						if id, ok := m.(*ast.Ident); ok {
							if st.info.Uses[id] == types.Object(cv) {
								st.info.Uses[id] = tv
								id.Name = tv.Name()
							}
							if st.info.Defs[id] == types.Object(cv) {
								st.info.Defs[id] = tv
								id.Name = tv.Name()
							}
						}
						return true
					})
					continue
				}
				spec := &ast.ValueSpec{Names: []*ast.Ident{st.defIdent(tv, call.Pos())}}
				decl = append(decl, &ast.DeclStmt{Decl: &ast.GenDecl{TokPos: call.Pos(), Tok: token.VAR, Specs: []ast.Spec{spec}}})
			}
		}
		targets = nt
	} else if targets == nil || len(targets) != nres {
		// results go to fresh temporaries — except that a straight-line callee returning one of
		// its own locals simply leaves that local as the result
		direct := map[int]*types.Var{}
		if endsWithSingleReturn(body) && len(body.List) > 0 {
			if r, ok := body.List[len(body.List)-1].(*ast.ReturnStmt); ok && len(r.Results) == nres {
				for i := range r.Results {
					if rid, ok := ast.Unparen(r.Results[i]).(*ast.Ident); ok {
						if cv, ok := st.info.Uses[rid].(*types.Var); ok && !cv.IsField() {
							declared := false
							ast.Inspect(body, func(m ast.Node) bool {
								if id, ok := m.(*ast.Ident); ok && st.info.Defs[id] == types.Object(cv) {
									declared = true
								}
								return true
							})
							if declared {
								direct[i] = cv
							}
						}
					}
				}
			}
		}
		if len(direct) == nres && nres > 0 {
			for i := 0; i < nres; i++ {
				resExprs = append(resExprs, st.useIdent(direct[i], call.Pos()))
			}
			list := body.List[: len(body.List)-1 : len(body.List)-1]
			return append(append(append([]ast.Stmt{}, decl...), pre...), list...), resExprs, true
		}
		targets = nil
		for i := 0; i < nres; i++ {
			v := st.newVar("r", sig.Results().At(i).Type(), call.Pos())
			spec := &ast.ValueSpec{Names: []*ast.Ident{st.defIdent(v, call.Pos())}}
			decl = append(decl, &ast.DeclStmt{Decl: &ast.GenDecl{TokPos: call.Pos(), Tok: token.VAR, Specs: []ast.Spec{spec}}})
			targets = append(targets, st.useIdent(v, call.Pos()))
			resExprs = append(resExprs, st.useIdent(v, call.Pos()))
		}
	}
	var stmts []ast.Stmt
	stmts = append(stmts, decl...)
	stmts = append(stmts, pre...)
	if endsWithSingleReturn(body) {
		list := body.List
		if len(list) > 0 {
			if r, ok := list[len(list)-1].(*ast.ReturnStmt); ok {
				list = list[: len(list)-1 : len(list)-1]
				if nres > 0 {
					list = append(list, mkAssign(r.Results, r.Pos()))
				}
			}
		}
		stmts = append(stmts, list...)
		return stmts, resExprs, true
	}
	// early returns: L: switch { default: body' } with `return e…` => { targets = e…; break L }
	st.labels++
	label := fmt.Sprintf("inl%d", st.labels)
	var rewrite func(list []ast.Stmt) []ast.Stmt
	rewrite = func(list []ast.Stmt) []ast.Stmt {
		var out []ast.Stmt
		for _, s := range list {
			switch x := s.(type) {
			case *ast.ReturnStmt:
				if nres > 0 {
					out = append(out, mkAssign(x.Results, x.Pos()))
				}
				out = append(out, &ast.BranchStmt{TokPos: x.Pos(), Tok: token.BREAK, Label: &ast.Ident{Name: label, NamePos: x.Pos()}})
				continue
			case *ast.BlockStmt:
				x.List = rewrite(x.List)
			case *ast.IfStmt:
				x.Body.List = rewrite(x.Body.List)
				for e := x.Else; e != nil; {
					switch el := e.(type) {
					case *ast.BlockStmt:
						el.List = rewrite(el.List)
						e = nil
					case *ast.IfStmt:
						el.Body.List = rewrite(el.Body.List)
						e = el.Else
					default:
						e = nil
					}
				}
			case *ast.ForStmt:
				x.Body.List = rewrite(x.Body.List)
			case *ast.RangeStmt:
				x.Body.List = rewrite(x.Body.List)
			case *ast.SwitchStmt:
				for _, cc := range x.Body.List {
					cl := cc.(*ast.CaseClause)
					cl.Body = rewrite(cl.Body)
				}
			case *ast.TypeSwitchStmt:
				for _, cc := range x.Body.List {
					cl := cc.(*ast.CaseClause)
					cl.Body = rewrite(cl.Body)
				}
			case *ast.SelectStmt:
				for _, cc := range x.Body.List {
					cl := cc.(*ast.CommClause)
					cl.Body = rewrite(cl.Body)
				}
			case *ast.LabeledStmt:
				tmp := rewrite([]ast.Stmt{x.Stmt})
				if len(tmp) == 1 {
					x.Stmt = tmp[0]
				}
			}
			out = append(out, s)
		}
		return out
	}
	inner := rewrite(body.List)
	// structured form: `if c { A; break L }; rest` is `if c { A } else { rest }`; when no
	// break of the label is left, the wrapper is not needed at all
	if flat, ok := st.unbreak(inner, label); ok {
		stmts = append(stmts, flat...)
		return stmts, resExprs, true
	}
	sw := &ast.SwitchStmt{Switch: call.Pos(), Body: &ast.BlockStmt{Lbrace: call.Pos(), List: []ast.Stmt{&ast.CaseClause{Case: call.Pos(), Colon: call.Pos(), Body: inner}}, Rbrace: call.End()}}
	stmts = append(stmts, &ast.LabeledStmt{Label: &ast.Ident{Name: label, NamePos: call.Pos()}, Colon: call.Pos(), Stmt: sw})
	return stmts, resExprs, true
}

// commonReturnedLocal: the i-th result of every return of body is the same
// variable, a local defined by `:=` directly in the body's statement list.
func (st *inlineState) commonReturnedLocal(body *ast.BlockStmt, i, nres int) *types.Var {
	var cv *types.Var
	bad := false
	ast.Inspect(body, func(m ast.Node) bool {
		if _, isLit := m.(*ast.FuncLit); isLit {
			return false
		}
		r, ok := m.(*ast.ReturnStmt)
		if !ok {
			return true
		}
		if len(r.Results) != nres {
			bad = true
			return true
		}
		id, ok := ast.Unparen(r.Results[i]).(*ast.Ident)
		if !ok {
			bad = true
			return true
		}
		v, ok := st.info.Uses[id].(*types.Var)
		if !ok || v.IsField() || (cv != nil && cv != v) {
			bad = true
			return true
		}
		cv = v
		return true
	})
	if bad || cv == nil {
		return nil
	}
	for _, s := range body.List {
		if as, ok := s.(*ast.AssignStmt); ok && as.Tok == token.DEFINE {
			for _, l := range as.Lhs {
				if id, ok := l.(*ast.Ident); ok && st.info.Defs[id] == types.Object(cv) {
					return cv
				}
			}
		}
	}
	return nil
}

// firstCall finds the first-evaluated inlinable call inside e (not under the
// right operand of && / ||, not inside a function literal) and returns a
// pointer through which it can be replaced.
func (st *inlineState) firstCall(slot *ast.Expr, depth int) (*ast.Expr, *FuncDecl) {
	var found *ast.Expr
	var cfd *FuncDecl
	var visit func(slot *ast.Expr)
	visit = func(slot *ast.Expr) {
		if found != nil || *slot == nil {
			return
		}
		switch x := (*slot).(type) {
		case *ast.ParenExpr:
			visit(&x.X)
		case *ast.CallExpr:
			// operands first (evaluation order): receiver, then arguments
			if se, ok := x.Fun.(*ast.SelectorExpr); ok {
				visit(&se.X)
			}
			for i := range x.Args {
				visit(&x.Args[i])
			}
			if found == nil {
				if c := st.callee(x, depth); c != nil && c.Obj.Type().(*types.Signature).Results().Len() == 1 {
					found, cfd = slot, c
				}
			}
		case *ast.UnaryExpr:
			visit(&x.X)
		case *ast.StarExpr:
			visit(&x.X)
		case *ast.SelectorExpr:
			visit(&x.X)
		case *ast.IndexExpr:
			visit(&x.X)
			visit(&x.Index)
		case *ast.SliceExpr:
			visit(&x.X)
		case *ast.TypeAssertExpr:
			visit(&x.X)
		case *ast.BinaryExpr:
			visit(&x.X)
			if x.Op != token.LAND && x.Op != token.LOR {
				visit(&x.Y)
			}
		case *ast.KeyValueExpr:
			visit(&x.Value)
		case *ast.CompositeLit:
			for i := range x.Elts {
				visit(&x.Elts[i])
			}
		}
	}
	visit(slot)
	return found, cfd
}

// hoist replaces calls nested in the expression slots by temporaries.
func (st *inlineState) hoist(slots []*ast.Expr, depth int) []ast.Stmt {
	var pre []ast.Stmt
	for _, slot := range slots {
		for n := 0; n < 6; n++ {
			at, cfd := st.firstCall(slot, depth)
			if at == nil {
				break
			}
			call := ast.Unparen(*at).(*ast.CallExpr)
			// a callee that is a single `return <expr>` whose parameters can all be substituted is
			// replaced by that expression itself
			if len(cfd.Decl.Body.List) == 1 {
				if r, ok := cfd.Decl.Body.List[0].(*ast.ReturnStmt); ok && len(r.Results) == 1 && !st.stack[cfd.Obj] {
					body := st.cloneNode(cfd.Decl.Body).(*ast.BlockStmt)
					subst := st.substitute(call, cfd, body)
					sig := cfd.Obj.Type().(*types.Signature)
					all := true
					if sig.Recv() != nil && !subst[sig.Recv()] && sig.Recv().Name() != "" && sig.Recv().Name() != "_" {
						all = false
					}
					for i := 0; i < sig.Params().Len(); i++ {
						if pv := sig.Params().At(i); !subst[pv] && pv.Name() != "" && pv.Name() != "_" {
							all = false
						}
					}
					if all {
						e := body.List[0].(*ast.ReturnStmt).Results[0]
						*at = e // (an AST needs no parentheses)
						st.changed = true
						st.count[cfd.Obj]++
						if st.p.wasInlined == nil {
							st.p.wasInlined = map[*types.Func]bool{}
						}
						st.p.wasInlined[cfd.Obj] = true
						continue
					}
				}
			}
			ss, res, ok := st.expand(call, cfd, depth, false, nil, token.ILLEGAL)
			if !ok || len(res) != 1 {
				break
			}
			pre = append(pre, ss...)
			*at = res[0]
		}
	}
	return pre
}

func (st *inlineState) stmt(s ast.Stmt, depth int) []ast.Stmt {
	switch x := s.(type) {
	case *ast.BlockStmt:
		st.block(x, depth)
	case *ast.ExprStmt:
		if call, ok := ast.Unparen(x.X).(*ast.CallExpr); ok {
			if cfd := st.callee(call, depth); cfd != nil {
				pre := st.hoistArgs(call, depth)
				ss, _, ok := st.expand(call, cfd, depth, false, nil, token.ILLEGAL)
				if ok {
					return append(pre, ss...)
				}
			}
		}
		pre := st.hoist([]*ast.Expr{&x.X}, depth)
		return append(pre, s)
	case *ast.AssignStmt:
		if len(x.Rhs) == 1 {
			if call, ok := ast.Unparen(x.Rhs[0]).(*ast.CallExpr); ok {
				if cfd := st.callee(call, depth); cfd != nil && cfd.Obj.Type().(*types.Signature).Results().Len() == len(x.Lhs) && (x.Tok == token.ASSIGN || x.Tok == token.DEFINE) {
					pre := st.hoistArgs(call, depth)
					if x.Tok == token.ASSIGN {
						ss, _, ok := st.expand(call, cfd, depth, false, x.Lhs, token.ASSIGN)
						if ok {
							return append(pre, ss...)
						}
					} else {
						// `x, err := h(..)`: with a straight-line h, `x, err := e1, e2` in place of its
						// return; otherwise the variables are declared first and every return assigns them
						ss, _, ok := st.expand(call, cfd, depth, false, x.Lhs, token.DEFINE)
						if ok {
							return append(pre, ss...)
						}
					}
				}
			}
		}
		slots := make([]*ast.Expr, 0, len(x.Rhs))
		for i := range x.Rhs {
			slots = append(slots, &x.Rhs[i])
		}
		pre := st.hoist(slots, depth)
		return append(pre, s)
	case *ast.ReturnStmt:
		if len(x.Results) == 1 {
			if call, ok := ast.Unparen(x.Results[0]).(*ast.CallExpr); ok {
				if cfd := st.callee(call, depth); cfd != nil &&
					cfd.Obj.Type().(*types.Signature).Results().Len() == st.curNRes {
					pre := st.hoistArgs(call, depth)
					ss, _, ok := st.expand(call, cfd, depth, true, nil, token.ILLEGAL)
					if ok {
						return append(pre, ss...)
					}
				}
				if cfd := st.callee(call, depth); cfd != nil {
					// not a tail position of the root (nested inlining level): results through temporaries
					n := cfd.Obj.Type().(*types.Signature).Results().Len()
					pre := st.hoistArgs(call, depth)
					ss, res, ok := st.expand(call, cfd, depth, false, nil, token.ILLEGAL)
					if ok && len(res) == n && n > 0 {
						x.Results = res
						return append(append(pre, ss...), x)
					}
				}
			}
		}
		slots := make([]*ast.Expr, 0, len(x.Results))
		for i := range x.Results {
			slots = append(slots, &x.Results[i])
		}
		pre := st.hoist(slots, depth)
		return append(pre, s)
	case *ast.IfStmt:
		// `if L && R { B }` (no else) where R calls a helper that can be inlined but is not
		// evaluated first: `if L { if R { B } }`, so that the call can be expanded in place
		if be, ok := ast.Unparen(x.Cond).(*ast.BinaryExpr); ok && be.Op == token.LAND && x.Else == nil {
			inl := false
			ast.Inspect(be.Y, func(n ast.Node) bool {
				if _, isLit := n.(*ast.FuncLit); isLit {
					return false
				}
				if call, ok := n.(*ast.CallExpr); ok && st.callee(call, depth) != nil {
					inl = true
				}
				return true
			})
			if inl {
				inner := &ast.IfStmt{If: be.Y.Pos(), Cond: be.Y, Body: x.Body}
				x.Cond = be.X
				x.Body = &ast.BlockStmt{Lbrace: x.Body.Lbrace, List: []ast.Stmt{inner}, Rbrace: x.Body.Rbrace}
				st.changed = true
			}
		}
		// `if L || R { …exit }` (no else, no init; the body ends by leaving: continue, break,
		// return) where R calls an inlinable helper: `if L { …exit }; if R { …exit }`
		if be, ok := ast.Unparen(x.Cond).(*ast.BinaryExpr); ok && be.Op == token.LOR && x.Else == nil && x.Init == nil && len(x.Body.List) > 0 {
			leaves := false
			switch l := x.Body.List[len(x.Body.List)-1].(type) {
			case *ast.ReturnStmt:
				leaves = true
			case *ast.BranchStmt:
				leaves = l.Tok == token.CONTINUE || l.Tok == token.BREAK
			}
			inl := false
			ast.Inspect(be.Y, func(n ast.Node) bool {
				if _, isLit := n.(*ast.FuncLit); isLit {
					return false
				}
				if call, ok := n.(*ast.CallExpr); ok && st.callee(call, depth) != nil {
					inl = true
				}
				return true
			})
			if leaves && inl {
				second := &ast.IfStmt{If: be.Y.Pos(), Cond: be.Y, Body: st.cloneNode(x.Body).(*ast.BlockStmt)}
				x.Cond = be.X
				st.changed = true
				return append(st.stmt(x, depth), st.stmt(second, depth)...)
			}
		}
		var pre []ast.Stmt
		if x.Init != nil {
			init := st.stmt(x.Init, depth)
			if len(init) != 1 || init[0] != x.Init {
				// the init statement was expanded: run it in a block that keeps its scope
				x.Init = nil
				pre2 := st.hoist([]*ast.Expr{&x.Cond}, depth)
				st.block(x.Body, depth)
				st.elseOf(x, depth)
				blk := &ast.BlockStmt{Lbrace: x.Pos(), Rbrace: x.End()}
				blk.List = append(append(init, pre2...), x)
				return []ast.Stmt{blk}
			}
		} else {
			pre = st.hoist([]*ast.Expr{&x.Cond}, depth)
		}
		st.block(x.Body, depth)
		st.elseOf(x, depth)
		return append(pre, s)
	case *ast.ForStmt:
		st.block(x.Body, depth)
	case *ast.RangeStmt:
		pre := st.hoist([]*ast.Expr{&x.X}, depth)
		st.block(x.Body, depth)
		return append(pre, s)
	case *ast.SwitchStmt:
		for _, cc := range x.Body.List {
			cl := cc.(*ast.CaseClause)
			cl.Body = st.stmts(cl.Body, depth)
		}
	case *ast.TypeSwitchStmt:
		for _, cc := range x.Body.List {
			cl := cc.(*ast.CaseClause)
			cl.Body = st.stmts(cl.Body, depth)
		}
	case *ast.SelectStmt:
		for _, cc := range x.Body.List {
			cl := cc.(*ast.CommClause)
			cl.Body = st.stmts(cl.Body, depth)
		}
	case *ast.LabeledStmt:
		r := st.stmt(x.Stmt, depth)
		if len(r) == 1 {
			x.Stmt = r[0]
		}
	case *ast.SendStmt:
		pre := st.hoist([]*ast.Expr{&x.Value}, depth)
		return append(pre, s)
	case *ast.GoStmt:
		st.goNamed(x, depth)
		st.literalBody(x.Call, depth)
	case *ast.DeferStmt:
		st.literalBody(x.Call, depth)
	}
	return []ast.Stmt{s}
}

// goNamed: `go f(a, b)` with f an unexported function of the package that
// returns nothing, called with plain variables or constants, is
// `go func() { <body of f over a, b> }()`: the goroutine's text is then part of
// the function that starts it (its defers and returns stay the literal's own).
func (st *inlineState) goNamed(x *ast.GoStmt, depth int) {
	call := x.Call
	if _, isLit := ast.Unparen(call.Fun).(*ast.FuncLit); isLit || depth >= inlineMaxDepth {
		return
	}
	fn := Callee(st.info, call)
	if fn == nil || fn.Pkg() != st.root.Obj.Pkg() || fn.Exported() || st.stack[fn] || st.p.anchors[fn] || AnchorNames[fn.Name()] {
		return
	}
	if se, ok := ast.Unparen(call.Fun).(*ast.SelectorExpr); ok {
		if sel := st.info.Selections[se]; sel != nil && sel.Kind() != types.MethodVal {
			return
		}
	}
	cfd := st.p.RawDeclOf(fn)
	sig := fn.Type().(*types.Signature)
	if cfd == nil || cfd.Decl.Body == nil || cfd.Pkg.TypesInfo != st.info || sig.Results().Len() != 0 ||
		sig.TypeParams() != nil || sig.RecvTypeParams() != nil || sig.Variadic() || len(call.Args) != sig.Params().Len() {
		return
	}
	bad := false
	ast.Inspect(cfd.Decl.Body, func(n ast.Node) bool {
		switch y := n.(type) {
		case *ast.CallExpr:
			if id, ok := y.Fun.(*ast.Ident); ok && id.Name == "recover" {
				bad = true
			}
		case *ast.BranchStmt:
			if y.Tok == token.GOTO {
				bad = true
			}
		}
		return true
	})
	if bad {
		return
	}
	body := st.cloneNode(cfd.Decl.Body).(*ast.BlockStmt)
	subst := st.substitute(call, cfd, body)
	if sig.Recv() != nil && sig.Recv().Name() != "" && sig.Recv().Name() != "_" && !subst[sig.Recv()] {
		return
	}
	for i := 0; i < sig.Params().Len(); i++ {
		if pv := sig.Params().At(i); pv.Name() != "" && pv.Name() != "_" && !subst[pv] {
			return // an argument that is not a plain variable or constant: it would be evaluated at another time
		}
	}
	if st.p.wasInlined == nil {
		st.p.wasInlined = map[*types.Func]bool{}
	}
	st.p.wasInlined[fn] = true
	lit := &ast.FuncLit{Type: &ast.FuncType{Func: call.Pos(), Params: &ast.FieldList{}}, Body: body}
	st.info.Types[lit] = types.TypeAndValue{Type: types.NewSignatureType(nil, nil, nil, nil, nil, false)}
	x.Call = &ast.CallExpr{Fun: lit, Lparen: call.Lparen, Rparen: call.Rparen}
	st.changed = true
}

// literalBody processes the body of a function literal that is called in place
// (go func(){…}(), defer func(){…}()): its statements are part of the enclosing
// function's text, with their own result arity for tail calls.
func (st *inlineState) literalBody(call *ast.CallExpr, depth int) {
	lit, ok := ast.Unparen(call.Fun).(*ast.FuncLit)
	if !ok {
		return
	}
	save := st.curNRes
	st.curNRes = 0
	if lit.Type.Results != nil {
		st.curNRes = lit.Type.Results.NumFields()
	}
	st.block(lit.Body, depth)
	st.curNRes = save
}

func (st *inlineState) elseOf(x *ast.IfStmt, depth int) {
	switch e := x.Else.(type) {
	case *ast.BlockStmt:
		st.block(e, depth)
	case *ast.IfStmt:
		r := st.stmt(e, depth)
		if len(r) == 1 {
			x.Else = r[0]
		} else {
			x.Else = &ast.BlockStmt{Lbrace: e.Pos(), List: r, Rbrace: e.End()}
		}
	}
}

// hoistArgs inlines calls nested in the receiver and arguments of call.
func (st *inlineState) hoistArgs(call *ast.CallExpr, depth int) []ast.Stmt {
	var slots []*ast.Expr
	if se, ok := call.Fun.(*ast.SelectorExpr); ok {
		slots = append(slots, &se.X)
	}
	for i := range call.Args {
		slots = append(slots, &call.Args[i])
	}
	return st.hoist(slots, depth)
}

// ---- renumbering ---------------------------------------------------------

// renumber gives every valid position of the declaration a fresh, increasing
// position in a synthetic file and records where it came from.
func (p *Program) renumber(nd *ast.FuncDecl, orig *FuncDecl) {
	// count positions generously
	size := 0
	ast.Inspect(nd, func(n ast.Node) bool {
		if n != nil {
			size += 160
			if id, ok := n.(*ast.Ident); ok {
				size += len(id.Name)
			}
			if bl, ok := n.(*ast.BasicLit); ok {
				size += len(bl.Value)
			}
		}
		return true
	})
	file := p.Fset.AddFile(fmt.Sprintf("<inlined %s>", FuncName(orig.Obj)), -1, size+16)
	next := file.Base() + 1
	if p.posOrigin == nil {
		p.posOrigin = map[token.Pos]token.Pos{}
	}
	assign := func(f reflect.Value, width int) {
		old := token.Pos(f.Int())
		if !old.IsValid() {
			return
		}
		np := token.Pos(next)
		next += 16 + width // leave a gap: End() of keyword nodes is position + len(keyword)
		// chase origins of already renumbered positions
		if o, ok := p.posOrigin[old]; ok {
			old = o
		}
		p.posOrigin[np] = old
		f.SetInt(int64(np))
	}
	seen := map[ast.Node]bool{}
	var walk func(v reflect.Value)
	walk = func(v reflect.Value) {
		switch v.Kind() {
		case reflect.Ptr:
			if v.IsNil() {
				return
			}
			switch v.Interface().(type) {
			case *ast.Object, *ast.Scope:
				return
			}
			if !v.Type().Implements(nodeType) {
				return
			}
			n := v.Interface().(ast.Node)
			if seen[n] {
				return
			}
			seen[n] = true
			ev := v.Elem()
			width := 0
			switch x := n.(type) {
			case *ast.Ident:
				width = len(x.Name)
			case *ast.BasicLit:
				width = len(x.Value)
			}
			for i := 0; i < ev.NumField(); i++ {
				f := ev.Field(i)
				if f.Type() == posType {
					if f.CanSet() {
						assign(f, width)
						width = 0
					}
					continue
				}
				walk(f)
			}
		case reflect.Interface:
			if !v.IsNil() {
				walk(v.Elem())
			}
		case reflect.Slice:
			for i := 0; i < v.Len(); i++ {
				walk(v.Index(i))
			}
		}
	}
	// only the body is renumbered: the declaration header keeps its position for reports
	walk(reflect.ValueOf(nd.Body))
}

// ---- normalisation -------------------------------------------------------

// normalise rewrites, in the copy, two shapes into their plainest equivalent so
// that rules see one form: a parallel assignment whose right-hand sides do not
// read what earlier positions write becomes a sequence of single assignments;
// a tagless switch without fallthrough or unlabelled break becomes an
// if / else-if chain.
func (st *inlineState) normalise(body *ast.BlockStmt) {
	var lists func(list []ast.Stmt) []ast.Stmt
	var one func(s ast.Stmt) []ast.Stmt
	blk := func(b *ast.BlockStmt) {
		if b != nil {
			b.List = lists(b.List)
		}
	}
	lists = func(list []ast.Stmt) []ast.Stmt {
		// a bare block that declares nothing at its top level is its statements
		var flat []ast.Stmt
		for _, s := range list {
			b, ok := s.(*ast.BlockStmt)
			if !ok {
				flat = append(flat, s)
				continue
			}
			declares := false
			for _, bs := range b.List {
				switch d := bs.(type) {
				case *ast.DeclStmt:
					declares = true
				case *ast.AssignStmt:
					if d.Tok == token.DEFINE {
						declares = true
					}
				case *ast.LabeledStmt:
					declares = true
				}
			}
			if declares {
				flat = append(flat, s)
				continue
			}
			flat = append(flat, b.List...)
			st.changed = true
		}
		list = flat
		list = st.foldAddrNil(list)
		list = st.sinkNilCheck(list)
		list = st.foldConstruction(list)
		list = st.duplicateTail(list)
		var out []ast.Stmt
		for _, s := range list {
			out = append(out, one(s)...)
		}
		// once more on the normalised children (parallel assignments are split by now)
		out = st.foldAddrNil(out)
		out = st.sinkNilCheck(out)
		return out
	}
	one = func(s ast.Stmt) []ast.Stmt {
		switch x := s.(type) {
		case *ast.BlockStmt:
			blk(x)
		case *ast.IfStmt:
			// `if c { } else { B }` is `if !c { B }`
			if eb, ok := x.Else.(*ast.BlockStmt); ok && len(x.Body.List) == 0 && len(eb.List) > 0 {
				x.Cond = st.negate(x.Cond)
				x.Body, x.Else = eb, nil
				st.changed = true
			}
			blk(x.Body)
			switch e := x.Else.(type) {
			case *ast.BlockStmt:
				blk(e)
			case *ast.IfStmt:
				r := one(e)
				if len(r) == 1 {
					x.Else = r[0]
				}
			}
		case *ast.ForStmt:
			blk(x.Body)
			if r := st.indexToRange(x); r != nil {
				st.changed = true
				return []ast.Stmt{r}
			}
		case *ast.RangeStmt:
			blk(x.Body)
			if st.rangeKeyToValue(x) {
				st.changed = true
			}
			if r := st.unrollLiteralRange(x, body); r != nil {
				st.changed = true
				return lists(r)
			}
		case *ast.LabeledStmt:
			r := one(x.Stmt)
			if len(r) == 1 {
				x.Stmt = r[0]
			}
		case *ast.TypeSwitchStmt:
			for _, cc := range x.Body.List {
				cl := cc.(*ast.CaseClause)
				cl.Body = lists(cl.Body)
			}
			if r := st.typeSwitchNil(x); r != nil {
				st.changed = true
				return []ast.Stmt{r}
			}
		case *ast.SelectStmt:
			for _, cc := range x.Body.List {
				cl := cc.(*ast.CommClause)
				cl.Body = lists(cl.Body)
			}
		case *ast.SwitchStmt:
			for _, cc := range x.Body.List {
				cl := cc.(*ast.CaseClause)
				cl.Body = lists(cl.Body)
			}
			if r := st.switchToIf(x); r != nil {
				st.changed = true
				return []ast.Stmt{r}
			}
		case *ast.AssignStmt:
			// x = x does nothing
			if x.Tok == token.ASSIGN && len(x.Lhs) == 1 && len(x.Rhs) == 1 {
				if l, ok := x.Lhs[0].(*ast.Ident); ok {
					if r, ok := ast.Unparen(x.Rhs[0]).(*ast.Ident); ok && l.Name != "_" {
						if lv, ok := st.info.Uses[l].(*types.Var); ok && st.info.Uses[r] == types.Object(lv) {
							st.changed = true
							return nil
						}
					}
				}
			}
			if r := st.splitParallel(x); r != nil {
				st.changed = true
				return r
			}
		case *ast.GoStmt:
			if lit, ok := ast.Unparen(x.Call.Fun).(*ast.FuncLit); ok {
				blk(lit.Body)
			}
		case *ast.DeferStmt:
			if lit, ok := ast.Unparen(x.Call.Fun).(*ast.FuncLit); ok {
				blk(lit.Body)
			}
		}
		return []ast.Stmt{s}
	}
	blk(body)
}

func (st *inlineState) splitParallel(x *ast.AssignStmt) []ast.Stmt {
	if len(x.Lhs) < 2 || len(x.Lhs) != len(x.Rhs) || (x.Tok != token.ASSIGN && x.Tok != token.DEFINE) {
		return nil
	}
	// right-hand side j must not read a location written at an earlier position
	// (locations are field paths of a variable; a path conflicts with its prefixes)
	type loc struct {
		v    *types.Var
		path string
	}
	var written []loc
	conflict := func(v *types.Var, path string) bool {
		for _, w := range written {
			if w.v == v && (w.path == path || strings.HasPrefix(path, w.path+".") || strings.HasPrefix(w.path, path+".") || path == "" || w.path == "") {
				return true
			}
		}
		return false
	}
	for i := range x.Lhs {
		bad := false
		var visit func(e ast.Node)
		visit = func(e ast.Node) {
			ast.Inspect(e, func(n ast.Node) bool {
				switch y := n.(type) {
				case *ast.SelectorExpr:
					if sel := st.info.Selections[y]; sel != nil && sel.Kind() == types.FieldVal {
						if r, pth := FieldPath(st.info, y); r != nil {
							if conflict(r, pth) {
								bad = true
							}
							return false
						}
					}
				case *ast.Ident:
					if v, ok := st.info.Uses[y].(*types.Var); ok && conflict(v, "") {
						bad = true
					}
				}
				return true
			})
		}
		visit(x.Rhs[i])
		if bad {
			return nil
		}
		l := ast.Unparen(x.Lhs[i])
		if stx, ok := l.(*ast.StarExpr); ok {
			l = ast.Unparen(stx.X)
		}
		if r, pth := FieldPath(st.info, l); r != nil {
			written = append(written, loc{r, pth})
		} else if id, ok := x.Lhs[i].(*ast.Ident); !ok || id.Name != "_" {
			return nil
		}
	}
	var out []ast.Stmt
	for i := range x.Lhs {
		tok := x.Tok
		if tok == token.DEFINE {
			// a position that re-uses an existing variable is a plain assignment
			if id, ok := x.Lhs[i].(*ast.Ident); ok && st.info.Defs[id] == nil {
				tok = token.ASSIGN
			}
		}
		out = append(out, &ast.AssignStmt{Lhs: []ast.Expr{x.Lhs[i]}, TokPos: x.TokPos, Tok: tok, Rhs: []ast.Expr{x.Rhs[i]}})
	}
	return out
}

func (st *inlineState) switchToIf(x *ast.SwitchStmt) ast.Stmt {
	if x.Init != nil || len(x.Body.List) == 0 {
		return nil
	}
	// a tag must be a plain variable or field path: it is re-evaluated per case
	if x.Tag != nil {
		pure := true
		ast.Inspect(x.Tag, func(n ast.Node) bool {
			switch n.(type) {
			case *ast.CallExpr, *ast.IndexExpr, *ast.UnaryExpr, *ast.StarExpr, *ast.TypeAssertExpr:
				pure = false
			}
			return true
		})
		if !pure {
			return nil
		}
	}
	// no fallthrough; no unlabelled break that belongs to this switch
	bad := false
	var scan func(n ast.Node, inLoopOrSwitch bool)
	scan = func(n ast.Node, nested bool) {
		ast.Inspect(n, func(m ast.Node) bool {
			if m == nil || bad {
				return false
			}
			switch b := m.(type) {
			case *ast.BranchStmt:
				if b.Tok == token.FALLTHROUGH || (b.Tok == token.BREAK && b.Label == nil && !nested) {
					bad = true
				}
			case *ast.ForStmt, *ast.RangeStmt, *ast.SwitchStmt, *ast.TypeSwitchStmt, *ast.SelectStmt:
				if m != n {
					scan(m, true)
					return false
				}
			case *ast.FuncLit:
				return false
			}
			return true
		})
	}
	var deflt *ast.CaseClause
	var cases []*ast.CaseClause
	for _, cc := range x.Body.List {
		cl := cc.(*ast.CaseClause)
		for _, s := range cl.Body {
			scan(s, false)
		}
		if cl.List == nil {
			deflt = cl
		} else {
			cases = append(cases, cl)
		}
	}
	if bad || len(cases) == 0 {
		return nil
	}
	// a default clause that is not last would still be evaluated last: fine for an if chain
	var first, cur *ast.IfStmt
	for _, cl := range cases {
		mk := func(e ast.Expr) ast.Expr {
			if x.Tag == nil {
				return e
			}
			eq := &ast.BinaryExpr{X: st.cloneNode(x.Tag).(ast.Expr), OpPos: e.Pos(), Op: token.EQL, Y: e}
			st.info.Types[eq] = types.TypeAndValue{Type: types.Typ[types.Bool]}
			return eq
		}
		cond := mk(cl.List[0])
		for _, e := range cl.List[1:] {
			be := &ast.BinaryExpr{X: cond, OpPos: e.Pos(), Op: token.LOR, Y: mk(e)}
			st.info.Types[be] = types.TypeAndValue{Type: types.Typ[types.Bool]}
			cond = be
		}
		is := &ast.IfStmt{If: cl.Case, Cond: cond, Body: &ast.BlockStmt{Lbrace: cl.Colon, List: cl.Body, Rbrace: cl.End()}}
		if first == nil {
			first = is
		} else {
			cur.Else = is
		}
		cur = is
	}
	if deflt != nil {
		cur.Else = &ast.BlockStmt{Lbrace: deflt.Colon, List: deflt.Body, Rbrace: deflt.End()}
	}
	return first
}

// unbreak removes `break label` statements from a statement list by nesting
// what follows an early exit into the else branch. ok is false when a break of
// the label remains somewhere it cannot be removed (inside a loop or switch).
func (st *inlineState) unbreak(list []ast.Stmt, label string) ([]ast.Stmt, bool) {
	return st.unexit(list, func(s ast.Stmt) bool {
		b, ok := s.(*ast.BranchStmt)
		return ok && b.Tok == token.BREAK && b.Label != nil && b.Label.Name == label
	}, true)
}

// uncontinue does the same for the unlabelled `continue` statements of a loop
// body: `if c { A; continue }; rest` becomes `if c { A } else { rest }`.
func (st *inlineState) uncontinue(list []ast.Stmt) ([]ast.Stmt, bool) {
	return st.unexit(list, func(s ast.Stmt) bool {
		b, ok := s.(*ast.BranchStmt)
		return ok && b.Tok == token.CONTINUE && b.Label == nil
	}, false)
}

func (st *inlineState) unexit(list []ast.Stmt, isBreak func(ast.Stmt) bool, intoLoops bool) ([]ast.Stmt, bool) {
	mentions := func(n ast.Node) bool {
		found := false
		ast.Inspect(n, func(m ast.Node) bool {
			switch m.(type) {
			case *ast.FuncLit:
				return false
			case *ast.ForStmt, *ast.RangeStmt:
				if !intoLoops {
					return false
				}
			}
			if s, ok := m.(ast.Stmt); ok && isBreak(s) {
				found = true
			}
			return true
		})
		return found
	}
	var conv func(list []ast.Stmt) ([]ast.Stmt, bool, bool) // result, always exits, ok
	conv = func(list []ast.Stmt) ([]ast.Stmt, bool, bool) {
		var out []ast.Stmt
		for i, s := range list {
			if isBreak(s) {
				return out, true, true // anything after is dead
			}
			is, isIf := s.(*ast.IfStmt)
			if !isIf || !mentions(s) {
				if mentions(s) {
					return nil, false, false // break inside a loop / switch / block: keep the wrapper
				}
				out = append(out, s)
				continue
			}
			// if statement containing an exit: convert its branches, then nest the rest
			body, bodyExits, ok := conv(is.Body.List)
			if !ok {
				return nil, false, false
			}
			var els []ast.Stmt
			elsExits := false
			switch e := is.Else.(type) {
			case nil:
			case *ast.BlockStmt:
				els, elsExits, ok = conv(e.List)
			case *ast.IfStmt:
				els, elsExits, ok = conv([]ast.Stmt{e})
			}
			if !ok {
				return nil, false, false
			}
			rest, restExits, ok := conv(list[i+1:])
			if !ok {
				return nil, false, false
			}
			ni := &ast.IfStmt{If: is.If, Init: is.Init, Cond: is.Cond, Body: &ast.BlockStmt{Lbrace: is.Body.Lbrace, Rbrace: is.Body.Rbrace}}
			switch {
			case bodyExits && !elsExits:
				// if c { A; exit } [else { B }]; rest   =>   if c { A } else { B; rest }
				ni.Body.List = body
				tail := append(els, rest...)
				if len(body) == 0 && len(tail) > 0 {
					ni.Cond = st.negate(is.Cond)
					ni.Body.List = tail
				} else if len(tail) > 0 {
					ni.Else = &ast.BlockStmt{Lbrace: is.End(), List: tail, Rbrace: is.End()}
				}
				out = append(out, ni)
				return out, restExits && len(body) >= 0 && false, true
			case !bodyExits && elsExits:
				ni.Body.List = append(body, rest...)
				if len(els) > 0 {
					ni.Else = &ast.BlockStmt{Lbrace: is.End(), List: els, Rbrace: is.End()}
				}
				out = append(out, ni)
				return out, false, true
			case bodyExits && elsExits:
				ni.Body.List = body
				if len(els) > 0 {
					ni.Else = &ast.BlockStmt{Lbrace: is.End(), List: els, Rbrace: is.End()}
				}
				out = append(out, ni)
				return out, true, true
			default:
				return nil, false, false // a break nested deeper than a branch end
			}
		}
		return out, false, true
	}
	out, _, ok := conv(list)
	if !ok {
		return nil, false
	}
	for _, s := range out {
		if mentions(s) {
			return nil, false
		}
	}
	return out, true
}

func (st *inlineState) negate(c ast.Expr) ast.Expr {
	c = ast.Unparen(c)
	flip := map[token.Token]token.Token{token.EQL: token.NEQ, token.NEQ: token.EQL, token.LSS: token.GEQ, token.GEQ: token.LSS, token.GTR: token.LEQ, token.LEQ: token.GTR}
	switch x := c.(type) {
	case *ast.BinaryExpr:
		if t, ok := flip[x.Op]; ok {
			n := &ast.BinaryExpr{X: x.X, OpPos: x.OpPos, Op: t, Y: x.Y}
			st.info.Types[n] = types.TypeAndValue{Type: types.Typ[types.Bool]}
			return n
		}
	case *ast.UnaryExpr:
		if x.Op == token.NOT {
			return x.X
		}
	}
	n := &ast.UnaryExpr{OpPos: c.Pos(), Op: token.NOT, X: &ast.ParenExpr{Lparen: c.Pos(), X: c, Rparen: c.End()}}
	st.info.Types[n] = types.TypeAndValue{Type: types.Typ[types.Bool]}
	st.info.Types[n.X] = types.TypeAndValue{Type: types.Typ[types.Bool]}
	return n
}

// indexToRange: `for i := 0; i < len(X); i++ { v := X[i]; … }` with a pure X
// that the body neither assigns nor appends to, and an i the body does not
// modify, is `for i, v := range X { … }`.
func (st *inlineState) indexToRange(x *ast.ForStmt) ast.Stmt {
	init, ok := x.Init.(*ast.AssignStmt)
	if !ok || init.Tok != token.DEFINE || len(init.Lhs) != 1 || len(init.Rhs) != 1 {
		return nil
	}
	iv, _ := st.info.Defs[init.Lhs[0].(*ast.Ident)].(*types.Var)
	if tv := st.info.Types[init.Rhs[0]]; iv == nil || tv.Value == nil || tv.Value.String() != "0" {
		return nil
	}
	cond, ok := ast.Unparen(x.Cond).(*ast.BinaryExpr)
	if !ok || cond.Op != token.LSS || VarOf(st.info, cond.X) != iv {
		return nil
	}
	lc, ok := ast.Unparen(cond.Y).(*ast.CallExpr)
	if !ok || len(lc.Args) != 1 {
		return nil
	}
	if id, ok := lc.Fun.(*ast.Ident); !ok || id.Name != "len" {
		return nil
	}
	coll := lc.Args[0]
	post, ok := x.Post.(*ast.IncDecStmt)
	if !ok || post.Tok != token.INC || VarOf(st.info, post.X) != iv {
		return nil
	}
	pure := true
	ast.Inspect(coll, func(n ast.Node) bool {
		switch n.(type) {
		case *ast.CallExpr, *ast.IndexExpr, *ast.StarExpr:
			pure = false
		}
		return true
	})
	if !pure || len(x.Body.List) == 0 {
		return nil
	}
	var valueIdent ast.Expr
	rest := x.Body.List
	if first, ok := x.Body.List[0].(*ast.AssignStmt); ok && first.Tok == token.DEFINE && len(first.Lhs) == 1 && len(first.Rhs) == 1 {
		if ix, ok := ast.Unparen(first.Rhs[0]).(*ast.IndexExpr); ok && VarOf(st.info, ix.Index) == iv && types.ExprString(ix.X) == types.ExprString(coll) {
			valueIdent, rest = first.Lhs[0], x.Body.List[1:]
		}
	}
	if valueIdent == nil {
		// no element variable: introduce one for the occurrences of X[i]
		et := st.info.TypeOf(coll)
		var elem types.Type
		if et != nil {
			switch u := et.Underlying().(type) {
			case *types.Slice:
				elem = u.Elem()
			case *types.Array:
				elem = u.Elem()
			}
		}
		if elem == nil {
			return nil
		}
		ev := st.newVar("elem", elem, x.Pos())
		n := 0
		collStr := types.ExprString(coll)
		st.replaceExprs(reflect.ValueOf(x.Body), func(e ast.Expr) bool {
			ix, ok := e.(*ast.IndexExpr)
			return ok && VarOf(st.info, ix.Index) == iv && types.ExprString(ix.X) == collStr
		}, func(old ast.Expr) ast.Expr {
			n++
			return st.useIdent(ev, old.Pos())
		})
		if n == 0 {
			return nil
		}
		valueIdent = st.defIdent(ev, x.Pos())
	}
	collRoot, collPath := FieldPath(st.info, coll)
	if collRoot == nil {
		return nil
	}
	bad := false
	for _, s := range rest {
		ast.Inspect(s, func(n ast.Node) bool {
			switch y := n.(type) {
			case *ast.AssignStmt:
				for _, l := range y.Lhs {
					if VarOf(st.info, l) == iv {
						bad = true
					}
					if r, pth := FieldPath(st.info, l); r == collRoot && (pth == collPath || strings.HasPrefix(collPath, pth+".") || pth == "") {
						bad = true
					}
				}
			case *ast.IncDecStmt:
				if VarOf(st.info, y.X) == iv {
					bad = true
				}
			case *ast.UnaryExpr:
				if y.Op == token.AND && VarOf(st.info, y.X) == iv {
					bad = true
				}
			}
			return true
		})
	}
	if bad {
		return nil
	}
	return &ast.RangeStmt{For: x.For, Key: init.Lhs[0], Value: valueIdent, TokPos: init.TokPos, Tok: token.DEFINE, X: coll,
		Body: &ast.BlockStmt{Lbrace: x.Body.Lbrace, List: rest, Rbrace: x.Body.Rbrace}}
}

// rangeKeyToValue: `for i := range X { v := X[i]; … }` over a slice or array X
// (a pure path the body does not assign, with i not modified) is
// `for i, v := range X { … }`.
func (st *inlineState) rangeKeyToValue(x *ast.RangeStmt) bool {
	if x.Value != nil || x.Key == nil || x.Tok != token.DEFINE || len(x.Body.List) == 0 {
		return false
	}
	kid, ok := x.Key.(*ast.Ident)
	if !ok {
		return false
	}
	iv, _ := st.info.Defs[kid].(*types.Var)
	if iv == nil {
		return false
	}
	switch st.info.TypeOf(x.X).Underlying().(type) {
	case *types.Slice, *types.Array:
	default:
		return false
	}
	first, ok := x.Body.List[0].(*ast.AssignStmt)
	if !ok || first.Tok != token.DEFINE || len(first.Lhs) != 1 || len(first.Rhs) != 1 {
		return false
	}
	ix, ok := ast.Unparen(first.Rhs[0]).(*ast.IndexExpr)
	if !ok || VarOf(st.info, ix.Index) != iv || types.ExprString(ix.X) != types.ExprString(x.X) {
		return false
	}
	collRoot, collPath := FieldPath(st.info, x.X)
	if collRoot == nil {
		return false
	}
	bad := false
	for _, s := range x.Body.List[1:] {
		ast.Inspect(s, func(n ast.Node) bool {
			switch y := n.(type) {
			case *ast.AssignStmt:
				for _, l := range y.Lhs {
					if VarOf(st.info, l) == iv {
						bad = true
					}
					if r, pth := FieldPath(st.info, l); r == collRoot && (pth == collPath || strings.HasPrefix(collPath, pth+".") || pth == "") {
						bad = true
					}
				}
			case *ast.IncDecStmt:
				if VarOf(st.info, y.X) == iv {
					bad = true
				}
			case *ast.UnaryExpr:
				if y.Op == token.AND && VarOf(st.info, y.X) == iv {
					bad = true
				}
			}
			return true
		})
	}
	if bad {
		return false
	}
	x.Value = first.Lhs[0]
	x.Body.List = x.Body.List[1:]
	return true
}

// unrollLiteralRange: `for _, v := range []T{e1, …, en} { body }` (the slice given
// directly or through a local defined once by that literal), with at most 24
// elements that are field paths, addresses of field paths or plain variables,
// no key variable, no break/continue of this loop and no assignment to v,
// is the body repeated once per element with v replaced by the element.
func (st *inlineState) unrollLiteralRange(x *ast.RangeStmt, scope *ast.BlockStmt) []ast.Stmt {
	if x.Value == nil || x.Tok != token.DEFINE {
		return nil
	}
	if k, ok := x.Key.(*ast.Ident); x.Key != nil && (!ok || k.Name != "_") {
		return nil
	}
	vid, ok := x.Value.(*ast.Ident)
	if !ok {
		return nil
	}
	lv, _ := st.info.Defs[vid].(*types.Var)
	if lv == nil {
		return nil
	}
	var lit *ast.CompositeLit
	switch y := ast.Unparen(x.X).(type) {
	case *ast.CompositeLit:
		lit = y
	case *ast.Ident:
		sv, _ := st.info.Uses[y].(*types.Var)
		if sv == nil || sv.IsField() {
			return nil
		}
		ndefs, nuses := 0, 0
		ast.Inspect(scope, func(n ast.Node) bool {
			switch z := n.(type) {
			case *ast.AssignStmt:
				for i, l := range z.Lhs {
					if id, ok := l.(*ast.Ident); ok && (st.info.Defs[id] == types.Object(sv) || st.info.Uses[id] == types.Object(sv)) {
						ndefs++
						if len(z.Lhs) == len(z.Rhs) {
							lit, _ = ast.Unparen(z.Rhs[i]).(*ast.CompositeLit)
						}
					}
				}
			case *ast.Ident:
				if st.info.Uses[z] == types.Object(sv) {
					nuses++
				}
			}
			return true
		})
		if ndefs != 1 || nuses != 1 || lit == nil {
			return nil
		}
	default:
		return nil
	}
	_, isSlice := st.info.TypeOf(lit).Underlying().(*types.Slice)
	_, isArray := st.info.TypeOf(lit).Underlying().(*types.Array)
	if (!isSlice && !isArray) || len(lit.Elts) == 0 || len(lit.Elts) > 24 {
		return nil
	}
	for _, e := range lit.Elts {
		if _, isKV := e.(*ast.KeyValueExpr); isKV {
			return nil
		}
		in := ast.Unparen(e)
		if u, ok := in.(*ast.UnaryExpr); ok && u.Op == token.AND {
			in = ast.Unparen(u.X)
		}
		if r, _ := FieldPath(st.info, in); r == nil {
			return nil
		}
	}
	// the body must not leave or restart the loop, nor assign the loop variable
	bad := false
	var scan func(n ast.Node, nested bool)
	scan = func(n ast.Node, nested bool) {
		ast.Inspect(n, func(m ast.Node) bool {
			if m == nil || bad {
				return false
			}
			switch b := m.(type) {
			case *ast.BranchStmt:
				if b.Label == nil && (b.Tok == token.CONTINUE || b.Tok == token.BREAK) && !nested {
					bad = true
				}
				if b.Label == nil && b.Tok == token.CONTINUE {
					bad = true // a continue in a nested switch still targets this loop
				}
			case *ast.ForStmt, *ast.RangeStmt:
				if m != n {
					ast.Inspect(m, func(k ast.Node) bool { return true })
					return false
				}
			case *ast.SwitchStmt, *ast.TypeSwitchStmt, *ast.SelectStmt:
				if m != n {
					scan(m, true)
					return false
				}
			case *ast.FuncLit:
				return false
			}
			return true
		})
	}
	bodyList := x.Body.List
	if conv, ok := st.uncontinue(bodyList); ok {
		bodyList = conv
	}
	for _, s := range bodyList {
		scan(s, false)
	}
	if bad || st.paramWritten(lv, x.Body) {
		return nil
	}
	var out []ast.Stmt
	for _, e := range lit.Elts {
		cp := st.cloneNode(&ast.BlockStmt{Lbrace: x.Body.Lbrace, List: bodyList, Rbrace: x.Body.Rbrace}).(*ast.BlockStmt)
		if id, ok := ast.Unparen(e).(*ast.Ident); ok {
			if cv, ok := st.info.Uses[id].(*types.Var); ok {
				ast.Inspect(cp, func(n ast.Node) bool {
					if li, ok := n.(*ast.Ident); ok && st.info.Uses[li] == types.Object(lv) {
						st.info.Uses[li] = cv
						li.Name = cv.Name()
					}
					return true
				})
			}
		} else {
			st.replaceUses(reflect.ValueOf(cp), lv, e)
			cp.List = st.foldAddrNil(cp.List)
		}
		out = append(out, cp.List...)
	}
	return out
}

// sinkNilCheck: an if / else tree every leaf of which ends by assigning the
// variable v (or by returning), directly followed by `if v != nil { … }` (no
// else), is the tree with that check moved to the end of each leaf; there the
// check disappears after `v = nil` and becomes its body after `v = <a call that
// always yields a non-nil error>`. This is what the inlined form of
// `if err := helper(); err != nil { return err }` reduces to: the helper's
// early error returns become early returns of the caller again.
func (st *inlineState) sinkNilCheck(list []ast.Stmt) []ast.Stmt {
	for i := 0; i+1 < len(list); i++ {
		tree, ok := list[i].(*ast.IfStmt)
		if !ok || tree.Else == nil {
			continue
		}
		chk, ok := list[i+1].(*ast.IfStmt)
		if !ok || chk.Init != nil || chk.Else != nil {
			continue
		}
		be, ok := ast.Unparen(chk.Cond).(*ast.BinaryExpr)
		if !ok || be.Op != token.NEQ {
			continue
		}
		vid, ok := ast.Unparen(be.X).(*ast.Ident)
		if nid, isId := ast.Unparen(be.Y).(*ast.Ident); !ok || !isId || nid.Name != "nil" {
			continue
		}
		v, _ := st.info.Uses[vid].(*types.Var)
		if v == nil || v.IsField() {
			continue
		}
		// every leaf ends with an assignment to v or a return
		var leafOK func(l []ast.Stmt) bool
		leafOK = func(l []ast.Stmt) bool {
			if len(l) == 0 {
				return false
			}
			switch x := l[len(l)-1].(type) {
			case *ast.ReturnStmt:
				return true
			case *ast.AssignStmt:
				if len(x.Lhs) == 1 && len(x.Rhs) == 1 && x.Tok == token.ASSIGN {
					if id, ok := x.Lhs[0].(*ast.Ident); ok && st.info.Uses[id] == types.Object(v) {
						return true
					}
				}
			case *ast.IfStmt:
				if x.Else == nil || !leafOK(x.Body.List) {
					return false
				}
				switch e := x.Else.(type) {
				case *ast.BlockStmt:
					return leafOK(e.List)
				case *ast.IfStmt:
					return leafOK([]ast.Stmt{e})
				}
			case *ast.BlockStmt:
				return leafOK(x.List)
			}
			return false
		}
		if !leafOK([]ast.Stmt{tree}) {
			if os.Getenv("GOBLCHECK_DEBUG_SINK") != "" {
				fmt.Fprintln(os.Stderr, "sinkNilCheck: leaves not ok for", v.Name())
			}
			continue
		}
		var sink func(l []ast.Stmt) []ast.Stmt
		sink = func(l []ast.Stmt) []ast.Stmt {
			switch x := l[len(l)-1].(type) {
			case *ast.AssignStmt:
				rhs := ast.Unparen(x.Rhs[0])
				if id, ok := rhs.(*ast.Ident); ok && id.Name == "nil" {
					return l // the check is false here
				}
				if call, ok := rhs.(*ast.CallExpr); ok {
					if fn := Callee(st.info, call); fn != nil && IsErrorConstructor(st.p, fn) {
						return append(l, st.cloneNode(chk.Body).(*ast.BlockStmt).List...)
					}
				}
				// a composite literal (or its address) stored in an interface is not nil
				lit := rhs
				if u, ok := lit.(*ast.UnaryExpr); ok && u.Op == token.AND {
					lit = ast.Unparen(u.X)
				}
				if _, ok := lit.(*ast.CompositeLit); ok {
					if _, isIface := v.Type().Underlying().(*types.Interface); isIface {
						return append(l, st.cloneNode(chk.Body).(*ast.BlockStmt).List...)
					}
				}
				return append(l, st.cloneNode(chk).(ast.Stmt))
			case *ast.IfStmt:
				x.Body.List = sink(x.Body.List)
				switch e := x.Else.(type) {
				case *ast.BlockStmt:
					e.List = sink(e.List)
				case *ast.IfStmt:
					sink([]ast.Stmt{e})
				}
			case *ast.BlockStmt:
				x.List = sink(x.List)
			}
			return l
		}
		sink([]ast.Stmt{tree})
		st.changed = true
		out := append([]ast.Stmt{}, list[:i+1]...)
		out = append(out, list[i+2:]...)
		return st.sinkNilCheck(out)
	}
	return list
}

// constCond evaluates a condition that is constant: true / false / a constant
// expression, the comparison of an address with nil, and negations of these.
func (st *inlineState) constCond(c ast.Expr) (val, known bool) {
	c = ast.Unparen(c)
	if tv, ok := st.info.Types[c]; ok && tv.Value != nil && tv.Value.Kind() == constant.Bool {
		return constant.BoolVal(tv.Value), true
	}
	switch x := c.(type) {
	case *ast.Ident:
		if _, isConst := st.info.Uses[x].(*types.Const); isConst && (x.Name == "true" || x.Name == "false") {
			return x.Name == "true", true
		}
	case *ast.UnaryExpr:
		if x.Op == token.NOT {
			v, k := st.constCond(x.X)
			return !v, k
		}
	case *ast.BinaryExpr:
		if x.Op == token.EQL || x.Op == token.NEQ {
			a, b := ast.Unparen(x.X), ast.Unparen(x.Y)
			if ia, ok := a.(*ast.Ident); ok && ia.Name == "nil" {
				if ib, ok := b.(*ast.Ident); ok && ib.Name == "nil" {
					return x.Op == token.EQL, true // nil == nil, after a nil argument was substituted
				}
			}
			if id, isId := a.(*ast.Ident); isId && id.Name == "nil" {
				a, b = b, a
			}
			u, isAddr := a.(*ast.UnaryExpr)
			id, isId := b.(*ast.Ident)
			if isAddr && u.Op == token.AND && isId && id.Name == "nil" {
				return x.Op == token.NEQ, true
			}
		}
	}
	return false, false
}

// foldAddrNil (foldConstIf) removes if statements whose condition is constant:
// `if true { A }` is A and `if false { A } else { B }` is B.
func (st *inlineState) foldAddrNil(list []ast.Stmt) []ast.Stmt {
	var out []ast.Stmt
	for _, s := range list {
		is, ok := s.(*ast.IfStmt)
		if !ok || is.Init != nil {
			out = append(out, s)
			continue
		}
		val, known := st.constCond(is.Cond)
		if !known {
			out = append(out, s)
			continue
		}
		st.changed = true
		var taken []ast.Stmt
		if val {
			taken = is.Body.List
		} else {
			switch e := is.Else.(type) {
			case *ast.BlockStmt:
				taken = e.List
			case *ast.IfStmt:
				taken = []ast.Stmt{e}
			}
		}
		// the branch's own declarations stay in their block unless it declares nothing
		declares := false
		for _, t := range taken {
			if as, ok := t.(*ast.AssignStmt); ok && as.Tok == token.DEFINE {
				declares = true
			}
			if _, ok := t.(*ast.DeclStmt); ok {
				declares = true
			}
		}
		if declares {
			out = append(out, &ast.BlockStmt{Lbrace: is.Pos(), List: st.foldAddrNil(taken), Rbrace: is.End()})
		} else {
			out = append(out, st.foldAddrNil(taken)...)
		}
	}
	return out
}

// foldConstruction: `x := new(T)` (or `x := &T{}` / `x := &T{…}`) followed
// directly by assignments `x.F = e` to distinct fields of T whose values do not
// mention x is the composite literal `x := &T{…, F: e}`.
func (st *inlineState) foldConstruction(list []ast.Stmt) []ast.Stmt {
	var out []ast.Stmt
	for i := 0; i < len(list); i++ {
		as, ok := list[i].(*ast.AssignStmt)
		if !ok || as.Tok != token.DEFINE || len(as.Lhs) != 1 || len(as.Rhs) != 1 {
			out = append(out, list[i])
			continue
		}
		xid, ok := as.Lhs[0].(*ast.Ident)
		xv, _ := st.info.Defs[xid].(*types.Var)
		if !ok || xv == nil {
			out = append(out, list[i])
			continue
		}
		var lit *ast.CompositeLit
		var named types.Type
		rhs := ast.Unparen(as.Rhs[0])
		switch r := rhs.(type) {
		case *ast.CallExpr:
			if id, ok := r.Fun.(*ast.Ident); ok && id.Name == "new" && len(r.Args) == 1 {
				if tv, ok := st.info.Types[r.Args[0]]; ok && tv.IsType() {
					if _, isSt := tv.Type.Underlying().(*types.Struct); isSt {
						named = tv.Type
						lit = &ast.CompositeLit{Type: r.Args[0], Lbrace: r.Lparen, Rbrace: r.Rparen}
					}
				}
			}
		case *ast.UnaryExpr:
			if cl, ok := ast.Unparen(r.X).(*ast.CompositeLit); ok && r.Op == token.AND {
				if t := st.info.TypeOf(cl); t != nil {
					if _, isSt := t.Underlying().(*types.Struct); isSt {
						keyed := true
						for _, e := range cl.Elts {
							if _, isKV := e.(*ast.KeyValueExpr); !isKV {
								keyed = false
							}
						}
						if keyed {
							named, lit = t, cl
						}
					}
				}
			}
		}
		if lit == nil {
			out = append(out, list[i])
			continue
		}
		have := map[string]bool{}
		for _, e := range lit.Elts {
			if kv, ok := e.(*ast.KeyValueExpr); ok {
				if id, ok := kv.Key.(*ast.Ident); ok {
					have[id.Name] = true
				}
			}
		}
		var added []ast.Expr
		nested := map[*types.Var]*ast.CompositeLit{}
		j := i + 1
		for ; j < len(list); j++ {
			fa, ok := list[j].(*ast.AssignStmt)
			if !ok || fa.Tok != token.ASSIGN || len(fa.Lhs) != 1 || len(fa.Rhs) != 1 {
				break
			}
			se, ok := ast.Unparen(fa.Lhs[0]).(*ast.SelectorExpr)
			if !ok || VarOf(st.info, se.X) != xv {
				break
			}
			f := FieldOf(st.info, se)
			if f == nil || have[f.Name()] {
				break
			}
			// a field promoted from an embedded struct value goes into that struct's own literal
			var embedded *types.Var
			if sel := st.info.Selections[se]; sel != nil && len(sel.Index()) > 1 {
				stt, _ := named.Underlying().(*types.Struct)
				if len(sel.Index()) != 2 || stt == nil {
					break
				}
				embedded = stt.Field(sel.Index()[0])
				if _, isSt := embedded.Type().Underlying().(*types.Struct); !isSt {
					break
				}
				if _, isPtr := embedded.Type().(*types.Pointer); isPtr || (have[embedded.Name()] && nested[embedded] == nil) {
					break
				}
			}
			mentions := false
			ast.Inspect(fa.Rhs[0], func(n ast.Node) bool {
				if id, ok := n.(*ast.Ident); ok && st.info.Uses[id] == types.Object(xv) {
					mentions = true
				}
				return true
			})
			if mentions {
				break
			}
			have[f.Name()] = true
			key := &ast.Ident{Name: f.Name(), NamePos: se.Sel.Pos()}
			st.info.Uses[key] = f
			kv := &ast.KeyValueExpr{Key: key, Colon: fa.TokPos, Value: fa.Rhs[0]}
			if embedded == nil {
				added = append(added, kv)
				continue
			}
			inner := nested[embedded]
			if inner == nil {
				var texpr ast.Expr = &ast.Ident{Name: embedded.Name(), NamePos: se.Sel.Pos()}
				if nt, ok := embedded.Type().(*types.Named); ok && nt.Obj().Pkg() != nil && nt.Obj().Pkg() != st.root.Obj.Pkg() {
					texpr = &ast.SelectorExpr{X: &ast.Ident{Name: nt.Obj().Pkg().Name(), NamePos: se.Sel.Pos()}, Sel: &ast.Ident{Name: nt.Obj().Name(), NamePos: se.Sel.Pos()}}
				}
				inner = &ast.CompositeLit{Type: texpr, Lbrace: se.Sel.Pos(), Rbrace: se.Sel.End()}
				st.info.Types[inner] = types.TypeAndValue{Type: embedded.Type()}
				nested[embedded] = inner
				have[embedded.Name()] = true
				ekey := &ast.Ident{Name: embedded.Name(), NamePos: se.Sel.Pos()}
				st.info.Uses[ekey] = embedded
				added = append(added, &ast.KeyValueExpr{Key: ekey, Colon: fa.TokPos, Value: inner})
			}
			inner.Elts = append(inner.Elts, kv)
		}
		if len(added) == 0 {
			out = append(out, list[i])
			continue
		}
		nl := &ast.CompositeLit{Type: lit.Type, Lbrace: lit.Lbrace, Elts: append(append([]ast.Expr{}, lit.Elts...), added...), Rbrace: lit.Rbrace}
		st.info.Types[nl] = types.TypeAndValue{Type: named}
		u := &ast.UnaryExpr{OpPos: as.Rhs[0].Pos(), Op: token.AND, X: nl}
		st.info.Types[u] = types.TypeAndValue{Type: types.NewPointer(named)}
		out = append(out, &ast.AssignStmt{Lhs: as.Lhs, TokPos: as.TokPos, Tok: token.DEFINE, Rhs: []ast.Expr{u}})
		st.changed = true
		i = j - 1
	}
	return out
}

// duplicateTail: `if v != nil { A } [else { B }]; return …v…` where the results of
// the return are plain variables and constants and the condition is a nil test
// of one of them becomes `if … { A; return … } else { B; return … }`: every exit
// then lies where the test is known, which is what the rules read.
func (st *inlineState) duplicateTail(list []ast.Stmt) []ast.Stmt {
	n := len(list)
	if n < 2 {
		return list
	}
	ret, ok := list[n-1].(*ast.ReturnStmt)
	is, ok2 := list[n-2].(*ast.IfStmt)
	if !ok || !ok2 || is.Init != nil || len(ret.Results) == 0 {
		return list
	}
	vars := map[*types.Var]bool{}
	for _, r := range ret.Results {
		r = ast.Unparen(r)
		if tv, ok := st.info.Types[r]; ok && tv.Value != nil {
			continue
		}
		id, ok := r.(*ast.Ident)
		if !ok {
			return list
		}
		if id.Name == "nil" || id.Name == "true" || id.Name == "false" {
			continue
		}
		v, ok := st.info.Uses[id].(*types.Var)
		if !ok {
			return list
		}
		vars[v] = true
	}
	// the condition tests one of the returned variables against nil
	be, ok := ast.Unparen(is.Cond).(*ast.BinaryExpr)
	if !ok || (be.Op != token.EQL && be.Op != token.NEQ) {
		return list
	}
	tested := VarOf(st.info, be.X)
	if tested == nil || !vars[tested] {
		tested = VarOf(st.info, be.Y)
	}
	if tested == nil || !vars[tested] {
		return list
	}
	if _, ok := is.Else.(*ast.IfStmt); ok {
		return list
	}
	endsInExit := func(b *ast.BlockStmt) bool {
		if b == nil || len(b.List) == 0 {
			return false
		}
		switch x := b.List[len(b.List)-1].(type) {
		case *ast.ReturnStmt:
			return true
		case *ast.BranchStmt:
			return x.Tok == token.BREAK || x.Tok == token.CONTINUE || x.Tok == token.GOTO
		}
		return false
	}
	ni := &ast.IfStmt{If: is.If, Cond: is.Cond, Body: &ast.BlockStmt{Lbrace: is.Body.Lbrace, List: append([]ast.Stmt{}, is.Body.List...), Rbrace: is.Body.Rbrace}}
	if !endsInExit(is.Body) {
		ni.Body.List = append(ni.Body.List, st.cloneNode(ret).(ast.Stmt))
	}
	els := &ast.BlockStmt{Lbrace: ret.Pos(), Rbrace: ret.End()}
	if eb, ok := is.Else.(*ast.BlockStmt); ok {
		els.List = append(els.List, eb.List...)
		if !endsInExit(eb) {
			els.List = append(els.List, ret)
		}
	} else {
		els.List = append(els.List, ret)
	}
	ni.Else = els
	st.changed = true
	return append(append([]ast.Stmt{}, list[:n-2]...), ni)
}

// replaceExprs replaces, below v, every expression satisfying pred (found in an
// ast.Expr-typed field or slice element) by mk(old).
func (st *inlineState) replaceExprs(v reflect.Value, pred func(ast.Expr) bool, mk func(ast.Expr) ast.Expr) {
	switch v.Kind() {
	case reflect.Ptr:
		if v.IsNil() || !v.Type().Implements(nodeType) {
			return
		}
		switch v.Interface().(type) {
		case *ast.Object, *ast.Scope:
			return
		}
		ev := v.Elem()
		for i := 0; i < ev.NumField(); i++ {
			f := ev.Field(i)
			if f.Kind() == reflect.Interface && !f.IsNil() && f.CanSet() {
				if e, ok := f.Interface().(ast.Expr); ok && pred(e) {
					f.Set(reflect.ValueOf(mk(e)))
					continue
				}
			}
			st.replaceExprs(f, pred, mk)
		}
	case reflect.Interface:
		if !v.IsNil() {
			st.replaceExprs(v.Elem(), pred, mk)
		}
	case reflect.Slice:
		for i := 0; i < v.Len(); i++ {
			el := v.Index(i)
			if el.Kind() == reflect.Interface && !el.IsNil() {
				if e, ok := el.Interface().(ast.Expr); ok && pred(e) {
					el.Set(reflect.ValueOf(mk(e)))
					continue
				}
			}
			st.replaceExprs(el, pred, mk)
		}
	}
}

// typeSwitchNil: a type switch on a plain variable with a `case nil` clause is
// `if v == nil { <nil clause> } else { <the switch without that clause> }`:
// the nil test then exists as a condition the flow analysis can use.
func (st *inlineState) typeSwitchNil(x *ast.TypeSwitchStmt) ast.Stmt {
	if x.Init != nil {
		return nil
	}
	var ta *ast.TypeAssertExpr
	var bound *ast.Ident
	switch a := x.Assign.(type) {
	case *ast.ExprStmt:
		ta, _ = ast.Unparen(a.X).(*ast.TypeAssertExpr)
	case *ast.AssignStmt:
		if len(a.Lhs) == 1 && len(a.Rhs) == 1 {
			ta, _ = ast.Unparen(a.Rhs[0]).(*ast.TypeAssertExpr)
			bound, _ = a.Lhs[0].(*ast.Ident)
		}
	}
	if ta == nil {
		return nil
	}
	opv := VarOf(st.info, ta.X)
	if opv == nil || opv.IsField() {
		return nil
	}
	nilIdx := -1
	for i, cc := range x.Body.List {
		cl := cc.(*ast.CaseClause)
		if len(cl.List) == 1 && isNil(st.info, ast.Unparen(cl.List[0])) {
			nilIdx = i
		}
	}
	if nilIdx < 0 {
		return nil
	}
	nilClause := x.Body.List[nilIdx].(*ast.CaseClause)
	// no break inside the nil clause that belongs to the switch
	bad := false
	for _, s := range nilClause.Body {
		ast.Inspect(s, func(n ast.Node) bool {
			switch b := n.(type) {
			case *ast.BranchStmt:
				if b.Tok == token.BREAK && b.Label == nil {
					bad = true
				}
				if b.Tok == token.FALLTHROUGH {
					bad = true
				}
			case *ast.ForStmt, *ast.RangeStmt, *ast.SwitchStmt, *ast.TypeSwitchStmt, *ast.SelectStmt, *ast.FuncLit:
				return false
			}
			return true
		})
	}
	if bad {
		return nil
	}
	// in the nil clause the bound variable is the operand itself
	if bound != nil {
		if imp, ok := st.info.Implicits[nilClause].(*types.Var); ok {
			for _, s := range nilClause.Body {
				ast.Inspect(s, func(n ast.Node) bool {
					if id, ok := n.(*ast.Ident); ok && st.info.Uses[id] == types.Object(imp) {
						st.info.Uses[id] = opv
						id.Name = opv.Name()
					}
					return true
				})
			}
		}
	}
	nilObj := types.Universe.Lookup("nil")
	nid := &ast.Ident{Name: "nil", NamePos: nilClause.Pos()}
	st.info.Uses[nid] = nilObj
	st.info.Types[nid] = types.TypeAndValue{Type: types.Typ[types.UntypedNil]}
	cond := &ast.BinaryExpr{X: st.useIdent(opv, nilClause.Pos()), OpPos: nilClause.Pos(), Op: token.EQL, Y: nid}
	st.info.Types[cond] = types.TypeAndValue{Type: types.Typ[types.Bool]}
	rest := &ast.TypeSwitchStmt{Switch: x.Switch, Assign: x.Assign, Body: &ast.BlockStmt{Lbrace: x.Body.Lbrace, Rbrace: x.Body.Rbrace}}
	for i, cc := range x.Body.List {
		if i != nilIdx {
			rest.Body.List = append(rest.Body.List, cc)
		}
	}
	is := &ast.IfStmt{If: x.Switch, Cond: cond, Body: &ast.BlockStmt{Lbrace: nilClause.Colon, List: nilClause.Body, Rbrace: nilClause.End()}}
	if len(rest.Body.List) > 0 {
		is.Else = &ast.BlockStmt{Lbrace: x.Body.Lbrace, List: []ast.Stmt{rest}, Rbrace: x.Body.Rbrace}
	}
	return is
}
