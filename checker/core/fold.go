package core

import (
	"fmt"
	"go/ast"
	"go/constant"
	"go/token"
	"go/types"
	"strconv"
	"strings"

	"golang.org/x/tools/go/packages"
)

// Folder evaluates definition literals (composite literals of constants and a
// fixed set of pure constructors) into plain data, without running anything.
type Folder struct {
	P     *Program
	depth int
}

// Unknown marks a sub-expression the folder cannot evaluate.
type Unknown struct {
	Expr string
	Pos  token.Pos
}

// FStruct is a folded struct literal.
type FStruct struct {
	Type   *types.Named
	Fields map[string]any
	Order  []string
	Pos    token.Pos
}

// FDate is a folded calendar date.
type FDate struct{ Y, M, D int }

func (d FDate) String() string { return fmt.Sprintf("%04d-%02d-%02d", d.Y, d.M, d.D) }

// Less orders dates.
func (d FDate) Less(o FDate) bool {
	if d.Y != o.Y {
		return d.Y < o.Y
	}
	if d.M != o.M {
		return d.M < o.M
	}
	return d.D < o.D
}

// FNum is a folded decimal (value × 10^-exp), flagged as percentage or amount.
type FNum struct {
	Value   int64
	Exp     int
	Percent bool
}

// String renders the number like the num package does.
func (n FNum) String() string {
	v, e := n.Value, n.Exp
	if n.Percent {
		if e >= 2 {
			e -= 2
		} else {
			for ; e < 2; e++ {
				v *= 10
			}
			e = 0
		}
	}
	neg := v < 0
	if neg {
		v = -v
	}
	s := strconv.FormatInt(v, 10)
	if e > 0 {
		for len(s) <= e {
			s = "0" + s
		}
		s = s[:len(s)-e] + "." + s[len(s)-e:]
	}
	if neg {
		s = "-" + s
	}
	if n.Percent {
		s += "%"
	}
	return s
}

// Fold evaluates an expression in the context of a package.
func (f *Folder) Fold(pk *packages.Package, e ast.Expr) any {
	if f.depth > 12 {
		return Unknown{types.ExprString(e), e.Pos()}
	}
	f.depth++
	defer func() { f.depth-- }()
	info := pk.TypesInfo
	e = ast.Unparen(e)
	if tv, ok := info.Types[e]; ok && tv.Value != nil {
		return constValue(tv.Value)
	}
	switch x := e.(type) {
	case *ast.UnaryExpr:
		if x.Op == token.AND {
			return f.Fold(pk, x.X)
		}
	case *ast.CompositeLit:
		return f.foldLit(pk, x, info.TypeOf(x))
	case *ast.Ident:
		if isNil(info, x) {
			return nil
		}
		return f.foldObj(info.Uses[x], x)
	case *ast.SelectorExpr:
		if sel := info.Selections[x]; sel == nil {
			return f.foldObj(info.Uses[x.Sel], x)
		}
	case *ast.CallExpr:
		return f.foldCall(pk, x)
	}
	return Unknown{types.ExprString(e), e.Pos()}
}

func constValue(v constant.Value) any {
	switch v.Kind() {
	case constant.String:
		return constant.StringVal(v)
	case constant.Bool:
		return constant.BoolVal(v)
	case constant.Int:
		i, _ := constant.Int64Val(v)
		return i
	case constant.Float:
		fl, _ := constant.Float64Val(v)
		return fl
	}
	return v.ExactString()
}

// foldObj folds a package-level variable through its initialiser.
func (f *Folder) foldObj(o types.Object, at ast.Expr) any {
	v, ok := o.(*types.Var)
	if !ok || v.Pkg() == nil || v.Parent() != v.Pkg().Scope() {
		return Unknown{types.ExprString(at), at.Pos()}
	}
	pk := f.P.ByPath[v.Pkg().Path()]
	if pk == nil || pk.TypesInfo == nil {
		return Unknown{types.ExprString(at), at.Pos()}
	}
	for _, file := range pk.Syntax {
		if !(file.Pos() <= v.Pos() && v.Pos() <= file.End()) {
			continue
		}
		for _, d := range file.Decls {
			gd, ok := d.(*ast.GenDecl)
			if !ok {
				continue
			}
			for _, sp := range gd.Specs {
				vs, ok := sp.(*ast.ValueSpec)
				if !ok {
					continue
				}
				for i, nm := range vs.Names {
					if nm.Pos() == v.Pos() && len(vs.Values) == len(vs.Names) {
						return f.Fold(pk, vs.Values[i])
					}
				}
			}
		}
	}
	return Unknown{types.ExprString(at), at.Pos()}
}

func (f *Folder) foldLit(pk *packages.Package, cl *ast.CompositeLit, t types.Type) any {
	if t == nil {
		return Unknown{types.ExprString(cl), cl.Pos()}
	}
	if pt, ok := t.(*types.Pointer); ok {
		t = pt.Elem()
	}
	switch u := t.Underlying().(type) {
	case *types.Struct:
		named, _ := t.(*types.Named)
		fs := &FStruct{Type: named, Fields: map[string]any{}, Pos: cl.Pos()}
		for i, el := range cl.Elts {
			if kv, ok := el.(*ast.KeyValueExpr); ok {
				name := kv.Key.(*ast.Ident).Name
				fs.Fields[name] = f.foldElem(pk, kv.Value, fieldType(u, name))
				fs.Order = append(fs.Order, name)
			} else if i < u.NumFields() {
				fs.Fields[u.Field(i).Name()] = f.foldElem(pk, el, u.Field(i).Type())
				fs.Order = append(fs.Order, u.Field(i).Name())
			}
		}
		return fs
	case *types.Slice:
		out := []any{}
		for _, el := range cl.Elts {
			if kv, ok := el.(*ast.KeyValueExpr); ok {
				el = kv.Value
			}
			out = append(out, f.foldElem(pk, el, u.Elem()))
		}
		return out
	case *types.Array:
		out := []any{}
		for _, el := range cl.Elts {
			if kv, ok := el.(*ast.KeyValueExpr); ok {
				el = kv.Value
			}
			out = append(out, f.foldElem(pk, el, u.Elem()))
		}
		return out
	case *types.Map:
		out := map[string]any{}
		for _, el := range cl.Elts {
			kv, ok := el.(*ast.KeyValueExpr)
			if !ok {
				continue
			}
			k := f.foldElem(pk, kv.Key, u.Key())
			out[fmt.Sprint(k)] = f.foldElem(pk, kv.Value, u.Elem())
		}
		return out
	}
	return Unknown{types.ExprString(cl), cl.Pos()}
}

func fieldType(st *types.Struct, name string) types.Type {
	for i := 0; i < st.NumFields(); i++ {
		if st.Field(i).Name() == name {
			return st.Field(i).Type()
		}
	}
	return nil
}

// foldElem folds an element whose composite literal type may be elided.
func (f *Folder) foldElem(pk *packages.Package, e ast.Expr, t types.Type) any {
	if cl, ok := e.(*ast.CompositeLit); ok && cl.Type == nil {
		return f.foldLit(pk, cl, t)
	}
	return f.Fold(pk, e)
}

func (f *Folder) foldCall(pk *packages.Package, call *ast.CallExpr) any {
	info := pk.TypesInfo
	// conversion
	if tv, ok := info.Types[call.Fun]; ok && tv.IsType() && len(call.Args) == 1 {
		return f.Fold(pk, call.Args[0])
	}
	fn := Callee(info, call)
	unk := Unknown{types.ExprString(call), call.Pos()}
	if fn == nil || fn.Pkg() == nil {
		return unk
	}
	ints := func(n int) ([]int64, bool) {
		if len(call.Args) != n {
			return nil, false
		}
		out := make([]int64, n)
		for i, a := range call.Args {
			v, ok := f.Fold(pk, a).(int64)
			if !ok {
				return nil, false
			}
			out[i] = v
		}
		return out, true
	}
	switch RelPkg(fn.Pkg().Path()) + "." + fn.Name() {
	case "cal.NewDate", "cal.MakeDate":
		if v, ok := ints(3); ok {
			return FDate{int(v[0]), int(v[1]), int(v[2])}
		}
	case "num.MakePercentage", "num.NewPercentage":
		if v, ok := ints(2); ok {
			return FNum{v[0], int(v[1]), true}
		}
	case "num.MakeAmount", "num.NewAmount":
		if v, ok := ints(2); ok {
			return FNum{v[0], int(v[1]), false}
		}
	case "cbc.With":
		if RecvNamed(fn) != nil && RecvNamed(fn).Obj().Name() == "Key" {
			base := f.Fold(pk, RecvExpr(call))
			bs, ok := base.(string)
			if !ok {
				return unk
			}
			parts := []string{bs}
			for _, a := range call.Args {
				s, ok := f.Fold(pk, a).(string)
				if !ok {
					return unk
				}
				parts = append(parts, s)
			}
			return strings.Join(parts, "+")
		}
	case "i18n.NewString":
		if len(call.Args) == 1 {
			if s, ok := f.Fold(pk, call.Args[0]).(string); ok {
				return map[string]any{"en": s}
			}
		}
	case "tax.ExtensionsOf":
		if len(call.Args) == 1 {
			return f.Fold(pk, call.Args[0])
		}
	}
	return unk
}

// HasUnknown reports the first unknown inside a folded value.
func HasUnknown(v any) *Unknown {
	switch x := v.(type) {
	case Unknown:
		return &x
	case *FStruct:
		for _, k := range x.Order {
			if u := HasUnknown(x.Fields[k]); u != nil {
				return u
			}
		}
	case []any:
		for _, e := range x {
			if u := HasUnknown(e); u != nil {
				return u
			}
		}
	case map[string]any:
		for _, e := range x {
			if u := HasUnknown(e); u != nil {
				return u
			}
		}
	}
	return nil
}
