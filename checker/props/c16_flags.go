package props

import (
	"fmt"
	"go/ast"
	"go/token"
	"go/types"
	"sort"
	"strings"

	"goblcheck/core"
)

// c16Flags — C16-R9: the command line asks for "the requested type" through
// flags; a flag does what its name says only if it is bound to a variable of
// its own. Decided for every flag registration of cmd/gobl (pflag's XxxVar /
// XxxVarP with `&opts.member` as destination): no two flags of one command
// share a destination (the second would silently set the first's option —
// `--debit` producing a credit note), and every boolean or string member of
// an options structure that the package reads is the destination of a flag,
// is assigned somewhere, or is embedded from another options structure.
func c16Flags(c *core.Ctx) {
	p := c.P
	c.Rule("C16-R9", "every command-line flag has a destination of its own and every option read is bound", 10)
	pk := p.Pkg("cmd/gobl")
	if pk == nil {
		c.Ob("C16-R9", "UNRESOLVED:cmd/gobl", token.NoPos, false, "package not found")
		return
	}
	info := pk.TypesInfo
	bound := map[*types.Var][]string{}
	assigned := map[*types.Var]bool{}
	n := 0
	for _, fd := range p.Funcs(pk) {
		if p.IsTestFile(fd.Decl.Pos()) || fd.Decl.Body == nil {
			continue
		}
		local := map[*types.Var][]string{}
		addr := map[*types.Var]int{}
		var pos = map[*types.Var]token.Pos{}
		ast.Inspect(fd.Decl.Body, func(nd ast.Node) bool {
			switch x := nd.(type) {
			case *ast.CallExpr:
				se, ok := ast.Unparen(x.Fun).(*ast.SelectorExpr)
				if !ok || !(strings.HasSuffix(se.Sel.Name, "VarP") || strings.HasSuffix(se.Sel.Name, "Var")) || len(x.Args) < 2 {
					return true
				}
				fn := core.Callee(info, x)
				if fn == nil || fn.Pkg() == nil || !strings.HasSuffix(fn.Pkg().Path(), "pflag") {
					return true
				}
				u, ok := ast.Unparen(x.Args[0]).(*ast.UnaryExpr)
				if !ok || u.Op != token.AND {
					return true
				}
				f := core.FieldOf(info, u.X)
				if f == nil {
					return true
				}
				name := "?"
				if tv, ok := info.Types[x.Args[1]]; ok && tv.Value != nil {
					name = strings.Trim(tv.Value.ExactString(), `"`)
				}
				n++
				local[f] = append(local[f], name)
				bound[f] = append(bound[f], name)
				if !pos[f].IsValid() {
					pos[f] = x.Pos()
				}
			case *ast.AssignStmt:
				for _, l := range x.Lhs {
					if f := core.FieldOf(info, l); f != nil {
						assigned[f] = true
					}
				}
			case *ast.UnaryExpr:
				// the address of an option handed to a registration helper or kept in a table
				if x.Op == token.AND {
					if f := core.FieldOf(info, x.X); f != nil {
						addr[f]++
						if !pos[f].IsValid() {
							pos[f] = x.Pos()
						}
					}
				}
			case *ast.KeyValueExpr:
				if id, ok := x.Key.(*ast.Ident); ok {
					if f, ok := info.Uses[id].(*types.Var); ok && f.IsField() {
						assigned[f] = true
					}
				}
			}
			return true
		})
		var fs []*types.Var
		registers := len(local) > 0
		for f, k := range addr {
			if k > 0 {
				bound[f] = append(bound[f], "&")
			}
			if _, direct := local[f]; !direct && registers && isOptsField(f) {
				local[f] = nil
			}
		}
		for f := range local {
			fs = append(fs, f)
		}
		sort.Slice(fs, func(i, j int) bool { return fs[i].Name() < fs[j].Name() })
		for _, f := range fs {
			c.Ob("C16-R9", fmt.Sprintf("%s#flag→%s", fd.Name(), f.Name()), pos[f], len(local[f]) <= 1 && addr[f] <= 1,
				fmt.Sprintf("the flags %v are all bound to the option %s (its address is taken %d times where the flags are registered): giving any of them sets the same option, so one of them does not do what its name says (and the option it should set is never set)", local[f], f.Name(), addr[f]))
		}
	}
	// options read but never bound: members of the *Opts structures of the package
	sc := pk.Types.Scope()
	for _, nm := range sc.Names() {
		tn, ok := sc.Lookup(nm).(*types.TypeName)
		if !ok || !strings.HasSuffix(strings.ToLower(nm), "opts") {
			continue
		}
		st, ok := tn.Type().Underlying().(*types.Struct)
		if !ok {
			continue
		}
		for i := 0; i < st.NumFields(); i++ {
			f := st.Field(i)
			if f.Embedded() {
				continue
			}
			if b, ok := f.Type().Underlying().(*types.Basic); !ok || b.Info()&(types.IsBoolean|types.IsString|types.IsInteger) == 0 {
				continue
			}
			read := false
			for _, fd := range p.Funcs(pk) {
				if p.IsTestFile(fd.Decl.Pos()) || fd.Decl.Body == nil {
					continue
				}
				ast.Inspect(fd.Decl.Body, func(nd ast.Node) bool {
					if se, ok := nd.(*ast.SelectorExpr); ok && core.FieldOf(info, se) == f {
						read = true
					}
					return !read
				})
			}
			if !read {
				continue
			}
			c.Ob("C16-R9", fmt.Sprintf("cmd/gobl.%s.%s#bound", nm, f.Name()), f.Pos(), len(bound[f]) > 0 || assigned[f],
				fmt.Sprintf("the option %s.%s is read but no flag is bound to it and nothing assigns it: it is always the zero value, whatever the command line says", nm, f.Name()))
		}
	}
	c.Ob("C16-R9", "flags#found", token.NoPos, n >= 15, fmt.Sprintf("only %d flag registrations found in cmd/gobl", n))
}

// c16MapsKeptWhole — C16-R10: the extensions the preceding reference (and any
// other part of the document) carries belong to several addons at once; a
// regime or addon normaliser that replaces an extension map of the document
// by nil or by an empty map — instead of deleting its own key — removes what
// the other addons require there, and the correction is then refused (or the
// document no longer validates). Decided: in packages regimes/** and
// addons/**, every assignment of nil, make(…) or an empty literal to a map
// member of a document structure stands where that map is known to be nil or
// empty.
func c16MapsKeptWhole(c *core.Ctx) {
	p := c.P
	c.Rule("C16-R10", "normalisers replace an extension map of the document only where it is known to be nil or empty", 15)
	m := &memberCheck{c: c, p: p, ctxs: map[*ast.BlockStmt]*bodyCtx{}}
	n := 0
	for _, fd := range p.AllFuncs() {
		if p.IsTestFile(fd.Decl.Pos()) || fd.Decl.Body == nil {
			continue
		}
		rel := core.RelPkg(fd.Obj.Pkg().Path())
		if !strings.HasPrefix(rel, "regimes/") && !strings.HasPrefix(rel, "addons/") {
			continue
		}
		info := fd.Pkg.TypesInfo
		idx := map[string]int{}
		ld := core.NewLocalDefs(info, fd.Decl.Body)
		ast.Inspect(fd.Decl.Body, func(nd ast.Node) bool {
			as, ok := nd.(*ast.AssignStmt)
			if !ok || len(as.Lhs) != len(as.Rhs) {
				return true
			}
			for i, l := range as.Lhs {
				if !jsonMember(info, l) {
					continue
				}
				t := info.TypeOf(l)
				if t == nil {
					continue
				}
				if _, isMap := t.Underlying().(*types.Map); !isMap {
					continue
				}
				if !rootedAtInput(fd, ld, l, 0) {
					continue
				}
				rhs := ast.Unparen(as.Rhs[i])
				empty := core.IsNil(info, rhs)
				if cl, ok := rhs.(*ast.CompositeLit); ok && len(cl.Elts) == 0 {
					empty = true
				}
				if call, ok := rhs.(*ast.CallExpr); ok {
					if id, ok := call.Fun.(*ast.Ident); ok && id.Name == "make" && len(call.Args) == 1 {
						empty = true // a sized make is the start of a copy that is filled in: C15's business
					}
				}
				if !empty {
					continue
				}
				n++
				want := exprKey(l)
				idx[want]++
				b := m.ctxAt(fd, as)
				ok := b.knownNil(as, want) || b.knownEmpty(as, want)
				c.Ob("C16-R10", fmt.Sprintf("%s#clears:%s%d", fd.Name(), want, idx[want]), as.Pos(), ok,
					fmt.Sprintf("%s is replaced by an empty map where it is not known to be nil or empty: the entries other addons and the regime keep there (the correction extensions of the preceding reference, say) are dropped with it", want))
			}
			return true
		})
	}
	c.Ob("C16-R10", "replacements#found", token.NoPos, n >= 15, fmt.Sprintf("only %d replacements of document maps were found in regime and addon packages", n))
}

// knownEmpty: len(want) == 0 is known at the node.
func (b *bodyCtx) knownEmpty(at ast.Node, want string) bool {
	cn := b.flow.EnclosingNode(at)
	if cn == nil {
		return false
	}
	for leaf, val := range b.flow.CondsAt(cn) {
		g := core.GuardOf(b.info, leaf, b.errs)
		if g.Kind != "len" || g.X == nil || exprKey(g.X) != want {
			continue
		}
		switch {
		case g.Op == token.EQL && g.Const == 0 && val,
			g.Op == token.NEQ && g.Const == 0 && !val,
			g.Op == token.GTR && g.Const == 0 && !val,
			g.Op == token.LSS && g.Const == 1 && val,
			g.Op == token.GEQ && g.Const == 1 && !val:
			return true
		}
	}
	return false
}

// isOptsField: a member of one of the package's *Opts structures.
func isOptsField(f *types.Var) bool {
	return f.IsField() && f.Pkg() != nil && strings.HasSuffix(f.Pkg().Path(), "cmd/gobl")
}
