package props

import (
	"fmt"
	"go/ast"
	"go/token"
	"go/types"
	"reflect"
	"sort"
	"strings"

	"goblcheck/core"
)

// c14OptionalMembers — C14-R15: a pointer member of a document structure is
// nil in a parsed document that lacks it (or gives null). In the code the
// property's operations reach (parse, calculate, validate, sign, verify,
// correct, replicate: the exported functions of the root package, every
// Calculate / Validate / Normalize / Correct / Replicate / (Un)MarshalJSON
// method, and every function held as a value — the normalisers, validators
// and scenario filters of the regime and addon definitions — with all they
// call) such a member is not dereferenced — a field selected through it, a
// value-receiver method, a pointer-receiver method that is not
// nil-receiver-safe, `*m`, or the member handed to a function that
// dereferences its parameter — unless a nil test of the same expression
// dominates the use, it was assigned on the way, a Required rule on it has
// been found satisfied, or — for an unexported function — every call site
// vouches for it in the same way.
func c14OptionalMembers(c *core.Ctx) {
	p := c.P
	c.Rule("C14-R15", "optional pointer members of document structures are nil-tested before they are dereferenced", 100)
	cg := buildCallers(p)
	opNames := map[string]bool{"Calculate": true, "Validate": true, "ValidateWithContext": true, "Normalize": true,
		"Correct": true, "Replicate": true, "UnmarshalJSON": true, "MarshalJSON": true, "Clone": true}
	var roots []*types.Func
	for _, fd := range p.AllFuncs() {
		if p.IsTestFile(fd.Decl.Pos()) || fd.Decl.Body == nil {
			continue
		}
		rel := core.RelPkg(fd.Obj.Pkg().Path())
		switch {
		case (rel == "" || rel == "internal/cli" || rel == "cmd/gobl") && (fd.Obj.Exported() || fd.Obj.Name() == "main"):
			roots = append(roots, fd.Obj)
		case cg.valueRefs[fd.Obj]:
			roots = append(roots, fd.Obj)
		case fd.Decl.Recv != nil && opNames[fd.Obj.Name()]:
			roots = append(roots, fd.Obj)
		}
	}
	ops := cg.forward(roots)
	m := &memberCheck{c: c, p: p, cg: cg, ctxs: map[*ast.BlockStmt]*bodyCtx{}, sites: map[*types.Func][]callSite{}, required: map[*types.Named]map[*types.Var]bool{}}
	// the validators of the regime and addon definitions run after the document's own
	// validation has passed (tax.ValidateStructWithContext): what only they reach may rely
	// on the members the document type's own validator requires unconditionally
	isVal := definitionValidators(p)
	var valRoots, otherRoots []*types.Func
	for _, r := range roots {
		if isVal[r] {
			valRoots = append(valRoots, r)
		} else {
			otherRoots = append(otherRoots, r)
		}
	}
	fromVal, fromOther := cg.forward(valRoots), cg.forward(otherRoots)
	m.valOnly = map[*types.Func]bool{}
	for f := range fromVal {
		if !fromOther[f] {
			m.valOnly[f] = true
		}
	}
	c.Extra("C14-R15_validator_only_functions", len(m.valOnly))
	var fds []*core.FuncDecl
	for _, fd := range p.AllFuncs() {
		if p.IsTestFile(fd.Decl.Pos()) || fd.Decl.Body == nil || !ops[fd.Obj] {
			continue
		}
		rel := core.RelPkg(fd.Obj.Pkg().Path())
		if strings.HasPrefix(rel, "examples") || strings.HasSuffix(p.RelFile(fd.Decl.Pos()), "mage.go") {
			continue
		}
		fds = append(fds, fd)
	}
	sort.Slice(fds, func(i, j int) bool { return fds[i].Name() < fds[j].Name() })
	// call sites of every module function, for the caller context
	for _, fd := range p.AllFuncs() {
		if p.IsTestFile(fd.Decl.Pos()) || fd.Decl.Body == nil {
			continue
		}
		info := fd.Pkg.TypesInfo
		fd := fd
		ast.Inspect(fd.Decl.Body, func(n ast.Node) bool {
			if call, ok := n.(*ast.CallExpr); ok {
				if fn := core.Callee(info, call); fn != nil && core.InModule(fn.Pkg()) {
					m.sites[fn.Origin()] = append(m.sites[fn.Origin()], callSite{fd, call})
				}
			}
			return true
		})
	}
	n := 0
	for _, fd := range fds {
		n += m.function(fd)
	}
	n += m.byFunctions(fds)
	c.Rule("C14-R16", "constant indexes into slices are covered by a length fact", 5)
	c.Extra("C14-R16_constant_indexes_examined", m.constantIndexes(fds))
	c.Extra("C14-R15_member_dereferences_examined", n)
	c.Extra("C14-R15_functions_in_scope", len(fds))
}

type callSite struct {
	fd   *core.FuncDecl
	call *ast.CallExpr
}

type memberCheck struct {
	c     *core.Ctx
	p     *core.Program
	cg    *callers
	ctxs  map[*ast.BlockStmt]*bodyCtx
	sites map[*types.Func][]callSite
	// valOnly: reached only from the Validator of a regime or addon definition
	valOnly  map[*types.Func]bool
	required map[*types.Named]map[*types.Var]bool
}

// requiredByOwner: e is `v.F` with v a parameter of the validator-only function
// fd and F a member the type's own validator requires unconditionally.
func (m *memberCheck) requiredByOwner(fd *core.FuncDecl, e ast.Expr) bool {
	if !m.valOnly[fd.Obj] {
		return false
	}
	se, ok := ast.Unparen(e).(*ast.SelectorExpr)
	if !ok {
		return false
	}
	info := fd.Pkg.TypesInfo
	return m.requiredVF(fd, core.VarOf(info, se.X), core.FieldOf(info, se))
}

func (m *memberCheck) requiredVF(fd *core.FuncDecl, v, f *types.Var) bool {
	if !m.valOnly[fd.Obj] || v == nil || f == nil {
		return false
	}
	sig := fd.Obj.Type().(*types.Signature)
	isParam := false
	for i := 0; i < sig.Params().Len(); i++ {
		if sig.Params().At(i) == v {
			isParam = true
		}
	}
	if !isParam {
		return false
	}
	n, _ := core.StructOf(v.Type())
	if n == nil {
		return false
	}
	if _, ok := m.required[n]; !ok {
		m.required[n] = core.RequiredFields(m.p, n)
	}
	return m.required[n][f]
}

// bodyCtx is the flow of one function body or function literal.
type bodyCtx struct {
	fd     *core.FuncDecl
	info   *types.Info
	body   *ast.BlockStmt
	flow   *core.Flow
	errs   map[ast.Expr]*ast.CallExpr
	ld     *core.LocalDefs
	parent *bodyCtx
	lit    *ast.FuncLit
	// requiredOf: the members a type's own validator requires unconditionally
	requiredOf func(*types.Named) map[*types.Var]bool
	// lenPredicate: the call is `x.P()` with P a module method whose body is
	// `return len(recv.F) OP const`: the member spelled at the call site, OP and const
	lenPredicate func(*ast.CallExpr) (string, token.Token, int64, bool)
}

func (m *memberCheck) ctxOf(fd *core.FuncDecl, body *ast.BlockStmt, parent *bodyCtx, lit *ast.FuncLit) *bodyCtx {
	if b, ok := m.ctxs[body]; ok {
		return b
	}
	info := fd.Pkg.TypesInfo
	b := &bodyCtx{fd: fd, info: info, body: body, flow: core.NewFlow(info, body), errs: core.ErrDefs(info, body),
		ld: core.NewLocalDefs(info, fd.Decl.Body), parent: parent, lit: lit}
	b.requiredOf = func(n *types.Named) map[*types.Var]bool {
		if m.required == nil {
			m.required = map[*types.Named]map[*types.Var]bool{}
		}
		if _, ok := m.required[n]; !ok {
			m.required[n] = core.RequiredFields(m.p, n)
		}
		return m.required[n]
	}
	b.lenPredicate = func(call *ast.CallExpr) (string, token.Token, int64, bool) {
		fn := core.Callee(info, call)
		re := core.RecvExpr(call)
		if fn == nil || re == nil || !core.InModule(fn.Pkg()) {
			return "", 0, 0, false
		}
		pfd := m.p.DeclOf(fn)
		if pfd == nil || pfd.Decl.Body == nil || len(pfd.Decl.Body.List) != 1 {
			return "", 0, 0, false
		}
		rs, ok := pfd.Decl.Body.List[0].(*ast.ReturnStmt)
		if !ok || len(rs.Results) != 1 {
			return "", 0, 0, false
		}
		be, ok := ast.Unparen(rs.Results[0]).(*ast.BinaryExpr)
		if !ok {
			return "", 0, 0, false
		}
		pinfo := pfd.Pkg.TypesInfo
		lc, ok := ast.Unparen(be.X).(*ast.CallExpr)
		if !ok || len(lc.Args) != 1 {
			return "", 0, 0, false
		}
		if id, ok := lc.Fun.(*ast.Ident); !ok || id.Name != "len" {
			return "", 0, 0, false
		}
		se, ok := ast.Unparen(lc.Args[0]).(*ast.SelectorExpr)
		if !ok || core.VarOf(pinfo, se.X) != recvVar(pfd) || recvVar(pfd) == nil {
			return "", 0, 0, false
		}
		tv, ok := pinfo.Types[be.Y]
		if !ok || tv.Value == nil {
			return "", 0, 0, false
		}
		cst, ok := constIntOf(tv)
		if !ok {
			return "", 0, 0, false
		}
		return exprKey(re) + "." + se.Sel.Name, be.Op, cst, true
	}
	m.ctxs[body] = b
	return b
}

// ctxAt finds the innermost body (function or literal) that holds the node.
func (m *memberCheck) ctxAt(fd *core.FuncDecl, at ast.Node) *bodyCtx {
	cur := m.ctxOf(fd, fd.Decl.Body, nil, nil)
	for {
		var inner *ast.FuncLit
		ast.Inspect(cur.body, func(n ast.Node) bool {
			if inner != nil {
				return false
			}
			if fl, ok := n.(*ast.FuncLit); ok {
				if fl.Body.Pos() <= at.Pos() && at.End() <= fl.Body.End() {
					inner = fl
				}
				return false
			}
			return true
		})
		if inner == nil {
			return cur
		}
		cur = m.ctxOf(fd, inner.Body, cur, inner)
	}
}

func exprKey(e ast.Expr) string { return types.ExprString(ast.Unparen(e)) }

// nonNil: the expression spelled `want` is known not to be nil at the node.
func (b *bodyCtx) nonNil(at ast.Node, want string) bool {
	info := b.info
	alias := func(e ast.Expr) bool {
		if exprKey(e) == want {
			return true
		}
		if id, ok := ast.Unparen(e).(*ast.Ident); ok {
			if d := b.ld.Resolve(id, 2); d != ast.Expr(id) && exprKey(d) == want {
				return true
			}
		}
		return false
	}
	cn := b.flow.EnclosingNode(at)
	if cn != nil {
		for leaf, val := range b.flow.CondsAt(cn) {
			g := core.GuardOf(info, leaf, b.errs)
			if (g.Kind == "nil" || g.Kind == "err") && g.X != nil && alias(g.X) && val == g.Neg {
				return true
			}
		}
		for as := range b.flow.AssignsPassedAt(cn) {
			if len(as.Lhs) != len(as.Rhs) {
				continue
			}
			for i, l := range as.Lhs {
				if exprKey(l) == want && freshExpr(info, as.Rhs[i]) {
					return true
				}
			}
		}
		if b.flow.EveryPathPasses(cn, func(x ast.Node) bool {
			as, ok := x.(*ast.AssignStmt)
			if !ok {
				return false
			}
			for i, l := range as.Lhs {
				if exprKey(l) == want {
					rhs := as.Rhs[0]
					if len(as.Lhs) == len(as.Rhs) {
						rhs = as.Rhs[i]
					}
					switch ast.Unparen(rhs).(type) {
					case *ast.CallExpr, *ast.Ident, *ast.UnaryExpr, *ast.CompositeLit:
						return !core.IsNil(info, rhs)
					}
					return false
				}
			}
			return false
		}) {
			return true
		}
		for _, sv := range core.StructValidations(info, b.body) {
			for _, fr := range sv.Fields {
				if fr.Base == nil || fr.Field == nil {
					continue
				}
				own := fr.Base.Name() + "." + fr.Field.Name()
				nested := ""
				if strings.HasPrefix(want, own+".") && !strings.Contains(want[len(own)+1:], ".") {
					nested = want[len(own)+1:]
				}
				if own != want && nested == "" {
					continue
				}
				required, skipped := false, false
				for _, r := range fr.Rules {
					if core.IsValidationVar(info, r, "Required") {
						required = true
					}
					if core.IsValidationVar(info, r, "Skip") {
						skipped = true
					}
				}
				if !required {
					continue
				}
				passed := false
				if leaf, neg := errLeaf(b.errs, sv.Call); leaf != nil {
					if v, known := b.flow.CondAt(cn, leaf); known && v != neg {
						passed = true
					}
				}
				if !passed {
					continue
				}
				if nested == "" {
					return true
				}
				// the member's own validator ran too (no Skip): what it requires is there
				if !skipped && b.requiredOf != nil {
					if n, _ := core.StructOf(fr.Field.Type()); n != nil {
						for f := range b.requiredOf(n) {
							if f.Name() == nested {
								return true
							}
						}
					}
				}
			}
		}
	}
	if shortCircuitExpr(info, b.body, at, alias) || nilBranchAssignsStr(info, b.body, at, want) {
		return true
	}
	if b.parent != nil {
		return b.parent.nonNil(b.lit, want)
	}
	return false
}

func errLeaf(errs map[ast.Expr]*ast.CallExpr, call *ast.CallExpr) (ast.Expr, bool) {
	for l, c := range errs {
		if c == call {
			if be, ok := ast.Unparen(l).(*ast.BinaryExpr); ok {
				return l, be.Op == token.NEQ
			}
		}
	}
	return nil, false
}

// vouched: the member expression (rooted at a parameter or the receiver of an
// unexported function that is never used as a value) is non-nil at every call site.
func (m *memberCheck) vouched(fd *core.FuncDecl, root ast.Expr, suffix string, depth int) bool {
	if depth > 3 || fd.Obj.Exported() || m.cg.valueRefs[fd.Obj] {
		return false
	}
	info := fd.Pkg.TypesInfo
	rv := core.RootVar(info, root)
	if rv == nil {
		return false
	}
	sig := fd.Obj.Type().(*types.Signature)
	idx := -2
	if sig.Recv() == rv {
		idx = -1
	}
	for i := 0; i < sig.Params().Len(); i++ {
		if sig.Params().At(i) == rv {
			idx = i
		}
	}
	if idx == -2 || (sig.Variadic() && idx == sig.Params().Len()-1) {
		return false
	}
	// the parameter must not be reassigned in the body
	reassigned := false
	ast.Inspect(fd.Decl.Body, func(n ast.Node) bool {
		if as, ok := n.(*ast.AssignStmt); ok {
			for _, l := range as.Lhs {
				if core.VarOf(info, l) == rv {
					reassigned = true
				}
			}
		}
		return true
	})
	if reassigned {
		return false
	}
	key := exprKey(root) + suffix
	if !strings.HasPrefix(key, rv.Name()+".") {
		return false
	}
	suf := key[len(rv.Name()):]
	sites := m.sites[fd.Obj]
	if len(sites) == 0 {
		return false
	}
	for _, s := range sites {
		var arg ast.Expr
		if idx == -1 {
			arg = core.RecvExpr(s.call)
		} else if idx < len(s.call.Args) {
			arg = s.call.Args[idx]
		}
		if arg == nil {
			return false
		}
		a := ast.Unparen(arg)
		if u, ok := a.(*ast.UnaryExpr); ok && u.Op == token.AND {
			a = ast.Unparen(u.X)
		}
		if m.ctxAt(s.fd, s.call).nonNil(s.call, exprKey(a)+suf) {
			continue
		}
		// the caller's own callers may vouch in turn
		if m.vouched(s.fd, a, suf, depth+1) {
			continue
		}
		return false
	}
	return true
}

// docMember: e selects a pointer member of a module structure that is filled from JSON.
func docMember(info *types.Info, e ast.Expr) *types.Var {
	se, ok := ast.Unparen(e).(*ast.SelectorExpr)
	if !ok {
		return nil
	}
	f := core.FieldOf(info, se)
	if f == nil {
		return nil
	}
	if _, isPtr := f.Type().(*types.Pointer); !isPtr {
		return nil
	}
	return jsonField(info, se)
}

// jsonMember: e selects a member (of any type) of a module structure that is filled from JSON.
func jsonMember(info *types.Info, e ast.Expr) bool {
	se, ok := ast.Unparen(e).(*ast.SelectorExpr)
	return ok && jsonField(info, se) != nil
}

func jsonField(info *types.Info, se *ast.SelectorExpr) *types.Var {
	f := core.FieldOf(info, se)
	if f == nil || f.Pkg() == nil || !core.InModule(f.Pkg()) {
		return nil
	}
	sel := info.Selections[se]
	if sel == nil {
		return nil
	}
	t := sel.Recv()
	if pt, ok := t.Underlying().(*types.Pointer); ok {
		t = pt.Elem()
	}
	st, _ := t.Underlying().(*types.Struct)
	for i, idx := range sel.Index() {
		if st == nil || idx >= st.NumFields() {
			return nil
		}
		if i == len(sel.Index())-1 {
			tag := reflect.StructTag(st.Tag(idx)).Get("json")
			if tag == "" || tag == "-" {
				return nil
			}
			return f
		}
		ft := st.Field(idx).Type()
		if pt, ok := ft.Underlying().(*types.Pointer); ok {
			ft = pt.Elem()
		}
		st, _ = ft.Underlying().(*types.Struct)
	}
	return nil
}

// derefHow: selecting x.Sel through the pointer x.X dereferences it.
func (m *memberCheck) derefHow(info *types.Info, x *ast.SelectorExpr) string {
	sel := info.Selections[x]
	if sel == nil {
		return ""
	}
	switch sel.Kind() {
	case types.FieldVal:
		return "its member " + x.Sel.Name + " is read"
	case types.MethodVal:
		mf := sel.Obj().(*types.Func)
		rt := mf.Type().(*types.Signature).Recv().Type()
		if _, ptrRecv := rt.(*types.Pointer); !ptrRecv {
			if _, isIface := rt.Underlying().(*types.Interface); isIface {
				return ""
			}
			return "the value-receiver method " + mf.Name() + " is called on it"
		}
		if mfd := m.p.DeclOf(mf); mfd != nil {
			if why := nilSafeReceiverMemo(m.p, mfd); why != "" {
				return "the method " + mf.Name() + " dereferences its receiver (" + why + ")"
			}
		}
	}
	return ""
}

func (m *memberCheck) function(fd *core.FuncDecl) int {
	p, c := m.p, m.c
	info := fd.Pkg.TypesInfo
	count := 0
	okSeen := map[string]bool{}
	badSeen := map[string]bool{}
	report := func(member ast.Expr, at ast.Node, how string) {
		count++
		key := fmt.Sprintf("%s#%s", fd.Name(), exprKey(member))
		if badSeen[key] {
			return
		}
		b := m.ctxAt(fd, at)
		if b.nonNil(at, exprKey(member)) || m.requiredByOwner(fd, member) || m.vouched(fd, member, "", 0) {
			okSeen[key] = true
			return
		}
		badSeen[key] = true
		c.Ob("C14-R15", key, at.Pos(), false, fmt.Sprintf("%s may be nil — a parsed document need not have the member — and %s with no nil test of it on the way (nor at every call site of this function): the operation panics instead of returning an error", exprKey(member), how))
	}
	ast.Inspect(fd.Decl.Body, func(n ast.Node) bool {
		switch x := n.(type) {
		case *ast.SelectorExpr:
			if docMember(info, x.X) == nil {
				return true
			}
			if how := m.derefHow(info, x); how != "" {
				report(x.X, x, how)
			}
		case *ast.StarExpr:
			if docMember(info, x.X) == nil {
				return true
			}
			if tv, ok := info.Types[x]; ok && tv.IsValue() {
				report(x.X, x, "it is dereferenced")
			}
		case *ast.CallExpr:
			fn := core.Callee(info, x)
			if fn == nil || !core.InModule(fn.Pkg()) {
				return true
			}
			cfd := p.DeclOf(fn)
			if cfd == nil {
				return true
			}
			sig := fn.Type().(*types.Signature)
			for i, a := range x.Args {
				if docMember(info, a) == nil || i >= sig.Params().Len() || (sig.Variadic() && i >= sig.Params().Len()-1) {
					continue
				}
				if why := m.derefsVar(cfd, cfd.Decl.Body, sig.Params().At(i), 0); why != "" {
					report(a, x, "it is handed to "+cfd.Name()+", where "+why)
				}
			}
		case *ast.AssignStmt:
			// a local that holds the member: `d := e.Head.Digest; d.Equals(…)`
			if x.Tok != token.DEFINE || len(x.Lhs) != len(x.Rhs) {
				return true
			}
			for i, l := range x.Lhs {
				if docMember(info, x.Rhs[i]) == nil {
					continue
				}
				id, ok := l.(*ast.Ident)
				if !ok {
					continue
				}
				v, _ := info.Defs[id].(*types.Var)
				if v == nil {
					continue
				}
				if ds := m.ctxAt(fd, x).ld.All(v); len(ds) != 1 {
					continue
				}
				if why := m.derefsVar(fd, fd.Decl.Body, v, 0); why != "" {
					report(x.Rhs[i], x, "it is kept in `"+v.Name()+"`, where "+why)
				}
			}
		}
		return true
	})
	keys := make([]string, 0, len(okSeen))
	for k := range okSeen {
		if !badSeen[k] {
			keys = append(keys, k)
		}
	}
	sort.Strings(keys)
	for _, k := range keys {
		c.Ob("C14-R15", k, fd.Decl.Pos(), true, "")
	}
	return count
}

func freshExpr(info *types.Info, e ast.Expr) bool {
	e = ast.Unparen(e)
	switch x := e.(type) {
	case *ast.UnaryExpr:
		return x.Op == token.AND
	case *ast.CallExpr:
		if id, ok := ast.Unparen(x.Fun).(*ast.Ident); ok && id.Name == "new" {
			return true
		}
		if fn := core.Callee(info, x); fn != nil && strings.HasPrefix(fn.Name(), "New") {
			return true
		}
	}
	return false
}

// shortCircuitExpr: n lies in the right operand of `m != nil && …` / `m == nil || …`.
func shortCircuitExpr(info *types.Info, body ast.Node, n ast.Node, isMember func(ast.Expr) bool) bool {
	found := false
	ast.Inspect(body, func(m ast.Node) bool {
		be, ok := m.(*ast.BinaryExpr)
		if !ok || (be.Op != token.LAND && be.Op != token.LOR) {
			return true
		}
		if !(be.Y.Pos() <= n.Pos() && n.End() <= be.Y.End()) {
			return true
		}
		var has func(e ast.Expr) bool
		has = func(e ast.Expr) bool {
			e = ast.Unparen(e)
			if b2, ok := e.(*ast.BinaryExpr); ok {
				if b2.Op == be.Op {
					return has(b2.X) || has(b2.Y)
				}
				want := token.NEQ
				if be.Op == token.LOR {
					want = token.EQL
				}
				if b2.Op == want {
					x, y := ast.Unparen(b2.X), ast.Unparen(b2.Y)
					if core.IsNil(info, x) {
						x, y = y, x
					}
					return core.IsNil(info, y) && isMember(x)
				}
			}
			return false
		}
		if has(be.X) {
			found = true
		}
		return true
	})
	return found
}

// nilBranchAssignsStr: an earlier `if m == nil { m = … }` precedes n.
func nilBranchAssignsStr(info *types.Info, body *ast.BlockStmt, n ast.Node, want string) bool {
	found := false
	ast.Inspect(body, func(m ast.Node) bool {
		is, ok := m.(*ast.IfStmt)
		if !ok || found || is.End() > n.Pos() {
			return true
		}
		be, ok := ast.Unparen(is.Cond).(*ast.BinaryExpr)
		if !ok || be.Op != token.EQL {
			return true
		}
		x, y := ast.Unparen(be.X), ast.Unparen(be.Y)
		if core.IsNil(info, x) {
			x, y = y, x
		}
		if !core.IsNil(info, y) || types.ExprString(x) != want {
			return true
		}
		for _, bs := range is.Body.List {
			if as, ok := bs.(*ast.AssignStmt); ok && len(as.Lhs) == 1 && types.ExprString(ast.Unparen(as.Lhs[0])) == want && !core.IsNil(info, as.Rhs[0]) {
				found = true
			}
		}
		return true
	})
	return found
}

type derefKey struct {
	v    *types.Var
	body *ast.BlockStmt
}

var derefsVarMemo = map[derefKey]*string{}

// derefsVar: the body dereferences the pointer variable v (a parameter, or a
// local filled by a type assertion) without a nil test — directly, or by
// handing it to a module function that does. Returns a description, or "".
func (m *memberCheck) derefsVar(fd *core.FuncDecl, body *ast.BlockStmt, v *types.Var, depth int) string {
	if _, isPtr := v.Type().(*types.Pointer); !isPtr || body == nil {
		return ""
	}
	k := derefKey{v, body}
	if r, ok := derefsVarMemo[k]; ok {
		if r == nil {
			return ""
		}
		return *r
	}
	derefsVarMemo[k] = nil
	res := ""
	defer func() { derefsVarMemo[k] = &res }()
	if depth > 4 {
		return ""
	}
	p := m.p
	info := fd.Pkg.TypesInfo
	ast.Inspect(body, func(n ast.Node) bool {
		if res != "" {
			return false
		}
		nonNil := func(at ast.Node) bool { return m.ctxAt(fd, at).nonNil(at, v.Name()) }
		switch x := n.(type) {
		case *ast.SelectorExpr:
			if core.VarOf(info, x.X) != v {
				return true
			}
			if how := m.derefHow(info, x); how != "" && !nonNil(x) {
				res = fmt.Sprintf("%s (%s:%d)", how, p.RelFile(x.Pos()), p.Fset.Position(x.Pos()).Line)
			}
		case *ast.StarExpr:
			if core.VarOf(info, x.X) == v && !nonNil(x) {
				if tv, ok := info.Types[x]; ok && tv.IsValue() {
					res = "it is dereferenced"
				}
			}
		case *ast.CallExpr:
			fn := core.Callee(info, x)
			if fn == nil || !core.InModule(fn.Pkg()) {
				return true
			}
			cfd := p.DeclOf(fn)
			if cfd == nil {
				return true
			}
			sig := fn.Type().(*types.Signature)
			for i, a := range x.Args {
				if core.VarOf(info, a) == v && i < sig.Params().Len() && !(sig.Variadic() && i >= sig.Params().Len()-1) && !nonNil(x) {
					if why := m.derefsVar(cfd, cfd.Decl.Body, sig.Params().At(i), depth+1); why != "" {
						res = "it is passed on to " + cfd.Name() + ", where " + why
					}
				}
			}
		}
		return true
	})
	return res
}

// byFunctions: a function handed to validation.By receives the member's value
// whatever it is — for a pointer member that the document lacks, a typed nil
// that passes the function's own type assertion. If the function dereferences
// the asserted pointer without a nil test, every rule list that holds it must
// have an unconditional Required (or NotNil) before it: rules run in order and
// stop at the first failure.
func (m *memberCheck) byFunctions(fds []*core.FuncDecl) int {
	p, c := m.p, m.c
	count := 0
	unsafeBy := func(fd *core.FuncDecl, body *ast.BlockStmt, param *types.Var) string {
		info := fd.Pkg.TypesInfo
		res := ""
		ast.Inspect(body, func(n ast.Node) bool {
			as, ok := n.(*ast.AssignStmt)
			if !ok || len(as.Rhs) != 1 || res != "" {
				return true
			}
			ta, ok := ast.Unparen(as.Rhs[0]).(*ast.TypeAssertExpr)
			if !ok || ta.Type == nil || core.VarOf(info, ta.X) != param {
				return true
			}
			var lv *types.Var
			if id, ok := as.Lhs[0].(*ast.Ident); ok {
				if d, ok := info.Defs[id].(*types.Var); ok {
					lv = d
				} else {
					lv, _ = info.Uses[id].(*types.Var)
				}
			}
			if lv == nil {
				return true
			}
			if why := m.derefsVar(fd, body, lv, 0); why != "" {
				res = fmt.Sprintf("`%s` (the value asserted to %s) may be a nil pointer and %s", lv.Name(), types.ExprString(ta.Type), why)
			}
			return true
		})
		return res
	}
	for _, fd := range fds {
		info := fd.Pkg.TypesInfo
		for _, sv := range core.StructValidations(info, fd.Decl.Body) {
			for _, fr := range sv.Fields {
				if fr.Field == nil {
					continue
				}
				if _, isPtr := fr.Field.Type().(*types.Pointer); !isPtr {
					continue
				}
				required := false
				if fr.Base != nil {
					required = m.requiredVF(fd, fr.Base, fr.Field)
				}
				for _, r := range fr.Rules {
					if core.IsValidationVar(info, r, "Required") || core.IsValidationVar(info, r, "NotNil") {
						required = true
						continue
					}
					call, ok := ast.Unparen(r).(*ast.CallExpr)
					if !ok {
						continue
					}
					fn := core.Callee(info, call)
					if fn == nil || fn.Name() != "By" || fn.Pkg() == nil || !strings.HasSuffix(fn.Pkg().Path(), "/validation") || len(call.Args) != 1 {
						continue
					}
					// the function: a declared one, or the literal a declared one returns
					var tfd *core.FuncDecl
					var body *ast.BlockStmt
					var param *types.Var
					switch a := ast.Unparen(call.Args[0]).(type) {
					case *ast.Ident, *ast.SelectorExpr:
						var id *ast.Ident
						if i, ok := a.(*ast.Ident); ok {
							id = i
						} else {
							id = a.(*ast.SelectorExpr).Sel
						}
						if f, ok := info.Uses[id].(*types.Func); ok {
							if tfd = p.DeclOf(f); tfd != nil && tfd.Decl.Body != nil {
								body = tfd.Decl.Body
								if sig := f.Type().(*types.Signature); sig.Params().Len() == 1 {
									param = sig.Params().At(0)
								}
							}
						}
					case *ast.CallExpr:
						if f := core.Callee(info, a); f != nil {
							if tfd = p.DeclOf(f); tfd != nil && tfd.Decl.Body != nil {
								ast.Inspect(tfd.Decl.Body, func(n ast.Node) bool {
									if rs, ok := n.(*ast.ReturnStmt); ok && len(rs.Results) == 1 {
										if fl, ok := ast.Unparen(rs.Results[0]).(*ast.FuncLit); ok && fl.Type.Params != nil && len(fl.Type.Params.List) == 1 && len(fl.Type.Params.List[0].Names) == 1 {
											body = fl.Body
											param, _ = tfd.Pkg.TypesInfo.Defs[fl.Type.Params.List[0].Names[0]].(*types.Var)
										}
									}
									return true
								})
							}
						}
					case *ast.FuncLit:
						tfd = fd
						body = a.Body
						if a.Type.Params != nil && len(a.Type.Params.List) == 1 && len(a.Type.Params.List[0].Names) == 1 {
							param, _ = info.Defs[a.Type.Params.List[0].Names[0]].(*types.Var)
						}
					}
					if tfd == nil || body == nil || param == nil {
						continue
					}
					count++
					why := unsafeBy(tfd, body, param)
					base := "?"
					if fr.Base != nil {
						base = fr.Base.Name()
					}
					key := fmt.Sprintf("%s#by:%s.%s→%s", fd.Name(), base, fr.Field.Name(), exprKey(call.Args[0]))
					c.Ob("C14-R15", key, call.Pos(), why == "" || required,
						fmt.Sprintf("validation.By(%s) on the optional member %s.%s runs although no unconditional Required precedes it in the rule list, and in it %s: a document without the member panics in validation instead of being reported", exprKey(call.Args[0]), base, fr.Field.Name(), why))
				}
			}
		}
	}
	return count
}

// c14ConstantIndex — C14-R16: `x[k]` with a constant k on a slice panics when
// the slice is shorter — and the slices of a parsed document are as long as
// the input made them ("addresses": []). In the code the operations reach, a
// constant index into a slice is dominated by a length fact that covers it: a
// test of len(x) on the way, `if len(x) == 0 { x = []T{…} }` before it, a
// `switch len(x)` clause, or x is built where it stands with enough elements
// (a composite literal, strings.Split — never empty —, make with a constant).
func (m *memberCheck) constantIndexes(fds []*core.FuncDecl) int {
	c := m.c
	count := 0
	for _, fd := range fds {
		info := fd.Pkg.TypesInfo
		seen := map[string]bool{}
		var stack []ast.Node
		ast.Inspect(fd.Decl.Body, func(n ast.Node) bool {
			if n == nil {
				stack = stack[:len(stack)-1]
				return false
			}
			stack = append(stack, n)
			ix, ok := n.(*ast.IndexExpr)
			if !ok {
				return true
			}
			t := info.TypeOf(ix.X)
			if t == nil {
				return true
			}
			if _, isSlice := t.Underlying().(*types.Slice); !isSlice {
				return true
			}
			if !jsonMember(info, ix.X) {
				return true // locals, library results: not a length the input decides
			}
			tv, ok := info.Types[ix.Index]
			if !ok || tv.Value == nil {
				return true
			}
			k, ok := constIntOf(tv)
			if !ok || k < 0 {
				return true
			}
			count++
			want := exprKey(ix.X)
			key := fmt.Sprintf("%s#index:%s[%d]", fd.Name(), want, k)
			if seen[key] {
				return true
			}
			b := m.ctxAt(fd, ix)
			ok = b.minLen(ix, want, stack) > k
			if !ok {
				seen[key] = true
			}
			if !ok || !seen[key+"ok"] {
				seen[key+"ok"] = true
				c.Ob("C14-R16", key, ix.Pos(), ok, fmt.Sprintf("%s[%d] is evaluated where nothing on the way establishes that %s holds more than %d elements: a parsed document gives the slice the length of its input (an empty array is not nil), and the index panics instead of the operation returning an error", want, k, want, k))
			}
			return true
		})
	}
	return count
}

func constIntOf(tv types.TypeAndValue) (int64, bool) {
	s := tv.Value.ExactString()
	var v int64
	if s == "" {
		return 0, false
	}
	for _, ch := range s {
		if ch < '0' || ch > '9' {
			return 0, false
		}
		v = v*10 + int64(ch-'0')
	}
	return v, true
}

// minLen: the least length the slice spelled `want` is known to have at the node.
func (b *bodyCtx) minLen(at ast.Node, want string, stack []ast.Node) int64 {
	info := b.info
	best := int64(0)
	up := func(v int64) {
		if v > best {
			best = v
		}
	}
	isLenOf := func(e ast.Expr) bool {
		call, ok := ast.Unparen(e).(*ast.CallExpr)
		if !ok || len(call.Args) != 1 {
			return false
		}
		id, ok := call.Fun.(*ast.Ident)
		return ok && id.Name == "len" && exprKey(call.Args[0]) == want
	}
	fact := func(op token.Token, cst int64, val bool) {
		switch {
		case op == token.GTR && val:
			up(cst + 1)
		case op == token.GEQ && val:
			up(cst)
		case op == token.EQL && val:
			up(cst)
		case op == token.NEQ && val && cst == 0:
			up(1)
		case op == token.EQL && !val && cst == 0:
			up(1)
		case op == token.LSS && !val:
			up(cst)
		case op == token.LEQ && !val:
			up(cst + 1)
		}
	}
	if cn := b.flow.EnclosingNode(at); cn != nil {
		for leaf, val := range b.flow.CondsAt(cn) {
			g := core.GuardOf(info, leaf, b.errs)
			if g.Kind == "len" && g.X != nil && exprKey(g.X) == want {
				fact(g.Op, g.Const, val)
			}
			// a predicate method that is a length test of a member: env.Signed() { return len(e.Signatures) > 0 }
			if g.Kind == "bool" && g.Call != nil && b.lenPredicate != nil {
				if member, op, cst, ok := b.lenPredicate(g.Call); ok && member == want {
					fact(op, cst, val)
				}
			}
		}
		// built with enough elements on every path
		for as := range b.flow.AssignsPassedAt(cn) {
			if len(as.Lhs) != len(as.Rhs) {
				continue
			}
			for i, l := range as.Lhs {
				if exprKey(l) == want {
					up(builtLen(info, as.Rhs[i]))
				}
			}
		}
	}
	// short circuit in one condition: len(x) > 0 && x[0]…
	ast.Inspect(b.body, func(n ast.Node) bool {
		be, ok := n.(*ast.BinaryExpr)
		if !ok || (be.Op != token.LAND && be.Op != token.LOR) || !(be.Y.Pos() <= at.Pos() && at.End() <= be.Y.End()) {
			return true
		}
		var leaves func(e ast.Expr)
		leaves = func(e ast.Expr) {
			e = ast.Unparen(e)
			if b2, ok := e.(*ast.BinaryExpr); ok {
				if b2.Op == be.Op {
					leaves(b2.X)
					leaves(b2.Y)
					return
				}
				if isLenOf(b2.X) {
					if tv, ok := info.Types[b2.Y]; ok && tv.Value != nil {
						if v, ok := constIntOf(tv); ok {
							fact(b2.Op, v, be.Op == token.LAND)
						}
					}
				}
			}
		}
		leaves(be.X)
		return true
	})
	// `if len(x) == 0 { x = []T{…} }` (or `x == nil`… which leaves the empty slice alone: not accepted) before the node
	ast.Inspect(b.body, func(n ast.Node) bool {
		is, ok := n.(*ast.IfStmt)
		if !ok || is.End() > at.Pos() || is.Else != nil {
			return true
		}
		be, ok := ast.Unparen(is.Cond).(*ast.BinaryExpr)
		if !ok || !isLenOf(be.X) {
			return true
		}
		tv, ok := info.Types[be.Y]
		if !ok || tv.Value == nil {
			return true
		}
		cst, ok := constIntOf(tv)
		if !ok {
			return true
		}
		// the branch is taken exactly when the slice is too short; it must leave it long enough
		var lower int64 = -1
		switch {
		case be.Op == token.EQL && cst == 0:
			lower = 1
		case be.Op == token.LSS:
			lower = cst
		case be.Op == token.LEQ:
			lower = cst + 1
		}
		if lower < 0 {
			return true
		}
		for _, s := range is.Body.List {
			switch x := s.(type) {
			case *ast.AssignStmt:
				if len(x.Lhs) == 1 && len(x.Rhs) == 1 && exprKey(x.Lhs[0]) == want {
					if n := builtLen(info, x.Rhs[0]); n >= lower {
						up(lower)
					}
				}
			case *ast.ReturnStmt:
				up(lower)
			case *ast.BranchStmt:
				if x.Tok == token.CONTINUE || x.Tok == token.BREAK {
					// leaves the enclosing loop body: only sound when the index sits in the same loop body
					up(lower)
				}
			}
		}
		return true
	})
	// a clause of `switch len(x)`
	for i := len(stack) - 1; i >= 0; i-- {
		cc, ok := stack[i].(*ast.CaseClause)
		if !ok || i < 2 {
			continue
		}
		sw, ok := stack[i-2].(*ast.SwitchStmt)
		if !ok || sw.Tag == nil || !isLenOf(sw.Tag) || len(cc.List) == 0 {
			continue
		}
		least := int64(-1)
		for _, e := range cc.List {
			if tv, ok := info.Types[e]; ok && tv.Value != nil {
				if v, ok := constIntOf(tv); ok && (least < 0 || v < least) {
					least = v
				}
			}
		}
		up(least)
	}
	// a local built where it stands
	if id, ok := parseIdent(want); ok {
		_ = id
		ast.Inspect(b.body, func(n ast.Node) bool {
			return true
		})
	}
	if d := b.ld; d != nil {
		// resolve a plain local to its single definition
		var target *ast.Ident
		ast.Inspect(b.body, func(n ast.Node) bool {
			if ix, ok := n.(*ast.IndexExpr); ok && ix == at {
				if id, ok := ast.Unparen(ix.X).(*ast.Ident); ok {
					target = id
				}
			}
			return target == nil
		})
		if target != nil {
			if v, ok := info.Uses[target].(*types.Var); ok {
				defs := d.All(v)
				if len(defs) == 1 && defs[0].RHS != nil {
					up(builtLen(info, defs[0].RHS))
				}
			}
		}
	}
	if best == 0 && b.parent != nil {
		return b.parent.minLen(b.lit, want, nil)
	}
	return best
}

func parseIdent(s string) (string, bool) {
	for _, ch := range s {
		if !(ch == '_' || ch >= 'a' && ch <= 'z' || ch >= 'A' && ch <= 'Z' || ch >= '0' && ch <= '9') {
			return "", false
		}
	}
	return s, s != ""
}

// builtLen: the length an expression certainly has (0 if unknown).
func builtLen(info *types.Info, e ast.Expr) int64 {
	switch x := ast.Unparen(e).(type) {
	case *ast.CompositeLit:
		for _, el := range x.Elts {
			if _, ok := el.(*ast.KeyValueExpr); ok {
				return 0
			}
		}
		return int64(len(x.Elts))
	case *ast.CallExpr:
		if id, ok := x.Fun.(*ast.Ident); ok && id.Name == "make" && len(x.Args) >= 2 {
			if tv, ok := info.Types[x.Args[1]]; ok && tv.Value != nil {
				if v, ok := constIntOf(tv); ok {
					return v
				}
			}
		}
		if fn := core.Callee(info, x); fn != nil && fn.Pkg() != nil && fn.Pkg().Path() == "strings" {
			switch fn.Name() {
			case "Split", "SplitN", "SplitAfter":
				return 1 // never empty for a non-empty separator… and [s] for an empty one
			}
		}
	}
	return 0
}

// c14SelfPayload — C14-R17: schema.Object.UnmarshalJSON creates the instance
// the registry holds for the document's `$schema` and unmarshals the same
// bytes into it. A registered type whose own decoding comes back to
// Object.UnmarshalJSON with those bytes (the Object type itself, or a struct
// that embeds it and so inherits the method) recurses until the stack
// overflows — a fatal error no recover can stop. So either no such type is
// registered, or UnmarshalJSON tests the payload's type before decoding.
func c14SelfPayload(c *core.Ctx) {
	p := c.P
	c.Rule("C14-R17", "no registered schema type re-enters Object.UnmarshalJSON on the same bytes, or the payload's type is tested first", 1)
	obj := p.Named("schema", "Object")
	um := p.Func("schema", "Object", "UnmarshalJSON")
	if obj == nil || um == nil {
		c.Ob("C14-R17", "UNRESOLVED:schema.Object.UnmarshalJSON", token.NoPos, false, "type or method not found")
		return
	}
	reenters := func(t types.Type) bool {
		if pt, ok := t.(*types.Pointer); ok {
			t = pt.Elem()
		}
		if types.Identical(t, obj) {
			return true
		}
		if st, ok := t.Underlying().(*types.Struct); ok {
			for i := 0; i < st.NumFields(); i++ {
				f := st.Field(i)
				if !f.Embedded() {
					continue
				}
				ft := f.Type()
				if pt, ok := ft.(*types.Pointer); ok {
					ft = pt.Elem()
				}
				if types.Identical(ft, obj) {
					return true
				}
			}
		}
		return false
	}
	// does UnmarshalJSON look at the payload's type before it decodes into it?
	info := um.Pkg.TypesInfo
	var decode token.Pos
	ast.Inspect(um.Decl.Body, func(n ast.Node) bool {
		if call, ok := n.(*ast.CallExpr); ok && !decode.IsValid() {
			if fn := core.Callee(info, call); fn != nil && fn.Pkg() != nil && fn.Pkg().Path() == "encoding/json" && fn.Name() == "Unmarshal" {
				decode = call.Pos()
			}
		}
		return true
	})
	tested := false
	ast.Inspect(um.Decl.Body, func(n ast.Node) bool {
		switch x := n.(type) {
		case *ast.TypeAssertExpr:
			if x.Type != nil && decode.IsValid() && x.Pos() < decode {
				if t := info.TypeOf(x.Type); t != nil && reenters(t) {
					tested = true
				}
			}
		case *ast.TypeSwitchStmt:
			if decode.IsValid() && x.Pos() < decode {
				for _, s := range x.Body.List {
					for _, e := range s.(*ast.CaseClause).List {
						if t := info.TypeOf(e); t != nil && reenters(t) {
							tested = true
						}
					}
				}
			}
		}
		return true
	})
	n := 0
	for _, pk := range p.Pkgs {
		if !core.InModule(pk.Types) {
			continue
		}
		for _, file := range pk.Syntax {
			if p.IsTestFile(file.Pos()) {
				continue
			}
			ast.Inspect(file, func(nd ast.Node) bool {
				call, ok := nd.(*ast.CallExpr)
				if !ok {
					return true
				}
				fn := core.Callee(pk.TypesInfo, call)
				if fn == nil || fn.Pkg() == nil || core.RelPkg(fn.Pkg().Path()) != "schema" || (fn.Name() != "Register" && fn.Name() != "RegisterIn" && fn.Name() != "RegisterAll") {
					return true
				}
				for _, a := range call.Args[1:] {
					t := pk.TypesInfo.TypeOf(a)
					if t == nil {
						continue
					}
					n++
					if reenters(t) {
						c.Ob("C14-R17", "registered:"+core.TypeString(t), a.Pos(), tested,
							fmt.Sprintf("%s is registered as a document type, and decoding it calls Object.UnmarshalJSON again with the same bytes; UnmarshalJSON does not look at the payload's type before decoding: a document whose $schema names this type recurses until the stack overflows (fatal, not recoverable)", core.TypeString(t)))
					}
				}
				return true
			})
		}
	}
	c.Ob("C14-R17", "registrations#found", token.NoPos, n >= 30, fmt.Sprintf("only %d registered schema types were found", n))
}

// definitionValidators: the functions held as Validator of a regime or addon definition.
func definitionValidators(p *core.Program) map[*types.Func]bool {
	isVal := map[*types.Func]bool{}
	for _, pk := range p.Pkgs {
		rel := core.RelPkg(pk.PkgPath)
		if !strings.HasPrefix(rel, "regimes/") && !strings.HasPrefix(rel, "addons/") {
			continue
		}
		for _, file := range pk.Syntax {
			if p.IsTestFile(file.Pos()) {
				continue
			}
			ast.Inspect(file, func(n ast.Node) bool {
				cl, ok := n.(*ast.CompositeLit)
				if !ok || !(litTypeIs(pk.TypesInfo, cl, "tax.RegimeDef") || litTypeIs(pk.TypesInfo, cl, "tax.AddonDef")) {
					return true
				}
				for _, el := range cl.Elts {
					if kv, ok := el.(*ast.KeyValueExpr); ok {
						if id, ok := kv.Key.(*ast.Ident); ok && id.Name == "Validator" {
							var fid *ast.Ident
							switch v := ast.Unparen(kv.Value).(type) {
							case *ast.Ident:
								fid = v
							case *ast.SelectorExpr:
								fid = v.Sel
							}
							if fid != nil {
								if f, ok := pk.TypesInfo.Uses[fid].(*types.Func); ok {
									isVal[f.Origin()] = true
								}
							}
						}
					}
				}
				return true
			})
		}
	}
	return isVal
}

// c14FuncMembers — C14-R18: the function-valued members of the definitions
// (a regime's or addon's Normalizer and Validator, a scenario's Filter) are
// optional: a definition without one holds nil. Such a member is called —
// directly, or as an element of a list that is called element by element (a
// composite literal or builtin append of a func-slice type such as
// tax.Normalizers) — only where it is known not to be nil. Handing it to a
// method (Normalizers.Append drops nil) is the callee's business.
func c14FuncMembers(c *core.Ctx) {
	p := c.P
	c.Rule("C14-R18", "function-valued members of definitions are nil-tested before they are called or listed for calling", 3)
	m := &memberCheck{c: c, p: p, ctxs: map[*ast.BlockStmt]*bodyCtx{}}
	n := 0
	funcField := func(info *types.Info, e ast.Expr) *types.Var {
		se, ok := ast.Unparen(e).(*ast.SelectorExpr)
		if !ok {
			return nil
		}
		f := core.FieldOf(info, se)
		if f == nil || f.Pkg() == nil || !core.InModule(f.Pkg()) {
			return nil
		}
		if _, isSig := f.Type().Underlying().(*types.Signature); !isSig {
			return nil
		}
		return f
	}
	for _, fd := range p.AllFuncs() {
		if p.IsTestFile(fd.Decl.Pos()) || fd.Decl.Body == nil {
			continue
		}
		rel := core.RelPkg(fd.Obj.Pkg().Path())
		if strings.HasPrefix(rel, "examples") || strings.HasSuffix(p.RelFile(fd.Decl.Pos()), "mage.go") {
			continue
		}
		info := fd.Pkg.TypesInfo
		idx := 0
		report := func(e ast.Expr, at ast.Node, how string) {
			n++
			idx++
			b := m.ctxAt(fd, at)
			c.Ob("C14-R18", fmt.Sprintf("%s#%s%d", fd.Name(), exprKey(e), idx), at.Pos(), b.nonNil(at, exprKey(e)),
				fmt.Sprintf("%s is a function-valued member that a definition may leave nil, and %s with no nil test of it on the way: for such a definition the call panics instead of the operation returning an error", exprKey(e), how))
		}
		ast.Inspect(fd.Decl.Body, func(nd ast.Node) bool {
			switch x := nd.(type) {
			case *ast.CallExpr:
				if funcField(info, x.Fun) != nil {
					report(x.Fun, x, "it is called")
					return true
				}
				if id, ok := x.Fun.(*ast.Ident); ok && id.Name == "append" {
					if _, isB := info.Uses[id].(*types.Builtin); isB && len(x.Args) > 1 {
						if sl, ok := info.TypeOf(x.Args[0]).Underlying().(*types.Slice); ok {
							if _, isSig := sl.Elem().Underlying().(*types.Signature); isSig {
								for _, a := range x.Args[1:] {
									if funcField(info, a) != nil {
										report(a, x, "it is appended to a list of functions that is called element by element")
									}
								}
							}
						}
					}
				}
			case *ast.CompositeLit:
				t := info.TypeOf(x)
				if t == nil {
					return true
				}
				sl, ok := t.Underlying().(*types.Slice)
				if !ok {
					return true
				}
				if _, isSig := sl.Elem().Underlying().(*types.Signature); !isSig {
					return true
				}
				for _, el := range x.Elts {
					if funcField(info, el) != nil {
						report(el, x, "it is listed in a literal of functions that is called element by element")
					}
				}
			}
			return true
		})
	}
	c.Ob("C14-R18", "function-members#found", token.NoPos, n >= 3, fmt.Sprintf("only %d uses of function-valued members were found", n))
}
