package props

import (
	"fmt"
	"go/ast"
	"go/token"
	"go/types"
	"sort"
	"strings"

	"goblcheck/core"
)

func init() { register("C15", C15) }

// C15 — concurrent use is race-free; bulk replies pair up.
func C15(c *core.Ctx) {
	c.Explain("Decided, as the ownership discipline the property's own mechanism states ('shared definitions are written during initialisation and only read afterwards; merge helpers must copy'): (R1) every write to a package-level variable of the module — assignment, element/field store, delete, append-assign, or a mutating method of a sync/bytes container held in a global — sits in a function that is reachable only from package initialisation (or an exported Register* function called only from there); (R2) no function reachable at run time stores into, or appends to a slice owned by, a definition object (types reachable from tax.RegimeDef/AddonDef/CatalogueDef) that may be shared: origins Nil/Fresh/Shared/parameter are propagated through function summaries with the nil-receiver return idiom; (R3) the shape of the bulk loop: sequence number and request are per-iteration variables captured by the worker, wg.Add precedes go, the send precedes wg.Done, one final response is sent after wg.Wait and is the only IsFinal value, and processRequest allocates one response whose ReqID/SeqID come from its parameters and are never stored again and returns it on every path. Not decided: absence of data races in general (third-party code, document objects shared by the caller), result equivalence under interleavings.")
	c.Rule("C15-R1", "package-level state is written only during initialisation", 8)
	c.Rule("C15-R2", "definition objects are never mutated by runtime-reachable code (ownership analysis)", 2)
	c.Rule("C15-R3", "bulk loop and processRequest shape", 9)
	cg := buildCallers(c.P)
	c15Globals(c, cg)
	c15Aliases(c, cg)
	c15Definitions(c, cg)
	c15ReadOnlyEvaluation(c, cg)
	c15Bulk(c)
}

func isPkgVar(v *types.Var) bool {
	return v != nil && v.Pkg() != nil && !v.IsField() && v.Parent() == v.Pkg().Scope()
}

var mutatingMethods = map[string]bool{
	"sync.Map.Store": true, "sync.Map.Delete": true, "sync.Map.LoadOrStore": true,
	"sync.Map.LoadAndDelete": true, "sync.Map.Swap": true, "sync.Map.CompareAndSwap": true,
	"bytes.Buffer.Write": true, "bytes.Buffer.WriteString": true, "bytes.Buffer.WriteByte": true, "bytes.Buffer.Reset": true, "bytes.Buffer.WriteRune": true,
	"strings.Builder.WriteString": true, "strings.Builder.Write": true,
}

func c15Globals(c *core.Ctx, cg *callers) {
	p := c.P
	nvars := 0
	for _, pk := range p.Pkgs {
		sc := pk.Types.Scope()
		for _, nm := range sc.Names() {
			if v, ok := sc.Lookup(nm).(*types.Var); ok && !p.IsTestFile(v.Pos()) {
				nvars++
			}
		}
	}
	c.Extra("package_level_variables", nvars)
	okInit := func(fd *core.FuncDecl) (bool, string) {
		if cg.initOnly(fd.Obj) {
			return true, "initialisation-only"
		}
		if strings.HasPrefix(fd.Obj.Name(), "Register") || strings.HasPrefix(fd.Obj.Name(), "register") {
			var bad []string
			for _, cl := range cg.callersOf(fd.Obj) {
				if !cg.initOnly(cl) && !strings.HasPrefix(cl.Name(), "Register") {
					bad = append(bad, core.FuncName(cl))
				}
			}
			if len(bad) == 0 {
				return true, "Register* called only during initialisation"
			}
			return false, "Register* function called at run time from " + strings.Join(bad, ", ")
		}
		return false, "function is reachable at run time"
	}
	writes := 0
	// module methods that mutate their receiver (store into it, or call such a method on it)
	mutRecv := map[*types.Func]bool{}
	for changed := true; changed; {
		changed = false
		for _, fd := range p.AllFuncs() {
			recv := recvVar(fd)
			if recv == nil || mutRecv[fd.Obj] {
				continue
			}
			info := fd.Pkg.TypesInfo
			mut := false
			ast.Inspect(fd.Decl.Body, func(n ast.Node) bool {
				switch s := n.(type) {
				case *ast.AssignStmt:
					for _, l := range s.Lhs {
						if _, isID := ast.Unparen(l).(*ast.Ident); !isID && core.RootVar(info, l) == recv {
							if _, isPtr := recv.Type().(*types.Pointer); isPtr {
								mut = true
							} else if _, isMap := recv.Type().Underlying().(*types.Map); isMap {
								mut = true
							}
						}
					}
				case *ast.CallExpr:
					if fn := core.Callee(info, s); fn != nil && mutRecv[fn.Origin()] && core.RootVar(info, core.RecvExpr(s)) == recv {
						mut = true
					}
					if id, ok := s.Fun.(*ast.Ident); ok && id.Name == "delete" && len(s.Args) == 2 && core.RootVar(info, s.Args[0]) == recv {
						mut = true
					}
				}
				return true
			})
			if mut {
				mutRecv[fd.Obj] = true
				changed = true
			}
		}
	}
	c.Extra("receiver_mutating_methods", len(mutRecv))
	for _, fd := range p.AllFuncs() {
		info := fd.Pkg.TypesInfo
		if strings.HasSuffix(p.RelFile(fd.Decl.Pos()), "mage.go") || strings.HasPrefix(core.RelPkg(fd.Obj.Pkg().Path()), "examples") {
			continue
		}
		report := func(pos token.Pos, g *types.Var, how string) {
			writes++
			ok, why := okInit(fd)
			key := fmt.Sprintf("%s#%s:%s", fd.Name(), how, g.Name())
			c.Ob("C15-R1", key, pos, ok, fmt.Sprintf("package-level variable %s.%s is modified (%s) by a function that is not initialisation-only (%s): concurrent calls race on it", core.RelPkg(g.Pkg().Path()), g.Name(), how, why))
		}
		ast.Inspect(fd.Decl.Body, func(n ast.Node) bool {
			switch s := n.(type) {
			case *ast.AssignStmt:
				for _, l := range s.Lhs {
					l = ast.Unparen(l)
					root := core.RootVar(info, l)
					if !isPkgVar(root) || !core.InModule(root.Pkg()) {
						continue
					}
					how := "assign"
					switch l.(type) {
					case *ast.IndexExpr:
						how = "element-store"
					case *ast.SelectorExpr:
						if core.FieldOf(info, l) != nil {
							how = "field-store"
						}
					case *ast.StarExpr:
						how = "store-through"
					}
					report(s.Pos(), root, how)
				}
			case *ast.IncDecStmt:
				if root := core.RootVar(info, s.X); isPkgVar(root) && core.InModule(root.Pkg()) {
					report(s.Pos(), root, "incdec")
				}
			case *ast.CallExpr:
				if id, ok := s.Fun.(*ast.Ident); ok && id.Name == "delete" && len(s.Args) == 2 {
					if _, isB := info.Uses[id].(*types.Builtin); isB {
						if root := core.RootVar(info, s.Args[0]); isPkgVar(root) && core.InModule(root.Pkg()) {
							report(s.Pos(), root, "delete")
						}
					}
				}
				if fn := core.Callee(info, s); fn != nil && fn.Pkg() != nil {
					if mutRecv[fn.Origin()] {
						if root := core.RootVar(info, core.RecvExpr(s)); isPkgVar(root) && core.InModule(root.Pkg()) {
							report(s.Pos(), root, "mutating-method:"+fn.Name())
						}
					}
					if r := core.RecvNamed(fn); r != nil && r.Obj().Pkg() != nil {
						if mutatingMethods[r.Obj().Pkg().Path()+"."+r.Obj().Name()+"."+fn.Name()] {
							if root := core.RootVar(info, core.RecvExpr(s)); isPkgVar(root) && core.InModule(root.Pkg()) {
								report(s.Pos(), root, "mutating-method:"+fn.Name())
							}
						}
					}
					// address of a global handed to sync/atomic
					if fn.Pkg().Path() == "sync/atomic" && len(s.Args) > 0 {
						if root := core.RootVar(info, s.Args[0]); isPkgVar(root) && core.InModule(root.Pkg()) && !strings.HasPrefix(fn.Name(), "Load") {
							// atomic updates are race-free by construction: listed, accepted
							c.Ob("C15-R1", fmt.Sprintf("%s#atomic:%s", fd.Name(), root.Name()), s.Pos(), true, "")
						}
					}
				}
			}
			return true
		})
	}
	c.Extra("global_write_sites", writes)
}

func c15Definitions(c *core.Ctx, cg *callers) {
	p := c.P
	prot, names := definitionTypes(c)
	c.Extra("protected_definition_types", names)
	if len(names) < 10 {
		c.Ob("C15-R2", "UNRESOLVED:protected-types", token.NoPos, false, fmt.Sprintf("only %d definition types derived", len(names)))
	}
	fa := newFreshAnalysis(p, prot)
	// rounds: a document map field found to receive a shared map in one round
	// is read as possibly shared everywhere in the next
	for round := 0; round < 4; round++ {
		fa.reset()
		for _, fd := range p.AllFuncs() {
			if cg.initOnly(fd.Obj) {
				continue
			}
			if strings.HasSuffix(p.RelFile(fd.Decl.Pos()), "mage.go") {
				continue
			}
			fa.summary(fd.Obj)
		}
		if !fa.newTaint {
			break
		}
	}
	var taints []string
	for f, why := range fa.taint {
		taints = append(taints, fieldName(f)+" (declared at "+p.Rel(f.Pos())+"): "+why)
	}
	sort.Strings(taints)
	c.Extra("document_map_fields_that_may_hold_a_shared_map", taints)
	// a pointer member of a document that is made to point into a definition is a violation by
	// itself: anybody who writes through it — user code editing its own calculated document,
	// encoding/json decoding into a reused object (it decodes through existing pointers) —
	// rewrites the registered table for every other document
	for f, why := range fa.taint {
		if isDocMap(f.Type()) {
			continue
		}
		c.Ob("C15-R2", "aliases-definition:"+fieldName(f), fa.taintPos[f], false,
			fmt.Sprintf("the document member %s is made to point into data that may belong to a registered definition (%s): a write through it — by the document's owner, or by encoding/json decoding into the same object again — changes the regime's table for every other calculation, concurrent ones included", fieldName(f), why))
	}
	c.Extra("mutation_sites_on_definition_types", fa.sites)
	seen := map[string]bool{}
	for _, v := range fa.viol {
		if cg.initOnly(v.fn.Obj) {
			continue
		}
		key := fmt.Sprintf("%s#%s", v.fn.Name(), shortWhat(v.what))
		if seen[key+p.Rel(v.pos)] {
			continue
		}
		seen[key+p.Rel(v.pos)] = true
		msg := "a definition object that may be shared (registered regime/addon/catalogue data) is mutated at run time: " + v.what
		if why := fa.taintOf(v); why != "" {
			msg += "; this field may hold a shared map: " + why
		}
		if v.path != "" {
			msg += "; " + v.path
		}
		msg += " — concurrent calculations race on it and can observe each other's data"
		c.Ob("C15-R2", key, v.pos, false, msg)
	}
	// positive inventory: the merge helpers and their call sites
	var helpers []string
	for fn, s := range fa.sums {
		if len(s.muts) > 0 && !cg.initOnly(fn) {
			helpers = append(helpers, core.FuncName(fn))
		}
	}
	sort.Strings(helpers)
	c.Extra("functions_mutating_a_parameter_of_definition_type", helpers)
	for _, h := range helpers {
		c.Ob("C15-R2", "mutator:"+h, token.NoPos, true, "")
	}
	if fa.sites < 5 {
		c.Ob("C15-R2", "UNRESOLVED:mutation-sites", token.NoPos, false, fmt.Sprintf("only %d mutation sites on definition types found", fa.sites))
	}
}

func fieldName(f *types.Var) string {
	if f.Pkg() != nil {
		return f.Pkg().Name() + "." + f.Name()
	}
	return f.Name()
}

func shortWhat(s string) string {
	if i := strings.Index(s, ","); i > 0 {
		s = s[:i]
	}
	if len(s) > 80 {
		s = s[:80]
	}
	return s
}

func c15Bulk(c *core.Ctx) {
	p := c.P
	fd := p.Func("internal/cli", "", "Bulk")
	if fd == nil {
		c.Ob("C15-R3", "UNRESOLVED:cli.Bulk", token.NoPos, false, "function not found")
		return
	}
	info := fd.Pkg.TypesInfo
	// the dispatcher: the outer `go func() { for { ... } }()`
	var loop *ast.ForStmt
	ast.Inspect(fd.Decl.Body, func(n ast.Node) bool {
		if f, ok := n.(*ast.ForStmt); ok && loop == nil {
			loop = f
		}
		return true
	})
	if loop == nil {
		c.Ob("C15-R3", fd.Name()+"#loop", fd.Decl.Pos(), false, "NOT FOUND: no request loop in this function")
		return
	}
	// worker: the go statement inside the loop whose function sends a response;
	// the processing call is the (possibly wrapped) call that receives the request
	var worker *ast.GoStmt
	var procCall *ast.CallExpr
	isReqCall := func(cl *ast.CallExpr) bool {
		fn := core.Callee(info, cl)
		if fn == nil || !core.InModule(fn.Pkg()) {
			return false
		}
		sg := fn.Type().(*types.Signature)
		for i := 0; i < sg.Params().Len(); i++ {
			if ts := core.TypeString(sg.Params().At(i).Type()); ts == "cli.BulkRequest" || ts == "internal/cli.BulkRequest" {
				return true
			}
		}
		return false
	}
	ast.Inspect(loop.Body, func(n ast.Node) bool {
		if g, ok := n.(*ast.GoStmt); ok {
			fl, isLit := g.Call.Fun.(*ast.FuncLit)
			if !isLit {
				return true
			}
			sends := false
			ast.Inspect(fl.Body, func(m ast.Node) bool {
				if _, ok := m.(*ast.SendStmt); ok {
					sends = true
				}
				return true
			})
			if !sends {
				return true
			}
			ast.Inspect(fl.Body, func(m ast.Node) bool {
				if cl, ok := m.(*ast.CallExpr); ok && procCall == nil && isReqCall(cl) {
					worker, procCall = g, cl
				}
				return true
			})
		}
		return true
	})
	if worker == nil {
		c.Ob("C15-R3", fd.Name()+"#worker", loop.Pos(), false, "NOT FOUND: no per-request goroutine (a go statement with a function literal) that processes a request and sends its response in the loop")
		return
	}
	psig := core.Callee(info, procCall).Type().(*types.Signature)
	// (a) request and sequence arguments are per-iteration variables
	for i, a := range procCall.Args {
		pt := psig.Params().At(i).Type()
		ts := core.TypeString(pt)
		if ts != "cli.BulkRequest" && ts != "int64" && ts != "internal/cli.BulkRequest" {
			continue
		}
		v := core.VarOf(info, a)
		// a parameter of the worker literal stands for the argument given at the go statement
		if fl, isLit := worker.Call.Fun.(*ast.FuncLit); isLit && v != nil {
			pi := 0
			for _, fld := range fl.Type.Params.List {
				for _, nm := range fld.Names {
					if info.Defs[nm] == types.Object(v) && pi < len(worker.Call.Args) {
						if av := core.VarOf(info, worker.Call.Args[pi]); av != nil {
							v = av
						}
					}
					pi++
				}
			}
		}
		vpos := core.DefPosIn(info, fd.Decl.Body, v)
		perIter := v != nil && loop.Body.Pos() <= vpos && vpos <= loop.Body.End() && !(worker.Pos() <= vpos && vpos <= worker.End())
		// a parameter of the worker closure bound at the go statement is fine too
		if !perIter && v != nil && worker.Pos() <= vpos && vpos <= worker.End() {
			perIter = true
		}
		c.Ob("C15-R3", fmt.Sprintf("%s#per-iteration:%s", fd.Name(), psig.Params().At(i).Name()), a.Pos(), perIter,
			"the value handed to the worker is not a variable declared inside the loop body: iterations share it, so responses can carry another request's id or position")
		// declared before the go statement and assigned exactly once per iteration
		if v != nil && perIter && ts == "int64" {
			ld := core.NewLocalDefs(info, fd.Decl.Body)
			defs := ld.All(v)
			once := len(defs) == 1 && defs[0].Pos < worker.Pos()
			okAtomic := false
			if once {
				if cl, ok := ast.Unparen(defs[0].RHS).(*ast.CallExpr); ok {
					if fn := core.Callee(info, cl); fn != nil && fn.Pkg() != nil && fn.Pkg().Path() == "sync/atomic" && fn.Name() == "AddInt64" {
						if tv, ok := info.Types[cl.Args[1]]; ok && tv.Value != nil && tv.Value.String() == "1" {
							okAtomic = true
						}
					}
				}
				if be, ok := ast.Unparen(defs[0].RHS).(*ast.BinaryExpr); ok && be.Op == token.ADD {
					okAtomic = true
				}
				// seq := count, with `count++` as a statement of the loop body before it, the counter
				// being touched by nothing else (the dispatcher is the only goroutine that sees it)
				if cv := core.VarOf(info, defs[0].RHS); cv != nil && !cv.IsField() && cv != v {
					incs, others := 0, 0
					for _, st := range loop.Body.List {
						if inc, ok := st.(*ast.IncDecStmt); ok && inc.Tok == token.INC && core.VarOf(info, inc.X) == cv && inc.Pos() < defs[0].Pos {
							incs++
						}
					}
					ast.Inspect(fd.Decl.Body, func(m ast.Node) bool {
						switch x := m.(type) {
						case *ast.AssignStmt:
							for _, l := range x.Lhs {
								if core.VarOf(info, l) == cv && x.Tok != token.DEFINE {
									others++
								}
							}
						case *ast.IncDecStmt:
							if core.VarOf(info, x.X) == cv && !(loop.Body.Pos() <= x.Pos() && x.End() <= loop.Body.End()) {
								others++
							}
						case *ast.UnaryExpr:
							if x.Op == token.AND && core.VarOf(info, x.X) == cv {
								others++
							}
						}
						return true
					})
					usedInWorker := false
					ast.Inspect(worker, func(m ast.Node) bool {
						if id, ok := m.(*ast.Ident); ok && info.Uses[id] == types.Object(cv) {
							usedInWorker = true
						}
						return true
					})
					if incs == 1 && others == 0 && !usedInWorker {
						okAtomic = true
					}
				}
			}
			c.Ob("C15-R3", fd.Name()+"#sequence-once-per-request", a.Pos(), once && okAtomic,
				"the sequence number is not taken exactly once per decoded request, by an increment of one, before the worker starts")
		}
	}
	// (b) wg.Add before go, in the same block
	isWG := func(cl *ast.CallExpr, name string) bool {
		fn := core.Callee(info, cl)
		return fn != nil && core.IsFunc(fn, "sync", "WaitGroup", name)
	}
	addBefore := false
	if blk := innermostBlock(fd.Decl.Body, worker); blk != nil {
		for _, s := range blk.List {
			if s.Pos() >= worker.Pos() {
				break
			}
			if es, ok := s.(*ast.ExprStmt); ok {
				if cl, ok := es.X.(*ast.CallExpr); ok && isWG(cl, "Add") {
					addBefore = true
				}
			}
		}
	}
	c.Ob("C15-R3", fd.Name()+"#add-before-go", worker.Pos(), addBefore, "wg.Add does not precede the go statement: the final marker can be sent while a worker has not been counted yet")
	// (c) inside the worker: send precedes Done; Done on every path
	if fl, ok := worker.Call.Fun.(*ast.FuncLit); ok {
		var sendPos, donePos token.Pos
		deferred := false
		ast.Inspect(fl.Body, func(n ast.Node) bool {
			switch x := n.(type) {
			case *ast.SendStmt:
				if sendPos == token.NoPos {
					sendPos = x.Pos()
				}
			case *ast.DeferStmt:
				if isWG(x.Call, "Done") {
					deferred = true
					donePos = x.Pos()
				}
			case *ast.CallExpr:
				if isWG(x, "Done") && donePos == token.NoPos {
					donePos = x.Pos()
				}
			}
			return true
		})
		ok := sendPos != token.NoPos && donePos != token.NoPos && (deferred || sendPos < donePos)
		// a callee evaluated for the value being sent must not release the wait group itself
		early := ""
		ast.Inspect(fl.Body, func(n ast.Node) bool {
			if snd, isS := n.(*ast.SendStmt); isS {
				ast.Inspect(snd.Value, func(m ast.Node) bool {
					if cl, isC := m.(*ast.CallExpr); isC {
						if fn := core.Callee(info, cl); fn != nil && core.InModule(fn.Pkg()) && callsWGDone(p, fn, 0, map[*types.Func]bool{}) {
							early = core.FuncName(fn)
						}
					}
					return true
				})
			}
			return true
		})
		if early != "" {
			c.Ob("C15-R3", fd.Name()+"#done-inside-sent-value", worker.Pos(), false,
				"wg.Done is executed inside "+early+", which is evaluated before the response is sent: the final marker can be sent, and the channel closed, while this response is still unsent")
			ok, deferred = true, true // reported above; the remaining checks concern the literal itself
		}
		lastIsDone := deferred
		if !deferred && len(fl.Body.List) > 0 {
			if es, ok := fl.Body.List[len(fl.Body.List)-1].(*ast.ExprStmt); ok {
				if cl, ok := es.X.(*ast.CallExpr); ok && isWG(cl, "Done") {
					lastIsDone = true
				}
			}
		}
		c.Ob("C15-R3", fd.Name()+"#send-before-done", worker.Pos(), ok && lastIsDone, "in the worker the response is not sent before wg.Done (or Done is not reached on every path): the final marker can overtake a response")
		// the sent value is processRequest's result, unmodified
		direct := false
		ast.Inspect(fl.Body, func(n ast.Node) bool {
			if s, ok := n.(*ast.SendStmt); ok && ast.Unparen(s.Value) == ast.Expr(procCall) {
				direct = true
			}
			return true
		})
		c.Ob("C15-R3", fd.Name()+"#sends-result", worker.Pos(), direct, "the worker does not send processRequest's result directly")
	} else {
		c.Undecided("C15-R3", fd.Name()+"#worker-shape", worker.Pos(), "worker is not a function literal")
	}
	// (d) final response after wg.Wait, only IsFinal literal
	var finals []*ast.CompositeLit
	for _, f2 := range p.Funcs(fd.Pkg) {
		ast.Inspect(f2.Decl.Body, func(n ast.Node) bool {
			cl, ok := n.(*ast.CompositeLit)
			if !ok {
				return true
			}
			for _, el := range cl.Elts {
				if kv, ok := el.(*ast.KeyValueExpr); ok {
					if id, ok := kv.Key.(*ast.Ident); ok && id.Name == "IsFinal" {
						finals = append(finals, cl)
					}
				}
			}
			return true
		})
		ast.Inspect(f2.Decl.Body, func(n ast.Node) bool {
			if as, ok := n.(*ast.AssignStmt); ok {
				for _, l := range as.Lhs {
					if f := core.FieldOf(f2.Pkg.TypesInfo, l); f != nil && f.Name() == "IsFinal" {
						c.Ob("C15-R3", f2.Name()+"#isfinal-store", as.Pos(), false, "IsFinal is assigned outside the single final-response literal")
					}
				}
			}
			return true
		})
	}
	okFinal := len(finals) == 1 && loop.Pos() <= finals[0].Pos() && finals[0].End() <= loop.End()
	waitBefore, sentAfter, returns := false, false, false
	if okFinal {
		if blk := innermostBlock(fd.Decl.Body, finals[0]); blk != nil {
			var finalVar *types.Var
			for _, s := range blk.List {
				if s.End() <= finals[0].Pos() {
					if es, ok := s.(*ast.ExprStmt); ok {
						if cl, ok := es.X.(*ast.CallExpr); ok && isWG(cl, "Wait") {
							waitBefore = true
						}
					}
					continue
				}
				if as, ok := s.(*ast.AssignStmt); ok && as.Pos() <= finals[0].Pos() && finals[0].End() <= as.End() {
					finalVar = core.VarOf(info, as.Lhs[0])
				}
				if sd, ok := s.(*ast.SendStmt); ok && finalVar != nil && core.VarOf(info, sd.Value) == finalVar {
					sentAfter = true
				}
				if _, ok := s.(*ast.ReturnStmt); ok && sentAfter {
					returns = true
				}
			}
		}
	}
	c.Ob("C15-R3", fd.Name()+"#single-final-after-wait", loop.Pos(), okFinal && waitBefore && sentAfter && returns,
		fmt.Sprintf("the final response is not the single IsFinal value sent after wg.Wait followed by return (final literals=%d, wait before=%v, sent=%v, returns=%v)", len(finals), waitBefore, sentAfter, returns))
	// channel closed by the dispatcher
	closed := false
	ast.Inspect(fd.Decl.Body, func(n ast.Node) bool {
		if d, ok := n.(*ast.DeferStmt); ok {
			if id, ok := d.Call.Fun.(*ast.Ident); ok && id.Name == "close" {
				closed = true
			}
		}
		return true
	})
	c.Ob("C15-R3", fd.Name()+"#closes-channel", fd.Decl.Pos(), closed, "the response channel is not closed by a defer in the dispatcher")

	// (e) processRequest
	pfd := p.DeclOf(core.Callee(info, procCall))
	if pfd == nil {
		c.Ob("C15-R3", "UNRESOLVED:processRequest", token.NoPos, false, "no body")
		return
	}
	// a wrapper that hands the request on to another function of the package: follow it
	for depth := 0; depth < 3; depth++ {
		allocs := false
		var inner *ast.CallExpr
		wi := pfd.Pkg.TypesInfo
		ast.Inspect(pfd.Decl.Body, func(n ast.Node) bool {
			switch x := n.(type) {
			case *ast.CompositeLit:
				if strings.HasSuffix(core.TypeString(wi.TypeOf(x)), "BulkResponse") {
					allocs = true
				}
			case *ast.CallExpr:
				if fn := core.Callee(wi, x); fn != nil && fn.Pkg() == pfd.Obj.Pkg() && inner == nil {
					sg := fn.Type().(*types.Signature)
					for i := 0; i < sg.Params().Len(); i++ {
						if strings.HasSuffix(core.TypeString(sg.Params().At(i).Type()), "BulkRequest") {
							inner = x
						}
					}
				}
			}
			return true
		})
		if allocs || inner == nil {
			break
		}
		nfd := p.DeclOf(core.Callee(wi, inner))
		if nfd == nil {
			break
		}
		pfd = nfd
	}
	pinfo := pfd.Pkg.TypesInfo
	var resVar *types.Var
	var resLit *ast.CompositeLit
	ast.Inspect(pfd.Decl.Body, func(n ast.Node) bool {
		as, ok := n.(*ast.AssignStmt)
		if !ok || len(as.Lhs) != 1 || len(as.Rhs) != 1 {
			return true
		}
		if u, ok := ast.Unparen(as.Rhs[0]).(*ast.UnaryExpr); ok && u.Op == token.AND {
			if cl, ok := ast.Unparen(u.X).(*ast.CompositeLit); ok && strings.HasSuffix(core.TypeString(pinfo.TypeOf(cl)), "BulkResponse") {
				if resVar == nil {
					resVar, resLit = core.VarOf(pinfo, as.Lhs[0]), cl
				} else {
					resVar = nil // more than one allocation
				}
			}
		}
		return true
	})
	okAlloc := resVar != nil
	idsFromParams := 0
	if okAlloc {
		for _, el := range resLit.Elts {
			kv, ok := el.(*ast.KeyValueExpr)
			if !ok {
				continue
			}
			name := kv.Key.(*ast.Ident).Name
			root := core.RootVar(pinfo, kv.Value)
			_, isParam := paramIndex(pfd.Obj, root)
			if (name == "ReqID" || name == "SeqID") && root != nil && isParam {
				idsFromParams++
			}
		}
	}
	c.Ob("C15-R3", pfd.Name()+"#one-response-with-own-ids", pfd.Decl.Pos(), okAlloc && idsFromParams == 2,
		"processRequest does not allocate exactly one response whose ReqID and SeqID come from its own parameters")
	restored := false
	ast.Inspect(pfd.Decl.Body, func(n ast.Node) bool {
		if as, ok := n.(*ast.AssignStmt); ok {
			for _, l := range as.Lhs {
				if f := core.FieldOf(pinfo, l); f != nil && (f.Name() == "ReqID" || f.Name() == "SeqID") {
					restored = true
				}
			}
		}
		return true
	})
	c.Ob("C15-R3", pfd.Name()+"#ids-never-restored", pfd.Decl.Pos(), !restored, "ReqID/SeqID of the response are assigned after its construction")
	allRes := true
	ast.Inspect(pfd.Decl.Body, func(n ast.Node) bool {
		if _, ok := n.(*ast.FuncLit); ok {
			return false
		}
		if r, ok := n.(*ast.ReturnStmt); ok {
			if len(r.Results) != 1 || core.VarOf(pinfo, r.Results[0]) != resVar {
				allRes = false
			}
		}
		return true
	})
	c.Ob("C15-R3", pfd.Name()+"#returns-its-response", pfd.Decl.Pos(), okAlloc && allRes, "some return of processRequest does not return the response allocated for this request")
	// payloads are fresh: every store to res.Payload takes the result of a call made in this activation, and no deferred call touches what it returned
	okPayload := true
	why := ""
	ast.Inspect(pfd.Decl.Body, func(n ast.Node) bool {
		as, ok := n.(*ast.AssignStmt)
		if !ok {
			return true
		}
		for i, l := range as.Lhs {
			if f := core.FieldOf(pinfo, l); f == nil || f.Name() != "Payload" {
				continue
			}
			rhs := as.Rhs[0]
			if len(as.Rhs) == len(as.Lhs) {
				rhs = as.Rhs[i]
			}
			cl, isCall := ast.Unparen(rhs).(*ast.CallExpr)
			if !isCall {
				if v := core.VarOf(pinfo, rhs); v != nil {
					continue // a local value computed above (e.g. schema bytes)
				}
				okPayload, why = false, "payload is not the result of a call"
				continue
			}
			// Bytes() of a buffer is an alias of the buffer's storage
			if fn := core.Callee(pinfo, cl); fn != nil && fn.Name() == "Bytes" {
				okPayload, why = false, "payload aliases the storage of a buffer ("+types.ExprString(cl)+") that outlives or is reused after the call"
			}
			// a local function value: look into the function literals it may hold
			if v := core.VarOf(pinfo, cl.Fun); v != nil {
				ld := core.NewLocalDefs(pinfo, pfd.Decl.Body)
				for _, d := range ld.All(v) {
					fl, isLit := ast.Unparen(d.RHS).(*ast.FuncLit)
					if d.RHS == nil || !isLit {
						continue
					}
					ast.Inspect(fl.Body, func(m ast.Node) bool {
						r, isRet := m.(*ast.ReturnStmt)
						if !isRet || len(r.Results) == 0 {
							return true
						}
						if alias := aliasesBuffer(pinfo, r.Results[0]); alias != "" {
							okPayload, why = false, "the serialiser returns "+alias+", which aliases a buffer's storage; if that buffer is reused (pooled) a response still in flight is overwritten"
						}
						return true
					})
				}
			}
		}
		return true
	})
	c.Ob("C15-R3", pfd.Name()+"#payload-fresh", pfd.Decl.Pos(), okPayload, "the response payload may share storage with another request: "+why)
}

// aliasesBuffer reports an expression that shares storage with a bytes.Buffer:
// buf.Bytes(), possibly sliced or passed through bytes.Trim*-style functions
// that return a sub-slice; copying wrappers (append to a fresh slice,
// bytes.Clone, string conversion) are not aliases.
func aliasesBuffer(info *types.Info, e ast.Expr) string {
	e = ast.Unparen(e)
	switch x := e.(type) {
	case *ast.SliceExpr:
		return aliasesBuffer(info, x.X)
	case *ast.CallExpr:
		fn := core.Callee(info, x)
		if fn == nil {
			return ""
		}
		if fn.Name() == "Bytes" {
			if r := core.RecvNamed(fn); r != nil && r.Obj().Pkg() != nil && r.Obj().Pkg().Path() == "bytes" && r.Obj().Name() == "Buffer" {
				return types.ExprString(x)
			}
		}
		if fn.Pkg() != nil && fn.Pkg().Path() == "bytes" && core.RecvNamed(fn) == nil && strings.HasPrefix(fn.Name(), "Trim") && len(x.Args) > 0 {
			return aliasesBuffer(info, x.Args[0])
		}
	}
	return ""
}

// callsWGDone: the function, or a module function it calls (depth 3), calls
// sync.WaitGroup.Done (directly or deferred).
func callsWGDone(p *core.Program, fn *types.Func, depth int, seen map[*types.Func]bool) bool {
	if depth > 3 || seen[fn] {
		return false
	}
	seen[fn] = true
	fd := p.DeclOf(fn)
	if fd == nil {
		return false
	}
	info := fd.Pkg.TypesInfo
	res := false
	ast.Inspect(fd.Decl.Body, func(n ast.Node) bool {
		if cl, ok := n.(*ast.CallExpr); ok && !res {
			if f := core.Callee(info, cl); f != nil {
				if core.IsFunc(f, "sync", "WaitGroup", "Done") {
					res = true
				} else if core.InModule(f.Pkg()) && callsWGDone(p, f, depth+1, seen) {
					res = true
				}
			}
		}
		return true
	})
	return res
}

// c15ReadOnlyEvaluation — C15-R4: evaluating definitions is read-only. A method
// of a definition type (regime, addon, scenario, tag set, catalogue data …)
// that is used at run time writes no field of a definition type, itself or
// through what it calls — except the listed builders, which fill an object they
// have just made (Merge, With…, Clone, New…, Add/Append on a fresh set). The
// field write summaries are those of C04-R7; a write to the function's own
// by-value copy (`nw := *n; nw.Code = c`) is not a write to the definition.
func c15ReadOnlyEvaluation(c *core.Ctx, cg *callers) {
	p := c.P
	c.Rule("C15-R4", "run-time methods of definition types write no field of a definition type", 10)
	protT, names := definitionTypes(c)
	fe := effectsOf(p)
	protField := map[*types.Var]string{}
	prot := map[*types.Named]bool{}
	for _, nm := range names {
		parts := strings.SplitN(nm, ".", 2)
		n := p.Named(parts[0], parts[1])
		if n == nil || !protT(n) {
			continue
		}
		prot[n] = true
		if st, ok := n.Underlying().(*types.Struct); ok {
			for i := 0; i < st.NumFields(); i++ {
				protField[st.Field(i)] = nm + "." + st.Field(i).Name()
			}
		}
	}
	var fds []*core.FuncDecl
	for _, fd := range p.AllFuncs() {
		r := core.RecvNamed(fd.Obj)
		if r == nil || !prot[r] || cg.initOnly(fd.Obj) || p.IsTestFile(fd.Decl.Pos()) {
			continue
		}
		fds = append(fds, fd)
	}
	sort.Slice(fds, func(i, j int) bool { return fds[i].Name() < fds[j].Name() })
	for _, fd := range fds {
		name := fd.Obj.Name()
		builder := false
		for _, pre := range []string{"Merge", "With", "Clone", "New", "Add", "Append", "Set", "Register", "Normalize", "UnmarshalJSON", "JSONSchema", "Calculate", "prepare", "init"} {
			if strings.HasPrefix(name, pre) || strings.HasPrefix(strings.ToLower(name), strings.ToLower(pre)) {
				builder = true
			}
		}
		if builder {
			continue
		}
		var written []string
		for f := range fe.writes[fd.Obj] {
			if w, ok := protField[f]; ok {
				written = append(written, w)
			}
		}
		sort.Strings(written)
		c.Ob("C15-R4", fd.Name()+"#read-only", fd.Decl.Pos(), len(written) == 0,
			"this method of a definition type, which runs while documents are processed, writes "+strings.Join(written, ", ")+" (itself or through a callee): the registered definitions are shared by all calculations — concurrent ones race on the write and later documents see what earlier ones left")
	}
}

// shareDefinitionsImmutable re-reports, under another property's rule id, the
// C15 decisions that the registered definitions are not written at run time
// and that no document member is made to point into them (C15-R2, C15-R4): what
// the library enforces stays what was published (C19), and the rate a later
// document gets is the table's (C12).
func shareDefinitionsImmutable(c *core.Ctx, rule, title string) {
	c.Rule(rule, title, 2)
	sub := core.NewCtx("C15", c.Tier, c.Seed, c.P, c.VerifDir)
	sub.Quiet = true
	cg := buildCallers(c.P)
	c15Definitions(sub, cg)
	c15ReadOnlyEvaluation(sub, cg)
	for _, o := range sub.Obligations() {
		if o.Rule == "C15-R2" || o.Rule == "C15-R4" {
			if !o.OK || strings.HasPrefix(o.Key, "mutator:") {
				c.ObAt(rule, o.Key, o.Pos, o.OK, o.Msg)
			}
		}
	}
	c.Ob(rule, "definitions#not-written-at-run-time", token.NoPos, true, "")
}
