package props

import (
	"fmt"
	"go/ast"
	"go/token"
	"go/types"
	"sort"
	"strings"

	"goblcheck/core"
	"golang.org/x/tools/go/packages"
)

func init() { register("C13", C13) }

// c13OwnNormaliser: regimes whose tax identity normaliser legitimately does
// not go through tax.NormalizeIdentity, one entry each with the reason.
var c13OwnNormaliser = map[string]string{
	"regimes/mx": "the RFC alphabet contains & and Ñ, which the common routine strips; the regime has its own normaliser",
}

// caseBodies returns, for a dispatcher function `func(doc any)`, the bodies of
// the type-switch cases that list the given type.
func caseBodies(info *types.Info, fd *core.FuncDecl, typeName string) [][]ast.Stmt {
	var out [][]ast.Stmt
	ast.Inspect(fd.Decl.Body, func(n ast.Node) bool {
		ts, ok := n.(*ast.TypeSwitchStmt)
		if !ok {
			return true
		}
		for _, cc := range ts.Body.List {
			clause := cc.(*ast.CaseClause)
			for _, e := range clause.List {
				if t := info.TypeOf(e); t != nil && core.TypeString(t) == typeName {
					out = append(out, clause.Body)
				}
			}
		}
		return true
	})
	return out
}

// reachesFrom: does any statement of the bodies reference fn (transitively through module functions, depth ≤ 4)?
func reachesFrom(p *core.Program, info *types.Info, bodies [][]ast.Stmt, pred func(*types.Func) bool) bool {
	found := false
	for _, b := range bodies {
		for _, s := range b {
			ast.Inspect(s, func(n ast.Node) bool {
				id, ok := n.(*ast.Ident)
				if !ok || found {
					return true
				}
				if f, ok := info.Uses[id].(*types.Func); ok {
					if p.Reaches(f.Origin(), pred, 4) != nil {
						found = true
					}
				}
				return true
			})
		}
	}
	return found
}

// C13 — tax identity codes: wiring of validators and normalisers.
func C13(c *core.Ctx) {
	p := c.P
	c.Explain("Decided (wiring only): (R1) for every regime package, every function that validates or normalises a *tax.Identity is reachable from the function the regime registers as Validator (resp. Normalizer) through that dispatcher's `case *tax.Identity` — a check-digit routine that is defined but not wired accepts everything; (R2) every regime that validates tax identities also normalises them in its registered Normalizer's `case *tax.Identity`, and that case reaches the common tax.NormalizeIdentity (one listed exception: MX), so separators, case and country prefix are removed on every entry point, not only through one document type; Identity.Normalize falls back to the common routine when no regime applies. Not decided: agreement of any weight, modulus or letter table with the national algorithm (needs a reference implementation and the code space), idempotence of normalisation as a value property.")
	c.Rule("C13-R1", "identity validators and normalisers are wired into the regime's registered dispatchers", 20)
	c.Rule("C13-R2", "tax identities are normalised by the regime dispatcher through the common routine", 17)
	isCommon := func(f *types.Func) bool { return core.IsFunc(f, core.ModPath+"/tax", "", "NormalizeIdentity") }
	// R3: the common normalisation comes first. A regime's own rewriting of the code (suffix
	// removal, check-digit prefix, upper-casing) is written for the normalised form — no
	// separators, upper case, no country prefix; applied to the raw text it misses the
	// spellings the common routine would have unified, and a second normalisation gives
	// another result than the first.
	c13DirectValidatorCalls(c)
	c13CountryGuards(c)
	c13PartiesNormalised(c)
	c.Rule("C13-R6", "the alternative country codes a regime is registered under are the ones its published definition lists (shared with C19-R5)", 2)
	{
		sub := core.NewCtx("C19", c.Tier, c.Seed, c.P, c.VerifDir)
		sub.Quiet = true
		c19SchemaEnums(sub)
		for _, o := range sub.Obligations() {
			if o.Rule == "C19-R5" && strings.Contains(o.Key, "#alt-country-codes") {
				c.ObAt("C13-R6", o.Key, o.Pos, o.OK, o.Msg)
			}
		}
	}
	c.Rule("C13-R3", "the regime's own rewriting of a tax code comes after the common normalisation", 3)
	for _, fd := range p.AllFuncs() {
		rel := core.RelPkg(fd.Obj.Pkg().Path())
		if !strings.HasPrefix(rel, "regimes/") || p.IsTestFile(fd.Decl.Pos()) {
			continue
		}
		info := fd.Pkg.TypesInfo
		for _, call := range core.CallsTo(info, fd.Decl.Body, isCommon) {
			if len(call.Args) == 0 {
				continue
			}
			idv := core.VarOf(info, call.Args[0])
			if idv == nil {
				continue
			}
			early := ""
			ast.Inspect(fd.Decl.Body, func(m ast.Node) bool {
				as, ok := m.(*ast.AssignStmt)
				if !ok || as.Pos() > call.Pos() {
					return true
				}
				for _, l := range as.Lhs {
					if core.IsFieldOfVar(info, l, idv, "Code") {
						early = p.Rel(as.Pos())
					}
				}
				return true
			})
			// the prefix the common routine trims is the identity's country at that moment: a
			// country assigned afterwards (GR → EL) leaves its own prefix in the code for the next
			// pass to trim — normalising twice differs from normalising once
			late := ""
			ast.Inspect(fd.Decl.Body, func(m ast.Node) bool {
				as, ok := m.(*ast.AssignStmt)
				if !ok || as.Pos() < call.End() {
					return true
				}
				for i, l := range as.Lhs {
					if core.IsFieldOfVar(info, l, idv, "Country") {
						// the new country's prefix was trimmed already if it was given as an alternative code
						covered := false
						if len(as.Rhs) == len(as.Lhs) {
							if tv, ok := info.Types[as.Rhs[i]]; ok && tv.Value != nil {
								for _, alt := range call.Args[1:] {
									if av, ok := info.Types[alt]; ok && av.Value != nil && av.Value.ExactString() == tv.Value.ExactString() {
										covered = true
									}
								}
							}
						}
						if !covered {
							late = p.Rel(as.Pos())
						}
					}
				}
				return true
			})
			c.Ob("C13-R3", fd.Name()+"#country-before-common", call.Pos(), late == "",
				"the identity's country is assigned at "+late+", after tax.NormalizeIdentity has trimmed the prefix of the country it had before: a code written with the final country's prefix keeps it on the first normalisation and loses it on the second (normalisation is not idempotent)")
			c.Ob("C13-R3", fd.Name()+"#common-first", call.Pos(), early == "",
				"the code is rewritten at "+early+" before tax.NormalizeIdentity has run: the regime's rewriting sees the raw spelling (lower case, separators, prefixes), so equivalent spellings no longer normalise to the same code and normalising twice differs from normalising once")
		}
	}
	nReg := 0
	var regimesWith []string
	for _, pk := range p.Pkgs {
		rel := core.RelPkg(pk.PkgPath)
		if !strings.HasPrefix(rel, "regimes/") || rel == "regimes/common" || strings.Count(rel, "/") != 1 {
			continue
		}
		vfn, nfn := regimeDispatchers(p, pk)
		if vfn == nil && nfn == nil {
			continue
		}
		nReg++
		info := pk.TypesInfo
		// identity functions of the package
		for _, fd := range p.Funcs(pk) {
			sig := fd.Obj.Type().(*types.Signature)
			if sig.Recv() != nil || sig.Params().Len() != 1 || core.TypeString(sig.Params().At(0).Type()) != "*tax.Identity" {
				continue
			}
			isValidator := sig.Results().Len() == 1 && core.IsErrorType(sig.Results().At(0).Type())
			isNormaliser := sig.Results().Len() == 0
			if !isValidator && !isNormaliser {
				continue
			}
			var disp *types.Func
			role := "Validator"
			if isValidator {
				disp = vfn
			} else {
				disp, role = nfn, "Normalizer"
			}
			key := fmt.Sprintf("%s.%s", rel, fd.Obj.Name())
			if disp == nil {
				c.Ob("C13-R1", key, fd.Decl.Pos(), false, fmt.Sprintf("%s handles tax identities but the regime registers no %s: it is never called", fd.Obj.Name(), role))
				continue
			}
			dfd := p.DeclOf(disp)
			if dfd == nil {
				c.Undecided("C13-R1", key, fd.Decl.Pos(), "registered dispatcher has no body in the module")
				continue
			}
			bodies := caseBodies(dfd.Pkg.TypesInfo, dfd, "*tax.Identity")
			ok := reachesFrom(p, dfd.Pkg.TypesInfo, bodies, func(f *types.Func) bool { return f == fd.Obj })
			c.Ob("C13-R1", key, fd.Decl.Pos(), ok,
				fmt.Sprintf("%s is not reachable from the `case *tax.Identity` of the regime's registered %s (%s): the check it implements is never applied when a tax identity is validated or normalised on its own", fd.Obj.Name(), role, core.FuncName(disp)))
		}
		// R2
		validates := false
		if vfn != nil {
			if vfd := p.DeclOf(vfn); vfd != nil && len(caseBodies(vfd.Pkg.TypesInfo, vfd, "*tax.Identity")) > 0 {
				validates = true
			}
		}
		if !validates {
			continue
		}
		regimesWith = append(regimesWith, rel)
		key := rel + "#normalises-identity"
		if nfn == nil {
			c.Ob("C13-R2", key, token.NoPos, false, "the regime validates tax identities but registers no Normalizer")
			continue
		}
		nfd := p.DeclOf(nfn)
		bodies := caseBodies(nfd.Pkg.TypesInfo, nfd, "*tax.Identity")
		if len(bodies) == 0 {
			c.Ob("C13-R2", key, nfd.Decl.Pos(), false,
				"the regime validates tax identities but its registered Normalizer has no `case *tax.Identity`: identities normalised on their own (tax.Identity.Normalize, ParseIdentity, a party of this country inside another regime's document) keep separators, lower case and the country prefix and are then rejected")
			continue
		}
		common := reachesFrom(p, nfd.Pkg.TypesInfo, bodies, isCommon)
		if reason, ok := c13OwnNormaliser[rel]; ok && !common {
			c.Ob("C13-R2", key, nfd.Decl.Pos(), true, "")
			c.Note("%s: %s", rel, reason)
			continue
		}
		c.Ob("C13-R2", key, nfd.Decl.Pos(), common, "the regime's tax identity normaliser does not go through tax.NormalizeIdentity (separators, case, country prefix)")
		_ = info
	}
	sort.Strings(regimesWith)
	c.Extra("regimes_validating_tax_identities", regimesWith)
	if nReg < 18 {
		c.Ob("C13-R1", "UNRESOLVED:regimes", token.NoPos, false, fmt.Sprintf("only %d regime packages with registered dispatchers found", nReg))
	}
	// fallback in Identity.Normalize
	if fd := p.Func("tax", "Identity", "Normalize"); fd != nil {
		ok := false
		for _, call := range core.CallsTo(fd.Pkg.TypesInfo, fd.Decl.Body, isCommon) {
			_ = call
			ok = true
		}
		c.Ob("C13-R2", fd.Name()+"#fallback", fd.Decl.Pos(), ok, "Identity.Normalize does not fall back to the common normalisation when no regime applies")
	} else {
		c.Ob("C13-R2", "UNRESOLVED:tax.Identity.Normalize", token.NoPos, false, "method not found")
	}
}

// regimeDispatchers finds the functions stored in the Validator and Normalizer
// fields of the tax.RegimeDef literal of a regime package.
func regimeDispatchers(p *core.Program, pk *packages.Package) (validator, normalizer *types.Func) {
	info := pk.TypesInfo
	for _, file := range pk.Syntax {
		if p.IsTestFile(file.Pos()) {
			continue
		}
		ast.Inspect(file, func(n ast.Node) bool {
			cl, ok := n.(*ast.CompositeLit)
			if !ok || !litTypeIs(info, cl, "tax.RegimeDef") {
				return true
			}
			for _, el := range cl.Elts {
				kv, ok := el.(*ast.KeyValueExpr)
				if !ok {
					continue
				}
				id, ok := kv.Key.(*ast.Ident)
				if !ok {
					continue
				}
				var fn *types.Func
				switch v := ast.Unparen(kv.Value).(type) {
				case *ast.Ident:
					fn, _ = info.Uses[v].(*types.Func)
				case *ast.SelectorExpr:
					fn, _ = info.Uses[v.Sel].(*types.Func)
				}
				switch id.Name {
				case "Validator":
					validator = fn
				case "Normalizer":
					normalizer = fn
				}
			}
			return false
		})
	}
	return
}
