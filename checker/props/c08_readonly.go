package props

import (
	"fmt"
	"go/ast"
	"go/token"
	"go/types"
	"sort"
	"strings"

	"goblcheck/core"
)

// c08ValidateReadOnly — C08-R9: validating does not change what is validated.
// Envelope.Validate compares the stored digest with the digest of the document
// as it is; a validator (or a getter it calls) that rewrites a member of the
// document first — normalising the addon list, say — makes edits to that
// member vanish before the comparison, so the change is not evident. Every
// Validate / ValidateWithContext method of the envelope and of the document
// types, and every Validator of a regime or addon definition, writes, itself or through any callee, no member of a document type.
func c08ValidateReadOnly(c *core.Ctx) {
	p := c.P
	c.Rule("C08-R9", "validation writes no member of the envelope or of a document type", 40)
	order, _, _ := docClosure(c)
	docField := map[*types.Var]string{}
	docType := map[*types.Named]bool{}
	add := func(n *types.Named) {
		if n == nil {
			return
		}
		docType[n] = true
		if st, ok := n.Underlying().(*types.Struct); ok {
			for i := 0; i < st.NumFields(); i++ {
				docField[st.Field(i)] = core.TypeName(n) + "." + st.Field(i).Name()
			}
		}
	}
	for _, n := range order {
		switch core.TypeName(n) {
		case "tax.RegimeDef", "tax.AddonDef", "tax.CatalogueDef":
			continue
		}
		if strings.HasSuffix(n.Obj().Name(), "Def") {
			continue
		}
		add(n)
	}
	add(p.Named("", "Envelope"))
	add(p.Named("head", "Header"))
	fe := effectsOf(p)
	var fds []*core.FuncDecl
	for _, fd := range p.AllFuncs() {
		if p.IsTestFile(fd.Decl.Pos()) || fd.Decl.Recv == nil {
			continue
		}
		if nm := fd.Obj.Name(); nm != "Validate" && nm != "ValidateWithContext" {
			continue
		}
		if r := core.RecvNamed(fd.Obj); r == nil || !docType[r] {
			continue
		}
		fds = append(fds, fd)
	}
	// the validators of the regime and addon definitions run as part of the same validation
	nDef := 0
	for f := range definitionValidators(p) {
		if fd := p.DeclOf(f); fd != nil {
			fds = append(fds, fd)
			nDef++
		}
	}
	c.Extra("C08-R9_definition_validators", nDef)
	sort.Slice(fds, func(i, j int) bool { return fds[i].Name() < fds[j].Name() })
	for _, fd := range fds {
		var written []string
		for f := range fe.writes[fd.Obj] {
			if w, ok := docField[f]; ok {
				written = append(written, w)
			}
		}
		sort.Strings(written)
		if len(written) > 6 {
			written = append(written[:6], "…")
		}
		c.Ob("C08-R9", fd.Name()+"#read-only", fd.Decl.Pos(), len(written) == 0,
			"validating writes "+strings.Join(written, ", ")+" (itself or through a callee): the document is changed before its digest is compared with the stored one, so an edit to that member of the serialised document is undone and goes unnoticed — and validating is no longer free of side effects")
	}
	if len(fds) == 0 {
		c.Ob("C08-R9", "UNRESOLVED:validators", token.NoPos, false, "no validator of a document type found")
	}
	// the same for what validation reaches through function values (validation.By callbacks,
	// rule methods): none re-orders a slice it was handed — sort.* / slices.Sort* / slices.Reverse
	// work in place, and a slice taken out of the validated value shares its backing array with
	// the document
	cg := buildCallers(p)
	var roots []*types.Func
	for _, fd := range fds {
		roots = append(roots, fd.Obj)
	}
	reach := cg.forward(roots)
	nSort := 0
	for _, fd := range p.AllFuncs() {
		if !reach[fd.Obj] || p.IsTestFile(fd.Decl.Pos()) || fd.Decl.Body == nil {
			continue
		}
		info := fd.Pkg.TypesInfo
		ld := core.NewLocalDefs(info, fd.Decl.Body)
		idx := 0
		ast.Inspect(fd.Decl.Body, func(n ast.Node) bool {
			call, ok := n.(*ast.CallExpr)
			if !ok || len(call.Args) == 0 {
				return true
			}
			fn := core.Callee(info, call)
			if fn == nil || fn.Pkg() == nil {
				return true
			}
			inPlace := false
			switch fn.Pkg().Path() {
			case "sort":
				switch fn.Name() {
				case "Ints", "Strings", "Float64s", "Slice", "SliceStable", "Sort", "Stable":
					inPlace = true
				}
			case "slices":
				inPlace = strings.HasPrefix(fn.Name(), "Sort") || fn.Name() == "Reverse"
			}
			if !inPlace {
				return true
			}
			nSort++
			idx++
			// a slice made in this function (make, append to nil/literal, a literal, a clone) is its own
			arg := ast.Unparen(call.Args[0])
			own := false
			if v := core.VarOf(info, arg); v != nil && !v.IsField() {
				ds := ld.All(v)
				own = len(ds) > 0
				for _, d := range ds {
					if d.RHS == nil {
						continue // var x []T
					}
					switch r := ast.Unparen(d.RHS).(type) {
					case *ast.CompositeLit:
					case *ast.CallExpr:
						okCall := false
						if id, isID := r.Fun.(*ast.Ident); isID && (id.Name == "make" || id.Name == "append") {
							okCall = true
							if id.Name == "append" && len(r.Args) > 0 {
								if av := core.VarOf(info, r.Args[0]); av != v && !core.IsNil(info, r.Args[0]) {
									if _, isLit := ast.Unparen(r.Args[0]).(*ast.CompositeLit); !isLit {
										if cv, isConv := ast.Unparen(r.Args[0]).(*ast.CallExpr); !isConv || len(cv.Args) != 1 || !core.IsNil(info, cv.Args[0]) {
											okCall = false
										}
									}
								}
							}
						}
						if f2 := core.Callee(info, r); f2 != nil && f2.Pkg() != nil && f2.Pkg().Path() == "slices" && f2.Name() == "Clone" {
							okCall = true
						}
						if !okCall {
							own = false
						}
					default:
						own = false
					}
				}
			}
			// only what comes out of the validated value matters: a member of a document
			// structure, or what a validation callback asserts out of the `any` it is handed
			fromDoc := false
			if rv := core.RootVar(info, arg); rv != nil {
				if n, _ := core.StructOf(rv.Type()); n != nil && docType[n] {
					fromDoc = true
				}
				if _, isIface := rv.Type().Underlying().(*types.Interface); isIface {
					fromDoc = true
				}
				for _, d := range ld.All(rv) {
					if d.RHS == nil {
						continue
					}
					if ta, ok := ast.Unparen(d.RHS).(*ast.TypeAssertExpr); ok {
						if xv := core.VarOf(info, ta.X); xv != nil {
							if _, isIface := xv.Type().Underlying().(*types.Interface); isIface {
								fromDoc = true
							}
						}
					}
					if rr := core.RootVar(info, d.RHS); rr != nil && rr != rv {
						if n, _ := core.StructOf(rr.Type()); n != nil && docType[n] {
							fromDoc = true
						}
					}
				}
			}
			if !fromDoc {
				return true
			}
			c.Ob("C08-R9", fmt.Sprintf("%s#in-place-order%d", fd.Name(), idx), call.Pos(), own,
				fmt.Sprintf("validation reaches %s, which re-orders %s in place (%s.%s) although the slice is not one this function made: a slice taken out of the validated value shares its backing array with the document, so validating re-orders the document before its digest is compared — an edit that only re-orders the entries goes unnoticed, and an untouched document with unsorted entries is reported as tampered", fd.Name(), types.ExprString(arg), fn.Pkg().Name(), fn.Name()))
			return true
		})
	}
	c.Extra("C08-R9_in_place_orderings_reached_by_validation", nSort)
}
