package props

import (
	"go/token"
	"go/types"
	"sort"
	"strings"

	"goblcheck/core"
)

// c08ValidateReadOnly — C08-R9: validating does not change what is validated.
// Envelope.Validate compares the stored digest with the digest of the document
// as it is; a validator (or a getter it calls) that rewrites a member of the
// document first — normalising the addon list, say — makes edits to that
// member vanish before the comparison, so the change is not evident. Every
// Validate / ValidateWithContext method of the envelope and of the document
// types, and every Validator of a regime or addon definition, writes, itself or through any callee, no member of a document type.
func c08ValidateReadOnly(c *core.Ctx) {
	p := c.P
	c.Rule("C08-R9", "validation writes no member of the envelope or of a document type", 40)
	order, _, _ := docClosure(c)
	docField := map[*types.Var]string{}
	docType := map[*types.Named]bool{}
	add := func(n *types.Named) {
		if n == nil {
			return
		}
		docType[n] = true
		if st, ok := n.Underlying().(*types.Struct); ok {
			for i := 0; i < st.NumFields(); i++ {
				docField[st.Field(i)] = core.TypeName(n) + "." + st.Field(i).Name()
			}
		}
	}
	for _, n := range order {
		switch core.TypeName(n) {
		case "tax.RegimeDef", "tax.AddonDef", "tax.CatalogueDef":
			continue
		}
		if strings.HasSuffix(n.Obj().Name(), "Def") {
			continue
		}
		add(n)
	}
	add(p.Named("", "Envelope"))
	add(p.Named("head", "Header"))
	fe := effectsOf(p)
	var fds []*core.FuncDecl
	for _, fd := range p.AllFuncs() {
		if p.IsTestFile(fd.Decl.Pos()) || fd.Decl.Recv == nil {
			continue
		}
		if nm := fd.Obj.Name(); nm != "Validate" && nm != "ValidateWithContext" {
			continue
		}
		if r := core.RecvNamed(fd.Obj); r == nil || !docType[r] {
			continue
		}
		fds = append(fds, fd)
	}
	// the validators of the regime and addon definitions run as part of the same validation
	nDef := 0
	for f := range definitionValidators(p) {
		if fd := p.DeclOf(f); fd != nil {
			fds = append(fds, fd)
			nDef++
		}
	}
	c.Extra("C08-R9_definition_validators", nDef)
	sort.Slice(fds, func(i, j int) bool { return fds[i].Name() < fds[j].Name() })
	for _, fd := range fds {
		var written []string
		for f := range fe.writes[fd.Obj] {
			if w, ok := docField[f]; ok {
				written = append(written, w)
			}
		}
		sort.Strings(written)
		if len(written) > 6 {
			written = append(written[:6], "…")
		}
		c.Ob("C08-R9", fd.Name()+"#read-only", fd.Decl.Pos(), len(written) == 0,
			"validating writes "+strings.Join(written, ", ")+" (itself or through a callee): the document is changed before its digest is compared with the stored one, so an edit to that member of the serialised document is undone and goes unnoticed — and validating is no longer free of side effects")
	}
	if len(fds) == 0 {
		c.Ob("C08-R9", "UNRESOLVED:validators", token.NoPos, false, "no validator of a document type found")
	}
}
