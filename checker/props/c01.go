package props

import (
	"fmt"
	"go/ast"
	"go/token"
	"go/types"
	"sort"
	"strings"

	"goblcheck/core"
)

func init() {
	register("C01", C01)
	register("C17", C17)
}

// isRounder: a function that only rescales amounts in place (presentation
// rounding): every assignment is L = L.Rescale*(…) / *L = L.Rescale*(…), a copy
// of the pre-rounding value into an unexported twin, or a plain exponent
// computation; every call is a rescale, an exponent getter, or another rounder.
func isRounder(p *core.Program, fn *types.Func, memo map[*types.Func]int) bool {
	switch memo[fn] {
	case 1:
		return true
	case 2, 3:
		return false
	}
	memo[fn] = 3
	fd := p.DeclOf(fn)
	res := false
	if fd != nil {
		info := fd.Pkg.TypesInfo
		res = true
		nRescale := 0
		ast.Inspect(fd.Decl.Body, func(n ast.Node) bool {
			switch s := n.(type) {
			case *ast.AssignStmt:
				for i, l := range s.Lhs {
					if i >= len(s.Rhs) {
						res = false
						continue
					}
					lt := info.TypeOf(l)
					if lt == nil || (core.TypeString(lt) != "num.Amount" && core.TypeString(lt) != "*num.Amount") {
						continue // exponent locals etc.
					}
					r := ast.Unparen(s.Rhs[i])
					if call, ok := r.(*ast.CallExpr); ok {
						cf := core.Callee(info, call)
						if cf != nil && strings.HasPrefix(cf.Name(), "Rescale") && sameLoc(info, l, core.RecvExpr(call)) {
							nRescale++
							continue
						}
						if cf != nil && strings.HasPrefix(cf.Name(), "Rescale") && len(call.Args) == 1 && sameLoc(info, l, call.Args[0]) {
							nRescale++ // currency.Def.Rescale(x)
							continue
						}
					}
					// copy of the exported twin before it is rounded: x.amount = x.Amount
					if lf, rf := core.FieldOf(info, l), core.FieldOf(info, r); lf != nil && rf != nil && !lf.Exported() && rf.Exported() && strings.EqualFold(lf.Name(), rf.Name()) {
						continue
					}
					res = false
				}
			case *ast.CallExpr:
				cf := core.Callee(info, s)
				if cf == nil {
					return true
				}
				if strings.HasPrefix(cf.Name(), "Rescale") || cf.Name() == "Exp" || cf.Name() == "Def" {
					return true
				}
				if core.InModule(cf.Pkg()) && isRounder(p, cf, memo) {
					nRescale++
					return true
				}
				res = false
			}
			return true
		})
		if nRescale == 0 {
			res = false
		}
	}
	if res {
		memo[fn] = 1
	} else {
		memo[fn] = 2
	}
	return res
}

// C01 — document totals equal exact decimal arithmetic over the inputs.
func C01(c *core.Ctx) {
	c.Explain("Decided, as structural necessary conditions of 'rounding happens only at the documented points': (R1) every sum seeded with the currency's zero raises its precision to each addend before adding (line sums, breakdowns, discount/charge sums, advances, tax bases, category and tax sums), so no addend is rounded to the currency's decimals in the middle of the calculation; (R2) presentation rounding covers every amount: each num.Amount / *num.Amount field of bill.Totals that the calculation pass assigns is rescaled in Totals.round and reset in Totals.reset, and tax.Total.round rescales every amount leaf of the tax summary; (R3) presentation rounding is last: in each calculation pass, after the first call of a rounding-only function nothing but further rounding, setters and return follows. Not decided: that the right precision constants are used, exactness of each product and quotient (C05), the 'full minor unit' bound, exchange-rate values.")
	c.Rule("C01-R1", "zero-seeded sums raise precision to each addend", 9)
	c.Rule("C01-R2", "presentation rounding and reset cover every total", 20)
	c.Rule("C01-R3", "presentation rounding is the last step of each pass", 2)
	accumulatorRule(c, "C01-R1", []string{"bill", "tax", "pay", "org"})
	rowSeedRule(c, "C01-R1")
	c01RoundCoverage(c)
	c01RoundingLast(c)
	c01RescaleNotScaled(c)
	// R5: the rounding primitive itself (decided under C05-R1, re-reported)
	c.Rule("C01-R5", "every amount operation rounds with math.Round — half away from zero for both signs (shared with C05-R1)", 7)
	sub := core.NewCtx("C05", c.Tier, c.Seed, c.P, c.VerifDir)
	sub.Quiet = true
	C05(sub)
	for _, o := range sub.Obligations() {
		if o.Rule == "C05-R1" {
			c.ObAt("C01-R5", o.Key, o.Pos, o.OK, o.Msg)
		}
	}
	// R6: one inexact floating-point step before the rounding (C05-R5, re-reported): an exact
	// half must not be moved to the wrong side by a second inexact operation
	c.Rule("C01-R6", "at most one inexact floating-point step feeds the rounding of a product or quotient (shared with C05-R5)", 3)
	for _, o := range sub.Obligations() {
		if o.Rule == "C05-R5" {
			c.ObAt("C01-R6", o.Key, o.Pos, o.OK, o.Msg)
		}
	}
	// R7: the totals are derived from one another in order (C03-R7)
	c.Rule("C01-R7", "no totals member changes after something was computed from it (shared with C03-R7)", 5)
	c03TotalsOrder(c, "C01-R7")
	c01ProductPrecision(c)
	// R10: the currency, precision and rule the rows are calculated with are the document's for
	// every row: nothing set while one row is handled is seen by the next
	c.Rule("C01-R10", "a loop over document rows carries nothing from one row to the next except a fold (shared with C17-R6)", 6)
	{
		sub := core.NewCtx("C17", c.Tier, c.Seed, c.P, c.VerifDir)
		sub.Quiet = true
		c17RowLoops(sub)
		for _, o := range sub.Obligations() {
			if o.Rule == "C17-R6" {
				c.ObAt("C01-R10", o.Key, o.Pos, o.OK, o.Msg)
			}
		}
	}
	// R9: a line's tax is computed on the row its combo joins; a combo that joins a row of
	// another percentage or surcharge has its tax computed at that row's rate (or not at all)
	c.Rule("C01-R9", "a line's combo joins only the rate row of its own country, percentage, surcharge and extensions (shared with C02-R1/R6)", 3)
	{
		sub := core.NewCtx("C02", c.Tier, c.Seed, c.P, c.VerifDir)
		sub.Quiet = true
		c02Matching(sub)
		c02MapEquality(sub)
		for _, o := range sub.Obligations() {
			if o.Rule == "C02-R1" || o.Rule == "C02-R6" {
				c.ObAt("C01-R9", o.Key, o.Pos, o.OK, o.Msg)
			}
		}
	}
}

// c01RescaleNotScaled — C01-R4: the result of a precision-lowering
// Amount.Rescale is not afterwards multiplied or divided (Multiply, Divide,
// Percentage.Of/From, Split) in the same function: rounding to a target
// precision is the last arithmetic step on a value, not a step before it is
// scaled by a rate, quantity or percentage.
func c01RescaleNotScaled(c *core.Ctx) {
	p := c.P
	c.Rule("C01-R4", "a value lowered in precision with Rescale is not multiplied or divided afterwards", 15)
	scaling := func(fn *types.Func) bool {
		if fn == nil || fn.Pkg() == nil || fn.Pkg().Path() != core.ModPath+"/num" {
			return false
		}
		switch fn.Name() {
		case "Multiply", "Divide", "Of", "From", "Split", "Remove", "Upscale":
			return true
		}
		return false
	}
	for _, rel := range []string{"bill", "tax", "currency", "pay", "org"} {
		pk := p.Pkg(rel)
		if pk == nil {
			continue
		}
		for _, fd := range p.Funcs(pk) {
			info := fd.Pkg.TypesInfo
			var stack []ast.Node
			idx := 0
			ast.Inspect(fd.Decl.Body, func(n ast.Node) bool {
				if n == nil {
					stack = stack[:len(stack)-1]
					return true
				}
				stack = append(stack, n)
				call, ok := n.(*ast.CallExpr)
				if !ok || !isAmountMethod(core.Callee(info, call), "Rescale") {
					return true
				}
				idx++
				key := fmt.Sprintf("%s#rescale%d", fd.Name(), idx)
				bad := ""
				// (a) used directly as receiver or argument of a scaling call
				if len(stack) >= 2 {
					par := stack[len(stack)-2]
					if se, ok := par.(*ast.SelectorExpr); ok && len(stack) >= 3 {
						if pc, ok := stack[len(stack)-3].(*ast.CallExpr); ok && pc.Fun == ast.Expr(se) && scaling(core.Callee(info, pc)) {
							bad = "its result is the receiver of " + core.Callee(info, pc).Name()
						}
					}
					if pc, ok := par.(*ast.CallExpr); ok && pc != call && scaling(core.Callee(info, pc)) {
						bad = "its result is an argument of " + core.Callee(info, pc).Name()
					}
					// (b) stored in a local that is scaled later
					if as, ok := par.(*ast.AssignStmt); ok && len(as.Lhs) == 1 {
						if v := core.VarOf(info, as.Lhs[0]); v != nil && !v.IsField() {
							if id, isID := ast.Unparen(as.Lhs[0]).(*ast.Ident); isID && id != nil {
								ast.Inspect(fd.Decl.Body, func(m ast.Node) bool {
									pc, ok := m.(*ast.CallExpr)
									if !ok || pc.Pos() <= as.End() || !scaling(core.Callee(info, pc)) {
										return true
									}
									if core.VarOf(info, core.RecvExpr(pc)) == v {
										bad = fmt.Sprintf("the local `%s` it is stored in is the receiver of %s at %s", v.Name(), core.Callee(info, pc).Name(), p.Rel(pc.Pos()))
									}
									for _, a := range pc.Args {
										if core.VarOf(info, a) == v {
											bad = fmt.Sprintf("the local `%s` it is stored in is an argument of %s at %s", v.Name(), core.Callee(info, pc).Name(), p.Rel(pc.Pos()))
										}
									}
									return true
								})
							}
						}
					}
				}
				c.Ob("C01-R4", key, call.Pos(), bad == "",
					"the value is rounded to a lower precision with Rescale and then scaled: "+bad+" — a rounding point in the middle of the calculation (the decimals beyond the target precision are lost before the rate, quantity or percentage is applied)")
				return true
			})
		}
	}
}

func c01RoundCoverage(c *core.Ctx) { roundCoverage(c, "C01-R2") }

func roundCoverage(c *core.Ctx, rule string) {
	p := c.P
	totals := p.Named("bill", "Totals")
	if totals == nil {
		c.Ob(rule, "UNRESOLVED:bill.Totals", token.NoPos, false, "type not found")
		return
	}
	st := totals.Underlying().(*types.Struct)
	// fields assigned in the calculation pass (function calculate of package bill)
	calc := p.Func("bill", "", "calculate")
	round := p.Func("bill", "Totals", "round")
	reset := p.Func("bill", "Totals", "reset")
	if calc == nil || round == nil || reset == nil {
		c.Ob(rule, "UNRESOLVED:bill.calculate/round/reset", token.NoPos, false, "functions not found")
		return
	}
	assigned := func(fd *core.FuncDecl) map[*types.Var]bool {
		out := map[*types.Var]bool{}
		info := fd.Pkg.TypesInfo
		ast.Inspect(fd.Decl.Body, func(n ast.Node) bool {
			switch s := n.(type) {
			case *ast.AssignStmt:
				for _, l := range s.Lhs {
					l = ast.Unparen(l)
					if st, ok := l.(*ast.StarExpr); ok {
						l = st.X
					}
					if f := core.FieldOf(info, l); f != nil {
						out[f] = true
					}
				}
			case *ast.IfStmt:
				if as, ok := s.Init.(*ast.AssignStmt); ok {
					for _, l := range as.Lhs {
						if f := core.FieldOf(info, l); f != nil {
							out[f] = true
						}
					}
				}
			}
			return true
		})
		return out
	}
	inCalc, inRound, inReset := assigned(calc), assigned(round), assigned(reset)
	for f := range wholeStructStores(reset.Pkg.TypesInfo, reset.Decl.Body, recvVar(reset)) {
		inReset[f] = true
	}
	for i := 0; i < st.NumFields(); i++ {
		f := st.Field(i)
		ts := core.TypeString(f.Type())
		if ts != "num.Amount" && ts != "*num.Amount" {
			continue
		}
		if !inCalc[f] {
			c.Ob(rule, "bill.Totals."+f.Name()+"#input", f.Pos(), true, "")
			c.Note("bill.Totals.%s is never assigned by the calculation pass: an input, outside the round/reset obligation", f.Name())
			continue
		}
		c.Ob(rule, "bill.Totals."+f.Name()+"#rounded", f.Pos(), inRound[f],
			fmt.Sprintf("the calculation assigns totals.%s but Totals.round never rescales it: it is presented at working precision instead of the currency's decimals", f.Name()))
		c.Ob(rule, "bill.Totals."+f.Name()+"#reset", f.Pos(), inReset[f],
			fmt.Sprintf("the calculation assigns totals.%s but Totals.reset never clears it: a value from a previous calculation survives when the new one does not set it", f.Name()))
	}
	// round is really rounding: every assignment is a rescale of the same field
	memo := map[*types.Func]int{}
	c.Ob(rule, round.Name()+"#only-rescales", round.Decl.Pos(), isRounder(p, round.Obj, memo), "Totals.round does something other than rescaling each field in place")
	// tax summary
	total := p.Named("tax", "Total")
	tround := p.Func("tax", "Total", "round")
	if total == nil || tround == nil {
		c.Ob(rule, "UNRESOLVED:tax.Total.round", token.NoPos, false, "not found")
		return
	}
	var leaves []amtLeaf
	amountLeaves(total, "", map[*types.Named]bool{}, &leaves)
	done := map[string]string{}
	// the rounding may be handed down to methods of the rows (ct.round(exp), rt.round(exp)):
	// they are walked with the row's path as prefix, as long as the call is made for every row
	var walk func(fd *core.FuncDecl, prefix string, depth int)
	walk = func(fd *core.FuncDecl, prefix string, depth int) {
		if depth > 3 {
			return
		}
		info := fd.Pkg.TypesInfo
		om := core.NewOriginMap(info, fd.Decl.Body, recvVar(fd))
		join := func(path string) string {
			if prefix == "" {
				return path
			}
			if path == "" {
				return prefix
			}
			return prefix + "." + path
		}
		ast.Inspect(fd.Decl.Body, func(n ast.Node) bool {
			if es, ok := n.(*ast.ExprStmt); ok {
				if call, ok := es.X.(*ast.CallExpr); ok {
					if cf := core.Callee(info, call); cf != nil && core.InModule(cf.Pkg()) && cf != fd.Obj {
						if re := core.RecvExpr(call); re != nil {
							if ro, ok := om.Of(re); ok {
								if cfd := p.DeclOf(cf); cfd != nil && recvVar(cfd) != nil {
									if why := everyIteration(p, info, fd.Decl.Body, es, nilTestOfOperands(info, es)); why == "" {
										walk(cfd, join(ro.Path), depth+1)
									}
								}
							}
						}
					}
				}
				return true
			}
			as, ok := n.(*ast.AssignStmt)
			if !ok || len(as.Lhs) != 1 || len(as.Rhs) != 1 {
				return true
			}
			lo, ok := om.Of(as.Lhs[0])
			if !ok {
				return true
			}
			r := ast.Unparen(as.Rhs[0])
			if call, ok := r.(*ast.CallExpr); ok {
				if cf := core.Callee(info, call); cf != nil && strings.HasPrefix(cf.Name(), "Rescale") {
					if ro, ok := om.Of(core.RecvExpr(call)); ok && ro.Path == lo.Path {
						if why := everyIteration(p, info, fd.Decl.Body, as, nilTestOfOperands(info, as)); why == "" {
							done[join(lo.Path)] = "rescaled"
						}
					}
				}
				return true
			}
			if ro, ok := om.Of(r); ok {
				// precise copy: unexported twin takes the value before rounding
				lf, rf := lo.Path[strings.LastIndex(lo.Path, ".")+1:], ro.Path[strings.LastIndex(ro.Path, ".")+1:]
				if lf != rf && strings.EqualFold(lf, rf) && done[join(lo.Path)] == "" {
					done[join(lo.Path)] = "precise copy of " + join(ro.Path)
				}
			}
			return true
		})
	}
	walk(tround, "", 0)
	for _, l := range leaves {
		c.Ob(rule, "tax.Total."+l.Path+"#rounded", l.Field.Pos(), done[l.Path] != "",
			fmt.Sprintf("tax.Total.round does not rescale %s (for every row): the tax summary presents it at working precision", l.Path))
	}
}

// c01RoundingLast: in every function of bill/tax that calls a rounder, nothing
// but rounders, setters and return follows the first rounder call.
func c01RoundingLast(c *core.Ctx) {
	p := c.P
	memo := map[*types.Func]int{}
	n := 0
	for _, rel := range []string{"bill", "tax"} {
		for _, fd := range p.Funcs(p.Pkg(rel)) {
			if isRounder(p, fd.Obj, memo) {
				continue
			}
			info := fd.Pkg.TypesInfo
			// top-level statements only: the pass roots call their rounders at top level
			first := -1
			for i, s := range fd.Decl.Body.List {
				if es, ok := s.(*ast.ExprStmt); ok {
					if call, ok := es.X.(*ast.CallExpr); ok {
						if cf := core.Callee(info, call); cf != nil && core.InModule(cf.Pkg()) && isRounder(p, cf, memo) {
							first = i
							break
						}
					}
				}
			}
			if first < 0 {
				continue
			}
			n++
			bad := ""
			for _, s := range fd.Decl.Body.List[first+1:] {
				switch st := s.(type) {
				case *ast.ReturnStmt:
					continue
				case *ast.ExprStmt:
					if call, ok := st.X.(*ast.CallExpr); ok {
						cf := core.Callee(info, call)
						if cf != nil && core.InModule(cf.Pkg()) && isRounder(p, cf, memo) {
							continue
						}
						if cf != nil && strings.HasPrefix(strings.ToLower(cf.Name()), "set") {
							continue
						}
					}
				}
				bad = fmt.Sprintf("%s at %s", strings.SplitN(types.ExprString(stmtExpr(s)), "\n", 2)[0], p.Rel(s.Pos()))
				break
			}
			c.Ob("C01-R3", fd.Name()+"#rounding-last", fd.Decl.Body.List[first].Pos(), bad == "",
				"the presentation rounding is followed by further calculation ("+bad+"): later figures are derived from rounded totals instead of the working-precision ones")
		}
	}
	if n < 2 {
		c.Ob("C01-R3", "UNRESOLVED:passes", token.NoPos, false, fmt.Sprintf("only %d calculation passes with presentation rounding found", n))
	}
}

func stmtExpr(s ast.Stmt) ast.Expr {
	switch st := s.(type) {
	case *ast.ExprStmt:
		return st.X
	case *ast.AssignStmt:
		return st.Lhs[0]
	case *ast.IfStmt:
		return st.Cond
	}
	return &ast.Ident{Name: fmt.Sprintf("%T", s)}
}

// C17 — totals are symmetric under negation and independent of line order.
func C17(c *core.Ctx) {
	p := c.P
	c.Explain("Decided, as necessary conditions (the symmetry relations themselves are relations between two calculations and are not decided): (R1) the rounding primitive of every amount operation is math.Round, an odd function, so rounding commutes with negation (floor(x+0.5)-style rounding does not) — shared with C05-R1; (R2) every zero-seeded accumulator raises its precision to each addend, so a sum does not depend on which row comes first (an accumulator that takes the first row's precision does) — shared with C01-R1, plus: the precision handed to a find-or-create of a sum row is not derived from the row being added; (R3) removing included taxes records the difference between the old and the new total with tax in the rounding field and recalculates. Not decided: Invoice.Invert's choice of which inputs to negate.")
	c.Rule("C17-R1", "sign-symmetric rounding primitive (math.Round only)", 7)
	c.Rule("C17-R2", "order-independent accumulation", 9)
	c.Rule("C17-R3", "included-tax removal records the residue and recalculates", 2)
	// R1: re-run the C05 inventory under this property's id
	sub := core.NewCtx("C05", c.Tier, c.Seed, p, c.VerifDir)
	sub.Quiet = true
	C05(sub)
	for _, o := range sub.Obligations() {
		if o.Rule == "C05-R1" {
			c.ObAt("C17-R1", o.Key, o.Pos, o.OK, o.Msg)
		}
	}
	accumulatorRule(c, "C17-R2", []string{"bill", "tax", "pay", "org"})
	rowSeedRule(c, "C17-R2")
	// R3
	if fd := p.Func("bill", "", "removeIncludedTaxes"); fd != nil {
		info := fd.Pkg.TypesInfo
		// Rounding assigned from a Subtract between a value read before and the new TotalWithTax
		okRes, okCalc := false, false
		var assignPos token.Pos
		ast.Inspect(fd.Decl.Body, func(n ast.Node) bool {
			as, ok := n.(*ast.AssignStmt)
			if !ok {
				return true
			}
			for i, l := range as.Lhs {
				if f := core.FieldOf(info, l); f != nil && f.Name() == "Rounding" && i < len(as.Rhs) {
					assignPos = as.Pos()
					ld := core.NewLocalDefs(info, fd.Decl.Body)
					src := resolveAmount(info, ld, as.Rhs[i])
					if call, ok := src.(*ast.CallExpr); ok && isAmountMethod(core.Callee(info, call), "Subtract") {
						mentions := func(e ast.Expr) bool {
							found := false
							e2 := ld.Resolve(e, 2)
							ast.Inspect(e2, func(m ast.Node) bool {
								if se, ok := m.(*ast.SelectorExpr); ok && se.Sel.Name == "TotalWithTax" {
									found = true
								}
								return true
							})
							return found
						}
						if mentions(core.RecvExpr(call)) && mentions(call.Args[0]) {
							okRes = true
						}
					}
				}
			}
			return true
		})
		for _, call := range core.CallsTo(info, fd.Decl.Body, func(f *types.Func) bool { return f.Name() == "calculate" || f.Name() == "Calculate" }) {
			if call.Pos() > assignPos && assignPos != token.NoPos {
				okCalc = true
			}
		}
		c.Ob("C17-R3", fd.Name()+"#residue-recorded", fd.Decl.Pos(), okRes, "the rounding field is not assigned the difference between the original and the new total with tax")
		c.Ob("C17-R3", fd.Name()+"#recalculated", fd.Decl.Pos(), okCalc, "the document is not recalculated after the residue has been recorded")
	} else {
		c.Ob("C17-R3", "UNRESOLVED:bill.removeIncludedTaxes", token.NoPos, false, "function not found")
	}
	c17Invert(c)
	c17RowLoops(c)
	c17SignTests(c)
	c17NoStoreThroughAmountPointers(c)
	// R5: row grouping is symmetric (the group a row joins does not depend on which row came first):
	// the matching predicate's truth table, decided under C02-R1, re-reported here
	c.Rule("C17-R5", "row grouping predicate equals the symmetric group identity (shared with C02-R1)", 2)
	sub2 := core.NewCtx("C02", c.Tier, c.Seed, p, c.VerifDir)
	sub2.Quiet = true
	c02Matching(sub2)
	c02MapEquality(sub2)
	for _, o := range sub2.Obligations() {
		if o.Rule == "C02-R1" || o.Rule == "C02-R6" {
			c.ObAt("C17-R5", o.Key, o.Pos, o.OK, o.Msg)
		}
	}
}

// c17Invert — C17-R4: every sign flip in Invoice.Invert is applied to every
// element of the array it walks (no condition other than the presence of the
// flipped value itself), every array walked has a flip, and the totals are
// discarded and recalculated afterwards. A flip that skips some rows (e.g.
// those with a percentage) leaves their fixed amounts with the old sign.
func c17Invert(c *core.Ctx) {
	p := c.P
	c.Rule("C17-R4", "Invoice.Invert flips its input amounts on every row, then recalculates", 7)
	fd := p.Func("bill", "Invoice", "Invert")
	if fd == nil {
		c.Ob("C17-R4", "UNRESOLVED:bill.Invoice.Invert", token.NoPos, false, "method not found")
		return
	}
	info := fd.Pkg.TypesInfo
	flipped := map[*types.Var]bool{} // range variables with a flip
	n := 0
	var lastFlip token.Pos
	ast.Inspect(fd.Decl.Body, func(m ast.Node) bool {
		as, ok := m.(*ast.AssignStmt)
		if !ok || len(as.Lhs) != 1 || len(as.Rhs) != 1 {
			return true
		}
		call, ok := ast.Unparen(as.Rhs[0]).(*ast.CallExpr)
		if !ok || !isAmountMethod(core.Callee(info, call), "Invert", "Negate") || !sameLoc(info, as.Lhs[0], core.RecvExpr(call)) {
			return true
		}
		root := core.RootVar(info, as.Lhs[0])
		if root == nil || root == recvVar(fd) {
			return true
		}
		n++
		flipped[root] = true
		if as.Pos() > lastFlip {
			lastFlip = as.Pos()
		}
		why := everyIteration(p, info, fd.Decl.Body, as, nilTestOfOperands(info, as))
		c.Ob("C17-R4", fmt.Sprintf("%s#flip:%s", fd.Name(), types.ExprString(as.Lhs[0])), as.Pos(), why == "",
			"the sign flip is not applied to every row: "+why+" — rows that are skipped keep their sign, so the inverted document is not the mirror image (or Invert fails its own payable check)")
		return true
	})
	ast.Inspect(fd.Decl.Body, func(m ast.Node) bool {
		rs, ok := m.(*ast.RangeStmt)
		if !ok || rs.Value == nil {
			return true
		}
		v := core.VarOf(info, rs.Value)
		if v == nil {
			return true
		}
		if _, st := core.StructOf(v.Type()); st == nil {
			return true
		}
		c.Ob("C17-R4", fmt.Sprintf("%s#walk:%s", fd.Name(), types.ExprString(rs.X)), rs.Pos(), flipped[v],
			"Invert walks "+types.ExprString(rs.X)+" without flipping an amount of its rows")
		return true
	})
	// inputs from which a flipped Amount is recomputed must be flipped as well
	c17InvertInputs(c, fd)
	// totals discarded and recalculated after the flips
	reset, recalculated := false, false
	ast.Inspect(fd.Decl.Body, func(m ast.Node) bool {
		switch x := m.(type) {
		case *ast.AssignStmt:
			if len(x.Lhs) == 1 && core.IsFieldOfVar(info, x.Lhs[0], recvVar(fd), "Totals") && core.IsNil(info, x.Rhs[0]) && x.Pos() > lastFlip {
				reset = true
			}
		case *ast.CallExpr:
			if fn := core.Callee(info, x); fn != nil && fn.Name() == "Calculate" && core.VarOf(info, core.RecvExpr(x)) == recvVar(fd) && x.Pos() > lastFlip {
				recalculated = true
			}
		}
		return true
	})
	c.Ob("C17-R4", fd.Name()+"#recalculated", fd.Decl.Pos(), n > 0 && reset && recalculated,
		"after the flips the totals are not discarded and the invoice recalculated")
	// totals members that the calculation takes as given (not cleared by Totals.reset, read by
	// calculate) are inputs too: discarding the totals must carry them over, inverted
	totals := p.Named("bill", "Totals")
	rfd := p.Func("bill", "Totals", "reset")
	cfd := p.Func("bill", "", "calculate")
	if totals == nil || rfd == nil || cfd == nil {
		c.Ob("C17-R4", "UNRESOLVED:bill.Totals.reset", token.NoPos, false, "totals type, reset or calculate not found")
		return
	}
	assigned := func(f *core.FuncDecl, name string) bool {
		found := false
		ast.Inspect(f.Decl.Body, func(m ast.Node) bool {
			if as, ok := m.(*ast.AssignStmt); ok {
				for _, l := range as.Lhs {
					l = ast.Unparen(l)
					if st, isStar := l.(*ast.StarExpr); isStar {
						l = ast.Unparen(st.X)
					}
					if fl := core.FieldOf(f.Pkg.TypesInfo, l); fl != nil && fl.Name() == name && core.RecvNamed(f.Obj) == totals || (fl != nil && fl.Name() == name && f == cfd) {
						found = true
					}
				}
			}
			return true
		})
		if core.RecvNamed(f.Obj) == totals {
			for fl := range wholeStructStores(f.Pkg.TypesInfo, f.Decl.Body, recvVar(f)) {
				if fl.Name() == name {
					found = true
				}
			}
		}
		return found
	}
	read := func(f *core.FuncDecl, fld *types.Var) bool {
		found := false
		ast.Inspect(f.Decl.Body, func(m ast.Node) bool {
			if se, ok := m.(*ast.SelectorExpr); ok && core.FieldOf(f.Pkg.TypesInfo, se) == fld {
				found = true
			}
			return true
		})
		return found
	}
	st := totals.Underlying().(*types.Struct)
	for i := 0; i < st.NumFields(); i++ {
		f := st.Field(i)
		if ts := core.TypeString(f.Type()); ts != "num.Amount" && ts != "*num.Amount" {
			continue
		}
		if assigned(rfd, f.Name()) || assigned(cfd, f.Name()) || !read(cfd, f) {
			continue // calculated, or not used by the calculation
		}
		// an input: Invert must store it inverted (in a replacement Totals or into the field)
		kept := false
		ast.Inspect(fd.Decl.Body, func(m ast.Node) bool {
			var negated func(e ast.Expr) bool
			negDepth := 0
			ldN := core.NewLocalDefs(info, fd.Decl.Body)
			negated = func(e ast.Expr) bool {
				r := false
				if negDepth > 5 {
					return false
				}
				ast.Inspect(e, func(k ast.Node) bool {
					// a local stands for what it was computed from
					if id, ok := k.(*ast.Ident); ok && !r {
						if v, ok := info.Uses[id].(*types.Var); ok && !v.IsField() {
							for _, d := range ldN.All(v) {
								if d.RHS != nil && d.RHS != e {
									negDepth++
									if negated(d.RHS) {
										r = true
									}
									negDepth--
								}
							}
						}
					}
					if call, ok := k.(*ast.CallExpr); ok {
						fn := core.Callee(info, call)
						if isAmountMethod(fn, "Invert", "Negate") {
							r = true
						} else if fn != nil && fn.Pkg() == fd.Obj.Pkg() {
							if hfd := p.DeclOf(fn); hfd != nil && len(core.CallsTo(hfd.Pkg.TypesInfo, hfd.Decl.Body, func(g *types.Func) bool { return isAmountMethod(g, "Invert", "Negate") })) > 0 {
								r = true
							}
						}
					}
					return true
				})
				return r
			}
			switch x := m.(type) {
			case *ast.KeyValueExpr:
				if id, ok := x.Key.(*ast.Ident); ok && id.Name == f.Name() && info.Uses[id] == types.Object(f) {
					if negated(x.Value) {
						kept = true
					} else if v := core.VarOf(info, x.Value); v != nil {
						ld := core.NewLocalDefs(info, fd.Decl.Body)
						for _, d := range ld.All(v) {
							if d.RHS != nil && negated(d.RHS) {
								kept = true
							}
						}
					}
				}
			case *ast.AssignStmt:
				for i, l := range x.Lhs {
					if core.FieldOf(info, l) == f && i < len(x.Rhs) && x.Pos() > lastFlip {
						if negated(x.Rhs[i]) {
							kept = true
						} else if v := core.VarOf(info, x.Rhs[i]); v != nil {
							ld := core.NewLocalDefs(info, fd.Decl.Body)
							for _, d := range ld.All(v) {
								if d.RHS != nil && negated(d.RHS) {
									kept = true
								}
							}
						}
					}
				}
			}
			return true
		})
		c.Ob("C17-R4", fd.Name()+"#totals-input:"+f.Name(), fd.Decl.Pos(), kept,
			fmt.Sprintf("bill.Totals.%s is taken as given by the calculation (Totals.reset keeps it), but Invert discards the totals without carrying it over inverted: the recalculated payable differs and Invert fails its own check on a valid invoice", f.Name()))
	}
}

// rowSeedRule: the zero handed to the find-or-create of a tax rate row must be
// a currency zero, not something derived from the line being added.
func rowSeedRule(c *core.Ctx, rule string) {
	p := c.P
	z := &zeroSeed{p: p, memo: map[types.Object]int{}}
	n := 0
	for _, fd := range p.Funcs(p.Pkg("tax")) {
		info := fd.Pkg.TypesInfo
		for _, call := range core.CallsTo(info, fd.Decl.Body, func(f *types.Func) bool { return f.Name() == "rateTotalFor" }) {
			n++
			ok := len(call.Args) == 2 && z.expr(fd, call.Args[1], 0)
			c.Ob(rule, fd.Name()+"#row-seed", call.Pos(), ok,
				"the precision with which a rate row is created is derived from the line being added instead of the currency zero: the row keeps the first line's precision and later, finer lines are rounded when added — totals depend on line order")
		}
	}
	if n == 0 {
		c.Ob(rule, "UNRESOLVED:rateTotalFor", token.NoPos, false, "no call of the rate row find-or-create found")
	}
}

// c17InvertInputs: Invert flips the Amount of discount and charge rows and then
// recalculates. Where the calculation recomputes such an Amount from amounts
// the row itself carries (an explicit base for a percentage; rate × own
// quantity), the recomputed value overrides the flipped one — so at least one
// of those row-own inputs must be flipped too, or Invert fails its own payable
// check on a valid invoice. Row-own inputs are read off the calculators: the
// amount-typed fields of the same row reaching `row.Amount = …` through local
// definitions.
func c17InvertInputs(c *core.Ctx, inv *core.FuncDecl) {
	p := c.P
	info := inv.Pkg.TypesInfo
	flipped := map[*types.Named]map[string]bool{}
	ast.Inspect(inv.Decl.Body, func(m ast.Node) bool {
		as, ok := m.(*ast.AssignStmt)
		if !ok || len(as.Lhs) != 1 || len(as.Rhs) != 1 {
			return true
		}
		// x.F = x.F.Invert()   or   b := x.F.Invert(); x.F = &b
		lhs := ast.Unparen(as.Lhs[0])
		if st, isStar := lhs.(*ast.StarExpr); isStar {
			lhs = ast.Unparen(st.X)
		}
		f := core.FieldOf(info, lhs)
		root := core.RootVar(info, lhs)
		if f == nil || root == nil {
			return true
		}
		n, _ := core.StructOf(root.Type())
		if n == nil {
			return true
		}
		neg := false
		ast.Inspect(as.Rhs[0], func(k ast.Node) bool {
			if call, ok := k.(*ast.CallExpr); ok {
				fn := core.Callee(info, call)
				if isAmountMethod(fn, "Invert", "Negate") {
					neg = true
				} else if fn != nil && fn.Pkg() == inv.Obj.Pkg() {
					// a helper of the package that negates what it is given
					if hfd := p.DeclOf(fn); hfd != nil {
						for _, hc := range core.CallsTo(hfd.Pkg.TypesInfo, hfd.Decl.Body, func(f *types.Func) bool { return isAmountMethod(f, "Invert", "Negate") }) {
							_ = hc
							neg = true
						}
					}
				}
			}
			return true
		})
		if !neg {
			if u, ok := ast.Unparen(as.Rhs[0]).(*ast.UnaryExpr); ok && u.Op == token.AND {
				if v := core.VarOf(info, u.X); v != nil {
					ld := core.NewLocalDefs(info, inv.Decl.Body)
					for _, d := range ld.All(v) {
						if d.RHS != nil {
							ast.Inspect(d.RHS, func(k ast.Node) bool {
								if call, ok := k.(*ast.CallExpr); ok && isAmountMethod(core.Callee(info, call), "Invert", "Negate") {
									neg = true
								}
								return true
							})
						}
					}
				}
			}
		}
		if neg {
			if flipped[n] == nil {
				flipped[n] = map[string]bool{}
			}
			flipped[n][f.Name()] = true
		}
		return true
	})
	isAmt := func(t types.Type) bool {
		ts := core.TypeString(t)
		return ts == "num.Amount" || ts == "*num.Amount"
	}
	nSites := 0
	for _, fd := range p.Funcs(p.Pkg("bill")) {
		if fd.Obj == inv.Obj {
			continue
		}
		finfo := fd.Pkg.TypesInfo
		ld := core.NewLocalDefs(finfo, fd.Decl.Body)
		ast.Inspect(fd.Decl.Body, func(m ast.Node) bool {
			as, ok := m.(*ast.AssignStmt)
			if !ok || len(as.Lhs) != 1 || len(as.Rhs) != 1 {
				return true
			}
			lf := core.FieldOf(finfo, as.Lhs[0])
			row := core.RootVar(finfo, as.Lhs[0])
			if lf == nil || lf.Name() != "Amount" || row == nil {
				return true
			}
			rowT, _ := core.StructOf(row.Type())
			if rowT == nil || flipped[rowT] == nil || !flipped[rowT]["Amount"] {
				return true
			}
			// row-own amount inputs reaching the right-hand side
			src := map[string]bool{}
			seen := map[*types.Var]bool{}
			var collect func(e ast.Expr, depth int)
			collect = func(e ast.Expr, depth int) {
				if depth > 5 {
					return
				}
				ast.Inspect(e, func(k ast.Node) bool {
					switch x := k.(type) {
					case *ast.SelectorExpr:
						if f := core.FieldOf(finfo, x); f != nil && core.VarOf(finfo, x.X) == row && isAmt(f.Type()) && f.Name() != "Amount" {
							src[f.Name()] = true
						}
					case *ast.Ident:
						if v, ok := finfo.Uses[x].(*types.Var); ok && !v.IsField() && v != row && !seen[v] && isAmt(v.Type()) {
							seen[v] = true
							for _, d := range ld.All(v) {
								if d.RHS != nil && d.Pos < as.Pos() {
									collect(d.RHS, depth+1)
								}
							}
						}
					}
					return true
				})
			}
			collect(as.Rhs[0], 0)
			if len(src) == 0 {
				return true
			}
			nSites++
			some := false
			var names []string
			for k := range src {
				names = append(names, k)
				if flipped[rowT][k] {
					some = true
				}
			}
			sort.Strings(names)
			c.Ob("C17-R4", fmt.Sprintf("%s#inputs-of:%s.Amount@%s", inv.Name(), core.TypeName(rowT), fd.Obj.Name()), as.Pos(), some,
				fmt.Sprintf("Invert flips %s.Amount, but %s recomputes it from the row's own %v, none of which Invert flips: the recalculation restores the old sign and Invert fails its payable check on a valid invoice", core.TypeName(rowT), fd.Name(), names))
			return true
		})
	}
	c.Extra("amount_recomputations_from_row_inputs", nSites)
}

// c01ProductPrecision — C01-R8: a product or quotient is not raised in
// precision after it has been computed. Amount.Multiply / Divide round their
// result to the receiver's precision; `x.Multiply(r).Rescale(e)` with x of
// fewer than e decimals has already lost the decimals it then pretends to
// have (1500 JPY × 0.0062 = 9 → 9.00 EUR instead of 9.30). In package currency
// (conversions), a Rescale / RescaleUp of the result of Multiply / Divide /
// Percentage.Of in the same function is accepted only where the receiver of
// that operation was itself raised to the same target first
// (x.RescaleUp(e).Multiply(r).Rescale(e)) or the target is the receiver's own
// precision.
func c01ProductPrecision(c *core.Ctx) {
	p := c.P
	c.Rule("C01-R8", "a product is computed at no less than the precision it is rescaled to afterwards", 1)
	rounding := func(fn *types.Func) bool {
		return isAmountMethod(fn, "Multiply") || isAmountMethod(fn, "Divide") || (fn != nil && fn.Pkg() != nil && fn.Pkg().Path() == core.ModPath+"/num" && (fn.Name() == "Of" || fn.Name() == "From"))
	}
	n := 0
	// package currency: where an amount of one currency becomes an amount of another, whose
	// number of decimals has nothing to do with the operand's (inside one document the working
	// precision is kept above the currency's by the accumulation rules)
	for _, rel := range []string{"currency"} {
		pk := p.Pkg(rel)
		if pk == nil {
			continue
		}
		for _, fd := range p.Funcs(pk) {
			if p.IsTestFile(fd.Decl.Pos()) || fd.Decl.Body == nil {
				continue
			}
			info := fd.Pkg.TypesInfo
			ld := core.NewLocalDefs(info, fd.Decl.Body)
			k := 0
			ast.Inspect(fd.Decl.Body, func(m ast.Node) bool {
				call, ok := m.(*ast.CallExpr)
				if !ok || len(call.Args) != 1 {
					return true
				}
				fn := core.Callee(info, call)
				// rescaled: (the amount, the target precision as text) of Amount.Rescale[Up](e) and of the
				// currency definition's wrappers def.Rescale[Up](amount) = amount.Rescale[Up](def.Subunits)
				rescaled := func(cl *ast.CallExpr) (ast.Expr, string, bool) {
					f := core.Callee(info, cl)
					if f == nil || len(cl.Args) != 1 || (f.Name() != "Rescale" && f.Name() != "RescaleUp") {
						return nil, "", false
					}
					if isAmountMethod(f, f.Name()) {
						return core.RecvExpr(cl), types.ExprString(ast.Unparen(cl.Args[0])), true
					}
					if r := core.RecvNamed(f); r != nil && core.TypeName(r) == "currency.Def" {
						return cl.Args[0], types.ExprString(ast.Unparen(core.RecvExpr(cl))) + ".Subunits", true
					}
					return nil, "", false
				}
				amt, target, isRescale := rescaled(call)
				if !isRescale {
					return true
				}
				for _, src := range valueSources(info, ld, amt, 0) {
					prod, ok := ast.Unparen(src).(*ast.CallExpr)
					if !ok || !rounding(core.Callee(info, prod)) {
						continue
					}
					n++
					k++
					// the operand whose precision the product takes: the receiver of Multiply / Divide,
					// the argument of Percentage.Of / From
					opnd := core.RecvExpr(prod)
					if cf := core.Callee(info, prod); cf.Name() == "Of" || cf.Name() == "From" {
						if len(prod.Args) == 1 {
							opnd = prod.Args[0]
						}
					}
					raised := false
					for _, os := range valueSources(info, ld, opnd, 0) {
						oc, ok := ast.Unparen(os).(*ast.CallExpr)
						if !ok || len(oc.Args) != 1 {
							continue
						}
						if _, t2, ok := rescaled(oc); ok && t2 == target {
							raised = true
						}
					}
					// rescaling to the operand's own precision changes nothing
					if se := ast.Unparen(call.Args[0]); !raised {
						if c2, ok := se.(*ast.CallExpr); ok {
							if f2 := core.Callee(info, c2); f2 != nil && f2.Name() == "Exp" && types.ExprString(ast.Unparen(core.RecvExpr(c2))) == types.ExprString(ast.Unparen(opnd)) {
								raised = true
							}
						}
					}
					c.Ob("C01-R8", fmt.Sprintf("%s#%s%d", fd.Name(), fn.Name(), k), call.Pos(), raised,
						fmt.Sprintf("%s rescales %s to %s after the operation: %s rounds its result to the precision of %s, which has not been raised to %s first — with an operand of fewer decimals the product has already lost the decimals the result then shows (1500 JPY × 0.0062 gives 9.00 EUR, not 9.30)", fd.Name(), types.ExprString(prod), target, core.Callee(info, prod).Name(), types.ExprString(opnd), target))
				}
				return true
			})
		}
	}
	c.Extra("C01-R8_rescaled_products", n)
}
