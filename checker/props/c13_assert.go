package props

import (
	"fmt"
	"go/ast"
	"go/token"
	"go/types"
	"strings"

	"goblcheck/core"
)

// c13DirectValidatorCalls — C13-R4: a validation function written for
// validation.By takes interface{} and returns nil for any value that is not of
// the type it asserts ("not mine to judge"). When such a function is called
// directly, the argument's static type must be one the function asserts —
// handing it a plain string where it asserts cbc.Code compiles, and the check
// silently never runs (the French SIREN check digit, for one).
func c13DirectValidatorCalls(c *core.Ctx) {
	p := c.P
	c.Rule("C13-R4", "a direct call of an asserting validation function passes a value of a type the function asserts", 3)
	// the asserting functions: a parameter of empty interface type that the body only type-asserts
	type asserting struct {
		fd    *core.FuncDecl
		param int
		types []types.Type
	}
	byFunc := map[*types.Func]*asserting{}
	for _, fd := range p.AllFuncs() {
		if p.IsTestFile(fd.Decl.Pos()) || fd.Decl.Body == nil {
			continue
		}
		rel := core.RelPkg(fd.Obj.Pkg().Path())
		if !strings.HasPrefix(rel, "regimes/") && !strings.HasPrefix(rel, "addons/") {
			continue
		}
		sig := fd.Obj.Type().(*types.Signature)
		info := fd.Pkg.TypesInfo
		for i := 0; i < sig.Params().Len(); i++ {
			pv := sig.Params().At(i)
			it, ok := pv.Type().Underlying().(*types.Interface)
			if !ok || it.NumMethods() != 0 {
				continue
			}
			var ts []types.Type
			other := false
			ast.Inspect(fd.Decl.Body, func(n ast.Node) bool {
				switch x := n.(type) {
				case *ast.TypeAssertExpr:
					if core.VarOf(info, x.X) == pv {
						if x.Type != nil {
							ts = append(ts, info.TypeOf(x.Type))
						}
						return false
					}
				case *ast.TypeSwitchStmt:
					// switch v := p.(type): the clause types
					var subj ast.Expr
					switch a := x.Assign.(type) {
					case *ast.AssignStmt:
						if ta, ok := ast.Unparen(a.Rhs[0]).(*ast.TypeAssertExpr); ok {
							subj = ta.X
						}
					case *ast.ExprStmt:
						if ta, ok := ast.Unparen(a.X).(*ast.TypeAssertExpr); ok {
							subj = ta.X
						}
					}
					if subj != nil && core.VarOf(info, subj) == pv {
						for _, cc := range x.Body.List {
							for _, te := range cc.(*ast.CaseClause).List {
								if t := info.TypeOf(te); t != nil {
									ts = append(ts, t)
								}
							}
						}
						// the clause bodies do not mention pv itself
						for _, cc := range x.Body.List {
							for _, s := range cc.(*ast.CaseClause).Body {
								ast.Inspect(s, func(m ast.Node) bool {
									if id, ok := m.(*ast.Ident); ok && info.Uses[id] == types.Object(pv) {
										other = true
									}
									return true
								})
							}
						}
						return false
					}
				case *ast.Ident:
					if info.Uses[x] == types.Object(pv) {
						other = true
					}
				}
				return true
			})
			if len(ts) > 0 && !other {
				byFunc[fd.Obj] = &asserting{fd, i, ts}
			}
		}
	}
	c.Extra("C13-R4_asserting_validation_functions", len(byFunc))
	n := 0
	for _, fd := range p.AllFuncs() {
		if p.IsTestFile(fd.Decl.Pos()) || fd.Decl.Body == nil {
			continue
		}
		info := fd.Pkg.TypesInfo
		k := 0
		ast.Inspect(fd.Decl.Body, func(m ast.Node) bool {
			call, ok := m.(*ast.CallExpr)
			if !ok {
				return true
			}
			fn := core.Callee(info, call)
			if fn == nil {
				return true
			}
			a := byFunc[fn.Origin()]
			if a == nil || a.param >= len(call.Args) {
				return true
			}
			arg := call.Args[a.param]
			at := info.TypeOf(arg)
			if at == nil {
				return true
			}
			if _, isIface := at.Underlying().(*types.Interface); isIface {
				return true // handed on as received: judged where the value was given its type
			}
			n++
			k++
			okType := false
			var names []string
			for _, t := range a.types {
				names = append(names, core.TypeString(t))
				if types.Identical(t, at) {
					okType = true
				}
			}
			c.Ob("C13-R4", fmt.Sprintf("%s#call:%s%d", fd.Name(), fn.Name(), k), call.Pos(), okType,
				fmt.Sprintf("%s is called with a %s, but it only judges values of type %s and returns nil for anything else: the check it implements never runs on this path, so every code passes it", core.FuncName(fn), core.TypeString(at), strings.Join(names, " / ")))
			return true
		})
	}
	if n == 0 {
		c.Ob("C13-R4", "UNRESOLVED:direct-calls", token.NoPos, false, "no direct call of an asserting validation function found")
	}
}
