package props

import (
	"fmt"
	"go/ast"
	"go/token"
	"go/types"
	"sort"

	"goblcheck/core"
)

// c14Assertions — C14-R12: a type assertion without the comma-ok form panics
// when the dynamic type is another one. Each such assertion in library code
// must be on a value whose dynamic type is settled where it stands: inside a
// type-switch clause or after a comma-ok test of the same operand for that
// type, on the result of a module function all of whose returns have that
// type, on a value the function itself has just built, or to an interface that
// the operand's static type already implements. Anything else is reported with
// the assertion's position.
func c14Assertions(c *core.Ctx) {
	p := c.P
	c.Rule("C14-R12", "single-value type assertions are on values whose dynamic type is settled", 5)
	type site struct {
		fd  *core.FuncDecl
		ta  *ast.TypeAssertExpr
		key string
	}
	var sites []site
	for _, fd := range p.AllFuncs() {
		if p.IsTestFile(fd.Decl.Pos()) {
			continue
		}
		rel := core.RelPkg(fd.Obj.Pkg().Path())
		if rel == "examples" || rel == "cmd/gobl" || len(rel) > 9 && rel[:9] == "internal/" && false {
			continue
		}
		info := fd.Pkg.TypesInfo
		commaOK := map[*ast.TypeAssertExpr]bool{}
		ast.Inspect(fd.Decl.Body, func(n ast.Node) bool {
			switch x := n.(type) {
			case *ast.AssignStmt:
				if len(x.Lhs) == 2 && len(x.Rhs) == 1 {
					if ta, ok := ast.Unparen(x.Rhs[0]).(*ast.TypeAssertExpr); ok {
						commaOK[ta] = true
					}
				}
			case *ast.ValueSpec:
				if len(x.Names) == 2 && len(x.Values) == 1 {
					if ta, ok := ast.Unparen(x.Values[0]).(*ast.TypeAssertExpr); ok {
						commaOK[ta] = true
					}
				}
			}
			return true
		})
		idx := 0
		ast.Inspect(fd.Decl.Body, func(n ast.Node) bool {
			ta, ok := n.(*ast.TypeAssertExpr)
			if !ok || ta.Type == nil || commaOK[ta] {
				return true
			}
			idx++
			sites = append(sites, site{fd, ta, fmt.Sprintf("%s#assert%d:%s", fd.Name(), idx, types.ExprString(ta))})
			_ = info
			return true
		})
	}
	sort.Slice(sites, func(i, j int) bool { return sites[i].key < sites[j].key })
	for _, s := range sites {
		fd, ta := s.fd, s.ta
		info := fd.Pkg.TypesInfo
		target := info.TypeOf(ta.Type)
		why := ""
		// (a) the static type of the operand already implements the interface asserted
		if it, ok := target.Underlying().(*types.Interface); ok {
			if st := info.TypeOf(ta.X); st != nil && types.Implements(st, it) {
				why = "static type implements the interface"
			}
		}
		// (b) inside a type-switch clause / after a comma-ok or type-switch test of the same operand
		if why == "" {
			ff := core.NewFuncFlow(fd)
			_ = ff
			var encl []ast.Node
			ast.Inspect(fd.Decl.Body, func(n ast.Node) bool {
				if n != nil && n.Pos() <= ta.Pos() && ta.End() <= n.End() {
					encl = append(encl, n)
					return true
				}
				return false
			})
			for i, n := range encl {
				cc, ok := n.(*ast.CaseClause)
				if !ok || i < 2 {
					continue
				}
				ts, ok := encl[i-2].(*ast.TypeSwitchStmt)
				if !ok {
					continue
				}
				// the switch operand
				var sx ast.Expr
				switch a := ts.Assign.(type) {
				case *ast.ExprStmt:
					if t, ok := ast.Unparen(a.X).(*ast.TypeAssertExpr); ok {
						sx = t.X
					}
				case *ast.AssignStmt:
					if t, ok := ast.Unparen(a.Rhs[0]).(*ast.TypeAssertExpr); ok {
						sx = t.X
					}
				}
				if sx == nil || !sameExpr(sx, ta.X) {
					continue
				}
				for _, ct := range cc.List {
					if t := info.TypeOf(ct); t != nil && len(cc.List) == 1 && types.Identical(t, target) {
						why = "inside the type-switch clause for that type"
					}
				}
			}
		}
		// (c) the operand is the result of a module function (or a local holding it) all of whose returns have the asserted type
		if why == "" {
			ld := core.NewLocalDefs(info, fd.Decl.Body)
			srcs := valueSources(info, ld, ta.X, 0)
			okAll := len(srcs) > 0
			for _, src := range srcs {
				if !dynTypeIs(p, fd, src, target, 0) {
					okAll = false
				}
			}
			if okAll {
				why = "every source of the operand has that dynamic type"
			}
		}
		// (d)/(e) the operand is the parameter of a function literal
		if why == "" {
			why = c14LiteralParam(p, fd, ta, target)
		}
		c.Ob("C14-R12", s.key, ta.Pos(), why != "",
			fmt.Sprintf("%s panics when the value holds another type, and nothing at this point settles its dynamic type: a failed assertion is a crash, not an error", types.ExprString(ta)))
	}
	if len(sites) == 0 {
		c.Note("C14-R12: no single-value type assertion in library code")
	}
	_ = token.NoPos
}

// dynTypeIs: the expression certainly holds a value of dynamic type t: a
// composite literal / address of one / conversion to t, a variable whose static
// type is t, or a call of a module function every return of which does.
func dynTypeIs(p *core.Program, fd *core.FuncDecl, e ast.Expr, t types.Type, depth int) bool {
	info := fd.Pkg.TypesInfo
	e = ast.Unparen(e)
	if st := info.TypeOf(e); st != nil {
		if _, isIface := st.Underlying().(*types.Interface); !isIface {
			return types.Identical(st, t)
		}
	}
	if depth > 3 {
		return false
	}
	call, ok := e.(*ast.CallExpr)
	if !ok {
		return false
	}
	fn := core.Callee(info, call)
	if fn == nil || !core.InModule(fn.Pkg()) {
		return false
	}
	cfd := p.DeclOf(fn)
	if cfd == nil {
		return false
	}
	cinfo := cfd.Pkg.TypesInfo
	cld := core.NewLocalDefs(cinfo, cfd.Decl.Body)
	ok, n := true, 0
	ast.Inspect(cfd.Decl.Body, func(m ast.Node) bool {
		if _, isLit := m.(*ast.FuncLit); isLit {
			return false
		}
		r, isR := m.(*ast.ReturnStmt)
		if !isR || len(r.Results) == 0 {
			return true
		}
		n++
		srcs := valueSources(cinfo, cld, r.Results[0], 0)
		if len(srcs) == 0 {
			ok = false
		}
		for _, src := range srcs {
			if !dynTypeIs(p, cfd, src, t, depth+1) {
				ok = false
			}
		}
		return true
	})
	return ok && n > 0
}

// c14LiteralParam: the operand of the assertion is the parameter of a function
// literal that the enclosing function returns as
//   - a value of a named function type N of the module (an option): every call
//     through a value of type N in the module passes an argument whose static
//     type is the asserted type; or
//   - a validation rule function: every use of the enclosing function's result is
//     the operand of validation.By inside validation.Field(&x.F, …) with F of the
//     asserted type (the library hands the field's value to the rule).
func c14LiteralParam(p *core.Program, fd *core.FuncDecl, ta *ast.TypeAssertExpr, target types.Type) string {
	info := fd.Pkg.TypesInfo
	v := core.VarOf(info, ta.X)
	if v == nil {
		return ""
	}
	var lit *ast.FuncLit
	ast.Inspect(fd.Decl.Body, func(n ast.Node) bool {
		if l, ok := n.(*ast.FuncLit); ok && l.Pos() <= ta.Pos() && ta.End() <= l.End() {
			lit = l
		}
		return true
	})
	if lit == nil || lit.Type.Params == nil || len(lit.Type.Params.List) != 1 || len(lit.Type.Params.List[0].Names) != 1 {
		return ""
	}
	if info.Defs[lit.Type.Params.List[0].Names[0]] != types.Object(v) {
		return ""
	}
	// the literal is what the enclosing function returns
	returned := false
	ast.Inspect(fd.Decl.Body, func(n ast.Node) bool {
		if r, ok := n.(*ast.ReturnStmt); ok && len(r.Results) == 1 && ast.Unparen(r.Results[0]) == ast.Expr(lit) {
			returned = true
		}
		return true
	})
	sig := fd.Obj.Type().(*types.Signature)
	if !returned || sig.Results().Len() != 1 {
		return ""
	}
	rt, _ := sig.Results().At(0).Type().(*types.Named)
	if rt == nil || rt.Obj().Pkg() == nil {
		return ""
	}
	if core.InModule(rt.Obj().Pkg()) {
		// every call through a value of that function type
		n, bad := 0, false
		for _, ofd := range p.AllFuncs() {
			oinfo := ofd.Pkg.TypesInfo
			ast.Inspect(ofd.Decl.Body, func(m ast.Node) bool {
				call, ok := m.(*ast.CallExpr)
				if !ok || len(call.Args) != 1 {
					return true
				}
				ft := oinfo.TypeOf(call.Fun)
				if ft == nil || !types.Identical(ft, rt) {
					return true
				}
				if tv, ok := oinfo.Types[call.Fun]; ok && tv.IsType() {
					return true // a conversion to the function type
				}
				n++
				if at := oinfo.TypeOf(call.Args[0]); at == nil || !types.Identical(at, target) {
					bad = true
				}
				return true
			})
		}
		if n > 0 && !bad {
			return fmt.Sprintf("every call through a %s value hands over a %s", core.TypeString(rt), core.TypeString(target))
		}
		return ""
	}
	if rt.Obj().Pkg().Path() == "github.com/invopop/validation" && rt.Obj().Name() == "RuleFunc" {
		n, bad := 0, false
		for _, ofd := range p.AllFuncs() {
			oinfo := ofd.Pkg.TypesInfo
			for _, sv := range core.StructValidations(oinfo, ofd.Decl.Body) {
				for _, fr := range sv.Fields {
					for _, r := range fr.Rules {
						ast.Inspect(r, func(m ast.Node) bool {
							call, ok := m.(*ast.CallExpr)
							if !ok || core.Callee(oinfo, call) != fd.Obj {
								return true
							}
							n++
							if !types.Identical(fr.Field.Type(), target) {
								bad = true
							}
							return true
						})
					}
				}
			}
		}
		// and nowhere else
		uses := 0
		for _, ofd := range p.AllFuncs() {
			oinfo := ofd.Pkg.TypesInfo
			ast.Inspect(ofd.Decl.Body, func(m ast.Node) bool {
				if id, ok := m.(*ast.Ident); ok && oinfo.Uses[id] == types.Object(fd.Obj) {
					uses++
				}
				return true
			})
		}
		if n > 0 && !bad && uses == n {
			return "the rule is only attached to fields of that type"
		}
	}
	return ""
}
