// Package props holds one file per property: the rules instantiated for it.
package props

import "goblcheck/core"

// Registry maps property ids to their checks.
var Registry = map[string]func(*core.Ctx){}

func register(id string, fn func(*core.Ctx)) { Registry[id] = fn }
