// Package props holds one file per property: the rules instantiated for it.
package props

import (
	"os"

	"goblcheck/core"
)

// Registry maps property ids to their checks.
var Registry = map[string]func(*core.Ctx){}

func register(id string, fn func(*core.Ctx)) { Registry[id] = fn }

// subject is the program being analysed by the current run (for data files
// read outside the Go loader, so that in-memory variants are honoured).
var subject *core.Program

// SetSubject records the program whose data files readSubjectFile serves.
func SetSubject(p *core.Program) {
	subject = p
	// units of analysis that are never inlined into their callers, whatever rule runs
	// first: the exported operations of package num (each is judged on its own body)
	if pk := p.Pkg("num"); pk != nil {
		for _, fd := range p.RawFuncs(pk) {
			if fd.Obj.Exported() {
				p.Anchor(fd.Obj)
			}
		}
	}
}

func readSubjectFile(abs string) ([]byte, error) {
	if subject != nil {
		return subject.ReadFile(abs)
	}
	return os.ReadFile(abs)
}
