package props

import (
	"encoding/json"
	"fmt"
	"go/ast"
	"go/token"
	"go/types"
	"path/filepath"
	"sort"
	"strings"

	"goblcheck/core"
	"golang.org/x/tools/go/packages"
)

func init() { register("C12", C12) }

// dateEnv is one point of the finite abstract domain used for date conditions.
type dateEnv struct {
	aNil, aValid bool // entity A (a *cal.Date): nil? valid?
	bNil, bValid bool // entity B
	ord          int  // sign of A - B (only meaningful when both usable)
}

type dateEval struct {
	info  *types.Info
	class func(ast.Expr) string // "A", "B" or ""
	env   dateEnv
	why   string
	deref string // set when a nil entity is dereferenced
}

func (d *dateEval) eval(e ast.Expr) (bool, bool) {
	e = ast.Unparen(e)
	switch x := e.(type) {
	case *ast.UnaryExpr:
		if x.Op == token.NOT {
			v, ok := d.eval(x.X)
			return !v, ok
		}
	case *ast.BinaryExpr:
		switch x.Op {
		case token.LAND:
			l, ok := d.eval(x.X)
			if !ok {
				return false, false
			}
			if !l {
				return false, true
			}
			return d.eval(x.Y)
		case token.LOR:
			l, ok := d.eval(x.X)
			if !ok {
				return false, false
			}
			if l {
				return true, true
			}
			return d.eval(x.Y)
		case token.EQL, token.NEQ:
			a, b := ast.Unparen(x.X), ast.Unparen(x.Y)
			if core.IsNil(d.info, a) {
				a, b = b, a
			}
			if core.IsNil(d.info, b) {
				switch d.class(a) {
				case "A":
					return d.env.aNil == (x.Op == token.EQL), true
				case "B", "BH":
					return d.env.bNil == (x.Op == token.EQL), true
				}
			}
		}
		// DaysSince comparisons against 0
		if cl, ok := ast.Unparen(x.X).(*ast.CallExpr); ok {
			if se, ok := cl.Fun.(*ast.SelectorExpr); ok && se.Sel.Name == "DaysSince" && len(cl.Args) == 1 {
				if tv, ok := d.info.Types[x.Y]; ok && tv.Value != nil && tv.Value.String() == "0" {
					s, ok := d.order(se.X, cl.Args[0])
					if !ok {
						return false, false
					}
					switch x.Op {
					case token.LSS:
						return s < 0, true
					case token.LEQ:
						return s <= 0, true
					case token.GTR:
						return s > 0, true
					case token.GEQ:
						return s >= 0, true
					case token.EQL:
						return s == 0, true
					case token.NEQ:
						return s != 0, true
					}
				}
			}
		}
	case *ast.CallExpr:
		se, ok := x.Fun.(*ast.SelectorExpr)
		if !ok {
			break
		}
		switch se.Sel.Name {
		case "IsValid", "IsZero":
			if len(x.Args) != 0 {
				break
			}
			cls := d.class(se.X)
			var isNil, valid bool
			switch cls {
			case "A":
				isNil, valid = d.env.aNil, d.env.aValid
			case "B":
				isNil, valid = d.env.bNil, d.env.bValid
			default:
				d.why = "IsValid/IsZero on an expression that is neither of the two dates: " + types.ExprString(se.X)
				return false, false
			}
			if isNil {
				d.deref = types.ExprString(e)
				return false, true
			}
			if se.Sel.Name == "IsValid" {
				return valid, true
			}
			return !valid, true
		case "Before", "After", "Equal":
			if len(x.Args) != 1 {
				break
			}
			s, ok := d.order(se.X, x.Args[0])
			if !ok {
				return false, false
			}
			switch se.Sel.Name {
			case "Before":
				return s < 0, true
			case "After":
				return s > 0, true
			default:
				return s == 0, true
			}
		}
	}
	d.why = "no model for sub-expression " + types.ExprString(e)
	return false, false
}

// order returns the sign of x - y.
func (d *dateEval) order(x, y ast.Expr) (int, bool) {
	cx, cy := d.class(x), d.class(y)
	if (cx == "A" && d.env.aNil) || (cy == "A" && d.env.aNil) || (cx == "B" && d.env.bNil) || (cy == "B" && d.env.bNil) {
		d.deref = types.ExprString(x) + " / " + types.ExprString(y)
		return 0, true
	}
	switch {
	case cx == "A" && cy == "B":
		return d.env.ord, true
	case cx == "B" && cy == "A":
		return -d.env.ord, true
	}
	d.why = fmt.Sprintf("comparison between %s and %s is not between the two dates of the rule", types.ExprString(x), types.ExprString(y))
	return 0, false
}

// enclosingConds collects the conditions of the if statements (then branches)
// that enclose node n inside outer.
func enclosingConds(outer ast.Node, n ast.Node) []ast.Expr {
	var out []ast.Expr
	ast.Inspect(outer, func(m ast.Node) bool {
		if is, ok := m.(*ast.IfStmt); ok {
			if is.Body.Pos() <= n.Pos() && n.End() <= is.Body.End() {
				out = append(out, is.Cond)
			}
		}
		return true
	})
	return out
}

// C12 — the tax rate applied on a date is the one in force on that date.
func C12(c *core.Ctx) {
	p := c.P
	c.Explain("Decided: (R1) the acceptance predicate of RateDef.Value, evaluated abstractly over every ordering of (value start date, document date) and the nil/invalid axes, accepts exactly start ≤ date and undated values, and the first accepted value in table order is returned; (R2) the table-order validator rejects exactly non-descending neighbours; (R3) every shipped rate table — all []*tax.RateValueDef literals in regimes/** and addons/**, folded from source, and all data/regimes/*.json — is strictly descending per qualification group with undated values last (exhaustive over the configuration quantifier); (R4) the combo takes percent and surcharge from the one selected value, reports an error when none applies, and clears both for exempt rates; (R5) the tax date handed to the tax calculator is the value date when present, otherwise the issue date; (R6) code tables equal the published data/regimes tables value for value. Not decided: the correctness of the percentages against national law.")
	c.Rule("C12-R1", "selection predicate truth table + first match in table order", 7)
	c.Rule("C12-R2", "order validator truth table", 4)
	c.Rule("C12-R3", "every shipped rate table strictly descending, undated last (code literals and data files)", 60)
	c.Rule("C12-R4", "combo rate preparation: error on no value, exempt clears, percent+surcharge from the same value", 4)
	shareDefinitionsImmutable(c, "C12-R7", "the rate tables cannot be written through a calculated document or at run time (shared with C15-R2/R4)")
	c.Rule("C12-R5", "tax date = value date else issue date", 1)
	c.Rule("C12-R6", "code rate tables equal data/regimes/*.json", 15)

	c12Value(c)
	c12Order(c)
	tables := c12Tables(c)
	c12Prepare(c)
	c12TaxDate(c)
	c12CodeVsData(c, "C12-R6", tables)
	c.Rule("C12-R8", "every taxable line goes through the rate lookup — none is passed over before its combos are prepared (shared with C02-R8)", 1)
	{
		sub := core.NewCtx("C02", c.Tier, c.Seed, c.P, c.VerifDir)
		sub.Quiet = true
		c02EveryLineMapped(sub)
		for _, o := range sub.Obligations() {
			if o.Rule == "C02-R8" {
				c.ObAt("C12-R8", o.Key, o.Pos, o.OK, o.Msg)
			}
		}
	}
	_ = p
}

func c12Value(c *core.Ctx) {
	p := c.P
	rvd := p.Named("tax", "RateValueDef")
	var fd *core.FuncDecl
	for _, f := range p.Funcs(p.Pkg("tax")) {
		sig := f.Obj.Type().(*types.Signature)
		if r := core.RecvNamed(f.Obj); r != nil && r.Obj().Name() == "RateDef" && sig.Results().Len() == 1 {
			if pt, ok := sig.Results().At(0).Type().(*types.Pointer); ok && pt.Elem() == types.Type(rvd) {
				hasDate := false
				for i := 0; i < sig.Params().Len(); i++ {
					if core.TypeString(sig.Params().At(i).Type()) == "cal.Date" {
						hasDate = true
					}
				}
				if hasDate {
					fd = f
				}
			}
		}
	}
	if fd == nil {
		c.Ob("C12-R1", "UNRESOLVED:RateDef.Value", token.NoPos, false, "no method of tax.RateDef takes a cal.Date and returns *RateValueDef")
		return
	}
	info := fd.Pkg.TypesInfo
	recv := recvVar(fd)
	var dateParam *types.Var
	sig := fd.Obj.Type().(*types.Signature)
	for i := 0; i < sig.Params().Len(); i++ {
		if core.TypeString(sig.Params().At(i).Type()) == "cal.Date" {
			dateParam = sig.Params().At(i)
		}
	}
	// decided on the normalised view (index loops are range loops there)
	fd = p.Inlined(fd)
	info = fd.Pkg.TypesInfo
	var loop *ast.RangeStmt
	for _, s := range fd.Decl.Body.List {
		if rs, ok := s.(*ast.RangeStmt); ok && core.IsFieldOfVar(info, rs.X, recv, "Values") {
			loop = rs
		}
	}
	if loop == nil {
		c.Ob("C12-R1", fd.Name()+"#loop", fd.Decl.Pos(), false, "NOT FOUND: no top-level forward loop over <receiver>.Values")
		return
	}
	elem := core.VarOf(info, loop.Value)
	if elem == nil {
		c.Undecided("C12-R1", fd.Name()+"#loop", loop.Pos(), "loop does not bind the element")
		return
	}
	// after the loop: return nil
	last := fd.Decl.Body.List[len(fd.Decl.Body.List)-1]
	lr, isRet := last.(*ast.ReturnStmt)
	c.Ob("C12-R1", fd.Name()+"#none-is-nil", last.Pos(), isRet && len(lr.Results) == 1 && core.IsNil(info, lr.Results[0]) && last.Pos() > loop.End(),
		"when no value is accepted the function does not return nil (a guess would be made)")
	cld := core.NewLocalDefs(info, fd.Decl.Body)
	class := func(e ast.Expr) string {
		e = ast.Unparen(e)
		if st, ok := e.(*ast.StarExpr); ok {
			e = ast.Unparen(st.X)
		}
		// a local that holds one of the two dates (since := rv.Since)
		if id, ok := e.(*ast.Ident); ok {
			if v := core.VarOf(info, id); v != nil && v != elem && v != dateParam && len(cld.All(v)) == 1 {
				e = ast.Unparen(cld.Resolve(id, 2))
				if st, ok := e.(*ast.StarExpr); ok {
					e = ast.Unparen(st.X)
				}
			}
		}
		if core.IsFieldOfVar(info, e, elem, "Since") {
			return "A"
		}
		// <elem>.Since.Date
		if se, ok := e.(*ast.SelectorExpr); ok && se.Sel.Name == "Date" && core.IsFieldOfVar(info, se.X, elem, "Since") {
			return "A"
		}
		if core.VarOf(info, e) == dateParam && dateParam != nil {
			return "B"
		}
		if se, ok := e.(*ast.SelectorExpr); ok && se.Sel.Name == "Date" && core.VarOf(info, se.X) == dateParam {
			return "B"
		}
		return ""
	}
	mentionsDate := func(e ast.Expr) bool {
		found := false
		ast.Inspect(e, func(n ast.Node) bool {
			if x, ok := n.(ast.Expr); ok && class(x) != "" {
				found = true
			}
			return true
		})
		return found
	}
	type tc struct {
		name string
		env  dateEnv
		want bool
	}
	cases := []tc{
		{"undated(nil)", dateEnv{aNil: true, bValid: true}, true},
		{"undated(zero)", dateEnv{aValid: false, bValid: true}, true},
		{"start<date", dateEnv{aValid: true, bValid: true, ord: -1}, true},
		{"start=date", dateEnv{aValid: true, bValid: true, ord: 0}, true},
		{"start>date", dateEnv{aValid: true, bValid: true, ord: 1}, false},
	}
	// The loop body is evaluated for one element under each date case and every
	// assignment of the conditions that do not concern dates (tags, extensions): the
	// element is accepted (returned) or passed over (continue / end of body). For a case
	// the property wants accepted, some assignment must accept; for one it wants
	// refused, none may.
	firstMatchOK := true
	for _, t := range cases {
		key := fd.Name() + "#predicate:" + t.name
		var free []string
		known := map[string]bool{}
		accepted, undecided, deref := false, "", ""
		for mask := 0; mask < 1<<uint(len(free)) || mask == 0; mask++ {
			assign := map[string]bool{}
			for i, k := range free {
				assign[k] = mask&(1<<uint(i)) != 0
			}
			dev := &dateEval{info: info, class: class, env: t.env}
			ev := &core.AbsEval{Info: info}
			grew := false
			ev.Atom = func(e ast.Expr) (any, bool) {
				e = ast.Unparen(e)
				if core.IsNil(info, e) {
					return "nil", true
				}
				if core.VarOf(info, e) == elem {
					return "elem", true
				}
				tv := info.TypeOf(e)
				if tv == nil {
					return nil, false
				}
				if b, ok := tv.Underlying().(*types.Basic); !ok || b.Info()&types.IsBoolean == 0 {
					return nil, false
				}
				switch x := e.(type) {
				case *ast.BinaryExpr:
					if x.Op == token.LAND || x.Op == token.LOR {
						return nil, false
					}
				case *ast.UnaryExpr:
					return nil, false
				case *ast.Ident:
					if v, isVar := info.Uses[x].(*types.Var); isVar && !v.IsField() && v.Parent() != v.Pkg().Scope() {
						return nil, false // a local flag: its value is what was assigned to it
					}
				}
				if mentionsDate(e) {
					v, ok := dev.eval(e)
					if !ok {
						undecided = dev.why
						return nil, false
					}
					return v, true
				}
				k := types.ExprString(e)
				if !known[k] {
					known[k] = true
					free = append(free, k)
					grew = true
				}
				return assign[k], true
			}
			ev.Branch = func(b *ast.BranchStmt) ([]any, bool) {
				if b.Tok == token.CONTINUE && b.Label == nil {
					return []any{"skip"}, true
				}
				return nil, false
			}
			ret, reached, ok := ev.RunList(loop.Body.List)
			if dev.deref != "" {
				deref = dev.deref
			}
			if grew {
				mask = -1 // new free conditions discovered: start the enumeration again
				continue
			}
			if !ok {
				if undecided == "" {
					undecided = "the loop body could not be evaluated"
				}
				break
			}
			if reached && len(ret) == 1 {
				switch ret[0] {
				case "elem":
					accepted = true
				case "skip":
				default:
					firstMatchOK = false
				}
			}
		}
		switch {
		case undecided != "":
			c.Undecided("C12-R1", key, loop.Pos(), undecided)
		case deref != "":
			c.Ob("C12-R1", key, loop.Pos(), false, "the predicate dereferences a nil start date: "+deref)
		default:
			c.Ob("C12-R1", key, loop.Pos(), accepted == t.want,
				fmt.Sprintf("for %s the loop gives accept=%v, the property requires accept=%v (a value takes effect on its start date itself; later values do not apply)", t.name, accepted, t.want))
		}
	}
	c.Ob("C12-R1", fd.Name()+"#first-match", loop.Pos(), firstMatchOK, "the loop returns something other than the range element: the first accepted value in table order is not what is returned")
}

func c12Order(c *core.Ctx) {
	p := c.P
	// the validator: a function of package tax taking interface{} and asserting []*RateValueDef
	var fd *core.FuncDecl
	for _, f := range p.Funcs(p.Pkg("tax")) {
		found := false
		ast.Inspect(f.Decl.Body, func(n ast.Node) bool {
			if ta, ok := n.(*ast.TypeAssertExpr); ok && ta.Type != nil {
				if core.TypeString(f.Pkg.TypesInfo.TypeOf(ta.Type)) == "[]*tax.RateValueDef" {
					found = true
				}
			}
			return true
		})
		if found {
			fd = f
		}
	}
	if fd == nil {
		c.Ob("C12-R2", "UNRESOLVED:order-validator", token.NoPos, false, "no function of package tax asserts its argument to []*tax.RateValueDef")
		return
	}
	info := fd.Pkg.TypesInfo
	// it must be wired to RateDef.Values in RateDef's validator
	wired := false
	for _, f := range p.Funcs(p.Pkg("tax")) {
		if r := core.RecvNamed(f.Obj); r == nil || r.Obj().Name() != "RateDef" {
			continue
		}
		for _, sv := range core.StructValidations(f.Pkg.TypesInfo, f.Decl.Body) {
			for _, fr := range sv.Fields {
				if fr.Field.Name() != "Values" {
					continue
				}
				for _, r := range fr.Rules {
					ast.Inspect(r, func(n ast.Node) bool {
						if id, ok := n.(*ast.Ident); ok && f.Pkg.TypesInfo.Uses[id] == types.Object(fd.Obj) {
							wired = true
						}
						return true
					})
				}
			}
		}
	}
	c.Ob("C12-R2", fd.Name()+"#wired", fd.Decl.Pos(), wired, "the order validator is not applied to RateDef.Values in RateDef's validation")
	// decided on the normalised view (index loops are range loops there, helpers are in place)
	fd = p.Inlined(fd)
	info = fd.Pkg.TypesInfo
	// the loop that reports the error: a range over the values that carries something from one
	// entry to the next, or an index loop that compares neighbours (list[i] with list[i-1]) of
	// a list from which the qualified entries were taken out beforehand
	returnsErr := func(n ast.Node) bool {
		found := false
		ast.Inspect(n, func(m ast.Node) bool {
			if r, ok := m.(*ast.ReturnStmt); ok && len(r.Results) == 1 && !core.IsNil(info, r.Results[0]) {
				found = true
			}
			return true
		})
		return found
	}
	var loop ast.Stmt
	var loopBody *ast.BlockStmt
	var cur, idxVar *types.Var
	anyLoop := false
	for _, s := range fd.Decl.Body.List {
		switch x := s.(type) {
		case *ast.RangeStmt:
			anyLoop = true
			if x.Value != nil && returnsErr(x) {
				loop, loopBody, cur, idxVar = x, x.Body, core.VarOf(info, x.Value), nil
			}
		case *ast.ForStmt:
			anyLoop = true
			if as, ok := x.Init.(*ast.AssignStmt); ok && len(as.Lhs) == 1 && returnsErr(x) {
				loop, loopBody, cur, idxVar = x, x.Body, nil, core.VarOf(info, as.Lhs[0])
			}
		}
	}
	if !anyLoop {
		c.Ob("C12-R2", fd.Name()+"#loop", fd.Decl.Pos(), false, "NOT FOUND: no loop over the values found")
		return
	}
	if loop == nil || (cur == nil && idxVar == nil) {
		c.Ob("C12-R2", fd.Name()+"#error-return", fd.Decl.Pos(), false, "the loop never returns an error")
		return
	}
	// The function is evaluated over abstract dates, whatever it keeps from one entry to the
	// next (a date pointer, the previous entry, a copy of the date and a flag): the statements
	// before the loop, then the loop body for a first unqualified entry, then for a second one.
	// A date is nil, invalid (the zero date) or one of two valid dates whose order the case
	// fixes; IsValid / IsZero / Before / After / Equal / DaysSince are computed on them, a method
	// called through a nil pointer is recorded as a dereference. Conditions that do not concern
	// the dates (the entries' qualifiers) are enumerated: where strict descending order requires
	// an error some assignment (both entries unqualified) must report one, otherwise none may.
	type absDate struct {
		name  string
		valid bool
	}
	preLoop := []ast.Stmt{}
	for _, s := range fd.Decl.Body.List {
		if s.Pos() >= loop.Pos() {
			break
		}
		switch s.(type) {
		case *ast.DeclStmt, *ast.AssignStmt:
			preLoop = append(preLoop, s)
		}
	}
	type since struct {
		isNil bool
		date  absDate
	}
	type absEntry struct{ i int }
	for _, t := range []struct {
		name    string
		entries []since // start dates of the consecutive unqualified entries
		ord     int     // sign of (second − first) when both are valid
		want    bool
	}{
		{"first-entry(prev nil)", []since{{date: absDate{"A", true}}}, 0, false},
		{"cur<prev", []since{{date: absDate{"B", true}}, {date: absDate{"A", true}}}, -1, false},
		{"cur=prev", []since{{date: absDate{"B", true}}, {date: absDate{"A", true}}}, 0, true},
		{"cur>prev", []since{{date: absDate{"B", true}}, {date: absDate{"A", true}}}, 1, true},
		{"cur-undated(nil)-after-dated", []since{{date: absDate{"B", true}}, {isNil: true}}, 0, false},
		{"dated-after-undated(nil)", []since{{isNil: true}, {date: absDate{"A", true}}}, 0, false},
	} {
		t := t
		key := fd.Name() + "#order:" + t.name
		var free []string
		known := map[string]bool{}
		reported, undecided, deref := false, "", ""
		for mask := 0; mask < 1<<uint(len(free)) || mask == 0; mask++ {
			assign := map[string]bool{}
			for i, k := range free {
				assign[k] = mask&(1<<uint(i)) != 0
			}
			iter := 0
			grew := false
			ev := &core.AbsEval{Info: info}
			// order of two abstract dates: the zero date comes before every valid one
			order := func(x, y absDate) int {
				switch {
				case x.name == y.name:
					return 0
				case !x.valid && !y.valid:
					return 0
				case !x.valid:
					return -1
				case !y.valid:
					return 1
				case x.name == "A": // A is the second entry's date, B the first's
					return t.ord
				default:
					return -t.ord
				}
			}
			asDate := func(e ast.Expr) (absDate, bool, bool) { // value, isNilPointer, ok
				v, ok := ev.Eval(e)
				if !ok {
					return absDate{}, false, false
				}
				switch x := v.(type) {
				case absDate:
					return x, false, true
				case core.AbsPtr:
					if d, isD := x.Elem.(absDate); isD {
						return d, false, true
					}
				case string:
					if x == "nil" {
						return absDate{}, true, true
					}
				}
				return absDate{}, false, false
			}
			ev.Zero = func(tt types.Type) (any, bool) {
				if core.TypeString(tt) == "cal.Date" {
					return absDate{"zero", false}, true
				}
				return nil, false
			}
			ev.Atom = func(e ast.Expr) (any, bool) {
				e = ast.Unparen(e)
				switch x := e.(type) {
				case *ast.IndexExpr:
					// neighbour form: list[i] is the second entry, list[i-1] the first
					if idxVar != nil {
						if core.VarOf(info, x.Index) == idxVar {
							return absEntry{1}, true
						}
						if be, ok := ast.Unparen(x.Index).(*ast.BinaryExpr); ok && be.Op == token.SUB && core.VarOf(info, be.X) == idxVar {
							if tv, ok := info.Types[be.Y]; ok && tv.Value != nil && tv.Value.ExactString() == "1" {
								return absEntry{0}, true
							}
						}
					}
				case *ast.Ident:
					if cur != nil && info.Uses[x] == types.Object(cur) {
						return absEntry{iter}, true // the entry itself (kept as "the previous entry" by some forms)
					}
				case *ast.SelectorExpr:
					if f := core.FieldOf(info, x); f != nil && f.Name() == "Since" {
						if ev0, ok := ev.Eval(x.X); ok {
							if en, isEntry := ev0.(absEntry); isEntry && en.i < len(t.entries) {
								s := t.entries[en.i]
								if s.isNil {
									return "nil", true
								}
								return core.AbsPtr{Elem: s.date}, true
							}
							if ev0 == any("nil") {
								deref = types.ExprString(x)
								return "nil", true
							}
						}
					}
					// <date>.Date: the civil date inside a cal.Date
					if f := core.FieldOf(info, x); f != nil && f.Name() == "Date" {
						if d, isNil, ok := asDate(x.X); ok {
							if isNil {
								deref = types.ExprString(x)
								return absDate{"zero", false}, true
							}
							return d, true
						}
					}
				case *ast.CompositeLit:
					if core.TypeString(info.TypeOf(x)) == "cal.Date" && len(x.Elts) == 0 {
						return absDate{"zero", false}, true
					}
				case *ast.CallExpr:
					se, ok := ast.Unparen(x.Fun).(*ast.SelectorExpr)
					if !ok {
						break
					}
					switch se.Sel.Name {
					case "IsValid", "IsZero":
						if len(x.Args) != 0 {
							break
						}
						d, isNil, ok := asDate(se.X)
						if !ok {
							break
						}
						if isNil {
							deref = types.ExprString(x)
							return false, true
						}
						return d.valid == (se.Sel.Name == "IsValid"), true
					case "Before", "After", "Equal":
						if len(x.Args) != 1 {
							break
						}
						d1, n1, ok1 := asDate(se.X)
						d2, n2, ok2 := asDate(x.Args[0])
						if !ok1 || !ok2 {
							break
						}
						if n1 || n2 {
							deref = types.ExprString(x)
							return false, true
						}
						o := order(d1, d2)
						switch se.Sel.Name {
						case "Before":
							return o < 0, true
						case "After":
							return o > 0, true
						}
						return o == 0, true
					}
					if t := info.TypeOf(x); t != nil && types.Identical(t, types.Universe.Lookup("error").Type()) {
						return "error", true
					}
				}
				tv := info.TypeOf(e)
				if tv == nil {
					return nil, false
				}
				if b, ok := tv.Underlying().(*types.Basic); !ok || b.Info()&types.IsBoolean == 0 {
					return nil, false
				}
				switch x := e.(type) {
				case *ast.BinaryExpr:
					if x.Op == token.LAND || x.Op == token.LOR {
						return nil, false
					}
					// comparisons of dates / date pointers with nil are evaluated, not enumerated
					if _, _, isDate := asDate(x.X); isDate {
						return nil, false
					}
					if cur != nil && (core.VarOf(info, x.X) == cur || core.VarOf(info, x.Y) == cur) {
						if core.IsNil(info, x.X) || core.IsNil(info, x.Y) {
							return x.Op == token.NEQ, true // the entry at hand is not a null
						}
					}
				case *ast.UnaryExpr:
					return nil, false
				case *ast.Ident:
					if v, isVar := info.Uses[x].(*types.Var); isVar && !v.IsField() && v.Parent() != v.Pkg().Scope() {
						return nil, false // a local flag: its value is what was assigned to it
					}
				case *ast.CallExpr:
					return nil, false
				}
				k := types.ExprString(e)
				if !known[k] {
					known[k] = true
					free = append(free, k)
					grew = true
				}
				return assign[k], true
			}
			ev.Branch = func(b *ast.BranchStmt) ([]any, bool) {
				if b.Tok == token.CONTINUE && b.Label == nil {
					return []any{"skip"}, true
				}
				return nil, false
			}
			_, _, ok := ev.RunList(preLoop)
			var ret []any
			reached := false
			if idxVar != nil {
				// neighbour form: with one entry the loop does not run; with two, once
				if len(t.entries) >= 2 {
					iter = len(t.entries) - 1
					ret, reached, ok = ev.RunMore(loopBody.List)
				}
			} else {
				for iter = 0; ok && iter < len(t.entries); iter++ {
					ret, reached, ok = ev.RunMore(loopBody.List)
					if reached && !(len(ret) == 1 && ret[0] == any("skip")) {
						break
					}
				}
			}
			if grew {
				mask = -1
				continue
			}
			if !ok {
				if undecided == "" {
					undecided = "the loop body could not be evaluated over abstract dates"
				}
				break
			}
			if reached && len(ret) == 1 && ret[0] == any("error") && iter >= len(t.entries)-1 {
				reported = true
			}
		}
		switch {
		case undecided != "":
			c.Undecided("C12-R2", key, loop.Pos(), undecided)
		default:
			msg := fmt.Sprintf("for %s the validator reports error=%v, strict descending order requires error=%v", t.name, reported, t.want)
			if deref != "" {
				msg = fmt.Sprintf("for %s the validator dereferences a nil start date (%s): a table with a dated value followed by an undated one panics instead of being validated", t.name, deref)
			}
			c.Ob("C12-R2", key, loop.Pos(), reported == t.want && deref == "", msg)
		}
	}
}

// rateTable is a folded rate value table.
type rateTable struct {
	Pkg      string // module-relative package
	File     string
	Pos      token.Pos
	Key      string // rate key when known
	Category string
	Values   []rateValue
}

type rateValue struct {
	Since     *core.FDate
	Percent   string
	Surcharge string
	Qual      string // canonical rendering of tags+ext qualification
	Ext       map[string]string
	Tags      []string
}

func foldQual(v any) string {
	b, _ := json.Marshal(v)
	return string(b)
}

// c12Tables folds every []*tax.RateValueDef literal of the module.
func c12Tables(c *core.Ctx) []*rateTable {
	p := c.P
	folder := &core.Folder{P: p}
	var tables []*rateTable
	nDated := 0
	for _, pk := range p.Pkgs {
		rel := core.RelPkg(pk.PkgPath)
		for _, file := range pk.Syntax {
			if p.IsTestFile(file.Pos()) {
				continue
			}
			ast.Inspect(file, func(n ast.Node) bool {
				cl, ok := n.(*ast.CompositeLit)
				if !ok {
					return true
				}
				if !litTypeIs(pk.TypesInfo, cl, "tax.RateDef") {
					return true
				}
				fv, _ := folder.Fold(pk, cl).(*core.FStruct)
				if fv == nil {
					return true
				}
				vals, has := fv.Fields["Values"]
				if !has {
					return true
				}
				tb := &rateTable{Pkg: rel, File: p.RelFile(cl.Pos()), Pos: cl.Pos()}
				if k, ok := fv.Fields["Key"].(string); ok {
					tb.Key = k
				} else if u := core.HasUnknown(fv.Fields["Key"]); u != nil {
					c.Undecided("C12-R3", fmt.Sprintf("%s#rate-key@%s", rel, u.Expr), cl.Pos(), "rate key is not a foldable constant")
				}
				list, _ := vals.([]any)
				for i, ev := range list {
					es, _ := ev.(*core.FStruct)
					key := fmt.Sprintf("%s#%s/values[%d]", tb.File, tb.Key, i)
					if es == nil {
						c.Undecided("C12-R3", key, cl.Pos(), "rate value is not a foldable literal")
						continue
					}
					rv := rateValue{}
					if s, has := es.Fields["Since"]; has && s != nil {
						d, ok := s.(core.FDate)
						if !ok {
							c.Undecided("C12-R3", key, es.Pos, "start date is not cal.NewDate of constants")
							continue
						}
						rv.Since = &d
						nDated++
					}
					if pv, ok := es.Fields["Percent"].(core.FNum); ok {
						rv.Percent = pv.String()
					} else if es.Fields["Percent"] != nil {
						c.Undecided("C12-R3", key+"#percent", es.Pos, "percentage is not a foldable constant")
					}
					if sv, ok := es.Fields["Surcharge"].(core.FNum); ok {
						rv.Surcharge = sv.String()
					}
					q := map[string]any{}
					if tg, has := es.Fields["Tags"]; has {
						q["tags"] = tg
						if l, ok := tg.([]any); ok {
							for _, x := range l {
								rv.Tags = append(rv.Tags, fmt.Sprint(x))
							}
						}
					}
					if ex, has := es.Fields["Ext"]; has {
						q["ext"] = ex
						if m, ok := ex.(map[string]any); ok {
							rv.Ext = map[string]string{}
							for k, v := range m {
								rv.Ext[k] = fmt.Sprint(v)
							}
						}
					}
					if len(q) > 0 {
						if u := core.HasUnknown(q); u != nil {
							c.Undecided("C12-R3", key+"#qualification", es.Pos, "tags/ext qualification is not foldable: "+u.Expr)
						}
						rv.Qual = foldQual(q)
					}
					tb.Values = append(tb.Values, rv)
				}
				tables = append(tables, tb)
				return true
			})
		}
	}
	c.Extra("rate_tables_in_code", len(tables))
	c.Extra("dated_values_in_code", nDated)
	for _, tb := range tables {
		c12CheckDescending(c, "C12-R3", fmt.Sprintf("%s#%s", tb.File, tb.Key), tb.Pos, tb.Values)
	}
	// data files
	files, _ := filepath.Glob(filepath.Join(p.Repo, "data", "regimes", "*.json"))
	sort.Strings(files)
	if len(files) < 15 {
		c.Ob("C12-R3", "UNRESOLVED:data-files", token.NoPos, false, fmt.Sprintf("only %d data/regimes/*.json files found", len(files)))
	}
	for _, f := range files {
		rd, err := loadRegimeData(f)
		if err != nil {
			c.ObAt("C12-R3", "data/regimes/"+filepath.Base(f), "data/regimes/"+filepath.Base(f), false, "cannot parse: "+err.Error())
			continue
		}
		for _, cat := range rd.Categories {
			for _, r := range cat.Rates {
				if len(r.Values) == 0 {
					continue
				}
				var vals []rateValue
				for _, v := range r.Values {
					rv := rateValue{Percent: v.Percent, Surcharge: v.Surcharge, Ext: v.Ext, Tags: v.Tags}
					if v.Since != "" {
						var d core.FDate
						if _, err := fmt.Sscanf(v.Since, "%d-%d-%d", &d.Y, &d.M, &d.D); err != nil {
							c.ObAt("C12-R3", fmt.Sprintf("data/regimes/%s#%s/%s", filepath.Base(f), cat.Code, r.Key), "data/regimes/"+filepath.Base(f), false, "unparseable since date "+v.Since)
							continue
						}
						rv.Since = &d
					}
					q := map[string]any{}
					if len(v.Tags) > 0 {
						q["tags"] = v.Tags
					}
					if len(v.Ext) > 0 {
						q["ext"] = v.Ext
					}
					if len(q) > 0 {
						rv.Qual = foldQual(q)
					}
					vals = append(vals, rv)
				}
				key := fmt.Sprintf("data/regimes/%s#%s/%s", filepath.Base(f), cat.Code, r.Key)
				c12CheckDescendingAt(c, "C12-R3", key, "data/regimes/"+filepath.Base(f), vals)
			}
		}
	}
	return tables
}

func c12CheckDescending(c *core.Ctx, rule, key string, pos token.Pos, vals []rateValue) {
	c12CheckDescendingAt(c, rule, key, c.P.Rel(pos), vals)
}

func c12CheckDescendingAt(c *core.Ctx, rule, key, pos string, vals []rateValue) {
	// group by qualification
	last := map[string]*core.FDate{}
	undated := map[string]bool{}
	ok, why := true, ""
	for i, v := range vals {
		g := v.Qual
		if undated[g] {
			ok, why = false, fmt.Sprintf("values[%d] follows an undated value of the same qualification and can never be selected", i)
			break
		}
		if v.Since == nil {
			undated[g] = true
			continue
		}
		if l := last[g]; l != nil && !v.Since.Less(*l) {
			ok, why = false, fmt.Sprintf("values[%d] starts %s, not strictly before the preceding value of the same qualification (%s): the choice of value is ambiguous or the later rate is shadowed", i, v.Since, l)
			break
		}
		d := *v.Since
		last[g] = &d
	}
	// an unqualified value shadows every later qualified one with an earlier-or-equal start only if listed before it; qualified-first ordering is the repo's idiom
	c.ObAt(rule, key, pos, ok, why)
}

type regimeData struct {
	Country    string `json:"country"`
	Categories []struct {
		Code  string `json:"code"`
		Rates []struct {
			Key    string `json:"key"`
			Values []struct {
				Since     string            `json:"since"`
				Percent   string            `json:"percent"`
				Surcharge string            `json:"surcharge"`
				Ext       map[string]string `json:"ext"`
				Tags      []string          `json:"tags"`
			} `json:"values"`
		} `json:"rates"`
	} `json:"categories"`
}

func loadRegimeData(file string) (*regimeData, error) {
	b, err := readSubjectFile(file)
	if err != nil {
		return nil, err
	}
	rd := new(regimeData)
	if err := json.Unmarshal(b, rd); err != nil {
		return nil, err
	}
	return rd, nil
}

func c12Prepare(c *core.Ctx) {
	p := c.P
	// functions of package tax that call the value selector
	n := 0
	for _, fd := range p.Funcs(p.Pkg("tax")) {
		info := fd.Pkg.TypesInfo
		calls := core.CallsTo(info, fd.Decl.Body, func(f *types.Func) bool {
			r := core.RecvNamed(f)
			return r != nil && r.Obj().Name() == "RateDef" && f.Name() == "Value"
		})
		if len(calls) == 0 {
			continue
		}
		n++
		ff := core.NewFuncFlow(fd)
		recv := recvVar(fd)
		ld := core.NewLocalDefs(info, fd.Decl.Body)
		for i, call := range calls {
			key := fmt.Sprintf("%s#Value%d", fd.Name(), i+1)
			// the result variable
			var res *types.Var
			ast.Inspect(fd.Decl.Body, func(m ast.Node) bool {
				if as, ok := m.(*ast.AssignStmt); ok && len(as.Rhs) == 1 && ast.Unparen(as.Rhs[0]) == ast.Expr(call) && len(as.Lhs) == 1 {
					res = core.VarOf(info, as.Lhs[0])
				}
				return true
			})
			if res == nil {
				c.Ob("C12-R4", key+"#bound", call.Pos(), false, "the selected value is not bound to a variable")
				continue
			}
			// every return that lies where the selected value is nil is a failure return (and there is one)
			okNil, quiet := false, ""
			for _, r := range ff.Flow.Returns() {
				if !ff.Flow.Reachable(r) {
					continue
				}
				for leaf, v := range ff.Flow.CondsAt(r) {
					g := core.GuardOf(info, leaf, ff.Errs)
					if (g.Kind == "nil" || g.Kind == "err") && core.VarOf(info, g.X) == res && v != g.Neg {
						if k, _ := ff.ClassifyReturn(p, r); k == core.RetFailure {
							okNil = true
						} else {
							quiet = p.Rel(r.Pos())
						}
					}
				}
			}
			msgNil := "a nil result of the value selection (date before the first value) does not lead to an error return"
			if quiet != "" {
				msgNil = "the return at " + quiet + " lies where no table value applies to the date and is not an error: the combo keeps whatever percentage it had — a guess"
			}
			c.Ob("C12-R4", key+"#no-value-is-error", call.Pos(), okNil && quiet == "", msgNil)
			// the extensions that qualify the choice are the combo's own, whole and unconditionally
			if len(call.Args) == 3 {
				arg := ast.Unparen(call.Args[2])
				if v := core.VarOf(info, arg); v != nil && !v.IsField() {
					if ds := ld.All(v); len(ds) == 1 && ds[0].RHS != nil && ds[0].N == 1 {
						arg = ast.Unparen(ds[0].RHS)
					}
				}
				c.Ob("C12-R4", key+"#own-extensions", call.Pos(), core.IsFieldOfVar(info, arg, recv, "Ext"),
					"the table value is not chosen with the combo's own extensions (`"+types.ExprString(call.Args[2])+"`): extension-qualified values (regional rates) are passed over")
			}
			// percent and surcharge stores come from res
			for _, fname := range []string{"Percent", "Surcharge"} {
				okSrc := false
				ast.Inspect(fd.Decl.Body, func(m ast.Node) bool {
					as, ok := m.(*ast.AssignStmt)
					if !ok || len(as.Lhs) != 1 || as.Pos() < call.Pos() {
						return true
					}
					if !core.IsFieldOfVar(info, as.Lhs[0], recv, fname) || core.IsNil(info, as.Rhs[0]) {
						return true
					}
					// &tmp where tmp := res.Field  or  *res.Field
					src := ast.Unparen(as.Rhs[0])
					if u, ok := src.(*ast.UnaryExpr); ok && u.Op == token.AND {
						src = ld.Resolve(u.X, 2)
					}
					if st, ok := ast.Unparen(src).(*ast.StarExpr); ok {
						src = st.X
					}
					if f := core.FieldOf(info, src); f != nil && f.Name() == fname && core.RootVar(info, src) == res {
						okSrc = true
					}
					return true
				})
				c.Ob("C12-R4", key+"#"+strings.ToLower(fname)+"-from-selected-value", call.Pos(), okSrc,
					fmt.Sprintf("the combo's %s is not taken from the %s of the selected value", fname, fname))
			}
		}
		// exempt branch clears both
		cleared := map[string]bool{}
		ast.Inspect(fd.Decl.Body, func(m ast.Node) bool {
			is, ok := m.(*ast.IfStmt)
			if !ok {
				return true
			}
			if f := core.FieldOf(info, is.Cond); f == nil || f.Name() != "Exempt" {
				return true
			}
			endsInReturn := false
			for _, s := range is.Body.List {
				if as, ok := s.(*ast.AssignStmt); ok && len(as.Lhs) == 1 && core.IsNil(info, as.Rhs[0]) {
					if f := core.FieldOf(info, as.Lhs[0]); f != nil && core.RootVar(info, as.Lhs[0]) == recv {
						cleared[f.Name()] = true
					}
				}
				if r, ok := s.(*ast.ReturnStmt); ok && len(r.Results) == 1 && core.IsNil(info, r.Results[0]) {
					endsInReturn = true
				}
			}
			if !endsInReturn {
				cleared = map[string]bool{}
			}
			return true
		})
		c.Ob("C12-R4", fd.Name()+"#exempt-clears", fd.Decl.Pos(), cleared["Percent"] && cleared["Surcharge"],
			"an exempt rate does not clear both percent and surcharge and return before the value selection")
		// the exempt test must be reached whenever a rate definition was found:
		// no success return between the rate lookup and the exempt test
		var exemptLeaf ast.Expr
		ast.Inspect(fd.Decl.Body, func(m ast.Node) bool {
			if is, ok := m.(*ast.IfStmt); ok {
				if f := core.FieldOf(info, is.Cond); f != nil && f.Name() == "Exempt" {
					exemptLeaf = is.Cond
				}
			}
			return true
		})
		lookups := core.CallsTo(info, fd.Decl.Body, func(f *types.Func) bool {
			r := core.RecvNamed(f)
			return r != nil && r.Obj().Name() == "CategoryDef" && f.Name() == "RateDef"
		})
		if exemptLeaf != nil && len(lookups) == 1 {
			bypass := ""
			for _, r := range ff.Flow.Returns() {
				if !ff.Flow.Reachable(r) {
					continue
				}
				if k, _ := ff.ClassifyReturn(p, r); k != core.RetSuccess {
					continue
				}
				if _, known := ff.Flow.CondAt(r, exemptLeaf); known {
					continue
				}
				if ff.Flow.PassedAt(r)[lookups[0]] {
					bypass = p.Rel(r.Pos())
				}
			}
			c.Ob("C12-R4", fd.Name()+"#exempt-reached", exemptLeaf.Pos(), bypass == "",
				"a success return at "+bypass+" lies between the rate lookup and the exempt test: an exempt key can keep a stale percentage")
		} else {
			c.Undecided("C12-R4", fd.Name()+"#exempt-reached", fd.Decl.Pos(), "exempt test or rate lookup not found")
		}
	}
	if n == 0 {
		c.Ob("C12-R4", "UNRESOLVED:prepareRate", token.NoPos, false, "no function of package tax calls RateDef.Value")
	}
}

func c12TaxDate(c *core.Ctx) {
	p := c.P
	n := 0
	for _, fd := range p.Funcs(p.Pkg("bill")) {
		info := fd.Pkg.TypesInfo
		ast.Inspect(fd.Decl.Body, func(m ast.Node) bool {
			cl, ok := m.(*ast.CompositeLit)
			if !ok || !litTypeIs(info, cl, "tax.TotalCalculator") {
				return true
			}
			for _, el := range cl.Elts {
				kv, ok := el.(*ast.KeyValueExpr)
				if !ok || kv.Key.(*ast.Ident).Name != "Date" {
					continue
				}
				n++
				key := fd.Name() + "#tax-date"
				// The function is evaluated up to the statement that builds the calculator, once with
				// a value date present and once without (conditions that do not concern the dates are
				// passed over, forgetting what their branches assign): the Date must then be the
				// value date, respectively the issue date.
				idx := -1
				for i, s := range fd.Decl.Body.List {
					if s.Pos() <= cl.Pos() && cl.End() <= s.End() {
						idx = i
					}
				}
				if idx < 0 {
					c.Undecided("C12-R5", key, kv.Pos(), "the calculator is not built at the top level of the function")
					continue
				}
				var vdFn, idFn *types.Func
				okBoth, why := true, ""
				for _, present := range []bool{true, false} {
					present := present
					ev := &core.AbsEval{Info: info}
					ev.UnknownIf = func(*ast.IfStmt) bool { return true }
					ev.SkipLoop = func(ast.Stmt) bool { return true }
					ev.Atom = func(e ast.Expr) (any, bool) {
						e = ast.Unparen(e)
						if core.IsNil(info, e) {
							return "nil", true
						}
						if call, ok := e.(*ast.CallExpr); ok && len(call.Args) == 0 {
							if fn := core.Callee(info, call); fn != nil {
								switch ln := strings.ToLower(fn.Name()); {
								case strings.Contains(ln, "valuedate") && strings.HasPrefix(ln, "get"):
									vdFn = fn
									if present {
										return core.AbsPtr{Elem: "value-date"}, true
									}
									return "nil", true
								case strings.Contains(ln, "issuedate") && strings.HasPrefix(ln, "get"):
									idFn = fn
									return "issue-date", true
								}
							}
						}
						return nil, false
					}
					_, reached, ok := ev.RunList(fd.Decl.Body.List[:idx])
					got, gok := ev.Eval(kv.Value)
					want := "issue-date"
					if present {
						want = "value-date"
					}
					switch {
					case !ok || reached || !gok:
						okBoth, why = false, "UNDECIDED: the date handed to the tax calculator could not be evaluated"
					case got != any(want):
						okBoth = false
						why = fmt.Sprintf("with the value date present=%v the tax calculator is given the %v, expected the %s", present, got, want)
					}
				}
				if vdFn != nil {
					c12DateGetters(c, vdFn, "ValueDate")
				}
				if idFn != nil {
					c12DateGetters(c, idFn, "IssueDate")
				}
				if strings.HasPrefix(why, "UNDECIDED:") {
					c.Undecided("C12-R5", key, kv.Pos(), strings.TrimPrefix(why, "UNDECIDED: "))
				} else {
					c.Ob("C12-R5", key, kv.Pos(), okBoth, "the date handed to the tax calculator is not `value date if present, else issue date`: "+why)
				}
			}
			return true
		})
	}
	if n == 0 {
		c.Ob("C12-R5", "UNRESOLVED:tax-date", token.NoPos, false, "no tax.TotalCalculator literal with a Date in package bill")
	}
}

// c12DateGetters checks the implementations of the document interface's date
// getter: each must hand out the document's own field of that name on every
// return (a getter that substitutes another date changes which rate applies).
func c12DateGetters(c *core.Ctx, fn *types.Func, field string) {
	p := c.P
	var impls []*core.FuncDecl
	if fd := p.DeclOf(fn); fd != nil {
		impls = append(impls, fd)
	} else {
		for _, fd := range p.Funcs(p.Pkg("bill")) {
			if fd.Obj.Name() == fn.Name() && fd.Decl.Recv != nil && types.Identical(
				stripRecv(fd.Obj.Type().(*types.Signature)), stripRecv(fn.Type().(*types.Signature))) {
				impls = append(impls, fd)
			}
		}
	}
	if len(impls) == 0 {
		c.Ob("C12-R5", "UNRESOLVED:"+fn.Name(), token.NoPos, false, "no implementation of the date getter found in package bill")
	}
	for _, fd := range impls {
		info := fd.Pkg.TypesInfo
		recv := recvVar(fd)
		ld := core.NewLocalDefs(info, fd.Decl.Body)
		ok, nret := true, 0
		ast.Inspect(fd.Decl.Body, func(n ast.Node) bool {
			if r, isR := n.(*ast.ReturnStmt); isR && len(r.Results) == 1 {
				nret++
				e := ld.Resolve(r.Results[0], 3)
				if !core.IsFieldOfVar(info, e, recv, field) {
					ok = false
				}
			}
			return true
		})
		c.Ob("C12-R5", fd.Name()+"#returns-"+field, fd.Decl.Pos(), ok && nret > 0,
			fmt.Sprintf("the getter does not return the document's %s on every path", field))
	}
}

func stripRecv(sig *types.Signature) *types.Signature {
	return types.NewSignatureType(nil, nil, nil, sig.Params(), sig.Results(), sig.Variadic())
}

// c12CodeVsData compares the folded code tables with data/regimes/*.json.
func c12CodeVsData(c *core.Ctx, rule string, tables []*rateTable) {
	p := c.P
	folder := &core.Folder{P: p}
	// regime packages: those containing a tax.RegimeDef literal with a Country
	type regime struct {
		pk      *packages.Package
		country string
	}
	var regs []regime
	for _, pk := range p.Pkgs {
		if !strings.HasPrefix(core.RelPkg(pk.PkgPath), "regimes/") {
			continue
		}
		for _, file := range pk.Syntax {
			if p.IsTestFile(file.Pos()) {
				continue
			}
			ast.Inspect(file, func(n ast.Node) bool {
				cl, ok := n.(*ast.CompositeLit)
				if !ok || !litTypeIs(pk.TypesInfo, cl, "tax.RegimeDef") {
					return true
				}
				for _, el := range cl.Elts {
					if kv, ok := el.(*ast.KeyValueExpr); ok && kv.Key.(*ast.Ident).Name == "Country" {
						if s, ok := folder.Fold(pk, kv.Value).(string); ok {
							regs = append(regs, regime{pk, s})
						}
					}
				}
				return false
			})
		}
	}
	if len(regs) < 15 {
		c.Ob(rule, "UNRESOLVED:regimes", token.NoPos, false, fmt.Sprintf("only %d regime definitions with a constant country found", len(regs)))
	}
	// category of each table: the enclosing CategoryDef literal's Code
	catOf := map[*rateTable]string{}
	for _, pk := range p.Pkgs {
		for _, file := range pk.Syntax {
			ast.Inspect(file, func(n ast.Node) bool {
				cl, ok := n.(*ast.CompositeLit)
				if !ok || !litTypeIs(pk.TypesInfo, cl, "tax.CategoryDef") {
					return true
				}
				code := ""
				for _, el := range cl.Elts {
					if kv, ok := el.(*ast.KeyValueExpr); ok && kv.Key.(*ast.Ident).Name == "Code" {
						if s, ok := folder.Fold(pk, kv.Value).(string); ok {
							code = s
						}
					}
				}
				for _, tb := range tables {
					if cl.Pos() <= tb.Pos && tb.Pos <= cl.End() {
						catOf[tb] = code
					}
				}
				return true
			})
		}
	}
	for _, rg := range regs {
		rel := core.RelPkg(rg.pk.PkgPath)
		file := filepath.Join(p.Repo, "data", "regimes", strings.ToLower(rg.country)+".json")
		rd, err := loadRegimeData(file)
		if err != nil {
			c.ObAt(rule, rel+"#data-file", "data/regimes/"+strings.ToLower(rg.country)+".json", false, "regime has no readable data file: "+err.Error())
			continue
		}
		// index data
		data := map[string][]rateValue{}
		for _, cat := range rd.Categories {
			for _, r := range cat.Rates {
				var vals []rateValue
				for _, v := range r.Values {
					rv := rateValue{Percent: v.Percent, Surcharge: v.Surcharge}
					if v.Since != "" {
						var d core.FDate
						fmt.Sscanf(v.Since, "%d-%d-%d", &d.Y, &d.M, &d.D)
						rv.Since = &d
					}
					q := map[string]any{}
					if len(v.Tags) > 0 {
						q["tags"] = v.Tags
					}
					if len(v.Ext) > 0 {
						q["ext"] = v.Ext
					}
					if len(q) > 0 {
						rv.Qual = foldQual(q)
					}
					vals = append(vals, rv)
				}
				data[cat.Code+"/"+r.Key] = vals
			}
		}
		seen := map[string]bool{}
		for _, tb := range tables {
			if tb.Pkg != rel {
				continue
			}
			cat := catOf[tb]
			key := fmt.Sprintf("%s#%s/%s", rel, cat, tb.Key)
			if cat == "" {
				c.Undecided(rule, key, tb.Pos, "rate table is not inside a CategoryDef literal with a constant code")
				continue
			}
			dv, has := data[cat+"/"+tb.Key]
			seen[cat+"/"+tb.Key] = true
			if !has {
				c.Ob(rule, key, tb.Pos, false, "rate defined in code has no counterpart in the published data file")
				continue
			}
			ok, why := len(dv) == len(tb.Values), fmt.Sprintf("code has %d values, data file has %d", len(tb.Values), len(dv))
			for i := 0; ok && i < len(dv); i++ {
				a, b := tb.Values[i], dv[i]
				as, bs := "", ""
				if a.Since != nil {
					as = a.Since.String()
				}
				if b.Since != nil {
					bs = b.Since.String()
				}
				if as != bs || a.Percent != b.Percent || a.Surcharge != b.Surcharge || a.Qual != b.Qual {
					ok = false
					why = fmt.Sprintf("values[%d]: code {since %s percent %s surcharge %s %s} ≠ data {since %s percent %s surcharge %s %s}", i, as, a.Percent, a.Surcharge, a.Qual, bs, b.Percent, b.Surcharge, b.Qual)
				}
			}
			c.Ob(rule, key, tb.Pos, ok, "published table differs from the code table: "+why)
		}
		for k, v := range data {
			if !seen[k] && len(v) > 0 {
				c.ObAt(rule, rel+"#"+k+"#data-only", "data/regimes/"+strings.ToLower(rg.country)+".json", false, "published rate table has no counterpart in code")
			}
		}
	}
}

// litTypeIs reports whether a composite literal (possibly with elided type,
// possibly of pointer element type) builds the given module type.
func litTypeIs(info *types.Info, cl *ast.CompositeLit, name string) bool {
	t := info.TypeOf(cl)
	if t == nil {
		return false
	}
	if pt, ok := t.(*types.Pointer); ok {
		t = pt.Elem()
	}
	return core.TypeString(t) == name
}
