package props

import (
	"fmt"
	"go/ast"
	"go/token"
	"go/types"

	"goblcheck/core"
)

// everyIteration decides whether statement s, nested inside loops of body, is
// executed on every iteration of each enclosing loop: every enclosing if must
// be accepted by allowCond (with the branch taken), and no branch statement
// (continue/break/goto) or return may occur earlier in an enclosing loop body,
// except inside an if-branch that itself ends the function with an error-free
// guard accepted by allowEarly. It returns "" when so, else the reason.
func everyIteration(p *core.Program, info *types.Info, body *ast.BlockStmt, s ast.Node,
	allowCond func(cond ast.Expr, thenBranch bool) bool) string {
	return everyIterationOf(p, info, body, s, allowCond, false)
}

// everyIterationOf is everyIteration; with whole set, the function body itself
// counts as the iteration (the function is called once per element by its
// caller), so conditions directly in the body are judged too.
func everyIterationOf(p *core.Program, info *types.Info, body *ast.BlockStmt, s ast.Node,
	allowCond func(cond ast.Expr, thenBranch bool) bool, whole bool, searchLoop ...func(ast.Stmt) bool) string {
	// chain of enclosing nodes
	var chain []ast.Node
	ast.Inspect(body, func(n ast.Node) bool {
		if n == nil {
			return false
		}
		if n.Pos() <= s.Pos() && s.End() <= n.End() && n != s {
			chain = append(chain, n)
			return true
		}
		return n.Pos() <= s.Pos() && s.End() <= n.End()
	})
	inLoop := whole
	for i, n := range chain {
		switch x := n.(type) {
		case *ast.RangeStmt, *ast.ForStmt:
			// a loop that searches for the row to work on (it ranges over the result, not over
			// the elements that must all be treated): passing over non-matching rows is its purpose
			if len(searchLoop) > 0 && searchLoop[0](x.(ast.Stmt)) {
				continue
			}
			inLoop = true
			var lb *ast.BlockStmt
			if r, ok := x.(*ast.RangeStmt); ok {
				lb = r.Body
			} else {
				lb = x.(*ast.ForStmt).Body
			}
			// anything before s in the loop body that can leave the iteration
			why := ""
			ast.Inspect(lb, func(m ast.Node) bool {
				if m == nil || why != "" {
					return false
				}
				if m.Pos() >= s.Pos() {
					return false
				}
				switch b := m.(type) {
				case *ast.FuncLit:
					return false
				case *ast.RangeStmt, *ast.ForStmt:
					if !(m.Pos() <= s.Pos() && s.End() <= m.End()) {
						return false // a nested loop that does not contain s: its breaks are its own
					}
					if m != ast.Node(lb) && len(searchLoop) > 0 && searchLoop[0](m.(ast.Stmt)) {
						return false // a search loop around s: its continue / break select the row
					}
				case *ast.SwitchStmt, *ast.TypeSwitchStmt, *ast.SelectStmt:
					if !(m.Pos() <= s.Pos() && s.End() <= m.End()) {
						// breaks inside belong to the switch; continue still matters
						ast.Inspect(m, func(k ast.Node) bool {
							switch k.(type) {
							case *ast.ForStmt, *ast.RangeStmt, *ast.FuncLit:
								return false // a loop inside the switch: its continue is its own
							}
							if bs, ok := k.(*ast.BranchStmt); ok && bs.Tok == token.CONTINUE {
								why = fmt.Sprintf("a `continue` at %s can skip it", p.Rel(bs.Pos()))
							}
							if _, ok := k.(*ast.ReturnStmt); ok {
								// returns end the whole computation: not a silent skip
							}
							return true
						})
						return false
					}
				case *ast.BranchStmt:
					// an unlabelled break / continue of a loop nested in this one (and around s) leaves
					// that loop's iteration, not this one's: judged when that loop's turn comes
					if b.Label == nil && (b.Tok == token.CONTINUE || b.Tok == token.BREAK) {
						nested := false
						ast.Inspect(lb, func(k ast.Node) bool {
							switch k.(type) {
							case *ast.RangeStmt, *ast.ForStmt:
								if k.Pos() <= b.Pos() && b.End() <= k.End() {
									nested = true
								}
							}
							return !nested
						})
						if nested {
							return true
						}
					}
					if b.End() <= s.Pos() {
						// a skip that only depends on the absence of optional data is part of the rule's domain
						if conds := enclosingConds(lb, b); len(conds) > 0 {
							all := true
							for _, cnd := range conds {
								// `if elem == nil { continue }` on the element of an enclosing range: a null
								// entry of the list is no row at all
								if b.Tok == token.CONTINUE && isElemNilTest(info, chain, cnd) {
									continue
								}
								if !allowCond(cnd, true) {
									all = false
								}
							}
							if all {
								return true
							}
						}
						why = fmt.Sprintf("a `%s` at %s can skip it for some elements", b.Tok, p.Rel(b.Pos()))
					}
				}
				return true
			})
			if why != "" {
				return why
			}
		case *ast.IfStmt:
			if !inLoop {
				continue
			}
			// which branch contains s?
			then := x.Body.Pos() <= s.Pos() && s.End() <= x.Body.End()
			if i+1 < len(chain) || true {
				if x.Init != nil && x.Init.Pos() <= s.Pos() && s.End() <= x.Init.End() {
					continue
				}
				if x.Cond.Pos() <= s.Pos() && s.End() <= x.Cond.End() {
					continue
				}
			}
			// the other branch ends the whole computation (return): `if c { …; return } else { s }`
			// is `if c { …; return }; s`, and returns are not silent skips
			if endsWithReturn(otherBranch(x, then)) {
				continue
			}
			// `if elem != nil { s }` (or the else of `if elem == nil`): a null entry of the list is no row
			if be, ok := ast.Unparen(x.Cond).(*ast.BinaryExpr); ok && (be.Op == token.NEQ) == then && (be.Op == token.NEQ || be.Op == token.EQL) {
				eq := &ast.BinaryExpr{X: be.X, Op: token.EQL, Y: be.Y}
				if isElemNilTest(info, chain, eq) {
					continue
				}
			}
			if !allowCond(x.Cond, then) {
				return fmt.Sprintf("it is conditional on `%s` (%s)", types.ExprString(x.Cond), p.Rel(x.Pos()))
			}
		case *ast.CaseClause, *ast.CommClause:
			if inLoop {
				// the only clause, a default: always taken (the wrapper the inliner puts around early exits)
				if cc, ok := n.(*ast.CaseClause); ok && cc.List == nil && i > 1 {
					if sw, ok := chain[i-2].(*ast.SwitchStmt); ok && len(sw.Body.List) == 1 {
						continue
					}
				}
				// the first clause of a tagless switch is an if
				if cc, ok := n.(*ast.CaseClause); ok && i > 1 && len(cc.List) == 1 {
					if sw, ok := chain[i-2].(*ast.SwitchStmt); ok && sw.Tag == nil && len(sw.Body.List) > 0 && sw.Body.List[0] == ast.Stmt(cc) && allowCond(cc.List[0], true) {
						continue
					}
				}
				return fmt.Sprintf("it is inside a switch case that is not taken for every element (%s)", p.Rel(n.Pos()))
			}
		}
	}
	return ""
}

// nilTestOnly accepts conditions that are pure nil tests (possibly joined by
// && / ||) of pointers, i.e. conditions about the presence of optional data.
func nilTestOnly(info *types.Info) func(ast.Expr, bool) bool {
	var rec func(e ast.Expr) bool
	rec = func(e ast.Expr) bool {
		e = ast.Unparen(e)
		if be, ok := e.(*ast.BinaryExpr); ok {
			switch be.Op {
			case token.LAND, token.LOR:
				return rec(be.X) && rec(be.Y)
			case token.EQL, token.NEQ:
				return core.IsNil(info, be.X) || core.IsNil(info, be.Y)
			}
		}
		return false
	}
	return func(e ast.Expr, _ bool) bool { return rec(e) }
}

// nilTestOfOperands accepts conditions made only of nil tests of expressions
// that the statement itself uses (a guard for the presence of the very data the
// statement works on), not of unrelated optional data.
func nilTestOfOperands(info *types.Info, stmt ast.Node) func(ast.Expr, bool) bool {
	return nilTestOfOperandsIn(info, nil, stmt)
}

// nilTestOfOperandsIn also counts, as operands of the statement, what the local
// variables it uses were computed from inside body (a := *pl.Debit; t.Add(a)).
func nilTestOfOperandsIn(info *types.Info, body *ast.BlockStmt, stmt ast.Node) func(ast.Expr, bool) bool {
	used := map[string]bool{}
	vars := map[*types.Var]bool{}
	var work []ast.Node
	work = append(work, stmt)
	for len(work) > 0 {
		n := work[0]
		work = work[1:]
		ast.Inspect(n, func(n ast.Node) bool {
			if e, ok := n.(ast.Expr); ok {
				used[types.ExprString(ast.Unparen(e))] = true
			}
			if id, ok := n.(*ast.Ident); ok && body != nil {
				if v, ok := info.Uses[id].(*types.Var); ok && !v.IsField() && !vars[v] && declaredWithin(info, body, v) {
					vars[v] = true
					ast.Inspect(body, func(m ast.Node) bool {
						if as, ok := m.(*ast.AssignStmt); ok && as.End() <= stmt.Pos() {
							for i, l := range as.Lhs {
								if core.VarOf(info, l) == v {
									if len(as.Lhs) == len(as.Rhs) {
										work = append(work, as.Rhs[i])
									} else {
										work = append(work, as.Rhs[0])
									}
								}
							}
						}
						return true
					})
				}
			}
			return true
		})
	}
	var rec func(e ast.Expr) bool
	rec = func(e ast.Expr) bool {
		e = ast.Unparen(e)
		if be, ok := e.(*ast.BinaryExpr); ok {
			switch be.Op {
			case token.LAND, token.LOR:
				return rec(be.X) && rec(be.Y)
			case token.EQL, token.NEQ:
				x, y := ast.Unparen(be.X), ast.Unparen(be.Y)
				if core.IsNil(info, x) {
					x, y = y, x
				}
				return core.IsNil(info, y) && used[types.ExprString(x)]
			}
		}
		return false
	}
	return func(e ast.Expr, _ bool) bool { return rec(e) }
}

func otherBranch(x *ast.IfStmt, then bool) []ast.Stmt {
	if !then {
		return x.Body.List
	}
	switch e := x.Else.(type) {
	case *ast.BlockStmt:
		return e.List
	case *ast.IfStmt:
		return []ast.Stmt{e}
	}
	return nil
}

func endsWithReturn(l []ast.Stmt) bool {
	if len(l) == 0 {
		return false
	}
	_, ok := l[len(l)-1].(*ast.ReturnStmt)
	return ok
}

// isElemNilTest: cond is `v == nil` with v the value variable of one of the
// range statements in chain.
func isElemNilTest(info *types.Info, chain []ast.Node, cond ast.Expr) bool {
	be, ok := ast.Unparen(cond).(*ast.BinaryExpr)
	if !ok || be.Op != token.EQL {
		return false
	}
	x, y := ast.Unparen(be.X), ast.Unparen(be.Y)
	if core.IsNil(info, x) {
		x, y = y, x
	}
	if !core.IsNil(info, y) {
		return false
	}
	// S[i] with i the key of an enclosing range over S (or the counter of an index loop over S)
	if ix, ok := x.(*ast.IndexExpr); ok {
		iv := core.VarOf(info, ix.Index)
		if iv == nil {
			return false
		}
		sx := types.ExprString(ast.Unparen(ix.X))
		for _, n := range chain {
			switch l := n.(type) {
			case *ast.RangeStmt:
				if l.Key != nil && core.VarOf(info, l.Key) == iv && types.ExprString(ast.Unparen(l.X)) == sx {
					return true
				}
			case *ast.ForStmt:
				if be, ok := l.Cond.(*ast.BinaryExpr); ok && be.Op == token.LSS && core.VarOf(info, be.X) == iv {
					if call, ok := ast.Unparen(be.Y).(*ast.CallExpr); ok && len(call.Args) == 1 && types.ExprString(ast.Unparen(call.Args[0])) == sx {
						if id, ok := call.Fun.(*ast.Ident); ok && id.Name == "len" {
							return true
						}
					}
				}
			}
		}
		return false
	}
	v := core.VarOf(info, x)
	if v == nil {
		return false
	}
	for _, n := range chain {
		if rs, ok := n.(*ast.RangeStmt); ok && rs.Value != nil && core.VarOf(info, rs.Value) == v {
			return true
		}
	}
	return false
}
