package props

import (
	"fmt"
	"go/ast"
	"go/token"
	"go/types"

	"goblcheck/core"
)

// c11Enums — C11-R4: where a type's JSONSchemaExtend publishes a closed
// enumeration for a property (oneOf of constants built from a package-level
// table, no open alternative), the type's validator restricts that member to
// the same table (validation.In over it, directly or through the module's
// InKeyDefs-style helpers). A validator that accepts more than the list makes
// the library produce "valid" documents that the published schema rejects.
func c11Enums(c *core.Ctx) {
	p := c.P
	c.Rule("C11-R4", "closed enumerations published by JSONSchemaExtend are enforced by the validator over the same table", 6)
	for _, fd := range p.AllFuncs() {
		if fd.Obj.Name() != "JSONSchemaExtend" || fd.Decl.Recv == nil {
			continue
		}
		recvT := core.RecvNamed(fd.Obj)
		if recvT == nil {
			continue
		}
		info := fd.Pkg.TypesInfo
		// prop variables: X, ok := <..>.Properties.Get("name") / props.Get("name")
		propName := map[*types.Var]string{}
		ast.Inspect(fd.Decl.Body, func(n ast.Node) bool {
			as, ok := n.(*ast.AssignStmt)
			if !ok || len(as.Rhs) != 1 {
				return true
			}
			call, ok := ast.Unparen(as.Rhs[0]).(*ast.CallExpr)
			if !ok || len(call.Args) != 1 {
				return true
			}
			se, ok := call.Fun.(*ast.SelectorExpr)
			if !ok || se.Sel.Name != "Get" {
				return true
			}
			tv := info.Types[call.Args[0]]
			if tv.Value == nil {
				return true
			}
			if v := core.VarOf(info, as.Lhs[0]); v != nil {
				propName[v] = constString(tv)
			}
			return true
		})
		for pv, name := range propName {
			var table *types.Var
			var pos token.Pos
			open := false
			ast.Inspect(fd.Decl.Body, func(n ast.Node) bool {
				as, ok := n.(*ast.AssignStmt)
				if !ok || len(as.Lhs) != 1 || len(as.Rhs) != 1 {
					return true
				}
				se, ok := ast.Unparen(as.Lhs[0]).(*ast.SelectorExpr)
				if !ok || core.VarOf(info, se.X) != pv {
					return true
				}
				switch se.Sel.Name {
				case "OneOf":
					if tv, _ := enumTable(p, fd, as.Rhs[0], 0); tv != nil {
						table, pos = tv, as.Pos()
					}
					if ap, ok := ast.Unparen(as.Rhs[0]).(*ast.CallExpr); ok {
						if id, ok := ap.Fun.(*ast.Ident); ok && id.Name == "append" {
							open = true
						}
					}
				case "AnyOf", "Pattern":
					open = true
				}
				return true
			})
			if table == nil || open {
				continue
			}
			key := fmt.Sprintf("%s.%s", core.TypeName(recvT), name)
			// the validator of the receiver type
			var field *types.Var
			if st, ok := recvT.Underlying().(*types.Struct); ok {
				for i := 0; i < st.NumFields(); i++ {
					if jn, _ := core.JSONName(st.Tag(i), st.Field(i).Name()); jn == name {
						field = st.Field(i)
					}
				}
			}
			if field == nil {
				c.Undecided("C11-R4", key, pos, "no struct member with that JSON name")
				continue
			}
			found, enforced := false, false
			for _, mname := range []string{"Validate", "ValidateWithContext"} {
				obj, _, _ := types.LookupFieldOrMethod(types.NewPointer(recvT), true, recvT.Obj().Pkg(), mname)
				vfn, _ := obj.(*types.Func)
				vfd := p.DeclOf(vfn)
				if vfd == nil {
					continue
				}
				vinfo := vfd.Pkg.TypesInfo
				for _, sv := range core.StructValidations(vinfo, vfd.Decl.Body) {
					for _, fr := range sv.Fields {
						if fr.Field != field {
							continue
						}
						found = true
						for _, r := range fr.Rules {
							if membershipOver(p, vfd, r, table, 0) {
								enforced = true
							}
						}
					}
				}
			}
			why := "the validator never lists the member"
			if found {
				why = "none of the member's rules is a membership test over " + table.Name()
			}
			c.Ob("C11-R4", key, pos, found && enforced,
				fmt.Sprintf("the schema publishes %q as a closed list built from %s.%s, but %s: the library accepts values the published schema rejects", name, core.RelPkg(table.Pkg().Path()), table.Name(), why))
		}
	}
}

func constString(tv types.TypeAndValue) string {
	s := tv.Value.ExactString()
	if len(s) >= 2 && s[0] == '"' {
		return s[1 : len(s)-1]
	}
	return s
}

// pkgVar resolves an identifier / qualified identifier to a package-level variable.
// enumTable: the package-level table a list of alternatives is sized by —
// make([]T, len(TABLE)), directly, through locals, or as the result of a module
// function that sizes its result by one of its parameters (then the argument
// given for it). The second result is the parameter index when the expression
// derives from a parameter of fd itself (-1 otherwise).
func enumTable(p *core.Program, fd *core.FuncDecl, e ast.Expr, depth int) (*types.Var, int) {
	info := fd.Pkg.TypesInfo
	if depth > 4 {
		return nil, -1
	}
	e = ast.Unparen(e)
	if tv := pkgVar(info, e); tv != nil {
		return tv, -1
	}
	switch x := e.(type) {
	case *ast.Ident:
		v := core.VarOf(info, x)
		if v == nil {
			return nil, -1
		}
		if i, isParam := paramIndex(fd.Obj, v); isParam && i >= 0 {
			if len(core.NewLocalDefs(info, fd.Decl.Body).All(v)) == 0 {
				return nil, i
			}
			return nil, -1
		}
		// a list filled in a loop over the table: `for … range TABLE { v = append(v, …) }`
		if defs := core.NewLocalDefs(info, fd.Decl.Body).All(v); len(defs) > 1 {
			var tv *types.Var
			pi, okAll, nApp := -1, true, 0
			for _, d := range defs {
				if d.RHS == nil {
					continue
				}
				var t *types.Var
				i := -1
				if ap, isCall := ast.Unparen(d.RHS).(*ast.CallExpr); isCall && len(ap.Args) >= 1 && core.VarOf(info, ap.Args[0]) == v {
					if id, isId := ap.Fun.(*ast.Ident); !isId || id.Name != "append" {
						okAll = false
						break
					}
					nApp++
					var rs *ast.RangeStmt
					ast.Inspect(fd.Decl.Body, func(m ast.Node) bool {
						if r, isR := m.(*ast.RangeStmt); isR && r.Body.Pos() <= d.Pos && d.Pos <= r.Body.End() {
							rs = r
						}
						return true
					})
					if rs == nil {
						okAll = false
						break
					}
					t, i = enumTable(p, fd, rs.X, depth+1)
				} else {
					t, i = enumTable(p, fd, d.RHS, depth+1)
				}
				if (t == nil && i < 0) || (tv != nil && t != tv) || (pi >= 0 && i != pi) {
					okAll = false
					break
				}
				tv, pi = t, i
			}
			if okAll && nApp > 0 {
				return tv, pi
			}
		}
		srcs := valueSources(info, core.NewLocalDefs(info, fd.Decl.Body), x, 0)
		var tv *types.Var
		pi := -1
		for _, src := range srcs {
			if core.VarOf(info, src) == v {
				return nil, -1
			}
			t, i := enumTable(p, fd, src, depth+1)
			if (t == nil && i < 0) || (tv != nil && t != tv) || (pi >= 0 && i != pi) {
				return nil, -1
			}
			tv, pi = t, i
		}
		return tv, pi
	case *ast.CallExpr:
		if id, ok := ast.Unparen(x.Fun).(*ast.Ident); ok {
			if _, isB := info.Uses[id].(*types.Builtin); isB && id.Name == "make" && len(x.Args) >= 2 {
				sizeArg := x.Args[1]
				if tv0, isC := info.Types[x.Args[1]]; isC && tv0.Value != nil && len(x.Args) == 3 {
					sizeArg = x.Args[2] // make(T, 0, len(TABLE)): filled by appends
				}
				if ln, ok := ast.Unparen(sizeArg).(*ast.CallExpr); ok && len(ln.Args) == 1 {
					if lid, ok := ast.Unparen(ln.Fun).(*ast.Ident); ok && lid.Name == "len" {
						return enumTable(p, fd, ln.Args[0], depth+1)
					}
				}
				return nil, -1
			}
		}
		fn := core.Callee(info, x)
		if fn == nil || !core.InModule(fn.Pkg()) {
			return nil, -1
		}
		cfd := p.DeclOf(fn)
		if cfd == nil {
			return nil, -1
		}
		var tv *types.Var
		pi, n, bad := -1, 0, false
		ast.Inspect(cfd.Decl.Body, func(m ast.Node) bool {
			if _, isLit := m.(*ast.FuncLit); isLit {
				return false
			}
			r, isR := m.(*ast.ReturnStmt)
			if !isR || len(r.Results) != 1 {
				return true
			}
			n++
			t, i := enumTable(p, cfd, r.Results[0], depth+1)
			if (t == nil && i < 0) || (n > 1 && (t != tv || i != pi)) {
				bad = true
			}
			tv, pi = t, i
			return true
		})
		if bad || n == 0 {
			return nil, -1
		}
		if tv != nil {
			return tv, -1
		}
		if pi < len(x.Args) {
			return enumTable(p, fd, x.Args[pi], depth+1)
		}
	}
	return nil, -1
}

func pkgVar(info *types.Info, e ast.Expr) *types.Var {
	var id *ast.Ident
	switch x := ast.Unparen(e).(type) {
	case *ast.Ident:
		id = x
	case *ast.SelectorExpr:
		id = x.Sel
	default:
		return nil
	}
	v, ok := info.Uses[id].(*types.Var)
	if !ok || v.Pkg() == nil || v.Parent() != v.Pkg().Scope() {
		return nil
	}
	return v
}

// membershipOver: the rule expression is validation.In over the table —
// validation.In(g()...) with g ranging over the table, a module helper that
// returns validation.In(...) given the table, or a package-level rule variable
// initialised with one of those.
func membershipOver(p *core.Program, ctx *core.FuncDecl, e ast.Expr, table *types.Var, depth int) bool {
	if depth > 4 {
		return false
	}
	info := ctx.Pkg.TypesInfo
	e = ast.Unparen(e)
	if v := pkgVar(info, e); v != nil {
		// initialiser of the rule variable
		pk := p.ByPath[v.Pkg().Path()]
		if pk == nil {
			return false
		}
		for _, f := range pk.Syntax {
			for _, d := range f.Decls {
				gd, ok := d.(*ast.GenDecl)
				if !ok {
					continue
				}
				for _, sp := range gd.Specs {
					vs, ok := sp.(*ast.ValueSpec)
					if !ok {
						continue
					}
					for i, nm := range vs.Names {
						if pk.TypesInfo.Defs[nm] == v && i < len(vs.Values) {
							return membershipOver(p, &core.FuncDecl{Pkg: pk}, vs.Values[i], table, depth+1)
						}
					}
				}
			}
		}
		return false
	}
	call, ok := e.(*ast.CallExpr)
	if !ok {
		return false
	}
	fn := core.Callee(info, call)
	if fn == nil || fn.Pkg() == nil {
		return false
	}
	usesTable := func(n ast.Node, inf *types.Info) bool {
		res := false
		ast.Inspect(n, func(m ast.Node) bool {
			if ex, ok := m.(ast.Expr); ok && pkgVar(inf, ex) == table {
				res = true
			}
			return true
		})
		return res
	}
	if fn.Pkg().Path() == "github.com/invopop/validation" && fn.Name() == "In" {
		// arguments derive from the table
		for _, a := range call.Args {
			if usesTable(a, info) {
				return true
			}
			if ac, ok := ast.Unparen(a).(*ast.CallExpr); ok {
				if g := core.Callee(info, ac); g != nil {
					if gfd := p.DeclOf(g); gfd != nil && usesTable(gfd.Decl.Body, gfd.Pkg.TypesInfo) {
						return true
					}
				}
			}
		}
		return false
	}
	if core.InModule(fn.Pkg()) {
		// helper(table) returning validation.In(...)
		passes := false
		for _, a := range call.Args {
			if pkgVar(info, a) == table {
				passes = true
			}
		}
		if !passes {
			return false
		}
		hfd := p.DeclOf(fn)
		if hfd == nil {
			return false
		}
		isIn := false
		ast.Inspect(hfd.Decl.Body, func(m ast.Node) bool {
			if r, ok := m.(*ast.ReturnStmt); ok && len(r.Results) == 1 {
				if rc, ok := ast.Unparen(r.Results[0]).(*ast.CallExpr); ok {
					if f := core.Callee(hfd.Pkg.TypesInfo, rc); f != nil && f.Pkg() != nil && f.Pkg().Path() == "github.com/invopop/validation" && f.Name() == "In" {
						isIn = true
					}
				}
			}
			return true
		})
		return isIn
	}
	return false
}

// c11SkipPattern — C11-R2 (bypass clause): a type's own validator must not
// skip, conditionally or not, a member whose type publishes a pattern: under
// the skip the library accepts text that the published pattern rejects.
func c11SkipPattern(c *core.Ctx) {
	p := c.P
	patterned := map[*types.TypeName]bool{}
	for _, fd := range p.AllFuncs() {
		if fd.Obj.Name() != "JSONSchema" || core.RecvNamed(fd.Obj) == nil {
			continue
		}
		has := false
		ast.Inspect(fd.Decl.Body, func(n ast.Node) bool {
			if kv, ok := n.(*ast.KeyValueExpr); ok {
				if id, ok := kv.Key.(*ast.Ident); ok && id.Name == "Pattern" {
					has = true
				}
			}
			return true
		})
		if has {
			patterned[core.RecvNamed(fd.Obj).Obj()] = true
		}
	}
	n := 0
	for _, fd := range p.AllFuncs() {
		if (fd.Obj.Name() != "Validate" && fd.Obj.Name() != "ValidateWithContext") || fd.Decl.Recv == nil {
			continue
		}
		if p.IsTestFile(fd.Decl.Pos()) {
			continue
		}
		recvT := core.RecvNamed(fd.Obj)
		if recvT == nil {
			continue
		}
		info := fd.Pkg.TypesInfo
		recv := recvVar(fd)
		for _, sv := range core.StructValidations(info, fd.Decl.Body) {
			if sv.Target != recv {
				continue
			}
			for _, fr := range sv.Fields {
				ft := fr.Field.Type()
				if pt, ok := ft.(*types.Pointer); ok {
					ft = pt.Elem()
				}
				nt, ok := ft.(*types.Named)
				if !ok || !patterned[nt.Obj()] {
					continue
				}
				n++
				skip := ""
				if fr.Cond != nil {
					skip = "a condition on the listing itself (" + types.ExprString(fr.Cond) + ")"
				}
				for _, r := range fr.Rules {
					r = ast.Unparen(r)
					if core.IsValidationVar(info, r, "Skip") {
						skip = "validation.Skip"
					}
					if call, ok := r.(*ast.CallExpr); ok {
						if se, ok := call.Fun.(*ast.SelectorExpr); ok && se.Sel.Name == "When" && core.IsValidationVar(info, se.X, "Skip") {
							skip = "validation.Skip.When(" + types.ExprString(call.Args[0]) + ")"
						}
					}
				}
				c.Ob("C11-R2", fmt.Sprintf("%s.%s#not-skipped", core.TypeName(recvT), fr.Field.Name()), fr.Call.Pos(), skip == "",
					fmt.Sprintf("%s lists %s with %s: under it the member's own validator (pattern of %s) is not applied, so the library accepts text the published pattern rejects", fd.Name(), fr.Field.Name(), skip, core.TypeName(nt)))
			}
		}
	}
	c.Extra("patterned_members_in_own_validators", n)
}
