package props

import (
	"fmt"
	"go/ast"
	"go/token"
	"go/types"
	"sort"
	"strings"

	"goblcheck/core"
)

// c03CopySiblings — C03-R10: Invoice, Order and Delivery implement the same
// operations on a shallow copy of the receiver (`d2 := *doc`, members replaced,
// `d2.Calculate()`). The calculation re-uses an existing totals object
// (getTotals → reset → fill), so a copy that still points at the source's
// totals has the new figures written into the source document, whose presented
// lines and totals then no longer belong together. The siblings are compared:
// a member that two of them replace on the copy before recalculating is
// replaced by every sibling whose type has it.
func c03CopySiblings(c *core.Ctx) {
	p := c.P
	c.Rule("C03-R10", "sibling document operations on a shallow copy detach the same members before recalculating", 6)
	type impl struct {
		fd       *core.FuncDecl
		recv     *types.Named
		replaced map[string]bool
		copyPos  token.Pos
	}
	byName := map[string][]*impl{}
	for _, tn := range []string{"Invoice", "Order", "Delivery", "Payment"} {
		n := p.Named("bill", tn)
		if n == nil {
			continue
		}
		for _, fd := range p.Funcs(p.Pkg("bill")) {
			if core.RecvNamed(fd.Obj) != n || fd.Decl.Body == nil || p.IsTestFile(fd.Decl.Pos()) {
				continue
			}
			info := fd.Pkg.TypesInfo
			recv := recvVar(fd)
			var cp *types.Var
			var cpPos token.Pos
			ast.Inspect(fd.Decl.Body, func(m ast.Node) bool {
				as, ok := m.(*ast.AssignStmt)
				if !ok || as.Tok != token.DEFINE || len(as.Lhs) != 1 || len(as.Rhs) != 1 {
					return true
				}
				st, ok := ast.Unparen(as.Rhs[0]).(*ast.StarExpr)
				if !ok || core.VarOf(info, st.X) != recv {
					return true
				}
				if id, ok := as.Lhs[0].(*ast.Ident); ok {
					cp, _ = info.Defs[id].(*types.Var)
					cpPos = as.Pos()
				}
				return true
			})
			if cp == nil {
				continue
			}
			// recalculated afterwards?
			recalcs := false
			ast.Inspect(fd.Decl.Body, func(m ast.Node) bool {
				if call, ok := m.(*ast.CallExpr); ok {
					if re := core.RecvExpr(call); re != nil && core.RootVar(info, re) == cp {
						if fn := core.Callee(info, call); fn != nil && strings.HasPrefix(fn.Name(), "Calculate") {
							recalcs = true
						}
					}
				}
				return true
			})
			if !recalcs {
				continue
			}
			im := &impl{fd: fd, recv: n, replaced: map[string]bool{}, copyPos: cpPos}
			ast.Inspect(fd.Decl.Body, func(m ast.Node) bool {
				as, ok := m.(*ast.AssignStmt)
				if !ok {
					return true
				}
				for _, l := range as.Lhs {
					if se, ok := ast.Unparen(l).(*ast.SelectorExpr); ok && core.VarOf(info, se.X) == cp {
						if f := core.FieldOf(info, se); f != nil {
							im.replaced[f.Name()] = true
						}
					}
				}
				return true
			})
			byName[fd.Obj.Name()] = append(byName[fd.Obj.Name()], im)
		}
	}
	hasField := func(n *types.Named, name string) bool {
		st, ok := n.Underlying().(*types.Struct)
		if !ok {
			return false
		}
		for i := 0; i < st.NumFields(); i++ {
			if st.Field(i).Name() == name {
				return true
			}
		}
		return false
	}
	var names []string
	for nm := range byName {
		names = append(names, nm)
	}
	sort.Strings(names)
	n := 0
	for _, nm := range names {
		ims := byName[nm]
		if len(ims) < 2 {
			continue
		}
		count := map[string]int{}
		for _, im := range ims {
			for f := range im.replaced {
				count[f]++
			}
		}
		var fields []string
		for f, k := range count {
			if k >= 2 {
				fields = append(fields, f)
			}
		}
		sort.Strings(fields)
		for _, im := range ims {
			for _, f := range fields {
				if !hasField(im.recv, f) {
					continue
				}
				n++
				c.Ob("C03-R10", fmt.Sprintf("%s#detaches:%s", im.fd.Name(), f), im.copyPos, im.replaced[f],
					fmt.Sprintf("%s works on a shallow copy of the receiver and recalculates it, but does not replace the copy's %s as its %d sibling implementations do: the copy still shares the source's %s, and what the recalculation writes there is written into the source document", im.fd.Name(), f, count[f], f))
			}
		}
	}
	c.Ob("C03-R10", "siblings#found", token.NoPos, n >= 6, fmt.Sprintf("only %d member replacements on shallow copies were found among sibling operations (ConvertInto of Invoice, Order and Delivery expected)", n))
}

// c03DefaultsKeepInput — C03-R11: a regime or addon normaliser that supplies a
// default for a member of an optional object (prices-include for tickets, …)
// creates the object only when the document has none. Replacing an object
// that may exist drops what the document said in it — the rounding rule of
// the tax object, say, so the calculation silently runs under another rule
// than the one requested. Decided: every assignment of a freshly made object
// to a pointer member of a document structure, in packages regimes/** and
// addons/**, stands where that member is known to be nil.
func c03DefaultsKeepInput(c *core.Ctx) {
	p := c.P
	c.Rule("C03-R11", "normalisers create an optional object of the document only where it is known to be missing", 4)
	m := &memberCheck{c: c, p: p, ctxs: map[*ast.BlockStmt]*bodyCtx{}}
	n := 0
	for _, fd := range p.AllFuncs() {
		if p.IsTestFile(fd.Decl.Pos()) || fd.Decl.Body == nil {
			continue
		}
		rel := core.RelPkg(fd.Obj.Pkg().Path())
		if !strings.HasPrefix(rel, "regimes/") && !strings.HasPrefix(rel, "addons/") {
			continue
		}
		info := fd.Pkg.TypesInfo
		idx := map[string]int{}
		ld := core.NewLocalDefs(info, fd.Decl.Body)
		ast.Inspect(fd.Decl.Body, func(nd ast.Node) bool {
			as, ok := nd.(*ast.AssignStmt)
			if !ok || len(as.Lhs) != len(as.Rhs) {
				return true
			}
			for i, l := range as.Lhs {
				if docMember(info, l) == nil {
					continue
				}
				// rooted at a parameter (the document handed in), not at something made here
				if !rootedAtInput(fd, ld, l, 0) {
					continue
				}
				rhs := ast.Unparen(as.Rhs[i])
				fresh := false
				if u, ok := rhs.(*ast.UnaryExpr); ok && u.Op == token.AND {
					_, fresh = ast.Unparen(u.X).(*ast.CompositeLit)
				}
				if call, ok := rhs.(*ast.CallExpr); ok {
					if id, ok := call.Fun.(*ast.Ident); ok && id.Name == "new" {
						fresh = true
					}
				}
				if !fresh {
					continue
				}
				n++
				want := exprKey(l)
				idx[want]++
				b := m.ctxAt(fd, as)
				c.Ob("C03-R11", fmt.Sprintf("%s#creates:%s%d", fd.Name(), want, idx[want]), as.Pos(), b.knownNil(as, want),
					fmt.Sprintf("%s is replaced by a new object where it is not known to be nil: a document that has the object loses everything it said in it (for the tax object: the requested rounding rule, the included category, the extensions) before the calculation reads it", want))
			}
			return true
		})
	}
	c.Ob("C03-R11", "creations#found", token.NoPos, n >= 4, fmt.Sprintf("only %d creations of optional document objects were found in regime and addon packages", n))
}

// rootedAtInput: the expression is rooted at a parameter or the receiver, directly or
// through locals and range variables that were taken from one.
func rootedAtInput(fd *core.FuncDecl, ld *core.LocalDefs, e ast.Expr, depth int) bool {
	info := fd.Pkg.TypesInfo
	root := core.RootVar(info, e)
	if root == nil || depth > 4 {
		return false
	}
	if isParamOf(fd, root) {
		return true
	}
	ds := ld.All(root)
	if len(ds) == 0 {
		return false
	}
	for _, d := range ds {
		if rs, ok := d.Stmt.(*ast.RangeStmt); ok {
			if !rootedAtInput(fd, ld, rs.X, depth+1) {
				return false
			}
			continue
		}
		if d.RHS == nil || !rootedAtInput(fd, ld, d.RHS, depth+1) {
			return false
		}
	}
	return true
}

func isParamOf(fd *core.FuncDecl, v *types.Var) bool {
	sig := fd.Obj.Type().(*types.Signature)
	if sig.Recv() == v {
		return true
	}
	for i := 0; i < sig.Params().Len(); i++ {
		if sig.Params().At(i) == v {
			return true
		}
	}
	return false
}

// knownNil: the expression spelled `want` is known to be nil at the node.
func (b *bodyCtx) knownNil(at ast.Node, want string) bool {
	cn := b.flow.EnclosingNode(at)
	if cn == nil {
		return false
	}
	for leaf, val := range b.flow.CondsAt(cn) {
		g := core.GuardOf(b.info, leaf, b.errs)
		if (g.Kind == "nil" || g.Kind == "err") && g.X != nil && exprKey(g.X) == want && val != g.Neg {
			return true
		}
	}
	return false
}

// c03AdvancePrecision — C03-R12: advances are the one kind of amount the
// calculation sums as stored (PaymentDetails.totalAdvance adds a.Amount and
// only then lowers it to the currency's decimals for presentation; lines,
// discounts and charges are recomputed and rounded by the rule first). A
// fixed advance that is rewritten outside the calculation — currency
// conversion — must therefore come back at the precision it had: every
// Upscale(k) in the expression assigned to an advance's Amount is undone by a
// Downscale(k) of the same k, or the hidden decimals enter totals.advance and
// the presented advances no longer add up to it.
func c03AdvancePrecision(c *core.Ctx) {
	p := c.P
	c.Rule("C03-R12", "a fixed advance rewritten outside the calculation returns to the precision it had", 1)
	n := 0
	for _, fd := range p.Funcs(p.Pkg("bill")) {
		if p.IsTestFile(fd.Decl.Pos()) || fd.Decl.Body == nil {
			continue
		}
		info := fd.Pkg.TypesInfo
		idx := 0
		ast.Inspect(fd.Decl.Body, func(nd ast.Node) bool {
			as, ok := nd.(*ast.AssignStmt)
			if !ok || len(as.Lhs) != len(as.Rhs) {
				return true
			}
			for i, l := range as.Lhs {
				se, ok := ast.Unparen(l).(*ast.SelectorExpr)
				if !ok || se.Sel.Name != "Amount" {
					continue
				}
				t := info.TypeOf(se.X)
				if t == nil {
					continue
				}
				if pt, ok := t.Underlying().(*types.Pointer); ok {
					t = pt.Elem()
				}
				if core.TypeString(t) != "pay.Advance" {
					continue
				}
				ups, downs := map[string]int{}, map[string]int{}
				ast.Inspect(as.Rhs[i], func(m ast.Node) bool {
					if call, ok := m.(*ast.CallExpr); ok && len(call.Args) == 1 {
						if fn := core.Callee(info, call); isAmountMethod(fn, "Upscale") {
							ups[constOrText(info, call.Args[0])]++
						} else if isAmountMethod(fn, "Downscale") {
							downs[constOrText(info, call.Args[0])]++
						}
					}
					return true
				})
				if len(ups) == 0 {
					continue
				}
				n++
				idx++
				ok = true
				for k, v := range ups {
					if downs[k] != v {
						ok = false
					}
				}
				c.Ob("C03-R12", fmt.Sprintf("%s#advance-amount%d", fd.Name(), idx), as.Pos(), ok,
					"the advance's amount is raised in precision (Upscale) and not lowered again by the same number of decimals: totalAdvance adds advances as stored, so the hidden decimals enter totals.advance and due while each advance is presented rounded — the presented advances no longer add up to the presented total")
			}
			return true
		})
	}
	c.Ob("C03-R12", "advance-rewrites#found", token.NoPos, n >= 1, "no rewriting of an advance's amount with raised precision was found in package bill (convertPaymentDetailsInto expected)")
}

func constOrText(info *types.Info, e ast.Expr) string {
	if tv, ok := info.Types[e]; ok && tv.Value != nil {
		return tv.Value.ExactString()
	}
	if id, ok := ast.Unparen(e).(*ast.Ident); ok {
		if v, ok := info.Uses[id].(*types.Var); ok {
			return fmt.Sprintf("var:%s@%d", v.Name(), v.Pos())
		}
	}
	return types.ExprString(e)
}
