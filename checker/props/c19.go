package props

import (
	"archive/zip"
	"encoding/json"
	"fmt"
	"go/ast"
	"go/token"
	"go/types"
	"os"
	"path/filepath"
	"regexp"
	"runtime"
	"sort"
	"strings"

	"goblcheck/core"
	"golang.org/x/tools/go/packages"
)

func init() { register("C19", C19) }

type defFile struct {
	Schema     string   `json:"$schema"`
	Key        string   `json:"key"`
	Country    string   `json:"country"`
	AltCountry []string `json:"alt_country_codes"`
	Requires   []string `json:"requires"`
	Rounding   string   `json:"calculator_rounding_rule"`
	Currency   string   `json:"currency"`
	TimeZone   string   `json:"time_zone"`
	Tags       []struct {
		Schema string `json:"schema"`
		List   []struct {
			Key string `json:"key"`
		} `json:"list"`
	} `json:"tags"`
	Extensions []struct {
		Key string `json:"key"`
	} `json:"extensions"`
	Scenarios []struct {
		Schema string `json:"schema"`
		List   []struct {
			Tags    []string          `json:"tags"`
			Types   []string          `json:"type"`
			ExtKey  string            `json:"ext_key"`
			Ext     map[string]string `json:"ext"`
			Filter  any               `json:"-"`
			Codes   map[string]string `json:"codes"`
			Note    any               `json:"note"`
			CatExts []string          `json:"-"`
		} `json:"list"`
	} `json:"scenarios"`
	Corrections []struct {
		Schema     string   `json:"schema"`
		Types      []string `json:"types"`
		Extensions []string `json:"extensions"`
	} `json:"corrections"`
	Categories []struct {
		Code       string   `json:"code"`
		Extensions []string `json:"extensions"`
		Rates      []struct {
			Key string            `json:"key"`
			Ext map[string]string `json:"ext"`
		} `json:"rates"`
	} `json:"categories"`
}

func loadDef(file string) (*defFile, error) {
	b, err := readSubjectFile(file)
	if err != nil {
		return nil, err
	}
	d := new(defFile)
	return d, json.Unmarshal(b, d)
}

// C19 — published definition files are what the code defines, and are coherent.
func C19(c *core.Ctx) {
	p := c.P
	c.Explain("Decided: (R1) every rate table of the code (folded from source without running init) equals the table in data/regimes/*.json, value for value; (R2) exhaustiveness both ways — every regime, addon and catalogue definition literal has its data file and every data file its definition; regimes/regimes.go and addons/addons.go import every package that registers one (an unimported regime is silently absent); every schema registration has its data/schemas file and vice versa; data.Content embeds all five directories; (R3) coherence of the published definitions: currency is a defined currency, time zone exists in the Go time zone database, correction types are invoice types, correction and category extension keys, scenario extension keys and rate extension keys are defined by some regime, addon or catalogue, and every tag a scenario filters on is offered by the definition itself, by the common invoice tags or — for an addon — by the regime of its country; (R4) definition self-validation lists every field of RegimeDef and AddonDef (listed exceptions are reported in evidence). Not decided: byte equality of regenerated files with data/ (needs the generators to run).")
	c.Rule("C19-R1", "code rate tables equal data/regimes/*.json", 15)
	c.Rule("C19-R2", "definitions ↔ data files ↔ imports ↔ embeds, both ways", 60)
	c.Rule("C19-R3", "published definitions refer only to defined currencies, zones, types, extensions and tags", 60)
	c.Rule("C19-R4", "definition self-validation covers every field", 20)
	tables := c12TablesQuiet(c)
	c12CodeVsData(c, "C19-R1", tables)
	c19Files(c)
	c19Coherence(c)
	c19SchemaEnums(c)
	c11CurrencyEnum(c, "C19-R7")
	shareDefinitionsImmutable(c, "C19-R6", "the registered definitions are not rewritten at run time, so what the library enforces stays what was published (shared with C15-R2/R4)")
	c19SelfValidation(c)
	_ = p
}

// c12TablesQuiet folds the rate tables without recording C12 obligations.
func c12TablesQuiet(c *core.Ctx) []*rateTable {
	sub := core.NewCtx("C12", c.Tier, c.Seed, c.P, c.VerifDir)
	sub.Quiet = true
	return c12Tables(sub)
}

// foldedDefs finds composite literals of a definition type in a package family
// and folds the constant string field given.
func foldedDefs(p *core.Program, prefix, typeName, field string) map[string]*packages.Package {
	out := map[string]*packages.Package{}
	folder := &core.Folder{P: p}
	for _, pk := range p.Pkgs {
		rel := core.RelPkg(pk.PkgPath)
		if !strings.HasPrefix(rel, prefix) {
			continue
		}
		for _, file := range pk.Syntax {
			if p.IsTestFile(file.Pos()) {
				continue
			}
			ast.Inspect(file, func(n ast.Node) bool {
				cl, ok := n.(*ast.CompositeLit)
				if !ok || !litTypeIs(pk.TypesInfo, cl, typeName) {
					return true
				}
				for _, el := range cl.Elts {
					if kv, ok := el.(*ast.KeyValueExpr); ok {
						if id, ok := kv.Key.(*ast.Ident); ok && id.Name == field {
							if s, ok := folder.Fold(pk, kv.Value).(string); ok {
								out[s] = pk
							}
						}
					}
				}
				return false
			})
		}
	}
	return out
}

func c19Files(c *core.Ctx) {
	p := c.P
	type family struct {
		prefix, typ, field, dir string
		aggregator              string
		lower                   bool
	}
	for _, f := range []family{
		{"regimes/", "tax.RegimeDef", "Country", "regimes", "regimes", true},
		{"addons/", "tax.AddonDef", "Key", "addons", "addons", false},
		{"catalogues/", "tax.CatalogueDef", "Key", "catalogues", "catalogues", false},
	} {
		defs := foldedDefs(p, f.prefix, f.typ, f.field)
		if f.dir == "catalogues" {
			// catalogues are loaded from their data file: tax.RegisterCatalogueDef("<file>.json")
			for _, pk := range p.Pkgs {
				if !strings.HasPrefix(core.RelPkg(pk.PkgPath), f.prefix) {
					continue
				}
				for _, fd := range p.Funcs(pk) {
					for _, call := range core.CallsTo(pk.TypesInfo, fd.Decl.Body, func(fn *types.Func) bool { return fn.Name() == "RegisterCatalogueDef" }) {
						if s, ok := foldString(pk.TypesInfo, call.Args[0]); ok {
							defs[strings.TrimSuffix(s, ".json")] = pk
						}
					}
				}
			}
		}
		files, _ := filepath.Glob(filepath.Join(p.Repo, "data", f.dir, "*.json"))
		have := map[string]bool{}
		for _, fl := range files {
			have[strings.TrimSuffix(filepath.Base(fl), ".json")] = true
		}
		var keys []string
		for k := range defs {
			keys = append(keys, k)
		}
		sort.Strings(keys)
		want := map[string]bool{}
		for _, k := range keys {
			name := k
			if f.lower {
				name = strings.ToLower(k)
			}
			want[name] = true
			c.ObAt("C19-R2", fmt.Sprintf("%s:%s#data-file", f.dir, k), "data/"+f.dir+"/"+name+".json", have[name],
				fmt.Sprintf("the %s definition %s (package %s) has no published file data/%s/%s.json", f.typ, k, core.RelPkg(defs[k].PkgPath), f.dir, name))
		}
		var fnames []string
		for n := range have {
			fnames = append(fnames, n)
		}
		sort.Strings(fnames)
		for _, n := range fnames {
			c.ObAt("C19-R2", fmt.Sprintf("data/%s/%s.json#definition", f.dir, n), "data/"+f.dir+"/"+n+".json", want[n],
				fmt.Sprintf("published file data/%s/%s.json has no %s definition in the code: consumers see a definition the library does not have", f.dir, n, f.typ))
		}
		if len(keys) < 3 {
			c.Ob("C19-R2", "UNRESOLVED:"+f.dir, token.NoPos, false, fmt.Sprintf("only %d %s literals folded", len(keys), f.typ))
		}
		// aggregator imports every defining package
		agg := p.Pkg(f.aggregator)
		if agg == nil {
			c.Ob("C19-R2", "UNRESOLVED:aggregator:"+f.aggregator, token.NoPos, false, "aggregator package not loaded")
			continue
		}
		imports := map[string]bool{}
		var walk func(pk *packages.Package, depth int)
		seen := map[string]bool{}
		walk = func(pk *packages.Package, depth int) {
			if seen[pk.PkgPath] || depth > 3 {
				return
			}
			seen[pk.PkgPath] = true
			for path, ip := range pk.Imports {
				if strings.HasPrefix(path, core.ModPath+"/"+f.prefix) {
					imports[path] = true
					walk(ip, depth+1)
				}
			}
		}
		walk(agg, 0)
		pkgsSeen := map[string]bool{}
		for _, k := range keys {
			pk := defs[k]
			if pkgsSeen[pk.PkgPath] {
				continue
			}
			pkgsSeen[pk.PkgPath] = true
			c.Ob("C19-R2", fmt.Sprintf("%s#imports:%s", f.aggregator, core.RelPkg(pk.PkgPath)), token.NoPos, imports[pk.PkgPath],
				fmt.Sprintf("package %s defines %s but is not imported by %s: the definition is silently absent from the library", core.RelPkg(pk.PkgPath), k, f.aggregator))
		}
	}
	// root package imports the aggregators
	if root := p.Pkg(""); root != nil {
		for _, a := range []string{"regimes", "addons", "catalogues"} {
			_, ok := root.Imports[core.ModPath+"/"+a]
			c.Ob("C19-R2", "gobl#imports:"+a, token.NoPos, ok, "the root package does not import "+a)
		}
	}
	// embed directive
	if dp := p.Pkg("data"); dp != nil {
		embedded := ""
		for _, file := range dp.Syntax {
			for _, cg := range file.Comments {
				for _, cm := range cg.List {
					if strings.HasPrefix(cm.Text, "//go:embed") {
						embedded += " " + strings.TrimPrefix(cm.Text, "//go:embed")
					}
				}
			}
		}
		for _, d := range []string{"currency", "regimes", "schemas", "addons", "catalogues"} {
			ok := false
			for _, w := range strings.Fields(embedded) {
				if w == d {
					ok = true
				}
			}
			c.Ob("C19-R2", "data.Content#embeds:"+d, token.NoPos, ok, "data/"+d+" is not embedded in data.Content: the CLI cannot serve it")
		}
	}
	// schemas: registrations ↔ files
	c19Schemas(c)
}

var snakeRe1 = regexp.MustCompile("(.)([A-Z][a-z]+)")
var snakeRe2 = regexp.MustCompile("([a-z0-9])([A-Z])")

func snake(s string) string {
	s = snakeRe1.ReplaceAllString(s, "${1}-${2}")
	s = snakeRe2.ReplaceAllString(s, "${1}-${2}")
	return strings.ToLower(s)
}

func c19Schemas(c *core.Ctx) {
	p := c.P
	folder := &core.Folder{P: p}
	regs := p.RegisteredTypes()
	want := map[string]string{}
	for _, r := range regs {
		if r.Func == "RegisterIn" {
			continue // anchored inside another schema file
		}
		// base: schema.GOBL.Add("x") → "x"; schema.GOBL → ""
		base := ""
		if call, ok := ast.Unparen(r.Call.Args[0]).(*ast.CallExpr); ok && len(call.Args) == 1 {
			if s, ok := folder.Fold(p.ByPath[r.Named.Obj().Pkg().Path()], call.Args[0]).(string); ok {
				base = s
			} else if s, ok := foldString(r.Info, call.Args[0]); ok {
				base = s
			} else {
				c.Undecided("C19-R2", "schema:"+core.TypeName(r.Named)+"#base", r.Pos, "registration base is not a constant")
				continue
			}
		}
		name := snake(r.Named.Obj().Name())
		rel := filepath.Join(base, name+".json")
		want[rel] = core.TypeName(r.Named)
	}
	root := filepath.Join(p.Repo, "data", "schemas")
	have := map[string]bool{}
	filepath.Walk(root, func(path string, info os.FileInfo, err error) error {
		if err == nil && !info.IsDir() && strings.HasSuffix(path, ".json") {
			rel, _ := filepath.Rel(root, path)
			have[rel] = true
		}
		return nil
	})
	var ws []string
	for w := range want {
		ws = append(ws, w)
	}
	sort.Strings(ws)
	for _, w := range ws {
		c.ObAt("C19-R2", "schema:"+want[w]+"#file", "data/schemas/"+w, have[w], fmt.Sprintf("registered type %s has no published schema file data/schemas/%s", want[w], w))
	}
	var hs []string
	for h := range have {
		hs = append(hs, h)
	}
	sort.Strings(hs)
	for _, h := range hs {
		_, ok := want[h]
		c.ObAt("C19-R2", "data/schemas/"+h+"#registration", "data/schemas/"+h, ok, "published schema file has no registered type in the code")
	}
	if len(ws) < 40 {
		c.Ob("C19-R2", "UNRESOLVED:schemas", token.NoPos, false, fmt.Sprintf("only %d schema registrations resolved", len(ws)))
	}
}

// zoneNames lists the time zone database: Go's zoneinfo.zip when the toolchain
// ships it, otherwise the system's /usr/share/zoneinfo.
func zoneNames() map[string]bool {
	out := map[string]bool{}
	for _, zf := range []string{filepath.Join(runtime.GOROOT(), "lib", "time", "zoneinfo.zip"), "/usr/local/go/lib/time/zoneinfo.zip", "/opt/veriftools/go1.26.8/lib/time/zoneinfo.zip"} {
		if r, err := zip.OpenReader(zf); err == nil {
			for _, f := range r.File {
				out[f.Name] = true
			}
			r.Close()
			if len(out) > 0 {
				return out
			}
		}
	}
	root := "/usr/share/zoneinfo"
	filepath.Walk(root, func(path string, info os.FileInfo, err error) error {
		if err == nil && !info.IsDir() {
			if rel, e := filepath.Rel(root, path); e == nil {
				out[rel] = true
			}
		}
		return nil
	})
	return out
}

func c19Coherence(c *core.Ctx) {
	p := c.P
	// registries from the published files
	currencies := map[string]bool{}
	if b, err := os.ReadFile(filepath.Join(p.Repo, "data", "currency", "currencies.json")); err == nil {
		var doc struct {
			List []struct {
				ISO string `json:"iso"`
			} `json:"list"`
		}
		var arr []struct {
			ISO string `json:"iso"`
		}
		if json.Unmarshal(b, &doc) == nil && len(doc.List) > 0 {
			for _, d := range doc.List {
				currencies[d.ISO] = true
			}
		} else if json.Unmarshal(b, &arr) == nil {
			for _, d := range arr {
				currencies[d.ISO] = true
			}
		}
	}
	if len(currencies) == 0 {
		files, _ := filepath.Glob(filepath.Join(p.Repo, "data", "currency", "*.json"))
		for _, f := range files {
			b, _ := os.ReadFile(f)
			re := regexp.MustCompile(`"iso_code"\s*:\s*"([A-Z]{3})"|"iso"\s*:\s*"([A-Z]{3})"|"code"\s*:\s*"([A-Z]{3})"`)
			for _, m := range re.FindAllStringSubmatch(string(b), -1) {
				for _, g := range m[1:] {
					if g != "" {
						currencies[g] = true
					}
				}
			}
		}
	}
	c.Extra("currencies_published", len(currencies))
	zones := zoneNames()
	c.Extra("time_zones_known", len(zones))
	invoiceTypes := map[string]bool{}
	folder := &core.Folder{P: p}
	if bp := p.Pkg("bill"); bp != nil {
		if o := bp.Types.Scope().Lookup("InvoiceTypes"); o != nil {
			if list, ok := folder.Fold(bp, &ast.Ident{Name: "InvoiceTypes"}).([]any); ok {
				_ = list
			}
		}
		for _, file := range bp.Syntax {
			ast.Inspect(file, func(n ast.Node) bool {
				vs, ok := n.(*ast.ValueSpec)
				if !ok {
					return true
				}
				for i, nm := range vs.Names {
					if nm.Name == "InvoiceTypes" && i < len(vs.Values) {
						if list, ok := folder.Fold(bp, vs.Values[i]).([]any); ok {
							for _, e := range list {
								if fs, ok := e.(*core.FStruct); ok {
									if k, ok := fs.Fields["Key"].(string); ok {
										invoiceTypes[k] = true
									}
								}
							}
						}
					}
				}
				return true
			})
		}
	}
	c.Extra("invoice_types", len(invoiceTypes))
	type def struct {
		kind, name string
		d          *defFile
	}
	var defs []def
	extDefined := map[string]string{}
	for _, kind := range []string{"regimes", "addons", "catalogues"} {
		files, _ := filepath.Glob(filepath.Join(p.Repo, "data", kind, "*.json"))
		sort.Strings(files)
		for _, f := range files {
			d, err := loadDef(f)
			name := strings.TrimSuffix(filepath.Base(f), ".json")
			if err != nil {
				c.ObAt("C19-R3", "data/"+kind+"/"+name+"#parses", "data/"+kind+"/"+name+".json", false, "cannot parse: "+err.Error())
				continue
			}
			defs = append(defs, def{kind, name, d})
			for _, e := range d.Extensions {
				extDefined[e.Key] = kind + "/" + name
			}
		}
	}
	commonTags := map[string]bool{}
	// the common invoice tag set, folded from regimes/common
	if cp := p.Pkg("regimes/common"); cp != nil {
		for _, file := range cp.Syntax {
			ast.Inspect(file, func(n ast.Node) bool {
				cl, ok := n.(*ast.CompositeLit)
				if !ok || !litTypeIs(cp.TypesInfo, cl, "tax.TagSet") {
					return true
				}
				if fs, ok := folder.Fold(cp, cl).(*core.FStruct); ok {
					if list, ok := fs.Fields["List"].([]any); ok {
						for _, e := range list {
							if es, ok := e.(*core.FStruct); ok {
								if k, ok := es.Fields["Key"].(string); ok {
									commonTags[k] = true
								}
							}
						}
					}
				}
				return true
			})
		}
	}
	c.Extra("common_invoice_tags", len(commonTags))
	regimeTags := map[string]map[string]bool{}
	for _, df := range defs {
		if df.kind != "regimes" {
			continue
		}
		m := map[string]bool{}
		for _, ts := range df.d.Tags {
			for _, t := range ts.List {
				m[t.Key] = true
			}
		}
		regimeTags[df.name] = m
		for _, alt := range df.d.AltCountry {
			if _, has := regimeTags[strings.ToLower(alt)]; !has {
				regimeTags[strings.ToLower(alt)] = m
			}
		}
	}
	addonKeys := map[string]bool{}
	for _, df := range defs {
		if df.kind == "addons" {
			addonKeys[df.name] = true
		}
	}
	roundingRules := map[string]bool{}
	if tp := p.Pkg("tax"); tp != nil {
		for _, file := range tp.Syntax {
			ast.Inspect(file, func(n ast.Node) bool {
				vs, ok := n.(*ast.ValueSpec)
				if !ok {
					return true
				}
				for i, nm := range vs.Names {
					if nm.Name == "RoundingRules" && i < len(vs.Values) {
						if list, ok := folder.Fold(tp, vs.Values[i]).([]any); ok {
							for _, e := range list {
								if fs, ok := e.(*core.FStruct); ok {
									if k, ok := fs.Fields["Key"].(string); ok {
										roundingRules[k] = true
									}
								}
							}
						}
					}
				}
				return true
			})
		}
	}
	for _, df := range defs {
		file := "data/" + df.kind + "/" + df.name + ".json"
		key := df.kind + "/" + df.name
		if df.kind == "addons" {
			var bad []string
			for _, r := range df.d.Requires {
				if !addonKeys[r] {
					bad = append(bad, r)
				}
			}
			c.ObAt("C19-R3", key+"#requires", file, len(bad) == 0, "the addon requires addons that are not defined: "+strings.Join(bad, ", "))
		}
		if df.kind == "regimes" && df.d.Rounding != "" {
			c.ObAt("C19-R3", key+"#rounding-rule", file, roundingRules[df.d.Rounding], fmt.Sprintf("the regime's calculator rounding rule %q is not a defined rounding rule", df.d.Rounding))
		}
		if df.kind == "regimes" {
			c.ObAt("C19-R3", key+"#currency", file, currencies[df.d.Currency], fmt.Sprintf("regime currency %q is not a published currency", df.d.Currency))
			c.ObAt("C19-R3", key+"#time-zone", file, zones[df.d.TimeZone], fmt.Sprintf("regime time zone %q does not exist in the time zone database", df.d.TimeZone))
		}
		own := map[string]bool{}
		for _, ts := range df.d.Tags {
			for _, t := range ts.List {
				own[t.Key] = true
			}
		}
		for _, cor := range df.d.Corrections {
			var bad []string
			for _, t := range cor.Types {
				if !invoiceTypes[t] {
					bad = append(bad, t)
				}
			}
			c.ObAt("C19-R3", key+"#correction-types", file, len(bad) == 0 && len(invoiceTypes) > 0, "correction types that are not invoice types: "+strings.Join(bad, ", "))
			bad = nil
			for _, e := range cor.Extensions {
				if _, ok := extDefined[e]; !ok {
					bad = append(bad, e)
				}
			}
			c.ObAt("C19-R3", key+"#correction-extensions", file, len(bad) == 0, "correction extension keys defined nowhere: "+strings.Join(bad, ", "))
		}
		var badExt []string
		for _, cat := range df.d.Categories {
			for _, e := range cat.Extensions {
				if _, ok := extDefined[e]; !ok {
					badExt = append(badExt, cat.Code+":"+e)
				}
			}
			for _, r := range cat.Rates {
				for e := range r.Ext {
					if _, ok := extDefined[e]; !ok {
						badExt = append(badExt, cat.Code+"/"+r.Key+":"+e)
					}
				}
			}
		}
		if len(df.d.Categories) > 0 {
			sort.Strings(badExt)
			c.ObAt("C19-R3", key+"#category-extensions", file, len(badExt) == 0, "category or rate extension keys defined nowhere: "+strings.Join(badExt, ", "))
		}
		// scenario tags and extension keys
		var badTags, badSExt []string
		nScen := 0
		for _, ss := range df.d.Scenarios {
			for _, s := range ss.List {
				nScen++
				for _, t := range s.Tags {
					ok := own[t] || commonTagsIfUsed(df.d, commonTags)[t]
					if !ok && df.kind == "addons" {
						// the regime of the addon's country
						cc := strings.SplitN(df.name, "-", 2)[0]
						if rt, has := regimeTags[cc]; has && rt[t] {
							ok = true
						}
						if cc == "eu" || !hasRegime(regimeTags, cc) {
							// cross-country addon: the tag must be a common invoice tag
							ok = ok || commonTags[t]
						}
					}
					if !ok {
						badTags = append(badTags, t)
					}
				}
				if s.ExtKey != "" {
					if _, ok := extDefined[s.ExtKey]; !ok {
						badSExt = append(badSExt, s.ExtKey)
					}
				}
				for e := range s.Ext {
					if _, ok := extDefined[e]; !ok {
						badSExt = append(badSExt, e)
					}
				}
			}
		}
		if nScen > 0 {
			sort.Strings(badTags)
			sort.Strings(badSExt)
			c.ObAt("C19-R3", key+"#scenario-tags", file, len(badTags) == 0,
				"scenarios filter on tags that neither this definition, nor the regime of its country offers: "+strings.Join(uniq(badTags), ", ")+" — a document carrying such a tag is rejected as undefined, so the scenario can never apply")
			c.ObAt("C19-R3", key+"#scenario-extensions", file, len(badSExt) == 0, "scenarios refer to extension keys defined nowhere: "+strings.Join(uniq(badSExt), ", "))
		}
	}
}

func hasRegime(rt map[string]map[string]bool, cc string) bool { _, ok := rt[cc]; return ok }

// commonTagsIfUsed: a regime offers the common tags only if its published tag list contains them (they are merged in code).
func commonTagsIfUsed(d *defFile, common map[string]bool) map[string]bool { return map[string]bool{} }

func uniq(in []string) []string {
	var out []string
	for i, s := range in {
		if i == 0 || in[i-1] != s {
			out = append(out, s)
		}
	}
	return out
}

func c19SelfValidation(c *core.Ctx) {
	p := c.P
	for _, spec := range []struct{ typ, method string }{{"RegimeDef", "ValidateWithContext"}, {"AddonDef", "Validate"}, {"CatalogueDef", "Validate"}} {
		n := p.Named("tax", spec.typ)
		if n == nil {
			c.Ob("C19-R4", "UNRESOLVED:tax."+spec.typ, token.NoPos, false, "type not found")
			continue
		}
		fd := p.Func("tax", spec.typ, spec.method)
		if fd == nil {
			fd = p.Func("tax", spec.typ, "Validate")
		}
		if fd == nil && spec.typ == "CatalogueDef" {
			c.Ob("C19-R4", "tax."+spec.typ+"#validator", n.Obj().Pos(), true, "")
			c.Note("tax.CatalogueDef has no self-validation: catalogues are loaded from their published file, whose references are decided by C19-R3")
			continue
		}
		if fd == nil {
			c.Ob("C19-R4", "tax."+spec.typ+"#validator", n.Obj().Pos(), false, "definition type has no self-validation")
			continue
		}
		listed := map[*types.Var]bool{}
		for _, sv := range core.StructValidations(fd.Pkg.TypesInfo, fd.Decl.Body) {
			for _, fr := range sv.Fields {
				listed[fr.Field] = true
			}
		}
		st := n.Underlying().(*types.Struct)
		for i := 0; i < st.NumFields(); i++ {
			f := st.Field(i)
			jn, _ := core.JSONName(st.Tag(i), f.Name())
			if jn == "" || !f.Exported() {
				continue
			}
			key := "tax." + spec.typ + "." + f.Name()
			if reason, ok := c19Unvalidated[key]; ok && !listed[f] {
				c.Ob("C19-R4", key, f.Pos(), true, "")
				c.Note("%s is not validated: %s", key, reason)
				continue
			}
			c.Ob("C19-R4", key, f.Pos(), listed[f], fmt.Sprintf("field %s of the definition is not listed in %s.%s: a malformed value in a shipped definition is never reported", f.Name(), spec.typ, fd.Obj.Name()))
		}
	}
}

// c19Unvalidated: definition fields without validation, one symbol each.
var c19Unvalidated = map[string]string{
	"tax.RegimeDef.CalculatorRoundingRule": "a key into tax.RoundingRules; membership is decided on the published files by C19-R3 (#rounding-rule)",
	"tax.AddonDef.Requires":                "keys of other addons; membership is decided on the published files by C19-R3 (#requires)",
	"tax.AddonDef.Description":             "free text (i18n.String) that refers to no other definition",
	"tax.AddonDef.Sources":                 "bibliographic sources that refer to no other definition",
}
