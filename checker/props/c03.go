package props

import (
	"fmt"
	"go/ast"
	"go/token"
	"go/types"
	"strings"

	"goblcheck/core"
)

func init() { register("C03", C03) }

// C03 — under currency rounding every presented amount re-adds exactly.
func C03(c *core.Ctx) {
	p := c.P
	c.Explain("The property is a numerical identity between presented figures for all inputs and is NOT decided. Decided are three structural necessary conditions, each of which breaks the identity when violated: (R1) the rounding-rule dispatch — ApplyRoundingRule rounds to the currency's decimals in both directions under the 'currency' rule and only raises precision otherwise, and the precision-matching helper keeps the accumulator's precision under 'currency'; (R2) the figures that feed sums are rounded by the rule before they are summed: a line's sum, and each document discount and charge amount, is last assigned from ApplyRoundingRule with the document's rule and currency; (R3) no presented figure keeps working precision: the line-level rounding covers every amount of a line, its discounts, charges and sub-lines, and the document and tax summary rounding cover every total (shared with C01-R2). Not decided: that each presented figure can be recomputed from the others (value-level), tax-included prices, advances.")
	c.Rule("C03-R1", "rounding-rule dispatch tables", 4)
	c.Rule("C03-R2", "figures are rounded by the rule before they are summed", 3)
	c.Rule("C03-R3", "presentation rounding covers every presented amount", 30)
	// R1
	curKey := func(info *types.Info, e ast.Expr) bool {
		id, ok := ast.Unparen(e).(*ast.Ident)
		if !ok {
			if se, isS := ast.Unparen(e).(*ast.SelectorExpr); isS {
				id = se.Sel
			} else {
				return false
			}
		}
		return id.Name == "RoundingRuleCurrency"
	}
	// decided on the normalised view (switch and if forms alike): for each return, which rule is
	// known to apply there and which operation produces the value
	ruleAt := func(ff *core.FuncFlow, info *types.Info, rr *types.Var, r *ast.ReturnStmt) string {
		for leaf, val := range ff.Flow.CondsAt(r) {
			be, ok := ast.Unparen(leaf).(*ast.BinaryExpr)
			if !ok || (be.Op != token.EQL && be.Op != token.NEQ) {
				continue
			}
			x, y := be.X, be.Y
			if core.VarOf(info, y) == rr {
				x, y = y, x
			}
			if core.VarOf(info, x) != rr || !curKey(info, y) {
				continue
			}
			if (be.Op == token.EQL) == val {
				return "currency"
			}
			return "other"
		}
		return ""
	}
	if fd := p.Inlined(p.RawFunc("tax", "", "ApplyRoundingRule")); fd != nil {
		info := fd.Pkg.TypesInfo
		sig := fd.Obj.Type().(*types.Signature)
		rr, amount := sig.Params().At(0), sig.Params().At(2)
		ld := core.NewLocalDefs(info, fd.Decl.Body)
		ff := core.NewFuncFlow(fd)
		got := map[string]string{}
		expOK := true
		for _, r := range ff.Flow.Returns() {
			if len(r.Results) != 1 || !ff.Flow.Reachable(r) {
				continue
			}
			call, ok := ast.Unparen(ld.Resolve(r.Results[0], 2)).(*ast.CallExpr)
			if !ok || core.VarOf(info, core.RecvExpr(call)) != amount || len(call.Args) != 1 {
				// the currency definition's own helpers: def.Rescale(amount) / def.RescaleUp(amount)
				if ok && len(call.Args) == 1 && core.VarOf(info, call.Args[0]) == amount && core.Callee(info, call) != nil && core.IsFunc(core.Callee(info, call), core.ModPath+"/currency", "Def", core.Callee(info, call).Name()) {
					name := core.Callee(info, call).Name()
					if dc, isC := ast.Unparen(ld.Resolve(core.RecvExpr(call), 2)).(*ast.CallExpr); !isC || core.VarOf(info, core.RecvExpr(dc)) != sig.Params().At(1) {
						expOK = false
					}
					switch ruleAt(ff, info, rr, r) {
					case "currency":
						got["currency"] = name
					case "other":
						got["default"] = name
					}
				}
				continue
			}
			// the precision handed over is the Subunits of the currency parameter's definition
			okExp := false
			if se, isSel := ast.Unparen(ld.Resolve(call.Args[0], 2)).(*ast.SelectorExpr); isSel && se.Sel.Name == "Subunits" {
				if dc, isC := ast.Unparen(ld.Resolve(se.X, 2)).(*ast.CallExpr); isC && core.VarOf(info, core.RecvExpr(dc)) == sig.Params().At(1) {
					okExp = true
				}
			}
			if !okExp {
				expOK = false
			}
			name := core.Callee(info, call).Name()
			switch ruleAt(ff, info, rr, r) {
			case "currency":
				got["currency"] = name
			case "other":
				got["default"] = name
			}
		}
		c.Ob("C03-R1", fd.Name()+"#currency-subunits", fd.Decl.Pos(), expOK, "the target precision is not the Subunits of the currency parameter's definition")
		c.Ob("C03-R1", fd.Name()+"#currency-arm", fd.Decl.Pos(), got["currency"] == "Rescale", fmt.Sprintf("under the 'currency' rule the amount is not rounded to the currency's decimals with Rescale (found %q): amounts keep hidden decimals and the presented figures no longer re-add", got["currency"]))
		c.Ob("C03-R1", fd.Name()+"#default-arm", fd.Decl.Pos(), got["default"] == "RescaleUp", fmt.Sprintf("under the 'precise' rule precision is not only raised (found %q)", got["default"]))
	} else {
		c.Ob("C03-R1", "UNRESOLVED:tax.ApplyRoundingRule", token.NoPos, false, "function not found")
	}
	if fd := p.Inlined(p.RawFunc("tax", "", "matchRoundingPrecision")); fd != nil {
		info := fd.Pkg.TypesInfo
		sig := fd.Obj.Type().(*types.Signature)
		rr, a := sig.Params().At(0), sig.Params().At(1)
		ff := core.NewFuncFlow(fd)
		okCur, okDef := false, false
		for _, r := range ff.Flow.Returns() {
			if len(r.Results) != 1 || !ff.Flow.Reachable(r) {
				continue
			}
			switch ruleAt(ff, info, rr, r) {
			case "currency":
				okCur = core.VarOf(info, r.Results[0]) == a
			case "other":
				if call, ok := ast.Unparen(r.Results[0]).(*ast.CallExpr); ok && isAmountMethod(core.Callee(info, call), "MatchPrecision") && core.VarOf(info, core.RecvExpr(call)) == a {
					okDef = true
				}
			}
		}
		c.Ob("C03-R1", fd.Name()+"#currency-keeps-accumulator", fd.Decl.Pos(), okCur, "under the 'currency' rule the sum's precision is not kept (it must not be raised to an addend's)")
		c.Ob("C03-R1", fd.Name()+"#precise-matches", fd.Decl.Pos(), okDef, "under the 'precise' rule the sum's precision is not raised to the addend's")
	} else {
		c.Ob("C03-R1", "UNRESOLVED:tax.matchRoundingPrecision", token.NoPos, false, "function not found")
	}
	// R2: reaching definition of the stored figure is ApplyRoundingRule(rr, cur, ·)
	isApply := func(f *types.Func) bool { return core.IsFunc(f, core.ModPath+"/tax", "", "ApplyRoundingRule") }
	type site struct{ fn, field string }
	for _, s := range []site{{"calculateLine", "Sum"}, {"calculateDiscounts", "Amount"}, {"calculateCharges", "Amount"}} {
		fd := p.Func("bill", "", s.fn)
		if fd == nil {
			c.Ob("C03-R2", "UNRESOLVED:bill."+s.fn, token.NoPos, false, "function not found")
			continue
		}
		info := fd.Pkg.TypesInfo
		ld := core.NewLocalDefs(info, fd.Decl.Body)
		// the last assignment to <x>.<field>
		var last *ast.AssignStmt
		ast.Inspect(fd.Decl.Body, func(n ast.Node) bool {
			if as, ok := n.(*ast.AssignStmt); ok && len(as.Lhs) == 1 {
				if f := core.FieldOf(info, as.Lhs[0]); f != nil && f.Name() == s.field && strings.HasPrefix(core.TypeString(info.TypeOf(as.Lhs[0])), "num.Amount") || (len(as.Lhs) == 1 && core.FieldOf(info, as.Lhs[0]) != nil && core.FieldOf(info, as.Lhs[0]).Name() == s.field && core.TypeString(info.TypeOf(as.Lhs[0])) == "*num.Amount") {
					if last == nil || as.Pos() > last.Pos() {
						last = as
					}
				}
			}
			return true
		})
		if last == nil {
			c.Ob("C03-R2", fd.Name()+"#"+s.field, fd.Decl.Pos(), false, "the figure is never assigned")
			continue
		}
		src := resolveAmount(info, ld, last.Rhs[0])
		if v := core.VarOf(info, ast.Unparen(last.Rhs[0])); v != nil {
			if d, ok := ld.Before(v, last.Pos()); ok && d.RHS != nil {
				src = ast.Unparen(d.RHS)
			}
		}
		if u, ok := ast.Unparen(last.Rhs[0]).(*ast.UnaryExpr); ok && u.Op == token.AND {
			if v := core.VarOf(info, u.X); v != nil {
				if d, ok := ld.Before(v, last.Pos()); ok && d.RHS != nil {
					src = ast.Unparen(d.RHS)
				}
			}
		}
		ok := false
		if call, isC := src.(*ast.CallExpr); isC && isApply(core.Callee(info, call)) {
			ok = true
		}
		c.Ob("C03-R2", fd.Name()+"#"+s.field+"-rounded-by-rule", last.Pos(), ok,
			"the "+s.field+" that feeds the document sums is not last assigned from tax.ApplyRoundingRule: under the 'currency' rule it keeps hidden decimals, so the presented figures do not re-add")
	}
	// R2 (line level): the base a percentage line discount/charge is taken of is the
	// rule-rounded line sum or is itself last rounded by the rule
	for _, name := range []string{"calculateLineDiscounts", "calculateLineCharges"} {
		fd := p.Func("bill", "", name)
		if fd == nil {
			c.Ob("C03-R2", "UNRESOLVED:bill."+name, token.NoPos, false, "function not found")
			continue
		}
		info := fd.Pkg.TypesInfo
		sig := fd.Obj.Type().(*types.Signature)
		n := 0
		for _, call := range core.CallsTo(info, fd.Decl.Body, func(f *types.Func) bool {
			return f.Name() == "Of" && core.RecvNamed(f) != nil && core.RecvNamed(f).Obj().Name() == "Percentage"
		}) {
			n++
			key := fmt.Sprintf("%s#percent-base%d", fd.Name(), n)
			bv := core.VarOf(info, call.Args[0])
			if bv == nil {
				c.Undecided("C03-R2", key, call.Pos(), "the percentage base is not a local variable")
				continue
			}
			if pi, isParam := paramIndex(fd.Obj, bv); isParam && pi >= 0 && bv.Name() == "sum" && len(core.NewLocalDefs(info, fd.Decl.Body).All(bv)) == 0 {
				c.Ob("C03-R2", key, call.Pos(), true, "") // the rule-rounded line sum itself
				continue
			}
			defs := core.ReachingDefs(info, fd.Decl.Body, bv, call)
			ok, why := len(defs) > 0, "no reaching definition found"
			for d := range defs {
				if d == nil {
					ok, why = false, "the base may be unassigned"
					continue
				}
				rhs := ast.Unparen(d.Rhs[0])
				if cl, isC := rhs.(*ast.CallExpr); isC && isApply(core.Callee(info, cl)) {
					continue
				}
				if pv := core.VarOf(info, rhs); pv != nil {
					isParam := false
					for i := 0; i < sig.Params().Len(); i++ {
						if sig.Params().At(i) == pv && pv.Name() == "sum" {
							isParam = true
						}
					}
					if isParam {
						continue
					}
				}
				ok, why = false, fmt.Sprintf("it may come from `%s` at %s", types.ExprString(rhs), p.Rel(d.Pos()))
			}
			c.Ob("C03-R2", key, call.Pos(), ok,
				"the base of a percentage line discount/charge is neither the rule-rounded line sum nor last assigned from tax.ApplyRoundingRule ("+why+"): under the 'currency' rule the amount keeps hidden decimals and line total != sum - discounts + charges as presented")
		}
		if n == 0 {
			c.Ob("C03-R2", fd.Name()+"#percent-base", fd.Decl.Pos(), false, "NOT FOUND: no percentage amount computed in this function")
		}
		// the sum handed in is the rule-rounded one
		for _, cf := range p.Funcs(p.Pkg("bill")) {
			cinfo := cf.Pkg.TypesInfo
			for _, call := range core.CallsTo(cinfo, cf.Decl.Body, func(f *types.Func) bool { return f == fd.Obj }) {
				idx := -1
				for i := 0; i < sig.Params().Len(); i++ {
					if sig.Params().At(i).Name() == "sum" {
						idx = i
					}
				}
				okSum := false
				if idx >= 0 && idx < len(call.Args) {
					if sv := core.VarOf(cinfo, call.Args[idx]); sv != nil {
						defs := core.ReachingDefs(cinfo, cf.Decl.Body, sv, call)
						okSum = len(defs) > 0
						for d := range defs {
							if d == nil {
								okSum = false
								continue
							}
							if cl, isC := ast.Unparen(d.Rhs[0]).(*ast.CallExpr); !isC || !isApply(core.Callee(cinfo, cl)) {
								okSum = false
							}
						}
					}
				}
				c.Ob("C03-R2", fmt.Sprintf("%s#sum-arg-of:%s", cf.Name(), name), call.Pos(), okSum,
					"the sum handed to the line discount/charge calculation is not last assigned from tax.ApplyRoundingRule")
			}
		}
	}
	// R4: sums keep the precision the rule chose for them
	c.Rule("C03-R4", "running sums are the receiver of Add: the sum's (rule-chosen) precision is kept, not the addend's", 20)
	for _, rel := range []string{"bill", "tax"} {
		pk := p.Pkg(rel)
		if pk == nil {
			c.Ob("C03-R4", "UNRESOLVED:"+rel, token.NoPos, false, "package not loaded")
			continue
		}
		for _, fd := range p.Funcs(pk) {
			for i, a := range FindAccums(p, fd) {
				c.Ob("C03-R4", fmt.Sprintf("%s#%s%d:%s", fd.Name(), strings.ToLower(a.Op), i+1, types.ExprString(a.Dest)), a.Assign.Pos(), !a.Reversed,
					fmt.Sprintf("the running sum is added to the addend (%s.Add(%s)): Amount.Add keeps the receiver's exponent, so under the 'currency' rule the sum keeps the addend's hidden decimals and figures derived from it no longer match the presented ones", types.ExprString(a.Addend), types.ExprString(a.Dest)))
			}
		}
	}
	// R5: the included-tax removal recalculates after recording its residue, so that due and
	// the payment figures follow the new payable (decided under C17-R3, re-reported here)
	c.Rule("C03-R5", "included-tax removal ends with a recalculation (shared with C17-R3)", 2)
	sub := core.NewCtx("C17", c.Tier, c.Seed, p, c.VerifDir)
	sub.Quiet = true
	C17(sub)
	for _, o := range sub.Obligations() {
		if o.Rule == "C17-R3" {
			c.ObAt("C03-R5", o.Key, o.Pos, o.OK, o.Msg)
		}
	}
	// R6: rate amounts are taken of the stored base
	c.Rule("C03-R6", "each rate row's amount and surcharge are Percent.Of(the row's stored Base)", 2)
	rateAmountFromBase(c, "C03-R6")
	// R3
	roundCoverage(c, "C03-R3")
	c03LineRounding(c)
}

// c03LineRounding: Line.round and friends rescale every amount the line pass assigns.
func c03LineRounding(c *core.Ctx) {
	p := c.P
	memo := map[*types.Func]int{}
	for _, spec := range []struct{ typ string }{{"Line"}, {"SubLine"}, {"LineDiscount"}, {"LineCharge"}, {"Discount"}, {"Charge"}} {
		n := p.Named("bill", spec.typ)
		fd := p.Func("bill", spec.typ, "round")
		if n == nil || fd == nil {
			c.Ob("C03-R3", "UNRESOLVED:bill."+spec.typ+".round", token.NoPos, false, "type or rounding method not found")
			continue
		}
		c.Ob("C03-R3", fd.Name()+"#only-rescales", fd.Decl.Pos(), isRounder(p, fd.Obj, memo) || roundsViaLocals(fd), "the rounding method does something other than rescaling in place")
		info := fd.Pkg.TypesInfo
		recv := recvVar(fd)
		st := n.Underlying().(*types.Struct)
		for i := 0; i < st.NumFields(); i++ {
			f := st.Field(i)
			ts := core.TypeString(f.Type())
			switch {
			case ts == "num.Amount" || ts == "*num.Amount":
				if f.Name() == "Quantity" || f.Name() == "Rate" || f.Name() == "Base" || f.Name() == "Percent" {
					continue // inputs, not calculated figures
				}
				// assigned in round (directly or through a local copy)
				found := false
				ast.Inspect(fd.Decl.Body, func(m ast.Node) bool {
					if as, ok := m.(*ast.AssignStmt); ok {
						for _, l := range as.Lhs {
							if core.IsFieldOfVar(info, l, recv, f.Name()) {
								found = true
							}
						}
					}
					return true
				})
				c.Ob("C03-R3", "bill."+spec.typ+"."+f.Name()+"#rounded", f.Pos(), found, fmt.Sprintf("%s.round never rescales %s: the figure is presented with working precision", spec.typ, f.Name()))
			case strings.HasPrefix(ts, "[]*bill.") && spec.typ == "Line":
				// (sub-line discount/charge rows are internal to the price breakdown; the property speaks of lines)
				// nested rows with their own round: must be visited
				elem := strings.TrimPrefix(ts, "[]*bill.")
				if p.Func("bill", elem, "round") == nil {
					continue
				}
				visited := false
				ast.Inspect(fd.Decl.Body, func(m ast.Node) bool {
					if rs, ok := m.(*ast.RangeStmt); ok && core.IsFieldOfVar(info, rs.X, recv, f.Name()) {
						for _, call := range core.CallsTo(info, rs.Body, func(fn *types.Func) bool { return fn.Name() == "round" }) {
							if core.VarOf(info, core.RecvExpr(call)) == core.VarOf(info, rs.Value) {
								visited = true
							}
						}
					}
					return true
				})
				c.Ob("C03-R3", "bill."+spec.typ+"."+f.Name()+"#rows-rounded", f.Pos(), visited, fmt.Sprintf("%s.round does not round the rows of %s", spec.typ, f.Name()))
			}
		}
	}
}

// roundsViaLocals accepts the `x := l.F.RescaleDown(e); l.F = &x` idiom for pointer fields.
func roundsViaLocals(fd *core.FuncDecl) bool {
	return roundsVia(subject, fd, 0)
}

// roundsVia: every value given to an amount-typed location in the function is a
// Rescale* result, the address of (or a copy of) a local so computed, nil, or
// the result of a module helper that itself only returns such values.
func roundsVia(p *core.Program, fd *core.FuncDecl, depth int) bool {
	info := fd.Pkg.TypesInfo
	ok := true
	n := 0
	var allowed func(r ast.Expr) bool
	allowed = func(r ast.Expr) bool {
		r = ast.Unparen(r)
		if core.IsNil(info, r) {
			return true
		}
		switch x := r.(type) {
		case *ast.CallExpr:
			cf := core.Callee(info, x)
			if cf != nil && strings.HasPrefix(cf.Name(), "Rescale") {
				n++
				return true
			}
			if cf != nil && core.InModule(cf.Pkg()) && depth < 3 && p != nil {
				if hfd := p.DeclOf(cf); hfd != nil && roundsVia(p, hfd, depth+1) {
					n++
					return true
				}
			}
		case *ast.UnaryExpr:
			if x.Op == token.AND {
				_, isID := ast.Unparen(x.X).(*ast.Ident)
				return isID
			}
		case *ast.Ident:
			if v, isV := info.Uses[x].(*types.Var); isV && !v.IsField() {
				return true
			}
		}
		return false
	}
	ast.Inspect(fd.Decl.Body, func(m ast.Node) bool {
		switch st := m.(type) {
		case *ast.AssignStmt:
			if len(st.Lhs) != len(st.Rhs) {
				return true
			}
			for i := range st.Lhs {
				lt := info.TypeOf(st.Lhs[i])
				if lt == nil || !strings.Contains(core.TypeString(lt), "num.Amount") {
					continue
				}
				if !allowed(st.Rhs[i]) {
					ok = false
				}
			}
		case *ast.ReturnStmt:
			if depth > 0 {
				for _, r := range st.Results {
					if t := info.TypeOf(r); t != nil && strings.Contains(core.TypeString(t), "num.Amount") && !allowed(r) {
						ok = false
					}
				}
			}
		}
		return true
	})
	return ok && n > 0
}
