package props

import (
	"fmt"
	"go/ast"
	"go/token"
	"go/types"
	"strings"

	"goblcheck/core"
)

func init() { register("C03", C03) }

// C03 — under currency rounding every presented amount re-adds exactly.
func C03(c *core.Ctx) {
	p := c.P
	c.Explain("The property is a numerical identity between presented figures for all inputs and is NOT decided. Decided are three structural necessary conditions, each of which breaks the identity when violated: (R1) the rounding-rule dispatch — ApplyRoundingRule rounds to the currency's decimals in both directions under the 'currency' rule and only raises precision otherwise, and the precision-matching helper keeps the accumulator's precision under 'currency'; (R2) the figures that feed sums are rounded by the rule before they are summed: a line's sum, and each document discount and charge amount, is last assigned from ApplyRoundingRule with the document's rule and currency; (R3) no presented figure keeps working precision: the line-level rounding covers every amount of a line, its discounts, charges and sub-lines, and the document and tax summary rounding cover every total (shared with C01-R2). Not decided: that each presented figure can be recomputed from the others (value-level), tax-included prices, advances.")
	c.Rule("C03-R1", "rounding-rule dispatch tables", 4)
	c.Rule("C03-R2", "figures are rounded by the rule before they are summed", 3)
	c.Rule("C03-R3", "presentation rounding covers every presented amount", 30)
	// R1
	curKey := func(info *types.Info, e ast.Expr) bool {
		id, ok := ast.Unparen(e).(*ast.Ident)
		if !ok {
			if se, isS := ast.Unparen(e).(*ast.SelectorExpr); isS {
				id = se.Sel
			} else {
				return false
			}
		}
		return id.Name == "RoundingRuleCurrency"
	}
	// decided on the normalised view (switch and if forms alike): for each return, which rule is
	// known to apply there and which operation produces the value
	ruleAt := func(ff *core.FuncFlow, info *types.Info, rr *types.Var, r *ast.ReturnStmt) string {
		for leaf, val := range ff.Flow.CondsAt(r) {
			be, ok := ast.Unparen(leaf).(*ast.BinaryExpr)
			if !ok || (be.Op != token.EQL && be.Op != token.NEQ) {
				continue
			}
			x, y := be.X, be.Y
			if core.VarOf(info, y) == rr {
				x, y = y, x
			}
			if core.VarOf(info, x) != rr || !curKey(info, y) {
				continue
			}
			if (be.Op == token.EQL) == val {
				return "currency"
			}
			return "other"
		}
		return ""
	}
	if fd := p.Inlined(p.RawFunc("tax", "", "ApplyRoundingRule")); fd != nil {
		info := fd.Pkg.TypesInfo
		sig := fd.Obj.Type().(*types.Signature)
		rr, amount := sig.Params().At(0), sig.Params().At(2)
		ld := core.NewLocalDefs(info, fd.Decl.Body)
		ff := core.NewFuncFlow(fd)
		got := map[string]string{}
		expOK := true
		for _, r := range ff.Flow.Returns() {
			if len(r.Results) != 1 || !ff.Flow.Reachable(r) {
				continue
			}
			call, ok := ast.Unparen(ld.Resolve(r.Results[0], 2)).(*ast.CallExpr)
			if !ok || core.VarOf(info, core.RecvExpr(call)) != amount || len(call.Args) != 1 {
				// the currency definition's own helpers: def.Rescale(amount) / def.RescaleUp(amount)
				if ok && len(call.Args) == 1 && core.VarOf(info, call.Args[0]) == amount && core.Callee(info, call) != nil && core.IsFunc(core.Callee(info, call), core.ModPath+"/currency", "Def", core.Callee(info, call).Name()) {
					name := core.Callee(info, call).Name()
					if dc, isC := ast.Unparen(ld.Resolve(core.RecvExpr(call), 2)).(*ast.CallExpr); !isC || core.VarOf(info, core.RecvExpr(dc)) != sig.Params().At(1) {
						expOK = false
					}
					switch ruleAt(ff, info, rr, r) {
					case "currency":
						got["currency"] = name
					case "other":
						got["default"] = name
					}
				}
				continue
			}
			// the precision handed over is the Subunits of the currency parameter's definition
			okExp := false
			if se, isSel := ast.Unparen(ld.Resolve(call.Args[0], 2)).(*ast.SelectorExpr); isSel && se.Sel.Name == "Subunits" {
				if dc, isC := ast.Unparen(ld.Resolve(se.X, 2)).(*ast.CallExpr); isC && core.VarOf(info, core.RecvExpr(dc)) == sig.Params().At(1) {
					okExp = true
				}
			}
			if !okExp {
				expOK = false
			}
			name := core.Callee(info, call).Name()
			switch ruleAt(ff, info, rr, r) {
			case "currency":
				got["currency"] = name
			case "other":
				got["default"] = name
			}
		}
		c.Ob("C03-R1", fd.Name()+"#currency-subunits", fd.Decl.Pos(), expOK, "the target precision is not the Subunits of the currency parameter's definition")
		c.Ob("C03-R1", fd.Name()+"#currency-arm", fd.Decl.Pos(), got["currency"] == "Rescale", fmt.Sprintf("under the 'currency' rule the amount is not rounded to the currency's decimals with Rescale (found %q): amounts keep hidden decimals and the presented figures no longer re-add", got["currency"]))
		c.Ob("C03-R1", fd.Name()+"#default-arm", fd.Decl.Pos(), got["default"] == "RescaleUp", fmt.Sprintf("under the 'precise' rule precision is not only raised (found %q)", got["default"]))
	} else {
		c.Ob("C03-R1", "UNRESOLVED:tax.ApplyRoundingRule", token.NoPos, false, "function not found")
	}
	if fd := p.Inlined(p.RawFunc("tax", "", "matchRoundingPrecision")); fd != nil {
		info := fd.Pkg.TypesInfo
		sig := fd.Obj.Type().(*types.Signature)
		rr, a := sig.Params().At(0), sig.Params().At(1)
		ff := core.NewFuncFlow(fd)
		okCur, okDef := false, false
		for _, r := range ff.Flow.Returns() {
			if len(r.Results) != 1 || !ff.Flow.Reachable(r) {
				continue
			}
			switch ruleAt(ff, info, rr, r) {
			case "currency":
				okCur = core.VarOf(info, r.Results[0]) == a
			case "other":
				if call, ok := ast.Unparen(r.Results[0]).(*ast.CallExpr); ok && isAmountMethod(core.Callee(info, call), "MatchPrecision") && core.VarOf(info, core.RecvExpr(call)) == a {
					okDef = true
				}
			}
		}
		c.Ob("C03-R1", fd.Name()+"#currency-keeps-accumulator", fd.Decl.Pos(), okCur, "under the 'currency' rule the sum's precision is not kept (it must not be raised to an addend's)")
		c.Ob("C03-R1", fd.Name()+"#precise-matches", fd.Decl.Pos(), okDef, "under the 'precise' rule the sum's precision is not raised to the addend's")
	} else {
		c.Ob("C03-R1", "UNRESOLVED:tax.matchRoundingPrecision", token.NoPos, false, "function not found")
	}
	// R2: reaching definition of the stored figure is ApplyRoundingRule(rr, cur, ·)
	isApply := func(f *types.Func) bool { return core.IsFunc(f, core.ModPath+"/tax", "", "ApplyRoundingRule") }
	type site struct{ fn, field string }
	for _, s := range []site{{"calculateLine", "Sum"}, {"calculateDiscounts", "Amount"}, {"calculateCharges", "Amount"}} {
		fd := p.Func("bill", "", s.fn)
		if fd == nil {
			c.Ob("C03-R2", "UNRESOLVED:bill."+s.fn, token.NoPos, false, "function not found")
			continue
		}
		info := fd.Pkg.TypesInfo
		ld := core.NewLocalDefs(info, fd.Decl.Body)
		// the last assignment to <x>.<field>
		var last *ast.AssignStmt
		ast.Inspect(fd.Decl.Body, func(n ast.Node) bool {
			if as, ok := n.(*ast.AssignStmt); ok && len(as.Lhs) == 1 {
				if f := core.FieldOf(info, as.Lhs[0]); f != nil && f.Name() == s.field && strings.HasPrefix(core.TypeString(info.TypeOf(as.Lhs[0])), "num.Amount") || (len(as.Lhs) == 1 && core.FieldOf(info, as.Lhs[0]) != nil && core.FieldOf(info, as.Lhs[0]).Name() == s.field && core.TypeString(info.TypeOf(as.Lhs[0])) == "*num.Amount") {
					if last == nil || as.Pos() > last.Pos() {
						last = as
					}
				}
			}
			return true
		})
		if last == nil {
			c.Ob("C03-R2", fd.Name()+"#"+s.field, fd.Decl.Pos(), false, "the figure is never assigned")
			continue
		}
		src := resolveAmount(info, ld, last.Rhs[0])
		if v := core.VarOf(info, ast.Unparen(last.Rhs[0])); v != nil {
			if d, ok := ld.Before(v, last.Pos()); ok && d.RHS != nil {
				src = ast.Unparen(d.RHS)
			}
		}
		if u, ok := ast.Unparen(last.Rhs[0]).(*ast.UnaryExpr); ok && u.Op == token.AND {
			if v := core.VarOf(info, u.X); v != nil {
				if d, ok := ld.Before(v, last.Pos()); ok && d.RHS != nil {
					src = ast.Unparen(d.RHS)
				}
			}
		}
		ok := false
		if call, isC := src.(*ast.CallExpr); isC && isApply(core.Callee(info, call)) {
			ok = true
		}
		c.Ob("C03-R2", fd.Name()+"#"+s.field+"-rounded-by-rule", last.Pos(), ok,
			"the "+s.field+" that feeds the document sums is not last assigned from tax.ApplyRoundingRule: under the 'currency' rule it keeps hidden decimals, so the presented figures do not re-add")
	}
	// R2 (line level): the base a percentage line discount/charge is taken of is the
	// rule-rounded line sum or is itself last rounded by the rule
	for _, name := range []string{"calculateLineDiscounts", "calculateLineCharges"} {
		fd := p.Func("bill", "", name)
		if fd == nil {
			c.Ob("C03-R2", "UNRESOLVED:bill."+name, token.NoPos, false, "function not found")
			continue
		}
		info := fd.Pkg.TypesInfo
		sig := fd.Obj.Type().(*types.Signature)
		n := 0
		for _, call := range core.CallsTo(info, fd.Decl.Body, func(f *types.Func) bool {
			return f.Name() == "Of" && core.RecvNamed(f) != nil && core.RecvNamed(f).Obj().Name() == "Percentage"
		}) {
			n++
			key := fmt.Sprintf("%s#percent-base%d", fd.Name(), n)
			bv := core.VarOf(info, call.Args[0])
			if bv == nil {
				c.Undecided("C03-R2", key, call.Pos(), "the percentage base is not a local variable")
				continue
			}
			if pi, isParam := paramIndex(fd.Obj, bv); isParam && pi >= 0 && bv.Name() == "sum" && len(core.NewLocalDefs(info, fd.Decl.Body).All(bv)) == 0 {
				c.Ob("C03-R2", key, call.Pos(), true, "") // the rule-rounded line sum itself
				continue
			}
			defs := core.ReachingDefs(info, fd.Decl.Body, bv, call)
			ok, why := len(defs) > 0, "no reaching definition found"
			for d := range defs {
				if d == nil {
					ok, why = false, "the base may be unassigned"
					continue
				}
				rhs := ast.Unparen(d.Rhs[0])
				if cl, isC := rhs.(*ast.CallExpr); isC && isApply(core.Callee(info, cl)) {
					continue
				}
				if pv := core.VarOf(info, rhs); pv != nil {
					isParam := false
					for i := 0; i < sig.Params().Len(); i++ {
						if sig.Params().At(i) == pv && pv.Name() == "sum" {
							isParam = true
						}
					}
					if isParam {
						continue
					}
				}
				ok, why = false, fmt.Sprintf("it may come from `%s` at %s", types.ExprString(rhs), p.Rel(d.Pos()))
			}
			c.Ob("C03-R2", key, call.Pos(), ok,
				"the base of a percentage line discount/charge is neither the rule-rounded line sum nor last assigned from tax.ApplyRoundingRule ("+why+"): under the 'currency' rule the amount keeps hidden decimals and line total != sum - discounts + charges as presented")
		}
		if n == 0 {
			c.Ob("C03-R2", fd.Name()+"#percent-base", fd.Decl.Pos(), false, "NOT FOUND: no percentage amount computed in this function")
		}
		// the sum handed in is the rule-rounded one
		for _, cf := range p.Funcs(p.Pkg("bill")) {
			cinfo := cf.Pkg.TypesInfo
			for _, call := range core.CallsTo(cinfo, cf.Decl.Body, func(f *types.Func) bool { return f == fd.Obj }) {
				idx := -1
				for i := 0; i < sig.Params().Len(); i++ {
					if sig.Params().At(i).Name() == "sum" {
						idx = i
					}
				}
				okSum := false
				if idx >= 0 && idx < len(call.Args) {
					if sv := core.VarOf(cinfo, call.Args[idx]); sv != nil {
						defs := core.ReachingDefs(cinfo, cf.Decl.Body, sv, call)
						okSum = len(defs) > 0
						for d := range defs {
							if d == nil {
								okSum = false
								continue
							}
							if cl, isC := ast.Unparen(d.Rhs[0]).(*ast.CallExpr); !isC || !isApply(core.Callee(cinfo, cl)) {
								okSum = false
							}
						}
					}
				}
				c.Ob("C03-R2", fmt.Sprintf("%s#sum-arg-of:%s", cf.Name(), name), call.Pos(), okSum,
					"the sum handed to the line discount/charge calculation is not last assigned from tax.ApplyRoundingRule")
			}
		}
	}
	// R4: sums keep the precision the rule chose for them
	c.Rule("C03-R4", "running sums are the receiver of Add: the sum's (rule-chosen) precision is kept, not the addend's", 20)
	for _, rel := range []string{"bill", "tax"} {
		pk := p.Pkg(rel)
		if pk == nil {
			c.Ob("C03-R4", "UNRESOLVED:"+rel, token.NoPos, false, "package not loaded")
			continue
		}
		for _, fd := range p.Funcs(pk) {
			for i, a := range FindAccums(p, fd) {
				c.Ob("C03-R4", fmt.Sprintf("%s#%s%d:%s", fd.Name(), strings.ToLower(a.Op), i+1, types.ExprString(a.Dest)), a.Assign.Pos(), !a.Reversed,
					fmt.Sprintf("the running sum is added to the addend (%s.Add(%s)): Amount.Add keeps the receiver's exponent, so under the 'currency' rule the sum keeps the addend's hidden decimals and figures derived from it no longer match the presented ones", types.ExprString(a.Addend), types.ExprString(a.Dest)))
			}
		}
	}
	// R5: the included-tax removal recalculates after recording its residue, so that due and
	// the payment figures follow the new payable (decided under C17-R3, re-reported here)
	c.Rule("C03-R5", "included-tax removal ends with a recalculation (shared with C17-R3)", 2)
	sub := core.NewCtx("C17", c.Tier, c.Seed, p, c.VerifDir)
	sub.Quiet = true
	C17(sub)
	for _, o := range sub.Obligations() {
		if o.Rule == "C17-R3" {
			c.ObAt("C03-R5", o.Key, o.Pos, o.OK, o.Msg)
		}
	}
	// R6: rate amounts are taken of the stored base
	c.Rule("C03-R7", "no totals member changes after something was computed from it", 5)
	c03TotalsOrder(c, "C03-R7")
	c.Rule("C03-R8", "the calculation runs under the document's own rounding rule and included category whenever set", 1)
	c03RuleSelection(c, "C03-R8")
	c03RowPrecision(c)
	c03CopySiblings(c)
	c03DefaultsKeepInput(c)
	c03AdvancePrecision(c)
	c.Rule("C03-R6", "each rate row's amount and surcharge are Percent.Of(the row's stored Base)", 2)
	rateAmountFromBase(c, "C03-R6")
	// R3
	roundCoverage(c, "C03-R3")
	c03LineRounding(c)
}

// c03LineRounding: Line.round and friends rescale every amount the line pass assigns.
func c03LineRounding(c *core.Ctx) {
	p := c.P
	memo := map[*types.Func]int{}
	for _, spec := range []struct{ typ string }{{"Line"}, {"SubLine"}, {"LineDiscount"}, {"LineCharge"}, {"Discount"}, {"Charge"}} {
		n := p.Named("bill", spec.typ)
		fd := p.Func("bill", spec.typ, "round")
		if n == nil || fd == nil {
			c.Ob("C03-R3", "UNRESOLVED:bill."+spec.typ+".round", token.NoPos, false, "type or rounding method not found")
			continue
		}
		c.Ob("C03-R3", fd.Name()+"#only-rescales", fd.Decl.Pos(), isRounder(p, fd.Obj, memo) || roundsViaLocals(fd), "the rounding method does something other than rescaling in place")
		info := fd.Pkg.TypesInfo
		recv := recvVar(fd)
		st := n.Underlying().(*types.Struct)
		for i := 0; i < st.NumFields(); i++ {
			f := st.Field(i)
			ts := core.TypeString(f.Type())
			switch {
			case ts == "num.Amount" || ts == "*num.Amount":
				if f.Name() == "Quantity" || f.Name() == "Rate" || f.Name() == "Base" || f.Name() == "Percent" {
					continue // inputs, not calculated figures
				}
				// assigned in round (directly or through a local copy)
				found := false
				ast.Inspect(fd.Decl.Body, func(m ast.Node) bool {
					if as, ok := m.(*ast.AssignStmt); ok {
						for _, l := range as.Lhs {
							if core.IsFieldOfVar(info, l, recv, f.Name()) {
								found = true
							}
						}
					}
					return true
				})
				c.Ob("C03-R3", "bill."+spec.typ+"."+f.Name()+"#rounded", f.Pos(), found, fmt.Sprintf("%s.round never rescales %s: the figure is presented with working precision", spec.typ, f.Name()))
			case strings.HasPrefix(ts, "[]*bill.") && spec.typ == "Line":
				// (sub-line discount/charge rows are internal to the price breakdown; the property speaks of lines)
				// nested rows with their own round: must be visited
				elem := strings.TrimPrefix(ts, "[]*bill.")
				if p.Func("bill", elem, "round") == nil {
					continue
				}
				visited := false
				ast.Inspect(fd.Decl.Body, func(m ast.Node) bool {
					if rs, ok := m.(*ast.RangeStmt); ok && core.IsFieldOfVar(info, rs.X, recv, f.Name()) {
						for _, call := range core.CallsTo(info, rs.Body, func(fn *types.Func) bool { return fn.Name() == "round" }) {
							if core.VarOf(info, core.RecvExpr(call)) == core.VarOf(info, rs.Value) {
								visited = true
							}
						}
					}
					return true
				})
				c.Ob("C03-R3", "bill."+spec.typ+"."+f.Name()+"#rows-rounded", f.Pos(), visited, fmt.Sprintf("%s.round does not round the rows of %s", spec.typ, f.Name()))
			}
		}
	}
}

// roundsViaLocals accepts the `x := l.F.RescaleDown(e); l.F = &x` idiom for pointer fields.
func roundsViaLocals(fd *core.FuncDecl) bool {
	return roundsVia(subject, fd, 0)
}

// roundsVia: every value given to an amount-typed location in the function is a
// Rescale* result, the address of (or a copy of) a local so computed, nil, or
// the result of a module helper that itself only returns such values.
func roundsVia(p *core.Program, fd *core.FuncDecl, depth int) bool {
	info := fd.Pkg.TypesInfo
	ok := true
	n := 0
	var allowed func(r ast.Expr) bool
	allowed = func(r ast.Expr) bool {
		r = ast.Unparen(r)
		if core.IsNil(info, r) {
			return true
		}
		switch x := r.(type) {
		case *ast.CallExpr:
			cf := core.Callee(info, x)
			if cf != nil && strings.HasPrefix(cf.Name(), "Rescale") {
				n++
				return true
			}
			if cf != nil && core.InModule(cf.Pkg()) && depth < 3 && p != nil {
				if hfd := p.DeclOf(cf); hfd != nil && roundsVia(p, hfd, depth+1) {
					n++
					return true
				}
			}
		case *ast.UnaryExpr:
			if x.Op == token.AND {
				_, isID := ast.Unparen(x.X).(*ast.Ident)
				return isID
			}
		case *ast.Ident:
			if v, isV := info.Uses[x].(*types.Var); isV && !v.IsField() {
				return true
			}
		}
		return false
	}
	ast.Inspect(fd.Decl.Body, func(m ast.Node) bool {
		switch st := m.(type) {
		case *ast.AssignStmt:
			if len(st.Lhs) != len(st.Rhs) {
				return true
			}
			for i := range st.Lhs {
				lt := info.TypeOf(st.Lhs[i])
				if lt == nil || !strings.Contains(core.TypeString(lt), "num.Amount") {
					continue
				}
				if !allowed(st.Rhs[i]) {
					ok = false
				}
			}
		case *ast.ReturnStmt:
			if depth > 0 {
				for _, r := range st.Results {
					if t := info.TypeOf(r); t != nil && strings.Contains(core.TypeString(t), "num.Amount") && !allowed(r) {
						ok = false
					}
				}
			}
		}
		return true
	})
	return ok && n > 0
}

// c03TotalsOrder — C03-R7 (shared with C01): in the document calculation no
// member of the totals is given another value after a different member, or a
// value handed to a callee, has been computed from it. `due = payable −
// advances` followed by `payable += rounding` presents a due amount that is not
// the presented payable minus the presented advances. Updates of a member from
// itself (`t.Total = t.Total.Add(x)`) are the member's own construction and are
// not reads in this sense; the presentation rounding (`t.round`) is a method
// of its own and rescales every member alike.
func c03TotalsOrder(c *core.Ctx, rule string) {
	p := c.P
	fd := p.Func("bill", "", "calculate")
	if fd == nil {
		c.Ob(rule, "UNRESOLVED:bill.calculate", token.NoPos, false, "function not found")
		return
	}
	info := fd.Pkg.TypesInfo
	totals := p.Named("bill", "Totals")
	isTotalsField := func(e ast.Expr) *types.Var {
		e = ast.Unparen(e)
		if st, ok := e.(*ast.StarExpr); ok {
			e = ast.Unparen(st.X)
		}
		se, ok := e.(*ast.SelectorExpr)
		if !ok {
			return nil
		}
		f := core.FieldOf(info, se)
		if f == nil || fieldOwner(info, se) != totals {
			return nil
		}
		if !strings.Contains(core.TypeString(f.Type()), "num.Amount") {
			return nil
		}
		return f
	}
	lastWrite := map[*types.Var]token.Pos{}
	ast.Inspect(fd.Decl.Body, func(n ast.Node) bool {
		if as, ok := n.(*ast.AssignStmt); ok {
			for _, l := range as.Lhs {
				if f := isTotalsField(l); f != nil && as.Pos() > lastWrite[f] {
					lastWrite[f] = as.Pos()
				}
			}
		}
		return true
	})
	n := 0
	reported := map[string]bool{}
	var stack []ast.Node
	ast.Inspect(fd.Decl.Body, func(m ast.Node) bool {
		if m == nil {
			stack = stack[:len(stack)-1]
			return true
		}
		stack = append(stack, m)
		e, ok := m.(ast.Expr)
		if !ok {
			return true
		}
		f := isTotalsField(e)
		if f == nil {
			return true
		}
		// the enclosing statement
		var stmt ast.Stmt
		for i := len(stack) - 1; i >= 0; i-- {
			if s, ok := stack[i].(ast.Stmt); ok {
				stmt = s
				break
			}
		}
		as, isAssign := stmt.(*ast.AssignStmt)
		if isAssign {
			for _, l := range as.Lhs {
				if l == e || ast.Unparen(l) == e || isTotalsField(l) == f {
					return false // the member's own assignment or update
				}
			}
		}
		// conditions (nil tests of the member) are not computations from it
		if is, ok := stmt.(*ast.IfStmt); ok && is.Cond.Pos() <= e.Pos() && e.End() <= is.Cond.End() {
			return false
		}
		n++
		key := fmt.Sprintf("%s#%s-final-when-used@%s", fd.Name(), f.Name(), types.ExprString(ast.Unparen(e)))
		if reported[key] {
			return false
		}
		bad := lastWrite[f] > stmt.End()
		if bad || !reported[key] {
			reported[key] = true
		}
		c.Ob(rule, key, e.Pos(), !bad,
			fmt.Sprintf("totals.%s is used at %s to compute something else and is given another value afterwards (at %s): what was computed from it no longer agrees with the %s that is presented", f.Name(), p.Rel(e.Pos()), p.Rel(lastWrite[f]), f.Name()))
		return false
	})
	if n == 0 {
		c.Ob(rule, "UNRESOLVED:totals-uses", token.NoPos, false, "no use of a totals member found in bill.calculate")
	}
}

// c03RuleSelection — C03-R8: the rounding rule and the included-tax category the
// tax calculator is given are the document's own settings whenever they are
// set, independently of one another: `calculate` is evaluated up to the
// calculator for a document without a tax object and for the four
// combinations of rounding / prices-include being set; the rule must be the
// document's when set and the regime's otherwise, the included category the
// document's when set and empty otherwise.
func c03RuleSelection(c *core.Ctx, rule string) {
	p := c.P
	fd := p.Func("bill", "", "calculate")
	if fd == nil {
		c.Ob(rule, "UNRESOLVED:bill.calculate", token.NoPos, false, "function not found")
		return
	}
	info := fd.Pkg.TypesInfo
	var lit *ast.CompositeLit
	ast.Inspect(fd.Decl.Body, func(m ast.Node) bool {
		if cl, ok := m.(*ast.CompositeLit); ok && litTypeIs(info, cl, "tax.TotalCalculator") {
			lit = cl
		}
		return true
	})
	key := fd.Name() + "#rule-and-included-category"
	if lit == nil {
		c.Ob(rule, key, fd.Decl.Pos(), false, "NOT FOUND: no tax.TotalCalculator literal in bill.calculate")
		return
	}
	var roundingV, includesV ast.Expr
	for _, el := range lit.Elts {
		if kv, ok := el.(*ast.KeyValueExpr); ok {
			switch kv.Key.(*ast.Ident).Name {
			case "Rounding":
				roundingV = kv.Value
			case "Includes":
				includesV = kv.Value
			}
		}
	}
	idx := -1
	for i, s := range fd.Decl.Body.List {
		if s.Pos() <= lit.Pos() && lit.End() <= s.End() {
			idx = i
		}
	}
	if idx < 0 || roundingV == nil || includesV == nil {
		c.Undecided(rule, key, lit.Pos(), "the calculator is not built at the top level of the function with both settings")
		return
	}
	type scen struct {
		name          string
		hasTax        bool
		rounding, pit bool
	}
	var bad []string
	undecided := ""
	for _, sc := range []scen{{"no tax object", false, false, false}, {"neither set", true, false, false}, {"rounding set", true, true, false}, {"prices_include set", true, false, true}, {"both set", true, true, true}} {
		sc := sc
		ev := &core.AbsEval{Info: info}
		ev.UnknownIf = func(*ast.IfStmt) bool { return true }
		ev.SkipLoop = func(ast.Stmt) bool { return true }
		ev.Atom = func(e ast.Expr) (any, bool) {
			e = ast.Unparen(e)
			switch x := e.(type) {
			case *ast.CallExpr:
				if fn := core.Callee(info, x); fn != nil && len(x.Args) == 0 {
					switch fn.Name() {
					case "getTax":
						if sc.hasTax {
							return core.AbsPtr{Elem: "tax"}, true
						}
						return "nil", true
					case "GetRoundingRule":
						return "regime-rule", true
					}
				}
			case *ast.SelectorExpr:
				f := core.FieldOf(info, x)
				if f == nil {
					return nil, false
				}
				if owner := fieldOwner(info, x); owner == nil || core.TypeName(owner) != "bill.Tax" {
					return nil, false
				}
				base, ok := ev.Eval(x.X)
				if !ok || base != any(core.AbsPtr{Elem: "tax"}) {
					return nil, false
				}
				switch f.Name() {
				case "Rounding":
					if sc.rounding {
						return "document-rule", true
					}
					return "", true
				case "PricesInclude":
					if sc.pit {
						return "document-category", true
					}
					return "", true
				}
			}
			return nil, false
		}
		_, reached, ok := ev.RunList(fd.Decl.Body.List[:idx])
		gotR, okR := ev.Eval(roundingV)
		gotI, okI := ev.Eval(includesV)
		if !ok || reached || !okR || !okI {
			undecided = "the settings handed to the tax calculator could not be evaluated for a document with " + sc.name
			break
		}
		wantR, wantI := "regime-rule", ""
		if sc.hasTax && sc.rounding {
			wantR = "document-rule"
		}
		if sc.hasTax && sc.pit {
			wantI = "document-category"
		}
		if gotR != any(wantR) || gotI != any(wantI) {
			bad = append(bad, fmt.Sprintf("with %s the calculator gets rule=%v included=%q (expected %v / %q)", sc.name, gotR, gotI, wantR, wantI))
		}
	}
	if undecided != "" {
		c.Undecided(rule, key, lit.Pos(), undecided)
		return
	}
	c.Ob(rule, key, lit.Pos(), len(bad) == 0,
		"the rounding rule / included category used are not the document's own settings in every combination: "+strings.Join(bad, "; "))
}

// c03RowPrecision — C03-R9: a discount or charge row is not presented with fewer
// decimals than its currency. Where a rounding function of package bill that
// knows the currency (a `cur` parameter) lowers an amount to an exponent held in
// a variable, that variable starts from the currency's subunits and may only be
// replaced by something known to be larger (`if x > e { e = x }`, max): a base
// given as "1001" (no decimals) otherwise rounds the row's amount to 25 while
// the document's charge total, summed before, says 25.03.
func c03RowPrecision(c *core.Ctx) {
	p := c.P
	c.Rule("C03-R9", "a row's presentation precision is at least the currency's", 2)
	pk := p.Pkg("bill")
	if pk == nil {
		return
	}
	n := 0
	for _, fd := range p.Funcs(pk) {
		if p.IsTestFile(fd.Decl.Pos()) || fd.Decl.Body == nil {
			continue
		}
		sig := fd.Obj.Type().(*types.Signature)
		hasCur := false
		for i := 0; i < sig.Params().Len(); i++ {
			if core.TypeString(sig.Params().At(i).Type()) == "currency.Code" {
				hasCur = true
			}
		}
		if !hasCur {
			continue
		}
		info := fd.Pkg.TypesInfo
		ld := core.NewLocalDefs(info, fd.Decl.Body)
		ff := core.NewFuncFlow(fd)
		fromCurrency := func(e ast.Expr) bool {
			s := types.ExprString(ast.Unparen(e))
			return strings.Contains(s, "Subunits") || strings.Contains(s, "Zero().Exp()") || strings.HasSuffix(s, "zero.Exp()")
		}
		// geCur: the exponent expression is known to be at least the currency's decimals where it stands
		busy := map[*types.Var]bool{}
		var geCur func(e ast.Expr, at ast.Node, depth int) bool
		geCur = func(e ast.Expr, at ast.Node, depth int) bool {
			e = ast.Unparen(e)
			if depth > 5 {
				return false
			}
			if fromCurrency(e) {
				return true
			}
			if call, ok := e.(*ast.CallExpr); ok {
				if id, isId := call.Fun.(*ast.Ident); isId && id.Name == "max" {
					for _, a := range call.Args {
						if geCur(a, at, depth+1) {
							return true
						}
					}
				}
			}
			// known larger than something that is
			if at != nil {
				if node := ff.Flow.EnclosingNode(at); node != nil {
					es := types.ExprString(e)
					for leaf, val := range ff.Flow.CondsAt(node) {
						be, ok := ast.Unparen(leaf).(*ast.BinaryExpr)
						if !ok || !val {
							continue
						}
						l, r := types.ExprString(ast.Unparen(be.X)), types.ExprString(ast.Unparen(be.Y))
						switch {
						case (be.Op == token.GTR || be.Op == token.GEQ) && l == es && geCur(be.Y, nil, depth+1):
							return true
						case (be.Op == token.LSS || be.Op == token.LEQ) && r == es && geCur(be.X, nil, depth+1):
							return true
						}
					}
				}
			}
			if v := core.VarOf(info, e); v != nil && !v.IsField() {
				if busy[v] {
					return true // being established: `if x > e { e = x }` compares with e itself
				}
				busy[v] = true
				defer delete(busy, v)
				defs := ld.All(v)
				if len(defs) == 0 {
					return false
				}
				for _, d := range defs {
					if d.RHS == nil {
						if _, isDecl := d.Stmt.(*ast.ValueSpec); isDecl {
							continue // `var e uint32`, assigned on every path afterwards
						}
						return false
					}
					var stmt ast.Node
					if d.Stmt != nil {
						stmt = d.Stmt
					}
					if !geCur(d.RHS, stmt, depth+1) {
						return false
					}
				}
				return true
			}
			return false
		}
		ast.Inspect(fd.Decl.Body, func(m ast.Node) bool {
			as, ok := m.(*ast.AssignStmt)
			if !ok || len(as.Lhs) != 1 || len(as.Rhs) != 1 {
				return true
			}
			// presentation rounding in place: x.F = x.F.RescaleDown(e)
			f := core.FieldOf(info, ast.Unparen(as.Lhs[0]))
			call, isCall := ast.Unparen(as.Rhs[0]).(*ast.CallExpr)
			if f == nil || !isCall || len(call.Args) != 1 {
				return true
			}
			fn := core.Callee(info, call)
			if !isAmountMethod(fn, "RescaleDown") && !isAmountMethod(fn, "Rescale") {
				return true
			}
			if types.ExprString(ast.Unparen(core.RecvExpr(call))) != types.ExprString(ast.Unparen(as.Lhs[0])) {
				return true
			}
			n++
			key := fmt.Sprintf("%s#%s", fd.Name(), f.Name())
			arg := ast.Unparen(call.Args[0])
			if ac, isC := arg.(*ast.CallExpr); isC && !fromCurrency(arg) {
				if cf := core.Callee(info, ac); cf != nil && core.InModule(cf.Pkg()) && p.DeclOf(cf) != nil {
					c.Undecided("C03-R9", key, call.Pos(), "the exponent is computed by "+core.FuncName(cf))
					return true
				}
			}
			c.Ob("C03-R9", key, call.Pos(), geCur(arg, as, 0),
				fmt.Sprintf("%s lowers the row's amount to %s, which is not known to be at least the currency's number of decimals (it may come from a base with fewer): a row given with a base of fewer decimals than the currency is presented rounded to the base's precision, while the document total it belongs to was summed from the unrounded amount — the presented rows no longer add up to the presented total", fd.Name(), types.ExprString(arg)))
			return true
		})
	}
	c.Extra("C03-R9_row_rounding_sites", n)
}
