package props

import (
	"fmt"
	"go/ast"
	"go/token"
	"go/types"

	"goblcheck/core"
)

// c08Segments — C08-R6: the canonical string encoder copies its input in
// segments s[start:i]. Advancing the segment cursor (`start = ...`) inside the
// scanning loop drops the text since the previous cursor position unless the
// iteration has already passed a flush of s[start:i]; and what is left after
// the loop must be flushed as well. A dropped segment is text the digest does
// not cover.
func c08Segments(c *core.Ctx) {
	p := c.P
	c.Rule("C08-R6", "c14n string encoder: every advance of the segment cursor follows a flush of the pending segment; the tail is flushed", 2)
	pk := p.Pkg("c14n")
	if pk == nil {
		c.Ob("C08-R6", "UNRESOLVED:c14n", token.NoPos, false, "package c14n not found")
		return
	}
	found := 0
	for _, fd := range p.Funcs(pk) {
		info := fd.Pkg.TypesInfo
		sig := fd.Obj.Type().(*types.Signature)
		var sparam *types.Var
		for i := 0; i < sig.Params().Len(); i++ {
			if b, ok := sig.Params().At(i).Type().Underlying().(*types.Basic); ok && b.Kind() == types.String {
				sparam = sig.Params().At(i)
			}
		}
		if sparam == nil {
			continue
		}
		// segment writes: <buf>.WriteString(s[cursor:hi]) / Write([]byte(s[cursor:hi]))
		type segWrite struct {
			call   *ast.CallExpr
			cursor *types.Var
			high   ast.Expr
		}
		var writes []segWrite
		ast.Inspect(fd.Decl.Body, func(n ast.Node) bool {
			call, ok := n.(*ast.CallExpr)
			if !ok {
				return true
			}
			for _, a := range call.Args {
				se, ok := ast.Unparen(a).(*ast.SliceExpr)
				if !ok || core.VarOf(info, se.X) != sparam || se.Low == nil {
					continue
				}
				if cv := core.VarOf(info, se.Low); cv != nil && !cv.IsField() {
					if fn := core.Callee(info, call); fn != nil && fn.Pkg() != nil && (fn.Pkg().Path() == "bytes" || fn.Pkg().Path() == "strings" || fn.Pkg().Path() == "io" || fn.Pkg().Path() == "bufio") {
						writes = append(writes, segWrite{call, cv, se.High})
					}
				}
			}
			return true
		})
		if len(writes) == 0 {
			continue
		}
		found++
		cursor := writes[0].cursor
		isFlush := func(st ast.Stmt) (bool, bool) { // (is a flush, is a tail flush)
			fl, tail := false, false
			ast.Inspect(st, func(n ast.Node) bool {
				for _, w := range writes {
					if n == ast.Node(w.call) && w.cursor == cursor {
						fl = true
						if w.high == nil {
							tail = true
						} else if hc, ok := ast.Unparen(w.high).(*ast.CallExpr); ok {
							if isLen, arg := isLenOf(info, hc); isLen && core.VarOf(info, arg) == sparam {
								tail = true
							}
						}
					}
				}
				return true
			})
			if !fl {
				return false, false
			}
			// accepted forms: the write statement itself, or `if cursor < X { write }`
			switch x := st.(type) {
			case *ast.ExprStmt:
				return true, tail
			case *ast.IfStmt:
				if be, ok := ast.Unparen(x.Cond).(*ast.BinaryExpr); ok && x.Else == nil && x.Init == nil &&
					((be.Op == token.LSS && core.VarOf(info, be.X) == cursor) || (be.Op == token.GTR && core.VarOf(info, be.Y) == cursor) ||
						(be.Op == token.NEQ && (core.VarOf(info, be.X) == cursor || core.VarOf(info, be.Y) == cursor))) {
					return true, tail
				}
			}
			return false, false
		}
		// loops scanning the input
		var loop ast.Stmt
		var loopBody *ast.BlockStmt
		ast.Inspect(fd.Decl.Body, func(n ast.Node) bool {
			switch x := n.(type) {
			case *ast.ForStmt:
				if loop == nil {
					loop, loopBody = x, x.Body
				}
			case *ast.RangeStmt:
				if loop == nil {
					loop, loopBody = x, x.Body
				}
			}
			return true
		})
		if loop == nil {
			c.Undecided("C08-R6", fd.Name(), fd.Decl.Pos(), "segment writes but no scanning loop")
			continue
		}
		// (a) every cursor assignment in the loop follows a flush within the iteration
		nAsg := 0
		ast.Inspect(loopBody, func(n ast.Node) bool {
			as, ok := n.(*ast.AssignStmt)
			if !ok {
				return true
			}
			for _, l := range as.Lhs {
				if core.VarOf(info, l) != cursor {
					continue
				}
				nAsg++
				flushed := false
				// structured dominance: an earlier sibling of the assignment or of one of its ancestors inside the loop body
				var chain []ast.Node
				ast.Inspect(loopBody, func(m ast.Node) bool {
					if m == nil {
						return false
					}
					if m.Pos() <= as.Pos() && as.End() <= m.End() {
						chain = append(chain, m)
						return true
					}
					return false
				})
				for i, anc := range chain {
					var list []ast.Stmt
					switch b := anc.(type) {
					case *ast.BlockStmt:
						list = b.List
					case *ast.CaseClause:
						list = b.Body
					}
					if list == nil || i+1 >= len(chain) {
						continue
					}
					for _, st := range list {
						if st == chain[i+1] {
							break
						}
						if ok, _ := isFlush(st); ok {
							flushed = true
						}
					}
				}
				c.Ob("C08-R6", fmt.Sprintf("%s#advance%d", fd.Name(), nAsg), as.Pos(), flushed,
					fmt.Sprintf("the segment cursor `%s` is advanced without first writing %s[%s:...]: the text since the previous escape is left out of the canonical form", cursor.Name(), sparam.Name(), cursor.Name()))
			}
			return true
		})
		// (b) tail flush after the loop at function level
		tailOK := false
		after := false
		for _, st := range fd.Decl.Body.List {
			if st == loop {
				after = true
				continue
			}
			if after {
				if ok, tail := isFlush(st); ok && tail {
					tailOK = true
				}
			}
		}
		c.Ob("C08-R6", fd.Name()+"#tail", loop.Pos(), tailOK,
			"the remaining segment after the scanning loop is not written")
	}
	if found == 0 {
		c.Ob("C08-R6", "UNRESOLVED:segment-encoder", token.NoPos, false, "no function of c14n copies segments of a string parameter")
	}
}

func isLenOf(info *types.Info, call *ast.CallExpr) (bool, ast.Expr) {
	id, ok := call.Fun.(*ast.Ident)
	if !ok || id.Name != "len" || len(call.Args) != 1 {
		return false, nil
	}
	if _, isB := info.Uses[id].(*types.Builtin); !isB {
		return false, nil
	}
	return true, call.Args[0]
}
