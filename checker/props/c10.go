package props

import (
	"fmt"
	"go/ast"
	"go/token"
	"go/types"

	"goblcheck/core"
)

func init() { register("C10", C10) }

// C10 — envelope lifecycle guards.
func C10(c *core.Ctx) {
	p := c.P
	c.Explain("Decided, as the structural guards the lifecycle rests on: (R1) Sign appends a signature only after a successful key.Sign, validates after the append, and clears the signature list on every failing path after the append; (R2) unmarshalling a signature reports success only where the JWS object has been stored from a successful parse, so every list entry is a real signature; (R3) the signed flag is derived exactly from a non-empty signature list and handed to the struct validation, header stamps are required empty unless signed and checked for duplicates, and every document type with code+uuid+regime requires its code when signed. Not decided: the outcome of operation histories (a model-checking question), nor validity of the document itself.")
	c.Rule("C10-R1", "Sign: append after successful key.Sign; validate after append; roll back on failure", 3)
	c.Rule("C10-R2", "Signature.UnmarshalJSON success implies a parsed JWS was stored", 1)
	c.Rule("C10-R3", "signed flag derivation; stamps only when signed; code required when signed (sibling agreement)", 6)

	c.Rule("C10-R4", "'the header still contains each signed header' compares every serialised header field (shared with C09-R3)", 7)
	c09Contains(c, "C10-R4")
	c10Sign(c)
	c10Unmarshal(c)
	c10SignedFlag(c)
	c10ContextPropagation(c)
	c10UnsignThenValidate(c)
	c09SignParseAlgorithms(c, "C10-R8")
	// R6: a verification that succeeds has verified every signature (C09-R4, re-reported): the
	// outcome of verify after any history of sign / edit / sign does not depend on which
	// signature happens to come first
	c.Rule("C10-R6", "Envelope.Verify heeds the verification of every signature (shared with C09-R4)", 1)
	sub9 := core.NewCtx("C09", c.Tier, c.Seed, c.P, c.VerifDir)
	sub9.Quiet = true
	C09(sub9)
	for _, o := range sub9.Obligations() {
		if o.Rule == "C09-R4" {
			c.ObAt("C10-R6", o.Key, o.Pos, o.OK, o.Msg)
		}
	}
	_ = p
}

func c10Sign(c *core.Ctx) {
	p := c.P
	fd := p.Func("", "Envelope", "Sign")
	if fd == nil {
		c.Ob("C10-R1", "UNRESOLVED:Envelope.Sign", token.NoPos, false, "method not found")
		return
	}
	info := fd.Pkg.TypesInfo
	recv := recvVar(fd)
	ff := core.NewFuncFlow(fd)
	// the append statement: recv.Signatures = append(recv.Signatures, X)
	var app *ast.AssignStmt
	var clears []*ast.AssignStmt
	ast.Inspect(fd.Decl.Body, func(n ast.Node) bool {
		as, ok := n.(*ast.AssignStmt)
		if !ok || len(as.Lhs) != 1 || len(as.Rhs) != 1 {
			return true
		}
		if !core.IsFieldOfVar(info, as.Lhs[0], recv, "Signatures") {
			return true
		}
		if core.IsNil(info, as.Rhs[0]) {
			clears = append(clears, as)
			return true
		}
		if cl, ok := ast.Unparen(as.Rhs[0]).(*ast.CallExpr); ok {
			if id, ok := cl.Fun.(*ast.Ident); ok && id.Name == "append" && len(cl.Args) >= 2 && core.IsFieldOfVar(info, cl.Args[0], recv, "Signatures") {
				app = as
			}
		}
		return true
	})
	if app == nil {
		c.Ob("C10-R1", fd.Name()+"#append", fd.Decl.Pos(), false, "NOT FOUND: no append to <receiver>.Signatures in this function")
		return
	}
	// (a) appended value is the result of a key Sign call whose error is nil here
	appCall := ast.Unparen(app.Rhs[0]).(*ast.CallExpr)
	ld := core.NewLocalDefs(info, fd.Decl.Body)
	okA := false
	whyA := "the appended value is not the result of a successful dsig key Sign call"
	if v := core.VarOf(info, appCall.Args[1]); v != nil {
		if d, ok := ld.Before(v, app.Pos()); ok {
			if sc, ok := ast.Unparen(d.RHS).(*ast.CallExpr); ok {
				if fn := core.Callee(info, sc); fn != nil && fn.Pkg() != nil && fn.Pkg().Path() == core.ModPath+"/dsig" {
					if ff.ErrNilAt(app, sc) == 1 {
						okA = true
					} else {
						whyA = "the signature is appended where the error of key.Sign is not known to be nil"
					}
				}
			}
		}
	}
	c.Ob("C10-R1", fd.Name()+"#append-after-sign", app.Pos(), okA, whyA)
	// (b)+(c)
	var validateCall *ast.CallExpr
	for _, cl := range core.CallsTo(info, fd.Decl.Body, func(f *types.Func) bool {
		return core.RecvNamed(f) != nil && core.RecvNamed(f).Obj().Name() == "Envelope" && (f.Name() == "Validate" || f.Name() == "ValidateWithContext")
	}) {
		if core.VarOf(info, core.RecvExpr(cl)) == recv && cl.Pos() > app.Pos() {
			validateCall = cl
		}
	}
	nFail, nSucc := 0, 0
	for _, r := range ff.Flow.Returns() {
		if !ff.Flow.Reachable(r) || !ff.Flow.CanReach(app, r) {
			continue
		}
		k, _ := ff.ClassifyReturn(p, r)
		if k == core.RetSuccess {
			nSucc++
			ok := validateCall != nil && ff.ErrNilAt(r, validateCall) == 1 && ff.Flow.AssignsPassedAt(ff.Flow.EnclosingNode(validateCall))[app]
			c.Ob("C10-R1", fmt.Sprintf("%s#validated-success%d", fd.Name(), nSucc), r.Pos(), ok,
				"success is returned without the envelope having been validated, with no error, after the signature was appended")
			continue
		}
		nFail++
		cleared := false
		for a := range ff.Flow.AssignsPassedAt(r) {
			for _, cl := range clears {
				if a == cl && cl.Pos() > app.Pos() {
					cleared = true
				}
			}
		}
		c.Ob("C10-R1", fmt.Sprintf("%s#rollback%d", fd.Name(), nFail), r.Pos(), cleared,
			"a failing return after the append does not pass through `<receiver>.Signatures = nil`: a failed signing leaves the envelope signed")
	}
	if nSucc == 0 {
		c.Ob("C10-R1", fd.Name()+"#validated-success", fd.Decl.Pos(), false, "NOT FOUND: no success return after the append")
	}
	if nFail == 0 {
		c.Ob("C10-R1", fd.Name()+"#rollback", fd.Decl.Pos(), false, "no failing return after the append: validation result cannot be reported")
	}
}

func c10Unmarshal(c *core.Ctx) {
	p := c.P
	fd := p.Func("dsig", "Signature", "UnmarshalJSON")
	if fd == nil {
		c.Ob("C10-R2", "UNRESOLVED:dsig.Signature.UnmarshalJSON", token.NoPos, false, "method not found")
		return
	}
	named := core.RecvNamed(fd.Obj)
	st := named.Underlying().(*types.Struct)
	var jws *types.Var
	for i := 0; i < st.NumFields(); i++ {
		if pt, ok := st.Field(i).Type().(*types.Pointer); ok {
			if n, ok := pt.Elem().(*types.Named); ok && n.Obj().Pkg() != nil && n.Obj().Pkg().Path() == josePkg {
				jws = st.Field(i)
			}
		}
	}
	if jws == nil {
		c.Ob("C10-R2", "UNRESOLVED:jws-field", fd.Decl.Pos(), false, "Signature has no go-jose JSONWebSignature field")
		return
	}
	var decide func(fd *core.FuncDecl, depth int)
	seen := map[*types.Func]bool{}
	decide = func(fd *core.FuncDecl, depth int) {
		if seen[fd.Obj] || depth > 3 {
			return
		}
		seen[fd.Obj] = true
		info := fd.Pkg.TypesInfo
		ff := core.NewFuncFlow(fd)
		recv := recvVar(fd)
		n := 0
		for _, r := range ff.Flow.Returns() {
			if !ff.Flow.Reachable(r) {
				continue
			}
			k, tc := ff.ClassifyReturn(p, r)
			switch k {
			case core.RetFailure:
				continue
			case core.RetTransfer:
				fn := core.Callee(info, tc)
				if fn != nil && core.RecvNamed(fn) == named && core.VarOf(info, core.RecvExpr(tc)) == recv {
					if cfd := p.DeclOf(fn); cfd != nil {
						decide(cfd, depth+1)
						continue
					}
				}
				c.Ob("C10-R2", fd.Name()+"#transfer", r.Pos(), false, "verdict handed to a call that is not a method of the same signature")
			case core.RetUnknown:
				// `return err` style: accept when known non-nil, else undecided
				c.Undecided("C10-R2", fd.Name()+"#return", r.Pos(), "error value of this return could not be classified")
			case core.RetSuccess:
				n++
				stored := false
				for a := range ff.Flow.AssignsPassedAt(r) {
					for i, l := range a.Lhs {
						if f := core.FieldOf(info, l); f == jws && core.RootVar(info, l) == recv {
							// value must come from a call whose error is nil here
							rhs := a.Rhs[0]
							if len(a.Rhs) == len(a.Lhs) {
								rhs = a.Rhs[i]
							}
							if v := core.VarOf(info, rhs); v != nil {
								ld := core.NewLocalDefs(info, fd.Decl.Body)
								if d, ok := ld.Before(v, a.Pos()); ok {
									if sc, ok := ast.Unparen(d.RHS).(*ast.CallExpr); ok && ff.ErrNilAt(r, sc) == 1 {
										stored = true
									}
								}
							} else if sc, ok := ast.Unparen(rhs).(*ast.CallExpr); ok && ff.ErrNilAt(r, sc) == 1 {
								stored = true
							}
						}
					}
				}
				c.Ob("C10-R2", fmt.Sprintf("%s#success%d", fd.Name(), n), r.Pos(), stored,
					"reports success although no successfully parsed JWS has been stored in the signature: the entry is not a real signature and later verification dereferences nil")
			}
		}
	}
	decide(fd, 0)
}

func c10SignedFlag(c *core.Ctx) {
	p := c.P
	isSignedCtx := func(f *types.Func) bool { return core.IsFunc(f, core.ModPath+"/internal", "", "SignedContext") }
	isIsSigned := func(f *types.Func) bool { return core.IsFunc(f, core.ModPath+"/internal", "", "IsSigned") }
	// (a) derivation in Envelope.ValidateWithContext
	if fd := p.Func("", "Envelope", "ValidateWithContext"); fd != nil {
		info := fd.Pkg.TypesInfo
		recv := recvVar(fd)
		ff := core.NewFuncFlow(fd)
		calls := core.CallsTo(info, fd.Decl.Body, isSignedCtx)
		if len(calls) != 1 {
			c.Ob("C10-R3", fd.Name()+"#signed-context", fd.Decl.Pos(), false, fmt.Sprintf("expected exactly one internal.SignedContext call, found %d", len(calls)))
		} else {
			node := ff.Flow.EnclosingNode(calls[0])
			fact := ff.LenFactAt(node, func(e ast.Expr) bool { return core.IsFieldOfVar(info, e, recv, "Signatures") })
			// the condition must be exactly the emptiness test (no other conjunct)
			nconds := len(ff.Flow.CondsAt(node))
			c.Ob("C10-R3", fd.Name()+"#signed-context", calls[0].Pos(), fact == 1 && nconds == 1,
				"the signed flag is not derived exactly when len(<receiver>.Signatures) > 0")
			// the derived context is assigned to the ctx parameter and passed to the struct validation
			ctxParam := fd.Obj.Type().(*types.Signature).Params().At(0)
			assigned := false
			if as, ok := node.(*ast.AssignStmt); ok && len(as.Lhs) == 1 && core.VarOf(info, as.Lhs[0]) == ctxParam {
				assigned = true
			}
			svs := core.StructValidations(info, fd.Decl.Body)
			passed := len(svs) == 1 && len(svs[0].Call.Args) > 0 && core.VarOf(info, svs[0].Call.Args[0]) == ctxParam && svs[0].Call.Pos() > calls[0].Pos()
			c.Ob("C10-R3", fd.Name()+"#context-passed", calls[0].Pos(), assigned && passed,
				"the signed context is not the one handed to the struct validation of the envelope")
			// header and document are validated under that context
			for _, fname := range []string{"Head", "Document", "Signatures"} {
				found := false
				for _, sv := range svs {
					for _, fr := range sv.Fields {
						if fr.Field.Name() == fname && fr.Base == recv {
							found = true
						}
					}
				}
				c.Ob("C10-R3", fd.Name()+"#validates:"+fname, fd.Decl.Pos(), found, "envelope validation does not visit field "+fname)
			}
		}
	} else {
		c.Ob("C10-R3", "UNRESOLVED:Envelope.ValidateWithContext", token.NoPos, false, "method not found")
	}
	// IsSigned reads the same key SignedContext writes
	if a, b := p.Func("internal", "", "IsSigned"), p.Func("internal", "", "SignedContext"); a != nil && b != nil {
		keyOf := func(fd *core.FuncDecl, method string) types.Object {
			var o types.Object
			ast.Inspect(fd.Decl.Body, func(n ast.Node) bool {
				cl, ok := n.(*ast.CallExpr)
				if !ok {
					return true
				}
				fn := core.Callee(fd.Pkg.TypesInfo, cl)
				if fn == nil || fn.Name() != method {
					return true
				}
				arg := cl.Args[len(cl.Args)-1]
				if method == "WithValue" {
					arg = cl.Args[1]
				}
				if id, ok := ast.Unparen(arg).(*ast.Ident); ok {
					o = fd.Pkg.TypesInfo.Uses[id]
				}
				return true
			})
			return o
		}
		k1, k2 := keyOf(a, "Value"), keyOf(b, "WithValue")
		c.Ob("C10-R3", "internal.signed-key", a.Decl.Pos(), k1 != nil && k1 == k2, "IsSigned does not read the context key that SignedContext writes")
	} else {
		c.Ob("C10-R3", "UNRESOLVED:internal", token.NoPos, false, "internal.IsSigned / SignedContext not found")
	}
	// (b) header stamps
	if fd := p.Func("head", "Header", "ValidateWithContext"); fd != nil {
		info := fd.Pkg.TypesInfo
		okEmpty, okDup := false, false
		for _, sv := range core.StructValidations(info, fd.Decl.Body) {
			for _, fr := range sv.Fields {
				if fr.Field.Name() != "Stamps" {
					continue
				}
				for _, r := range fr.Rules {
					if whenSigned(info, fd.Decl.Body, r, isIsSigned, true, "Empty") {
						okEmpty = true
					}
					ast.Inspect(r, func(n ast.Node) bool {
						if id, ok := n.(*ast.Ident); ok {
							if v, ok := info.Uses[id].(*types.Var); ok && v.Name() == "DetectDuplicateStamps" {
								okDup = true
							}
						}
						return true
					})
				}
			}
		}
		c.Ob("C10-R3", fd.Name()+"#stamps-empty-unless-signed", fd.Decl.Pos(), okEmpty, "the Stamps field is not required to be empty when the envelope is not signed")
		c.Ob("C10-R3", fd.Name()+"#stamps-duplicates", fd.Decl.Pos(), okDup, "the Stamps field is not checked for duplicate providers")
	} else {
		c.Ob("C10-R3", "UNRESOLVED:head.Header.ValidateWithContext", token.NoPos, false, "method not found")
	}
	// (c) sibling agreement: code required when signed
	regs := p.RegisteredTypes()
	n := 0
	for _, r := range regs {
		st, ok := r.Named.Underlying().(*types.Struct)
		if !ok {
			continue
		}
		hasCode, hasIdent, hasRegime := false, false, false
		for i := 0; i < st.NumFields(); i++ {
			f := st.Field(i)
			if f.Name() == "Code" && core.TypeString(f.Type()) == "cbc.Code" {
				hasCode = true
			}
			if f.Embedded() && core.TypeString(f.Type()) == "uuid.Identify" {
				hasIdent = true
			}
			if f.Embedded() && core.TypeString(f.Type()) == "tax.Regime" {
				hasRegime = true
			}
		}
		if !(hasCode && hasIdent && hasRegime) {
			continue
		}
		n++
		key := core.TypeName(r.Named) + ".Code#required-when-signed"
		obj, _, _ := types.LookupFieldOrMethod(types.NewPointer(r.Named), true, r.Named.Obj().Pkg(), "ValidateWithContext")
		vfd := p.DeclOf(asFunc(obj))
		if vfd == nil {
			c.Ob("C10-R3", key, r.Pos, false, "document type has no ValidateWithContext")
			continue
		}
		ok = false
		for _, sv := range core.StructValidations(vfd.Pkg.TypesInfo, vfd.Decl.Body) {
			for _, fr := range sv.Fields {
				if fr.Field.Name() != "Code" {
					continue
				}
				for _, rule := range fr.Rules {
					if whenSigned(vfd.Pkg.TypesInfo, vfd.Decl.Body, rule, isIsSigned, false, "Required") {
						ok = true
					}
				}
			}
		}
		c.Ob("C10-R3", key, vfd.Decl.Pos(), ok, "the document code is not required when the envelope is signed (sibling document types require it)")
	}
	if n < 4 {
		c.Ob("C10-R3", "UNRESOLVED:code-documents", token.NoPos, false, fmt.Sprintf("only %d document types with code+uuid+regime found (expected ≥4)", n))
	}
}

func asFunc(o types.Object) *types.Func {
	f, _ := o.(*types.Func)
	return f
}

// whenSigned recognises validation.When(<[!]internal.IsSigned(ctx)>, ... validation.<name> ...).
func whenSigned(info *types.Info, body ast.Node, rule ast.Expr, isIsSigned func(*types.Func) bool, negated bool, name string) bool {
	cl, ok := ast.Unparen(rule).(*ast.CallExpr)
	if !ok || len(cl.Args) < 2 {
		return false
	}
	fn := core.Callee(info, cl)
	if fn == nil || fn.Pkg() == nil || fn.Pkg().Path() != "github.com/invopop/validation" || fn.Name() != "When" {
		return false
	}
	cond := ast.Unparen(cl.Args[0])
	neg := false
	// through negations and locals that hold the flag (signed := IsSigned(ctx); draft := !IsSigned(ctx))
	for i := 0; i < 4; i++ {
		if u, ok := cond.(*ast.UnaryExpr); ok && u.Op == token.NOT {
			neg = !neg
			cond = ast.Unparen(u.X)
			continue
		}
		if id, ok := cond.(*ast.Ident); ok {
			if v, ok := info.Uses[id].(*types.Var); ok && !v.IsField() {
				if ds := core.NewLocalDefs(info, body).All(v); len(ds) == 1 && ds[0].RHS != nil && ds[0].N == 1 {
					cond = ast.Unparen(ds[0].RHS)
					continue
				}
			}
		}
		break
	}
	cc, ok := cond.(*ast.CallExpr)
	if !ok || neg != negated {
		return false
	}
	if f := core.Callee(info, cc); f == nil || !isIsSigned(f) {
		return false
	}
	found := false
	for _, a := range cl.Args[1:] {
		ast.Inspect(a, func(n ast.Node) bool {
			if e, ok := n.(ast.Expr); ok && core.IsValidationVar(info, e, name) {
				found = true
			}
			return true
		})
	}
	return found
}


// c10ContextPropagation — C10-R5: whether the envelope is signed reaches the
// document's validators through the context. Every ValidateWithContext method
// of the module hands its context (or one derived from it) to the validation
// calls it makes, and makes no context-free validation call: a single
// `validation.Validate(x)` on the way cuts everything below it off from the
// signed flag (an invoice without a code could be signed).
func c10ContextPropagation(c *core.Ctx) {
	p := c.P
	c.Rule("C10-R5", "ValidateWithContext methods pass their context on to every nested validation", 20)
	const vpkg = "github.com/invopop/validation"
	for _, fd := range p.AllFuncs() {
		if fd.Obj.Name() != "ValidateWithContext" || fd.Decl.Recv == nil || p.IsTestFile(fd.Decl.Pos()) {
			continue
		}
		sig := fd.Obj.Type().(*types.Signature)
		if sig.Params().Len() != 1 || core.TypeString(sig.Params().At(0).Type()) != "context.Context" {
			continue
		}
		info := fd.Pkg.TypesInfo
		ctx := sig.Params().At(0)
		ld := core.NewLocalDefs(info, fd.Decl.Body)
		// derived from the context: the expression mentions the context parameter, or a local
		// every definition of which is derived from it
		var fromCtx func(e ast.Expr, depth int) bool
		fromCtx = func(e ast.Expr, depth int) bool {
			if depth > 4 {
				return false
			}
			found := false
			ast.Inspect(e, func(k ast.Node) bool {
				id, ok := k.(*ast.Ident)
				if !ok || found {
					return true
				}
				v, _ := info.Uses[id].(*types.Var)
				if v == nil {
					return true
				}
				if v == ctx {
					found = true
					return true
				}
				if t := v.Type(); core.TypeString(t) == "context.Context" && !v.IsField() {
					ds := ld.All(v)
					all := len(ds) > 0
					for _, d := range ds {
						if d.RHS == nil || !fromCtx(d.RHS, depth+1) {
							all = false
						}
					}
					if all {
						found = true
					}
				}
				return true
			})
			return found
		}
		bad := ""
		n := 0
		ast.Inspect(fd.Decl.Body, func(m ast.Node) bool {
			call, ok := m.(*ast.CallExpr)
			if !ok || bad != "" {
				return true
			}
			fn := core.Callee(info, call)
			if fn == nil || fn.Pkg() == nil {
				return true
			}
			isVal := fn.Pkg().Path() == vpkg || (core.InModule(fn.Pkg()) && core.RelPkg(fn.Pkg().Path()) == "tax")
			if !isVal {
				return true
			}
			switch fn.Name() {
			case "Validate", "ValidateStruct":
				if core.RecvNamed(fn) == nil {
					bad = fmt.Sprintf("%s.%s at %s is the context-free form", fn.Pkg().Name(), fn.Name(), p.Rel(call.Pos()))
				}
			case "ValidateWithContext", "ValidateStructWithContext":
				if core.RecvNamed(fn) == nil && len(call.Args) > 0 {
					n++
					if !fromCtx(call.Args[0], 0) {
						bad = fmt.Sprintf("%s.%s at %s is not given the method's context", fn.Pkg().Name(), fn.Name(), p.Rel(call.Pos()))
					}
				}
			}
			return true
		})
		c.Ob("C10-R5", fd.Name()+"#context-passed-on", fd.Decl.Pos(), bad == "",
			"the context does not reach the nested validation ("+bad+"): rules that depend on the envelope being signed (code required to sign, stamps only when signed) are not applied below this point")
		_ = n
	}
}

// c10UnsignThenValidate — C10-R7: stamps are only valid on a signed envelope, so
// whether an envelope validates depends on its signatures. A function that
// takes the signatures away (x.Signatures = nil, x.Unsign()) and also validates
// the envelope must validate what it hands back: no success return is reachable
// from the removal without a validation of the same envelope after it.
// (`gobl build` drops earlier signatures: done after validating, it returns an
// unsigned envelope that still carries stamps and fails its own Validate.)
func c10UnsignThenValidate(c *core.Ctx) {
	p := c.P
	c.Rule("C10-R7", "an envelope is validated after its signatures were removed, not before", 1)
	env := p.Named("", "Envelope")
	if env == nil {
		c.Ob("C10-R7", "UNRESOLVED:Envelope", token.NoPos, false, "type not found")
		return
	}
	isEnv := func(t types.Type) bool {
		n, _ := core.StructOf(t)
		return n == env
	}
	n := 0
	for _, fd := range p.AllFuncs() {
		if p.IsTestFile(fd.Decl.Pos()) || fd.Decl.Body == nil {
			continue
		}
		info := fd.Pkg.TypesInfo
		type site struct {
			node ast.Node
			v    *types.Var
		}
		var clears, validates []site
		ast.Inspect(fd.Decl.Body, func(m ast.Node) bool {
			switch x := m.(type) {
			case *ast.AssignStmt:
				for i, l := range x.Lhs {
					se, ok := ast.Unparen(l).(*ast.SelectorExpr)
					if !ok || se.Sel.Name != "Signatures" || !isEnv(info.TypeOf(se.X)) || i >= len(x.Rhs) || !core.IsNil(info, x.Rhs[i]) {
						continue
					}
					if v := core.VarOf(info, se.X); v != nil {
						clears = append(clears, site{x, v})
					}
				}
			case *ast.CallExpr:
				fn := core.Callee(info, x)
				if fn == nil || core.RecvNamed(fn) != env {
					return true
				}
				v := core.VarOf(info, core.RecvExpr(x))
				if v == nil {
					return true
				}
				switch fn.Name() {
				case "Unsign":
					clears = append(clears, site{x, v})
				case "Validate", "ValidateWithContext":
					validates = append(validates, site{x, v})
				}
			}
			return true
		})
		if len(clears) == 0 || len(validates) == 0 {
			continue
		}
		ff := core.NewFuncFlow(fd)
		for i, cl := range clears {
			n++
			key := fmt.Sprintf("%s#unsign%d", fd.Name(), i+1)
			cn := ff.Flow.EnclosingNode(cl.node)
			if cn == nil {
				c.Undecided("C10-R7", key, cl.node.Pos(), "the removal could not be located in the control flow graph")
				continue
			}
			bad := ""
			for _, r := range ff.Flow.Returns() {
				if !ff.Flow.Reachable(r) || !ff.Flow.CanReach(cn, r) {
					continue
				}
				if k, _ := ff.ClassifyReturn(p, r); k == core.RetFailure {
					continue
				}
				// a validation of the same envelope after the removal, passed on the way to this return
				okRet := false
				for _, v := range validates {
					call := v.node.(*ast.CallExpr)
					if v.v == cl.v && call.Pos() > cl.node.Pos() && ff.Flow.PassedAt(r)[call] {
						okRet = true
					}
				}
				// the function's own result is that validation's error: `return env.Validate()`
				if !okRet && len(r.Results) > 0 {
					if call, ok := ast.Unparen(r.Results[len(r.Results)-1]).(*ast.CallExpr); ok {
						for _, v := range validates {
							if v.node == ast.Node(call) && v.v == cl.v {
								okRet = true
							}
						}
					}
				}
				if !okRet {
					bad = p.Rel(r.Pos())
				}
			}
			c.Ob("C10-R7", key, cl.node.Pos(), bad == "", fmt.Sprintf("%s removes the envelope's signatures and can return successfully (at %s) without validating the envelope afterwards, although it validated it before: stamps are only accepted on a signed envelope, so what is handed back can be an unsigned envelope with stamps that fails its own Validate", fd.Name(), bad))
		}
	}
	if n == 0 {
		c.Ob("C10-R7", "UNRESOLVED:unsign-sites", token.NoPos, false, "no function both removes signatures and validates")
	}
}
