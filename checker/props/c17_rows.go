package props

import (
	"fmt"
	"go/ast"
	"go/token"
	"go/types"
	"sort"
	"strings"

	"goblcheck/core"
)

// c17RowTypes: the types of the rows whose order the property quantifies over:
// the lines, discounts and charges of a bill document (the element types of
// the slices handed out by the billable interface), the row slices nested in
// them (line discounts, line charges, the tax combos of each), and the
// tax.TaxableLine view of them that the tax calculation walks.
func c17RowTypes(c *core.Ctx) map[string]bool {
	p := c.P
	rows := map[string]bool{}
	var named []*types.Named
	add := func(t types.Type) {
		el := t
		if s, ok := t.Underlying().(*types.Slice); ok {
			el = s.Elem()
		} else {
			return
		}
		if rows[types.TypeString(el, nil)] {
			return
		}
		switch u := el.(type) {
		case *types.Pointer:
			if n, ok := u.Elem().(*types.Named); ok && core.InModule(n.Obj().Pkg()) {
				if _, isStruct := n.Underlying().(*types.Struct); isStruct {
					rows[types.TypeString(el, nil)] = true
					named = append(named, n)
				}
			}
		case *types.Named:
			if _, isIface := u.Underlying().(*types.Interface); isIface && core.InModule(u.Obj().Pkg()) {
				rows[types.TypeString(el, nil)] = true
			}
		}
	}
	if b := p.Named("bill", "billable"); b != nil {
		if it, ok := b.Underlying().(*types.Interface); ok {
			for i := 0; i < it.NumMethods(); i++ {
				m := it.Method(i)
				switch m.Name() {
				case "getLines", "getDiscounts", "getCharges", "getPreceding":
					add(m.Type().(*types.Signature).Results().At(0).Type())
				}
			}
		}
	}
	if tl := p.Named("tax", "TaxableLine"); tl != nil {
		rows[types.TypeString(tl, nil)] = true
	}
	for i := 0; i < len(named); i++ {
		st := named[i].Underlying().(*types.Struct)
		for j := 0; j < st.NumFields(); j++ {
			add(st.Field(j).Type())
		}
	}
	return rows
}

// c17RowLoops — C17-R6: a loop over rows hands nothing from one row to the next
// except a fold. Inside a loop over lines, discounts, charges (or the rows
// nested in them), a variable that outlives the iteration may only be
//   - folded: `v = v.Add(x)`, `v = append(v, x)`, `v += x`, `v++` (the new value
//     is computed from the old one; that the fold commutes is R2's business),
//   - set to a constant (a sticky flag),
//   - set and the loop left at once (a search), or
//   - set afresh at the top of every iteration before anything reads it.
//
// Anything else is a value of one row that later rows see — the result then
// depends on which row comes first.
func c17RowLoops(c *core.Ctx) {
	p := c.P
	c.Rule("C17-R6", "a loop over document rows carries nothing from one row to the next except a fold", 6)
	rows := c17RowTypes(c)
	var rowNames []string
	for t := range rows {
		rowNames = append(rowNames, strings.TrimPrefix(strings.Replace(t, core.ModPath+"/", "", 1), "*"+core.ModPath+"/"))
	}
	sort.Strings(rowNames)
	c.Extra("C17-R6_row_types", rowNames)
	if len(rows) < 5 {
		c.Ob("C17-R6", "UNRESOLVED:row-types", token.NoPos, false, fmt.Sprintf("only %d row types derived from bill.billable", len(rows)))
	}
	for _, rel := range []string{"bill", "tax", "pay"} {
		pk := p.Pkg(rel)
		if pk == nil {
			continue
		}
		for _, fd := range p.Funcs(pk) {
			if p.IsTestFile(fd.Decl.Pos()) || fd.Decl.Body == nil {
				continue
			}
			info := fd.Pkg.TypesInfo
			nloop := 0
			ast.Inspect(fd.Decl.Body, func(n ast.Node) bool {
				rs, ok := n.(*ast.RangeStmt)
				if !ok {
					return true
				}
				xt := info.TypeOf(rs.X)
				if xt == nil {
					return true
				}
				sl, ok := xt.Underlying().(*types.Slice)
				if !ok || !rows[types.TypeString(sl.Elem(), nil)] {
					return true
				}
				nloop++
				key := fmt.Sprintf("%s#loop%d:%s", fd.Name(), nloop, types.ExprString(rs.X))
				bad := c17Carried(info, fd, rs)
				if len(bad) == 0 {
					c.Ob("C17-R6", key, rs.Pos(), true, "")
					return true
				}
				c.Ob("C17-R6", key, bad[0].pos, false, fmt.Sprintf("the loop over %s assigns %s, which outlives the iteration, from %s (at %s): the value set while handling one row is what the following rows see, so the figures depend on the order of the rows", types.ExprString(rs.X), bad[0].name, bad[0].rhs, p.Rel(bad[0].pos)))
				return true
			})
		}
	}
}

type carried struct {
	name string
	rhs  string
	pos  token.Pos
}

func c17Carried(info *types.Info, fd *core.FuncDecl, rs *ast.RangeStmt) []carried {
	var out []carried
	outer := func(v *types.Var) bool {
		if v == nil || v.IsField() {
			return false
		}
		if v.Pkg() != nil && v.Parent() == v.Pkg().Scope() {
			return false // package-level: C15's business
		}
		return v.Pos() < rs.Pos() || v.Pos() > rs.End()
	}
	// first mention of a variable in the loop body, per top-level statement
	firstIsTopAssign := func(v *types.Var) bool {
		for _, st := range rs.Body.List {
			mentions := false
			ast.Inspect(st, func(n ast.Node) bool {
				if id, ok := n.(*ast.Ident); ok && info.Uses[id] == v {
					mentions = true
				}
				return !mentions
			})
			if !mentions {
				continue
			}
			as, ok := st.(*ast.AssignStmt)
			if !ok || as.Tok != token.ASSIGN {
				return false
			}
			for _, r := range as.Rhs {
				self := false
				ast.Inspect(r, func(n ast.Node) bool {
					if id, ok := n.(*ast.Ident); ok && info.Uses[id] == v {
						self = true
					}
					return !self
				})
				if self {
					return false
				}
			}
			for _, l := range as.Lhs {
				if core.VarOf(info, l) == v {
					return true
				}
			}
			return false
		}
		return false
	}
	var walk func(list []ast.Stmt, exits bool)
	var guards []ast.Expr // conditions of the enclosing ifs (then-branches)
	// `if x > v { v = x }`: a maximum (minimum) is a fold too
	isExtremum := func(v *types.Var, rhs ast.Expr) bool {
		for _, g := range guards {
			be, ok := ast.Unparen(g).(*ast.BinaryExpr)
			if !ok {
				continue
			}
			switch be.Op {
			case token.LSS, token.GTR, token.LEQ, token.GEQ:
			default:
				continue
			}
			l, r := ast.Unparen(be.X), ast.Unparen(be.Y)
			rs := types.ExprString(ast.Unparen(rhs))
			if (core.VarOf(info, l) == v && types.ExprString(r) == rs) || (core.VarOf(info, r) == v && types.ExprString(l) == rs) {
				return true
			}
		}
		return false
	}
	exitsAfter := func(list []ast.Stmt, i int) bool {
		for _, s := range list[i+1:] {
			switch b := s.(type) {
			case *ast.ReturnStmt:
				return true
			case *ast.BranchStmt:
				if b.Tok == token.BREAK || b.Tok == token.GOTO {
					return true
				}
			}
		}
		return false
	}
	check := func(lhs ast.Expr, rhs ast.Expr, tok token.Token, pos token.Pos, leaves bool) {
		lhs = ast.Unparen(lhs)
		id, ok := lhs.(*ast.Ident)
		if !ok {
			return // element and field stores: the object written is a row's or the accumulator's (R2)
		}
		v, _ := info.Uses[id].(*types.Var)
		if !outer(v) {
			return
		}
		if tok != token.ASSIGN && tok != token.DEFINE {
			return // op-assign: a fold
		}
		if rhs == nil {
			out = append(out, carried{v.Name(), "a multi-value call", pos})
			return
		}
		self := false
		ast.Inspect(rhs, func(n ast.Node) bool {
			if x, ok := n.(*ast.Ident); ok && info.Uses[x] == v {
				self = true
			}
			return !self
		})
		if self {
			return
		}
		if tv, ok := info.Types[rhs]; ok && (tv.Value != nil || tv.IsNil()) {
			return
		}
		if leaves || isExtremum(v, rhs) {
			return
		}
		if firstIsTopAssign(v) {
			return
		}
		out = append(out, carried{v.Name(), types.ExprString(rhs), pos})
	}
	walk = func(list []ast.Stmt, exits bool) {
		for i, s := range list {
			leaves := exits || exitsAfter(list, i)
			switch st := s.(type) {
			case *ast.AssignStmt:
				for j, l := range st.Lhs {
					var r ast.Expr
					if len(st.Rhs) == len(st.Lhs) {
						r = st.Rhs[j]
					}
					if st.Tok == token.DEFINE {
						continue
					}
					check(l, r, st.Tok, st.Pos(), leaves)
				}
			case *ast.BlockStmt:
				walk(st.List, leaves)
			case *ast.IfStmt:
				if as, ok := st.Init.(*ast.AssignStmt); ok && as.Tok == token.ASSIGN {
					walk([]ast.Stmt{as}, false)
				}
				guards = append(guards, st.Cond)
				walk(st.Body.List, leaves)
				guards = guards[:len(guards)-1]
				switch e := st.Else.(type) {
				case *ast.BlockStmt:
					walk(e.List, leaves)
				case *ast.IfStmt:
					walk([]ast.Stmt{e}, leaves)
				}
			case *ast.SwitchStmt:
				for _, cc := range st.Body.List {
					walk(cc.(*ast.CaseClause).Body, false)
				}
			case *ast.TypeSwitchStmt:
				for _, cc := range st.Body.List {
					walk(cc.(*ast.CaseClause).Body, false)
				}
			case *ast.ForStmt:
				walk(st.Body.List, false)
			case *ast.RangeStmt:
				// an inner loop's own carried values are judged when that loop is a row loop; what it
				// assigns of the outer loop's outer variables is judged here
				walk(st.Body.List, false)
			case *ast.LabeledStmt:
				walk([]ast.Stmt{st.Stmt}, leaves)
			}
		}
	}
	walk(rs.Body.List, false)
	return out
}

// c17SignTests — C17-R7: nothing in the calculation decides by the sign of an
// amount. The calculation packages combine amounts with operations that
// commute with negation (add, subtract, multiply, divide, rescale, symmetric
// rounding); a branch on IsPositive / IsNegative / Compare / Abs, or an ordered
// comparison of an amount's value, treats a document and its mirror image
// differently.
func c17SignTests(c *core.Ctx) {
	p := c.P
	c.Rule("C17-R7", "no decision of the calculation depends on the sign of an amount", 1)
	numPkg := core.ModPath + "/num"
	isSign := func(fn *types.Func) bool {
		if fn == nil || fn.Pkg() == nil || fn.Pkg().Path() != numPkg {
			return false
		}
		sig := fn.Type().(*types.Signature)
		if sig.Recv() == nil {
			return false
		}
		switch fn.Name() {
		case "IsPositive", "IsNegative", "Compare", "Abs":
			return true
		}
		return false
	}
	isValue := func(info *types.Info, e ast.Expr) bool {
		call, ok := ast.Unparen(e).(*ast.CallExpr)
		if !ok {
			return false
		}
		fn := core.Callee(info, call)
		return fn != nil && fn.Pkg() != nil && fn.Pkg().Path() == numPkg && (fn.Name() == "Value" || fn.Name() == "Float64") && fn.Type().(*types.Signature).Recv() != nil
	}
	// scope: what the calculation of a document runs
	roots := []*core.FuncDecl{}
	for _, r := range [][3]string{{"bill", "", "calculate"}, {"bill", "", "removeIncludedTaxes"}, {"bill", "Invoice", "Invert"}, {"tax", "TotalCalculator", "Calculate"}, {"tax", "Total", "PreciseSum"}, {"tax", "CategoryTotal", "PreciseAmount"}, {"bill", "Totals", "round"}} {
		if fd := p.Func(r[0], r[1], r[2]); fd != nil {
			roots = append(roots, fd)
		} else {
			c.Ob("C17-R7", "UNRESOLVED:"+strings.Join(r[:], "."), token.NoPos, false, "calculation root not found")
		}
	}
	seen := map[*types.Func]bool{}
	var work []*types.Func
	for _, r := range roots {
		seen[r.Obj] = true
		work = append(work, r.Obj)
	}
	impl := implementers(p)
	for len(work) > 0 {
		f := work[0]
		work = work[1:]
		for _, g := range p.FuncRefs(f) {
			if !core.InModule(g.Pkg()) {
				continue
			}
			cands := []*types.Func{g}
			cands = append(cands, impl(g)...)
			for _, h := range cands {
				if seen[h] || p.DeclOf(h) == nil {
					continue
				}
				if pp := h.Pkg().Path(); pp == numPkg || strings.Contains(pp, "/regimes") || strings.Contains(pp, "/addons") || strings.HasSuffix(pp, "/validation") {
					continue
				}
				seen[h] = true
				work = append(work, h)
			}
		}
	}
	var fns []*types.Func
	for f := range seen {
		fns = append(fns, f)
	}
	sort.Slice(fns, func(i, j int) bool { return core.FuncName(fns[i]) < core.FuncName(fns[j]) })
	c.Extra("C17-R7_functions_in_the_calculation", len(fns))
	if len(fns) < 40 {
		c.Ob("C17-R7", "UNRESOLVED:calculation-closure", token.NoPos, false, fmt.Sprintf("only %d functions reached from the calculation roots", len(fns)))
	}
	bad := 0
	for _, f := range fns {
		fd := p.DeclOf(f)
		if fd == nil || fd.Decl.Body == nil {
			continue
		}
		if strings.HasPrefix(f.Name(), "Validate") || strings.HasPrefix(f.Name(), "validate") {
			continue // validation states sign requirements on purpose (positive quantities, ...); it computes nothing
		}
		info := fd.Pkg.TypesInfo
		n := 0
		ast.Inspect(fd.Decl.Body, func(nd ast.Node) bool {
			switch x := nd.(type) {
			case *ast.CallExpr:
				if fn := core.Callee(info, x); isSign(fn) {
					n++
					bad++
					c.Ob("C17-R7", fmt.Sprintf("%s#%s%d", fd.Name(), fn.Name(), n), x.Pos(), false, fmt.Sprintf("%s, part of the calculation, decides by %s: a document and its mirror image (every amount negated) take different branches here, so inverting no longer gives exactly the negated figures", fd.Name(), types.ExprString(x)))
				}
			case *ast.BinaryExpr:
				switch x.Op {
				case token.LSS, token.GTR, token.LEQ, token.GEQ:
					if isValue(info, x.X) || isValue(info, x.Y) {
						n++
						bad++
						c.Ob("C17-R7", fmt.Sprintf("%s#order%d", fd.Name(), n), x.Pos(), false, fmt.Sprintf("%s, part of the calculation, compares the raw value of an amount (%s): a document and its mirror image take different branches here", fd.Name(), types.ExprString(x)))
					}
				}
			}
			return true
		})
	}
	c.Ob("C17-R7", "calculation#sign-free", token.NoPos, bad == 0, fmt.Sprintf("%d sign-dependent decisions in the calculation", bad))
}

// implementers returns, for an interface method of the module, the concrete
// module methods that may stand behind it.
func implementers(p *core.Program) func(g *types.Func) []*types.Func {
	var concrete []*types.Named
	for _, pk := range p.Pkgs {
		if !core.InModule(pk.Types) {
			continue
		}
		sc := pk.Types.Scope()
		for _, nm := range sc.Names() {
			if tn, ok := sc.Lookup(nm).(*types.TypeName); ok && !tn.IsAlias() {
				if n, ok := tn.Type().(*types.Named); ok && n.TypeParams().Len() == 0 {
					if _, isIface := n.Underlying().(*types.Interface); !isIface {
						concrete = append(concrete, n)
					}
				}
			}
		}
	}
	memo := map[*types.Func][]*types.Func{}
	return func(g *types.Func) []*types.Func {
		if r, ok := memo[g]; ok {
			return r
		}
		var out []*types.Func
		sig := g.Type().(*types.Signature)
		if sig.Recv() != nil {
			if it, isIface := sig.Recv().Type().Underlying().(*types.Interface); isIface {
				for _, n := range concrete {
					for _, t := range []types.Type{n, types.NewPointer(n)} {
						if !types.Implements(t, it) {
							continue
						}
						if m, _, _ := types.LookupFieldOrMethod(t, true, g.Pkg(), g.Name()); m != nil {
							if mf, ok := m.(*types.Func); ok && core.InModule(mf.Pkg()) {
								out = append(out, mf.Origin())
							}
						}
						break
					}
				}
			}
		}
		memo[g] = out
		return out
	}
}
