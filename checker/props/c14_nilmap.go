package props

import (
	"fmt"
	"go/ast"
	"go/token"
	"go/types"
	"strings"

	"goblcheck/core"
)

// c14NilMapWrites — C14-R14: a store into a map held by a struct member
// (`x.Ext[k] = v`) panics when the member is nil, and the extension and meta
// maps of a parsed document are nil whenever the JSON has none. Every such
// store of the module lies where the member is known to hold a map: a
// dominating `x.F != nil`, an assignment of a fresh map (make, literal, a
// Merge / copy helper's result) on every path, or the idiom
// `if x.F == nil { x.F = make(…) }` passed on every path.
func c14NilMapWrites(c *core.Ctx) {
	p := c.P
	c.Rule("C14-R14", "a map member is written only where it is known not to be nil", 15)
	n := 0
	for _, fd := range p.AllFuncs() {
		if p.IsTestFile(fd.Decl.Pos()) || fd.Decl.Body == nil || !core.InModule(fd.Obj.Pkg()) {
			continue
		}
		rel := core.RelPkg(fd.Obj.Pkg().Path())
		if rel == "examples" || strings.HasPrefix(rel, "cmd/") || strings.HasPrefix(rel, "internal/") {
			continue
		}
		info := fd.Pkg.TypesInfo
		var ff *core.FuncFlow
		k := 0
		ast.Inspect(fd.Decl.Body, func(m ast.Node) bool {
			if _, isLit := m.(*ast.FuncLit); isLit {
				return false
			}
			as, ok := m.(*ast.AssignStmt)
			if !ok {
				return true
			}
			for _, l := range as.Lhs {
				ix, ok := ast.Unparen(l).(*ast.IndexExpr)
				if !ok {
					continue
				}
				if _, isMap := info.TypeOf(ix.X).Underlying().(*types.Map); !isMap {
					continue
				}
				f := core.FieldOf(info, ix.X)
				if f == nil {
					continue // a local map: made where it is declared
				}
				if !isDocMap(f.Type()) {
					continue // registries and other internal maps are made by their constructors
				}
				root := core.RootVar(info, ix.X)
				if root != nil && root.Pkg() != nil && root.Parent() == root.Pkg().Scope() {
					continue // package-level registries: initialised with the package (C15)
				}
				n++
				k++
				path := types.ExprString(ast.Unparen(ix.X))
				if ff == nil {
					ff = core.NewFuncFlow(fd)
				}
				key := fmt.Sprintf("%s#%s%d", fd.Name(), f.Name(), k)
				samePath := func(e ast.Expr) bool { return types.ExprString(ast.Unparen(e)) == path }
				isNilCmp := func(e ast.Expr, op token.Token) bool {
					be, ok := ast.Unparen(e).(*ast.BinaryExpr)
					if !ok || be.Op != op {
						return false
					}
					return (samePath(be.X) && core.IsNil(info, be.Y)) || (samePath(be.Y) && core.IsNil(info, be.X))
				}
				fresh := func(e ast.Expr) bool {
					e = ast.Unparen(e)
					switch x := e.(type) {
					case *ast.CompositeLit:
						return true
					case *ast.CallExpr:
						if id, ok := x.Fun.(*ast.Ident); ok && id.Name == "make" {
							return true
						}
					}
					return false
				}
				node := ff.Flow.EnclosingNode(as)
				okHere := false
				why := ""
				if node != nil {
					for leaf, val := range ff.Flow.CondsAt(node) {
						if (isNilCmp(leaf, token.NEQ) && val) || (isNilCmp(leaf, token.EQL) && !val) {
							okHere = true
						}
						// a read that found something: x.F.Has(k) / x.F[k] != "" — a nil map holds nothing
						if val {
							if call, ok := ast.Unparen(leaf).(*ast.CallExpr); ok {
								if se, ok := call.Fun.(*ast.SelectorExpr); ok && samePath(se.X) && (se.Sel.Name == "Has" || se.Sel.Name == "Contains") {
									okHere = true
								}
							}
							if be, ok := ast.Unparen(leaf).(*ast.BinaryExpr); ok && be.Op == token.NEQ {
								for _, side := range []ast.Expr{be.X, be.Y} {
									if ix2, ok := ast.Unparen(side).(*ast.IndexExpr); ok && samePath(ix2.X) {
										okHere = true
									}
								}
							}
						}
						// len(x.F) > 0 and the like: a nil map has no entries
						if be, ok := ast.Unparen(leaf).(*ast.BinaryExpr); ok && val {
							if call, ok := ast.Unparen(be.X).(*ast.CallExpr); ok && len(call.Args) == 1 && samePath(call.Args[0]) {
								if id, ok := call.Fun.(*ast.Ident); ok && id.Name == "len" && (be.Op == token.GTR || be.Op == token.NEQ) {
									okHere = true
								}
							}
						}
					}
					// inside a range over the same map: it has entries
					if !okHere {
						ast.Inspect(fd.Decl.Body, func(q ast.Node) bool {
							if rs, ok := q.(*ast.RangeStmt); ok && rs.Body.Pos() <= as.Pos() && as.End() <= rs.Body.End() && samePath(rs.X) {
								okHere = true
							}
							return !okHere
						})
					}
					// the owner is a local built by a literal that gives the member a map
					if !okHere && root != nil {
						if se, ok := ast.Unparen(ix.X).(*ast.SelectorExpr); ok && core.VarOf(info, se.X) == root {
							ld := core.NewLocalDefs(info, fd.Decl.Body)
							if ds := ld.All(root); len(ds) == 1 && ds[0].RHS != nil {
								lit := ast.Unparen(ds[0].RHS)
								if u, ok := lit.(*ast.UnaryExpr); ok && u.Op == token.AND {
									lit = ast.Unparen(u.X)
								}
								if cl, ok := lit.(*ast.CompositeLit); ok {
									for _, el := range cl.Elts {
										if kv, ok := el.(*ast.KeyValueExpr); ok {
											if id, ok := kv.Key.(*ast.Ident); ok && id.Name == f.Name() && fresh(kv.Value) {
												okHere = true
											}
										}
									}
								}
							}
						}
					}
					// every literal of the owner's type in the module gives the member a map (registries)
					if !okHere && alwaysMade(p, f) {
						okHere = true
					}
					if !okHere {
						// established on every path: `x.F = make(…)`, or the guard of `if x.F == nil { x.F = make(…) }`
						establishing := map[ast.Node]bool{}
						ast.Inspect(fd.Decl.Body, func(q ast.Node) bool {
							switch s := q.(type) {
							case *ast.AssignStmt:
								for i, ll := range s.Lhs {
									if samePath(ll) && len(s.Rhs) == len(s.Lhs) && fresh(s.Rhs[i]) {
										establishing[s] = true
									}
								}
							case *ast.IfStmt:
								if s.Else == nil && s.Init == nil && isNilCmp(s.Cond, token.EQL) && len(s.Body.List) > 0 {
									if la, ok := s.Body.List[len(s.Body.List)-1].(*ast.AssignStmt); ok && len(la.Lhs) == 1 && samePath(la.Lhs[0]) && fresh(la.Rhs[0]) {
										establishing[s.Cond] = true
									}
								}
							}
							return true
						})
						if len(establishing) > 0 && ff.Flow.EveryPathPasses(node, func(nd ast.Node) bool { return establishing[nd] }) {
							okHere = true
						}
					}
				} else {
					why = "UNDECIDED: the statement could not be located in the control flow graph"
				}
				if why == "" {
					why = fmt.Sprintf("%s may be nil here (a parsed document has no map where the JSON has none): the store panics with \"assignment to entry in nil map\" instead of the operation returning an error", path)
				}
				c.Ob("C14-R14", key, as.Pos(), okHere, why)
			}
			return true
		})
	}
	c.Extra("C14-R14_map_member_stores", n)
}


var alwaysMadeMemo = map[*types.Var]int{}

// alwaysMade: the member is unexported (or its struct type is) and
// every composite literal of that type (there is at least one) sets it to a
// fresh map: values of the type are only made by their constructor.
func alwaysMade(p *core.Program, f *types.Var) bool {
	if r, ok := alwaysMadeMemo[f]; ok {
		return r == 1
	}
	alwaysMadeMemo[f] = 2
	n, okAll := 0, true
	for _, pk := range p.Pkgs {
		if !core.InModule(pk.Types) {
			continue
		}
		for _, file := range pk.Syntax {
			if p.IsTestFile(file.Pos()) {
				continue
			}
			ast.Inspect(file, func(m ast.Node) bool {
				cl, ok := m.(*ast.CompositeLit)
				if !ok {
					return true
				}
				nm, st := core.StructOf(pk.TypesInfo.TypeOf(cl))
				if nm == nil || st == nil {
					return true
				}
				owns := false
				for i := 0; i < st.NumFields(); i++ {
					if st.Field(i) == f {
						owns = true
					}
				}
				if !owns {
					return true
				}
				if nm.Obj().Exported() && f.Exported() {
					okAll = false
					return true
				}
				n++
				set := false
				for _, el := range cl.Elts {
					if kv, ok := el.(*ast.KeyValueExpr); ok {
						if id, ok := kv.Key.(*ast.Ident); ok && id.Name == f.Name() {
							v := ast.Unparen(kv.Value)
							if _, isLit := v.(*ast.CompositeLit); isLit {
								set = true
							}
							if call, isCall := v.(*ast.CallExpr); isCall {
								if id, ok := call.Fun.(*ast.Ident); ok && id.Name == "make" {
									set = true
								}
							}
						}
					}
				}
				if !set {
					okAll = false
				}
				return true
			})
		}
	}
	if n > 0 && okAll {
		alwaysMadeMemo[f] = 1
		return true
	}
	return false
}
