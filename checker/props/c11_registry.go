package props

import (
	"encoding/json"
	"fmt"
	"go/ast"
	"go/token"
	"go/types"
	"path/filepath"
	"sort"
	"strings"

	"goblcheck/core"
)

// c11RegistryEnums — C11-R5: the $regime and $addons enumerations are published
// from the definition registries. The registry's lookup map decides what the
// library accepts; the schema constants decide what a consumer accepts. Both are
// taken from fields of the definition (RegimeDef / AddonDef): the sets of
// fields must agree — a key source that only the registry uses (e.g. alternative
// country codes) is a value the library accepts and the schema rejects.
func c11RegistryEnums(c *core.Ctx) {
	p := c.P
	c.Rule("C11-R5", "registry lookup keys and published enumeration constants are taken from the same definition fields", 2)
	fe := newFieldEffects(p)
	for _, spec := range []struct{ coll, def, ext, member string }{
		{"RegimeDefCollection", "RegimeDef", "Regime", "$regime"},
		{"addonCollection", "AddonDef", "Addons", "$addons"},
	} {
		key := "tax." + spec.ext + "." + spec.member
		add := p.Func("tax", spec.coll, "add")
		ext := p.Func("tax", spec.ext, "JSONSchemaExtend")
		defT := p.Named("tax", spec.def)
		if add == nil || ext == nil || defT == nil {
			c.Ob("C11-R5", "UNRESOLVED:"+key, token.NoPos, false, "registry add method, schema extender or definition type not found")
			continue
		}
		defFields := map[*types.Var]bool{}
		if st, ok := defT.Underlying().(*types.Struct); ok {
			for i := 0; i < st.NumFields(); i++ {
				defFields[st.Field(i)] = true
			}
		}
		// fields of the definition an expression is computed from
		var fieldsOf func(fd *core.FuncDecl, e ast.Expr, depth int) map[string]bool
		fieldsOf = func(fd *core.FuncDecl, e ast.Expr, depth int) map[string]bool {
			out := map[string]bool{}
			if depth > 4 {
				return out
			}
			info := fd.Pkg.TypesInfo
			ast.Inspect(e, func(n ast.Node) bool {
				switch x := n.(type) {
				case *ast.SelectorExpr:
					if f := core.FieldOf(info, x); f != nil && defFields[f] {
						out[f.Name()] = true
					}
				case *ast.CallExpr:
					if fn := core.Callee(info, x); fn != nil && core.InModule(fn.Pkg()) {
						if r := core.RecvNamed(fn); r != nil && r.Obj() == defT.Obj() {
							for f := range fe.reads[fn] {
								if defFields[f] {
									out[f.Name()] = true
								}
							}
						}
					}
				case *ast.Ident:
					// a range value: what the ranged collection is computed from
					if v, ok := info.Uses[x].(*types.Var); ok && !v.IsField() {
						ast.Inspect(fd.Decl.Body, func(m ast.Node) bool {
							if rs, ok := m.(*ast.RangeStmt); ok && rs.Value != nil && core.VarOf(info, rs.Value) == v {
								// elements of a definition list are definitions, not key sources
								if _, isDef := core.StructOf(v.Type()); isDef == nil || !types.Identical(v.Type(), types.NewPointer(defT)) {
									for k := range fieldsOf(fd, rs.X, depth+1) {
										out[k] = true
									}
								}
							}
							return true
						})
					}
				}
				return true
			})
			return out
		}
		accepted := map[string]bool{}
		ainfo := add.Pkg.TypesInfo
		ast.Inspect(add.Decl.Body, func(n ast.Node) bool {
			as, ok := n.(*ast.AssignStmt)
			if !ok {
				return true
			}
			for _, l := range as.Lhs {
				if ix, ok := ast.Unparen(l).(*ast.IndexExpr); ok {
					if _, isMap := ainfo.TypeOf(ix.X).Underlying().(*types.Map); isMap {
						for k := range fieldsOf(add, ix.Index, 0) {
							accepted[k] = true
						}
					}
				}
			}
			return true
		})
		published := map[string]bool{}
		// the Const members may be written in helpers the extender calls (a constructor of one
		// option, a function returning the list): a helper's parameters stand for what the call
		// site computes them from
		var collect func(fd *core.FuncDecl, bound map[*types.Var]map[string]bool, depth int)
		collect = func(fd *core.FuncDecl, bound map[*types.Var]map[string]bool, depth int) {
			if depth > 3 || fd == nil || fd.Decl.Body == nil {
				return
			}
			info := fd.Pkg.TypesInfo
			from := func(e ast.Expr) map[string]bool {
				out := fieldsOf(fd, e, 0)
				ast.Inspect(e, func(n ast.Node) bool {
					if id, ok := n.(*ast.Ident); ok {
						if v, ok := info.Uses[id].(*types.Var); ok {
							for k := range bound[v] {
								out[k] = true
							}
						}
					}
					return true
				})
				return out
			}
			ast.Inspect(fd.Decl.Body, func(n ast.Node) bool {
				switch x := n.(type) {
				case *ast.KeyValueExpr:
					if id, ok := x.Key.(*ast.Ident); ok && id.Name == "Const" {
						for k := range from(x.Value) {
							published[k] = true
						}
					}
				case *ast.AssignStmt:
					// s.Const = code
					for i, l := range x.Lhs {
						if f := core.FieldOf(info, l); f != nil && f.Name() == "Const" && i < len(x.Rhs) {
							for k := range from(x.Rhs[i]) {
								published[k] = true
							}
						}
					}
				case *ast.CallExpr:
					fn := core.Callee(info, x)
					if fn == nil || fn.Pkg() != fd.Obj.Pkg() || fn == fd.Obj {
						return true
					}
					cfd := p.DeclOf(fn)
					if cfd == nil {
						return true
					}
					sig := fn.Type().(*types.Signature)
					nb := map[*types.Var]map[string]bool{}
					for i := 0; i < sig.Params().Len() && i < len(x.Args); i++ {
						nb[sig.Params().At(i)] = from(x.Args[i])
					}
					if rv := sig.Recv(); rv != nil {
						if re := core.RecvExpr(x); re != nil {
							nb[rv] = from(re)
						}
					}
					collect(cfd, nb, depth+1)
				}
				return true
			})
		}
		collect(ext, nil, 0)
		var only []string
		for k := range accepted {
			if !published[k] {
				only = append(only, k)
			}
		}
		sort.Strings(only)
		if len(accepted) == 0 || len(published) == 0 {
			c.Undecided("C11-R5", key, add.Decl.Pos(), fmt.Sprintf("key sources not identified (registry %v, schema %v)", keysOf(accepted), keysOf(published)))
			continue
		}
		c.Ob("C11-R5", key, ext.Decl.Pos(), len(only) == 0,
			fmt.Sprintf("the registry accepts keys taken from %s.%s, which %s does not publish in the %s enumeration (published from %v): a document using such a key validates in the library and is rejected by the published schema",
				spec.def, strings.Join(only, ","), ext.Name(), spec.member, keysOf(published)))
	}
}

func init() { _ = filepath.Join }

func keysOf(m map[string]bool) []string {
	var out []string
	for k := range m {
		out = append(out, k)
	}
	sort.Strings(out)
	return out
}

// c11RegimeType — C11-R5 (second clause): `$regime` is declared as an
// l10n tax-country-code. A regime's alternative country codes that are not tax
// country codes (GR for the EL regime) are accepted by the registry lookup but
// can never satisfy the member's declared type; documents must therefore
// replace them by the regime's own code while calculating. Decided: either no
// such alternative code exists in data/regimes, or every document type that
// publishes the `$regime` enumeration canonicalises in Calculate — a call
// SetRegime(<its RegimeDef()>.Country) conditioned on nothing but the regime
// being set and defined.
func c11RegimeType(c *core.Ctx) {
	p := c.P
	taxCodes := map[string]bool{}
	if b, err := p.ReadFile(filepath.Join(p.Repo, "data", "schemas", "l10n", "tax-country-code.json")); err == nil {
		var doc map[string]any
		if json.Unmarshal(b, &doc) == nil {
			var walk func(v any)
			walk = func(v any) {
				switch x := v.(type) {
				case map[string]any:
					if cst, ok := x["const"].(string); ok {
						taxCodes[cst] = true
					}
					for _, y := range x {
						walk(y)
					}
				case []any:
					for _, y := range x {
						walk(y)
					}
				}
			}
			walk(doc)
		}
	}
	if len(taxCodes) < 20 {
		c.Ob("C11-R5", "UNRESOLVED:tax-country-codes", token.NoPos, false, "could not read the tax country code enumeration from data/schemas/l10n/tax-country-code.json")
		return
	}
	var outside []string
	files, _ := filepath.Glob(filepath.Join(p.Repo, "data", "regimes", "*.json"))
	sort.Strings(files)
	for _, f := range files {
		b, err := p.ReadFile(f)
		if err != nil {
			continue
		}
		var rd struct {
			Country string   `json:"country"`
			Alt     []string `json:"alt_country_codes"`
		}
		if json.Unmarshal(b, &rd) != nil {
			continue
		}
		for _, a := range rd.Alt {
			if !taxCodes[a] {
				outside = append(outside, a+" (regime "+rd.Country+")")
			}
		}
	}
	c.Extra("alt_regime_codes_outside_tax_country_codes", outside)
	if len(outside) == 0 {
		c.Ob("C11-R5", "tax.Regime.$regime#declared-type", token.NoPos, true, "")
		return
	}
	// document types that publish the enumeration
	for _, fd := range p.AllFuncs() {
		if fd.Obj.Name() != "JSONSchemaExtend" || fd.Decl.Recv == nil {
			continue
		}
		info := fd.Pkg.TypesInfo
		publishes := false
		for _, call := range core.CallsTo(info, fd.Decl.Body, func(f *types.Func) bool { return core.IsFunc(f, core.ModPath+"/tax", "Regime", "JSONSchemaExtend") }) {
			_ = call
			publishes = true
		}
		recvT := core.RecvNamed(fd.Obj)
		if !publishes || recvT == nil {
			continue
		}
		key := core.TypeName(recvT) + "#canonical-regime"
		obj, _, _ := types.LookupFieldOrMethod(types.NewPointer(recvT), true, recvT.Obj().Pkg(), "Calculate")
		cfn, _ := obj.(*types.Func)
		cfd := p.DeclOf(cfn)
		if cfd == nil {
			c.Ob("C11-R5", key, fd.Decl.Pos(), false, "no Calculate method")
			continue
		}
		var canonicalises func(cfd *core.FuncDecl, recv *types.Var, depth int) bool
		canonicalises = func(cfd *core.FuncDecl, recv *types.Var, depth int) bool {
			if depth > 2 || cfd == nil || cfd.Decl.Body == nil || recv == nil {
				return false
			}
			cinfo := cfd.Pkg.TypesInfo
			ff := core.NewFuncFlow(cfd)
			ld := core.NewLocalDefs(cinfo, cfd.Decl.Body)
			// conditions allowed around the canonicalising call: the regime is set, its definition exists
			onlyAllowed := func(call ast.Node, dv *types.Var) bool {
				node := ff.Flow.EnclosingNode(call)
				if node == nil {
					return true
				}
				for l, v := range ff.Flow.CondsAt(node) {
					g := core.GuardOf(cinfo, l, ff.Errs)
					switch {
					case (g.Kind == "nil" || g.Kind == "err") && dv != nil && g.X != nil && core.VarOf(cinfo, g.X) == dv && g.Neg == v:
					case g.Kind == "bool" && g.Call != nil && core.Callee(cinfo, g.Call) != nil && core.Callee(cinfo, g.Call).Name() == "IsEmpty" && !v:
					default:
						return false
					}
				}
				return true
			}
			for _, call := range core.CallsTo(cinfo, cfd.Decl.Body, func(f *types.Func) bool { return core.IsFunc(f, core.ModPath+"/tax", "Regime", "SetRegime") }) {
				if len(call.Args) != 1 || core.RootVar(cinfo, core.RecvExpr(call)) != recv {
					continue
				}
				// argument: <def>.Country with def := <recv>.RegimeDef()
				se, isSel := ast.Unparen(call.Args[0]).(*ast.SelectorExpr)
				if !isSel || se.Sel.Name != "Country" {
					continue
				}
				dv := core.VarOf(cinfo, se.X)
				var defExpr ast.Expr = se.X
				if dv != nil {
					if ds := ld.All(dv); len(ds) == 1 && ds[0].RHS != nil {
						defExpr = ds[0].RHS
					}
				}
				dc, isCall := ast.Unparen(defExpr).(*ast.CallExpr)
				if !isCall {
					continue
				}
				if fn := core.Callee(cinfo, dc); fn == nil || fn.Name() != "RegimeDef" || core.RootVar(cinfo, core.RecvExpr(dc)) != recv {
					continue
				}
				if onlyAllowed(call, dv) {
					return true
				}
			}
			// handed to a helper of the package: prepareRegime(&doc.Regime, …)
			for _, call := range core.CallsTo(cinfo, cfd.Decl.Body, func(f *types.Func) bool { return f.Pkg() == cfd.Obj.Pkg() && f != cfd.Obj }) {
				fn := core.Callee(cinfo, call)
				hfd := p.DeclOf(fn)
				if hfd == nil || !onlyAllowed(call, nil) {
					continue
				}
				sig := fn.Type().(*types.Signature)
				for i, a := range call.Args {
					if i >= sig.Params().Len() || core.RootVar(cinfo, a) != recv {
						continue
					}
					if n, _ := core.StructOf(sig.Params().At(i).Type()); n == nil {
						continue
					}
					if canonicalises(hfd, sig.Params().At(i), depth+1) {
						return true
					}
				}
			}
			return false
		}
		ok := canonicalises(cfd, recvVar(cfd), 0)
		c.Ob("C11-R5", key, cfd.Decl.Pos(), ok,
			fmt.Sprintf("alternative regime codes %v are accepted for $regime although they are not tax country codes (the member's declared type), and %s.Calculate does not replace them by the regime's own code: a valid document keeps a $regime the published schema rejects", outside, core.TypeName(recvT)))
	}
}
