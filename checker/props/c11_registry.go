package props

import (
	"fmt"
	"go/ast"
	"go/token"
	"go/types"
	"sort"
	"strings"

	"goblcheck/core"
)

// c11RegistryEnums — C11-R5: the $regime and $addons enumerations are published
// from the definition registries. The registry's lookup map decides what the
// library accepts; the schema constants decide what a consumer accepts. Both are
// taken from fields of the definition (RegimeDef / AddonDef): the sets of
// fields must agree — a key source that only the registry uses (e.g. alternative
// country codes) is a value the library accepts and the schema rejects.
func c11RegistryEnums(c *core.Ctx) {
	p := c.P
	c.Rule("C11-R5", "registry lookup keys and published enumeration constants are taken from the same definition fields", 2)
	fe := newFieldEffects(p)
	for _, spec := range []struct{ coll, def, ext, member string }{
		{"RegimeDefCollection", "RegimeDef", "Regime", "$regime"},
		{"addonCollection", "AddonDef", "Addons", "$addons"},
	} {
		key := "tax." + spec.ext + "." + spec.member
		add := p.Func("tax", spec.coll, "add")
		ext := p.Func("tax", spec.ext, "JSONSchemaExtend")
		defT := p.Named("tax", spec.def)
		if add == nil || ext == nil || defT == nil {
			c.Ob("C11-R5", "UNRESOLVED:"+key, token.NoPos, false, "registry add method, schema extender or definition type not found")
			continue
		}
		defFields := map[*types.Var]bool{}
		if st, ok := defT.Underlying().(*types.Struct); ok {
			for i := 0; i < st.NumFields(); i++ {
				defFields[st.Field(i)] = true
			}
		}
		// fields of the definition an expression is computed from
		var fieldsOf func(fd *core.FuncDecl, e ast.Expr, depth int) map[string]bool
		fieldsOf = func(fd *core.FuncDecl, e ast.Expr, depth int) map[string]bool {
			out := map[string]bool{}
			if depth > 4 {
				return out
			}
			info := fd.Pkg.TypesInfo
			ast.Inspect(e, func(n ast.Node) bool {
				switch x := n.(type) {
				case *ast.SelectorExpr:
					if f := core.FieldOf(info, x); f != nil && defFields[f] {
						out[f.Name()] = true
					}
				case *ast.CallExpr:
					if fn := core.Callee(info, x); fn != nil && core.InModule(fn.Pkg()) {
						if r := core.RecvNamed(fn); r != nil && r.Obj() == defT.Obj() {
							for f := range fe.reads[fn] {
								if defFields[f] {
									out[f.Name()] = true
								}
							}
						}
					}
				case *ast.Ident:
					// a range value: what the ranged collection is computed from
					if v, ok := info.Uses[x].(*types.Var); ok && !v.IsField() {
						ast.Inspect(fd.Decl.Body, func(m ast.Node) bool {
							if rs, ok := m.(*ast.RangeStmt); ok && rs.Value != nil && core.VarOf(info, rs.Value) == v {
								// elements of a definition list are definitions, not key sources
								if _, isDef := core.StructOf(v.Type()); isDef == nil || !types.Identical(v.Type(), types.NewPointer(defT)) {
									for k := range fieldsOf(fd, rs.X, depth+1) {
										out[k] = true
									}
								}
							}
							return true
						})
					}
				}
				return true
			})
			return out
		}
		accepted := map[string]bool{}
		ainfo := add.Pkg.TypesInfo
		ast.Inspect(add.Decl.Body, func(n ast.Node) bool {
			as, ok := n.(*ast.AssignStmt)
			if !ok {
				return true
			}
			for _, l := range as.Lhs {
				if ix, ok := ast.Unparen(l).(*ast.IndexExpr); ok {
					if _, isMap := ainfo.TypeOf(ix.X).Underlying().(*types.Map); isMap {
						for k := range fieldsOf(add, ix.Index, 0) {
							accepted[k] = true
						}
					}
				}
			}
			return true
		})
		published := map[string]bool{}
		einfo := ext.Pkg.TypesInfo
		ast.Inspect(ext.Decl.Body, func(n ast.Node) bool {
			kv, ok := n.(*ast.KeyValueExpr)
			if !ok {
				return true
			}
			if id, ok := kv.Key.(*ast.Ident); ok && id.Name == "Const" {
				for k := range fieldsOf(ext, kv.Value, 0) {
					published[k] = true
				}
			}
			return true
		})
		_ = einfo
		var only []string
		for k := range accepted {
			if !published[k] {
				only = append(only, k)
			}
		}
		sort.Strings(only)
		if len(accepted) == 0 || len(published) == 0 {
			c.Undecided("C11-R5", key, add.Decl.Pos(), fmt.Sprintf("key sources not identified (registry %v, schema %v)", keysOf(accepted), keysOf(published)))
			continue
		}
		c.Ob("C11-R5", key, ext.Decl.Pos(), len(only) == 0,
			fmt.Sprintf("the registry accepts keys taken from %s.%s, which %s does not publish in the %s enumeration (published from %v): a document using such a key validates in the library and is rejected by the published schema",
				spec.def, strings.Join(only, ","), ext.Name(), spec.member, keysOf(published)))
	}
}

func keysOf(m map[string]bool) []string {
	var out []string
	for k := range m {
		out = append(out, k)
	}
	sort.Strings(out)
	return out
}
