package props

import (
	"fmt"
	"go/ast"
	"go/constant"
	"go/token"
	"go/types"
	"regexp"
	"strings"

	"goblcheck/core"
)

func init() { register("C06", C06) }

// foldString folds a string-typed expression to its constant value.
func foldString(info *types.Info, e ast.Expr) (string, bool) {
	if tv, ok := info.Types[e]; ok && tv.Value != nil && tv.Value.Kind() == constant.String {
		return constant.StringVal(tv.Value), true
	}
	return "", false
}

// schemaPattern returns the Pattern constant published by T.JSONSchema().
func schemaPattern(p *core.Program, recv string) (string, token.Pos, bool) {
	fd := p.Func("num", recv, "JSONSchema")
	if fd == nil {
		return "", token.NoPos, false
	}
	var pat string
	var pos token.Pos
	found := false
	ast.Inspect(fd.Decl.Body, func(n ast.Node) bool {
		kv, ok := n.(*ast.KeyValueExpr)
		if !ok {
			return true
		}
		if id, ok := kv.Key.(*ast.Ident); ok && id.Name == "Pattern" {
			if s, ok := foldString(fd.Pkg.TypesInfo, kv.Value); ok {
				pat, pos, found = s, kv.Pos(), true
			}
		}
		return true
	})
	return pat, pos, found
}

// C06 — amount and percentage text codec.
func C06(c *core.Ctx) {
	p := c.P
	c.Explain("Decided: (R1) the amount reader enforces the published pattern — every success return of AmountFromString lies where the input was matched by a regular expression compiled from the very constant that Amount.JSONSchema publishes (strconv alone accepts signs in both parts), and the combination of the two parts is range-checked before it is computed; (R2) PercentageFromString hands everything but one optional trailing % to AmountFromString and the percentage pattern is the amount pattern plus %; (R3) both UnmarshalJSON methods go through unquote and UnmarshalText, unquote strips only a complete pair of quotes around a non-empty body, and MarshalText is String(); (R4) the printer returns no constant text outside the pattern except beyond the 18-decimal domain, and its sign prefix is only \"\" or \"-\". Recorded, not decided: PercentageFromString accepts the empty string and a number without % (documented in code). Not decided: round-trip equality for all values (value-level), the minimum int64 value.")
	c.Rule("C06-R1", "reader enforces the published amount pattern and range", 2)
	c.Rule("C06-R2", "percentage reader delegates to the amount reader; patterns agree", 2)
	c.Rule("C06-R3", "unquote / UnmarshalText / MarshalText symmetry", 5)
	c.Rule("C06-R4", "printer stays inside the pattern", 2)
	c06PowerTables(c)
	c11ShippedPatterns(c, "C06-R6")

	apat, apos, ok := schemaPattern(p, "Amount")
	if !ok {
		c.Ob("C06-R1", "UNRESOLVED:Amount.JSONSchema.Pattern", token.NoPos, false, "the published pattern is not a constant")
		return
	}
	are, err := regexp.Compile(apat)
	if err != nil {
		c.Ob("C06-R1", "num.Amount.JSONSchema#pattern-compiles", apos, false, "published pattern does not compile: "+err.Error())
		return
	}
	c.Extra("amount_pattern", apat)
	fd := p.Func("num", "", "AmountFromString")
	if fd == nil {
		c.Ob("C06-R1", "UNRESOLVED:num.AmountFromString", token.NoPos, false, "function not found")
		return
	}
	info := fd.Pkg.TypesInfo
	input := fd.Obj.Type().(*types.Signature).Params().At(0)
	ff := core.NewFuncFlow(fd)
	// regexps compiled from the published constant
	guardVars := map[*types.Var]bool{}
	for _, file := range fd.Pkg.Syntax {
		ast.Inspect(file, func(n ast.Node) bool {
			vs, ok := n.(*ast.ValueSpec)
			if !ok {
				return true
			}
			for i, nm := range vs.Names {
				if i >= len(vs.Values) {
					continue
				}
				call, ok := ast.Unparen(vs.Values[i]).(*ast.CallExpr)
				if !ok || len(call.Args) != 1 {
					continue
				}
				if fn := core.Callee(info, call); fn != nil && fn.Pkg() != nil && fn.Pkg().Path() == "regexp" && (fn.Name() == "MustCompile" || fn.Name() == "Compile") {
					if s, ok := foldString(info, call.Args[0]); ok && s == apat {
						if v, ok := info.Defs[nm].(*types.Var); ok {
							guardVars[v] = true
						}
					}
				}
			}
			return true
		})
	}
	nSucc := 0
	for _, r := range ff.Flow.Returns() {
		if !ff.Flow.Reachable(r) {
			continue
		}
		if k, _ := ff.ClassifyReturn(p, r); k != core.RetSuccess {
			continue
		}
		nSucc++
		guarded := false
		for leaf, val := range ff.Flow.CondsAt(r) {
			call, ok := ast.Unparen(leaf).(*ast.CallExpr)
			if !ok || !val {
				continue
			}
			fn := core.Callee(info, call)
			if fn == nil || fn.Pkg() == nil || fn.Pkg().Path() != "regexp" || (fn.Name() != "MatchString" && fn.Name() != "Match") {
				continue
			}
			if rv := core.VarOf(info, core.RecvExpr(call)); rv != nil && guardVars[rv] && len(call.Args) == 1 && core.VarOf(info, call.Args[0]) == input {
				guarded = true
			}
		}
		c.Ob("C06-R1", fmt.Sprintf("%s#success%d", fd.Name(), nSucc), r.Pos(), guarded,
			"a value is returned for input that was not matched against the published pattern "+apat+": strconv.ParseInt accepts a sign in either part, so strings like \"+5\" or \"1.-5\" are read as numbers")
	}
	if nSucc == 0 {
		c.Ob("C06-R1", fd.Name()+"#success", fd.Decl.Pos(), false, "no success return")
	}
	// range check before the combination: the product A*S (S a power of ten) to which the
	// decimal part D is added must lie where `A > (MaxInt64 - D) / S` was found false
	c06RangeCheck(c, fd, ff)

	// R2
	ppat, _, ok := schemaPattern(p, "Percentage")
	if !ok {
		c.Ob("C06-R2", "UNRESOLVED:Percentage.JSONSchema.Pattern", token.NoPos, false, "the published pattern is not a constant")
	} else {
		want := apat
		if len(want) > 0 && want[len(want)-1] == '$' {
			want = want[:len(want)-1] + "%$"
		}
		c.Ob("C06-R2", "num.Percentage.JSONSchema#pattern", token.NoPos, ppat == want, fmt.Sprintf("the percentage pattern %q is not the amount pattern followed by %%", ppat))
	}
	if pfd := p.Func("num", "", "PercentageFromString"); pfd != nil {
		pinfo := pfd.Pkg.TypesInfo
		in := pfd.Obj.Type().(*types.Signature).Params().At(0)
		calls := core.CallsTo(pinfo, pfd.Decl.Body, func(f *types.Func) bool { return f.Name() == "AmountFromString" })
		ld := core.NewLocalDefs(pinfo, pfd.Decl.Body)
		pflow := core.NewFuncFlow(pfd).Flow
		// "the input minus at most one trailing %": the input itself, strings.TrimSuffix(input, "%"),
		// or input[:len(input)-1] at a point where the last character was found to be "%"
		// (a comparison with "%" / '%' found true, != found false, or HasSuffix(…, "%")),
		// directly or through locals
		isTrimOne := func(e ast.Expr) bool {
			cl, ok := ast.Unparen(e).(*ast.CallExpr)
			if !ok || len(cl.Args) != 2 {
				return false
			}
			fn := core.Callee(pinfo, cl)
			// strings.TrimSuffix(in, "%"), or the first result of strings.CutSuffix(in, "%")
			if fn == nil || fn.Pkg() == nil || fn.Pkg().Path() != "strings" || (fn.Name() != "TrimSuffix" && fn.Name() != "CutSuffix") {
				return false
			}
			sfx, ok := foldString(pinfo, cl.Args[1])
			return ok && sfx == "%" && core.VarOf(pinfo, cl.Args[0]) == in
		}
		isPct := func(e ast.Expr) bool {
			if s, ok := foldString(pinfo, e); ok {
				return s == "%"
			}
			if tv, ok := pinfo.Types[ast.Unparen(e)]; ok && tv.Value != nil && tv.Value.Kind() == constant.Int {
				n, _ := constant.Int64Val(tv.Value)
				return n == '%'
			}
			return false
		}
		var isLenMinus1 func(e ast.Expr, depth int) bool
		isLenMinus1 = func(e ast.Expr, depth int) bool {
			e = ast.Unparen(e)
			if v := core.VarOf(pinfo, e); v != nil && depth < 3 {
				ds := ld.All(v)
				return len(ds) == 1 && ds[0].RHS != nil && ds[0].N == 1 && isLenMinus1(ds[0].RHS, depth+1)
			}
			be, ok := e.(*ast.BinaryExpr)
			if !ok || be.Op != token.SUB {
				return false
			}
			if tv, ok := pinfo.Types[ast.Unparen(be.Y)]; !ok || tv.Value == nil || tv.Value.ExactString() != "1" {
				return false
			}
			x := ast.Unparen(be.X)
			if v := core.VarOf(pinfo, x); v != nil {
				if ds := ld.All(v); len(ds) == 1 && ds[0].RHS != nil && ds[0].N == 1 {
					x = ast.Unparen(ds[0].RHS)
				}
			}
			cl, ok := x.(*ast.CallExpr)
			if !ok || len(cl.Args) != 1 || core.VarOf(pinfo, cl.Args[0]) != in {
				return false
			}
			id, ok := ast.Unparen(cl.Fun).(*ast.Ident)
			return ok && id.Name == "len"
		}
		lastIsPctAt := func(n ast.Node) bool {
			for leaf, val := range pflow.CondsAt(pflow.EnclosingNode(n)) {
				switch x := ast.Unparen(leaf).(type) {
				case *ast.BinaryExpr:
					if (x.Op == token.EQL && val || x.Op == token.NEQ && !val) && (isPct(x.Y) || isPct(x.X)) {
						return true
					}
				case *ast.CallExpr:
					if fn := core.Callee(pinfo, x); val && fn != nil && fn.Pkg() != nil && fn.Pkg().Path() == "strings" && fn.Name() == "HasSuffix" && len(x.Args) == 2 && isPct(x.Args[1]) {
						return true
					}
				}
			}
			return false
		}
		isStripSlice := func(e ast.Expr) bool {
			se, isSlice := ast.Unparen(e).(*ast.SliceExpr)
			return isSlice && core.VarOf(pinfo, se.X) == in && se.Low == nil && se.High != nil && isLenMinus1(se.High, 0) && lastIsPctAt(se)
		}
		okStrip := true
		for _, d := range ld.All(in) {
			if d.RHS == nil || !(isTrimOne(d.RHS) || isStripSlice(d.RHS)) {
				okStrip = false
			}
		}
		okDel := len(calls) > 0
		for _, call := range calls {
			arg := ast.Unparen(call.Args[0])
			if v := core.VarOf(pinfo, arg); v != nil && v != in {
				if ds := ld.All(v); len(ds) == 1 && ds[0].RHS != nil && ds[0].Idx == 0 {
					arg = ast.Unparen(ds[0].RHS)
				}
			}
			if core.VarOf(pinfo, arg) != in && !isTrimOne(arg) && !isStripSlice(arg) {
				okDel = false
			}
		}
		c.Ob("C06-R2", pfd.Name()+"#delegates", pfd.Decl.Pos(), okDel && okStrip,
			"the percentage reader does not hand the text, minus one optional trailing %, to AmountFromString (so the amount pattern guard does not cover it)")
		c.Note("documented deviation from the published pattern, not a violation of these rules: PercentageFromString accepts the empty string (0%%) and a number without the %% sign (read as a factor)")
	} else {
		c.Ob("C06-R2", "UNRESOLVED:num.PercentageFromString", token.NoPos, false, "function not found")
	}

	// R3
	for _, recv := range []string{"Amount", "Percentage"} {
		ufd := p.Func("num", recv, "UnmarshalJSON")
		if ufd == nil {
			c.Ob("C06-R3", "UNRESOLVED:"+recv+".UnmarshalJSON", token.NoPos, false, "method not found")
			continue
		}
		uinfo := ufd.Pkg.TypesInfo
		okShape := false
		if len(ufd.Decl.Body.List) == 1 {
			if r, ok := ufd.Decl.Body.List[0].(*ast.ReturnStmt); ok && len(r.Results) == 1 {
				if cl, ok := ast.Unparen(r.Results[0]).(*ast.CallExpr); ok && len(cl.Args) == 1 {
					if fn := core.Callee(uinfo, cl); fn != nil && fn.Name() == "UnmarshalText" && core.VarOf(uinfo, core.RecvExpr(cl)) == recvVar(ufd) {
						if ic, ok := ast.Unparen(cl.Args[0]).(*ast.CallExpr); ok {
							if f2 := core.Callee(uinfo, ic); f2 != nil && f2.Name() == "unquote" {
								okShape = true
							}
						}
					}
				}
			}
		}
		c.Ob("C06-R3", ufd.Name(), ufd.Decl.Pos(), okShape, "UnmarshalJSON is not UnmarshalText(unquote(value))")
		mfd := p.Func("num", recv, "MarshalText")
		okM := false
		if mfd != nil {
			for _, cl := range core.CallsTo(mfd.Pkg.TypesInfo, mfd.Decl.Body, func(f *types.Func) bool { return f.Name() == "String" }) {
				if core.VarOf(mfd.Pkg.TypesInfo, core.RecvExpr(cl)) == recvVar(mfd) {
					okM = true
				}
			}
		}
		c.Ob("C06-R3", "num.("+recv+").MarshalText", token.NoPos, okM, "MarshalText does not write String()")
		// UnmarshalText: a success return lies after a successful read of the whole text by the
		// type's reader, or where the text was found to be exactly "null"
		if tfd := p.Func("num", recv, "UnmarshalText"); tfd != nil {
			tinfo := tfd.Pkg.TypesInfo
			tff := core.NewFuncFlow(tfd)
			val := tfd.Obj.Type().(*types.Signature).Params().At(0)
			tld := core.NewLocalDefs(tinfo, tfd.Decl.Body)
			isText := func(e ast.Expr) bool {
				e = ast.Unparen(e)
				if lv := core.VarOf(tinfo, e); lv != nil && lv != val {
					if ds := tld.All(lv); len(ds) == 1 && ds[0].RHS != nil && ds[0].N == 1 {
						e = ast.Unparen(ds[0].RHS) // text := string(value)
					}
				}
				if cl, ok := e.(*ast.CallExpr); ok && len(cl.Args) == 1 {
					if tv, ok := tinfo.Types[cl.Fun]; ok && tv.IsType() {
						e = ast.Unparen(cl.Args[0])
					}
				}
				return core.VarOf(tinfo, e) == val
			}
			reads := core.CallsTo(tinfo, tfd.Decl.Body, func(f *types.Func) bool {
				return f.Pkg() != nil && f.Pkg().Path() == core.ModPath+"/num" && strings.HasSuffix(f.Name(), "FromString")
			})
			bad := ""
			nSucc := 0
			for _, r := range tff.Flow.Returns() {
				if !tff.Flow.Reachable(r) {
					continue
				}
				if k, _ := tff.ClassifyReturn(p, r); k != core.RetSuccess {
					continue
				}
				nSucc++
				ok := false
				for _, rd := range reads {
					if len(rd.Args) == 1 && isText(rd.Args[0]) && tff.Flow.PassedAt(r)[rd] && tff.ErrNilAt(r, rd) == 1 {
						ok = true
					}
				}
				for leaf, v := range tff.Flow.CondsAt(r) {
					be, isB := ast.Unparen(leaf).(*ast.BinaryExpr)
					if !isB || !((be.Op == token.EQL && v) || (be.Op == token.NEQ && !v)) {
						continue
					}
					x, y := be.X, be.Y
					if s, isC := foldString(tinfo, x); isC && s == "null" {
						x, y = y, x
					}
					if s, isC := foldString(tinfo, y); isC && s == "null" && isText(x) {
						ok = true
					}
				}
				if !ok {
					bad = p.Rel(r.Pos())
				}
			}
			c.Ob("C06-R3", tfd.Name()+"#success-only-after-read", tfd.Decl.Pos(), bad == "" && nSucc > 0,
				"UnmarshalText reports success at "+bad+" without the text having been read by the type's reader or found to be exactly \"null\": text that is not a number is accepted silently")
		} else {
			c.Ob("C06-R3", "UNRESOLVED:"+recv+".UnmarshalText", token.NoPos, false, "method not found")
		}
	}
	if qfd := p.Func("num", "", "unquote"); qfd != nil {
		qinfo := qfd.Pkg.TypesInfo
		v := qfd.Obj.Type().(*types.Signature).Params().At(0)
		// decided by finite abstract evaluation over (length 0..4, first byte is a quote, last byte is a
		// quote): the result is the inner slice exactly when length >= 3 and both are quotes, the input
		// unchanged otherwise, and no index is evaluated outside the input
		okQ := true
		rows := 0
		// the decoding form: json.Unmarshal(value, &s) is tried; the result is the decoded text
		// exactly when that succeeded with a non-empty string, the input unchanged otherwise
		decodes := core.CallsTo(qinfo, qfd.Decl.Body, func(f *types.Func) bool { return core.IsFunc(f, "encoding/json", "", "Unmarshal") })
		if len(decodes) == 1 && len(decodes[0].Args) == 2 && core.VarOf(qinfo, decodes[0].Args[0]) == v {
			var sv *types.Var
			if u, ok := ast.Unparen(decodes[0].Args[1]).(*ast.UnaryExpr); ok && u.Op == token.AND {
				sv = core.VarOf(qinfo, u.X)
			}
			for _, tc := range []struct {
				err  bool
				text string
				want string
			}{{true, "", "orig"}, {false, "", "orig"}, {false, "content", "content"}} {
				tc := tc
				ev := &core.AbsEval{Info: qinfo}
				ev.Set(v, "orig")
				ev.Atom = func(e ast.Expr) (any, bool) {
					e = ast.Unparen(e)
					if core.IsNil(qinfo, e) {
						return "nil", true
					}
					if call, ok := e.(*ast.CallExpr); ok && call == decodes[0] {
						if tc.err {
							return "error", true
						}
						return "nil", true
					}
					if sv != nil && core.VarOf(qinfo, e) == sv {
						return tc.text, true
					}
					return nil, false
				}
				ret, ok := ev.Run(qfd.Decl.Body)
				rows++
				if !ok || sv == nil || len(ret) != 1 || ret[0] != any(tc.want) {
					okQ = false
				}
			}
			c.Extra("unquote_rows", rows)
			c.Ob("C06-R3", qfd.Name(), qfd.Decl.Pos(), okQ,
				"unquote does not hand back the decoded text exactly when the value is a JSON string with content, and the input unchanged otherwise: the JSON token \"\" would become an empty string, which the percentage reader accepts as 0%")
		} else {
			for L := int64(0); L <= 4 && okQ; L++ {
				for q := 0; q < 4 && okQ; q++ {
					q0, q1 := q&1 != 0, q&2 != 0
					if L == 1 && q0 != q1 {
						continue // one byte is both first and last
					}
					if L == 0 && q != 0 {
						continue
					}
					ev := &core.AbsEval{Info: qinfo}
					ev.Set(v, "orig")
					oob := false
					ev.Atom = func(e ast.Expr) (any, bool) {
						e = ast.Unparen(e)
						switch x := e.(type) {
						case *ast.CallExpr:
							if id, ok := x.Fun.(*ast.Ident); ok && id.Name == "len" && len(x.Args) == 1 && core.VarOf(qinfo, x.Args[0]) == v {
								return L, true
							}
						case *ast.IndexExpr:
							if core.VarOf(qinfo, x.X) != v {
								return nil, false
							}
							iv, ok := ev.Eval(x.Index)
							idx, isN := iv.(int64)
							if !ok || !isN {
								return nil, false
							}
							if idx < 0 || idx >= L {
								oob = true
								return nil, false
							}
							quote := (idx == 0 && q0) || (idx == L-1 && q1)
							if idx != 0 && idx != L-1 {
								return int64('x'), true
							}
							if quote {
								return int64('"'), true
							}
							return int64('x'), true
						case *ast.SliceExpr:
							if core.VarOf(qinfo, x.X) != v {
								return nil, false
							}
							lo, hi := int64(0), L
							if x.Low != nil {
								lv, ok := ev.Eval(x.Low)
								n, isN := lv.(int64)
								if !ok || !isN {
									return nil, false
								}
								lo = n
							}
							if x.High != nil {
								hv, ok := ev.Eval(x.High)
								n, isN := hv.(int64)
								if !ok || !isN {
									return nil, false
								}
								hi = n
							}
							if lo < 0 || hi > L || lo > hi {
								oob = true
								return nil, false
							}
							if lo == 1 && hi == L-1 {
								return "inner", true
							}
							if lo == 0 && hi == L {
								return "orig", true
							}
							return "other", true
						}
						return nil, false
					}
					ret, ok := ev.Run(qfd.Decl.Body)
					rows++
					want := "orig"
					if L >= 3 && q0 && q1 {
						want = "inner"
					}
					if !ok || oob || len(ret) != 1 || ret[0] != any(want) {
						okQ = false
					}
				}
			}
			c.Extra("unquote_rows", rows)
			c.Ob("C06-R3", qfd.Name(), qfd.Decl.Pos(), okQ,
				"unquote does not require both quotes around a non-empty body (length ≥ 3): the JSON token \"\" would be unquoted to an empty string, which the percentage reader accepts as 0%")
		}
	} else {
		c.Ob("C06-R3", "UNRESOLVED:num.unquote", token.NoPos, false, "function not found")
	}

	// R4 printer
	if sfd := p.Func("num", "Amount", "String"); sfd != nil {
		sinfo := sfd.Pkg.TypesInfo
		sff := core.NewFuncFlow(sfd)
		n := 0
		for _, r := range sff.Flow.Returns() {
			if len(r.Results) != 1 {
				continue
			}
			s, ok := foldString(sinfo, r.Results[0])
			if !ok {
				continue
			}
			n++
			if are.MatchString(s) {
				c.Ob("C06-R4", fmt.Sprintf("%s#constant%d", sfd.Name(), n), r.Pos(), true, "")
				continue
			}
			// only beyond the 18-decimal domain
			beyond := false
			for leaf, val := range sff.Flow.CondsAt(r) {
				be, ok := ast.Unparen(leaf).(*ast.BinaryExpr)
				if !ok || !val {
					continue
				}
				if f := core.FieldOf(sinfo, be.X); f == nil || f.Name() != "exp" {
					continue
				}
				tv, ok := sinfo.Types[be.Y]
				if !ok || tv.Value == nil {
					continue
				}
				k, _ := constant.Int64Val(tv.Value)
				if (be.Op == token.GTR && k >= 18) || (be.Op == token.GEQ && k >= 19) {
					beyond = true
				}
			}
			c.Ob("C06-R4", fmt.Sprintf("%s#constant%d", sfd.Name(), n), r.Pos(), beyond,
				fmt.Sprintf("the printer can write the constant text %q, which is outside the published pattern, for an amount within the 0–18 decimal domain: the library's own reader rejects it", s))
		}
		// sign prefix values
		okSign := true
		nSign := 0
		ast.Inspect(sfd.Decl.Body, func(m ast.Node) bool {
			as, ok := m.(*ast.AssignStmt)
			if !ok || len(as.Lhs) != 1 || len(as.Rhs) != 1 {
				return true
			}
			// a string local, or a string member of a local struct of parts
			if t := sinfo.TypeOf(as.Lhs[0]); t == nil || core.TypeString(t) != "string" {
				return true
			}
			if s, ok := foldString(sinfo, as.Rhs[0]); ok {
				nSign++
				if s != "" && s != "-" {
					okSign = false
				}
			}
			return true
		})
		c.Ob("C06-R4", sfd.Name()+"#sign-prefix", sfd.Decl.Pos(), okSign && nSign >= 1, "the sign prefix of the printed amount is not restricted to \"\" and \"-\"")
	} else {
		c.Ob("C06-R4", "UNRESOLVED:num.Amount.String", token.NoPos, false, "method not found")
	}
}

func onlyConjunctions(e ast.Expr) bool {
	e = ast.Unparen(e)
	if be, ok := e.(*ast.BinaryExpr); ok {
		if be.Op == token.LAND {
			return onlyConjunctions(be.X) && onlyConjunctions(be.Y)
		}
		if be.Op == token.LOR {
			return false
		}
	}
	return true
}

// c06RangeCheck decides the overflow guard of the amount reader. The integer
// part A is scaled by S = 10^e and the decimal part D added; the result fits
// int64 iff A <= (MaxInt64 - D) / S (D >= 0). The rule finds the product and the
// addend (in one expression or in `v = v*S; v += D`), resolves S through a local
// definition, and requires that comparison — with the same A, D and S — to be
// known false where the product is computed. A guard that leaves D out accepts
// strings just above the limit, which then wrap around.
func c06RangeCheck(c *core.Ctx, fd *core.FuncDecl, ff *core.FuncFlow) {
	info := fd.Pkg.TypesInfo
	p := c.P
	key := fd.Name() + "#range-check"
	ld := core.NewLocalDefs(info, fd.Decl.Body)
	isPow := func(e ast.Expr) bool {
		e = ast.Unparen(e)
		if v := core.VarOf(info, e); v != nil {
			for _, d := range ld.All(v) {
				if d.RHS != nil {
					e = ast.Unparen(d.RHS)
				}
			}
		}
		if cl, ok := e.(*ast.CallExpr); ok {
			if fn := core.Callee(info, cl); fn != nil && fn.Name() == "intPow" {
				return true
			}
		}
		return false
	}
	sameScale := func(a, b ast.Expr) bool {
		if va, vb := core.VarOf(info, a), core.VarOf(info, b); va != nil || vb != nil {
			return va == vb
		}
		return types.ExprString(ast.Unparen(a)) == types.ExprString(ast.Unparen(b))
	}
	var mul *ast.BinaryExpr
	var addend *types.Var
	var mulStmt *ast.AssignStmt
	ast.Inspect(fd.Decl.Body, func(n ast.Node) bool {
		as, ok := n.(*ast.AssignStmt)
		if !ok || len(as.Rhs) != 1 || mul != nil {
			return true
		}
		rhs := ast.Unparen(as.Rhs[0])
		// v = A*S + D
		if add, ok := rhs.(*ast.BinaryExpr); ok && add.Op == token.ADD {
			for _, pair := range [][2]ast.Expr{{add.X, add.Y}, {add.Y, add.X}} {
				if m, ok := ast.Unparen(pair[0]).(*ast.BinaryExpr); ok && m.Op == token.MUL && isPow(m.Y) {
					mul, addend, mulStmt = m, core.VarOf(info, pair[1]), as
				}
			}
		}
		// v = A*S  (the addend follows)
		if m, ok := rhs.(*ast.BinaryExpr); ok && m.Op == token.MUL && isPow(m.Y) && mul == nil {
			mul, mulStmt = m, as
		}
		return true
	})
	if mul == nil {
		c.Undecided("C06-R1", key, fd.Decl.Pos(), "no product of the integer part with a power of ten found")
		return
	}
	dest := core.VarOf(info, mulStmt.Lhs[0])
	if addend == nil && dest != nil {
		// v += D / v = v + D after the product
		ast.Inspect(fd.Decl.Body, func(n ast.Node) bool {
			as, ok := n.(*ast.AssignStmt)
			if !ok || as.Pos() <= mulStmt.Pos() || len(as.Lhs) != 1 || core.VarOf(info, as.Lhs[0]) != dest || addend != nil {
				return true
			}
			if as.Tok == token.ADD_ASSIGN {
				addend = core.VarOf(info, as.Rhs[0])
			} else if add, ok := ast.Unparen(as.Rhs[0]).(*ast.BinaryExpr); ok && add.Op == token.ADD {
				if core.VarOf(info, add.X) == dest {
					addend = core.VarOf(info, add.Y)
				} else if core.VarOf(info, add.Y) == dest {
					addend = core.VarOf(info, add.X)
				}
			}
			return true
		})
	}
	if addend == nil {
		c.Undecided("C06-R1", key, mul.Pos(), "the decimal part added to the scaled integer part was not identified")
		return
	}
	intPart := core.VarOf(info, mul.X)
	facts := map[ast.Expr]bool{}
	if node := ff.Flow.EnclosingNode(mul); node != nil {
		for l, v := range ff.Flow.CondsAt(node) {
			facts[l] = v
		}
	}
	isMax := func(e ast.Expr) bool {
		se, ok := ast.Unparen(e).(*ast.SelectorExpr)
		return ok && se.Sel.Name == "MaxInt64"
	}
	checked, partial := false, false
	for l, v := range facts {
		be, ok := ast.Unparen(l).(*ast.BinaryExpr)
		if !ok || v {
			continue
		}
		lhs, rhs := be.X, be.Y
		switch be.Op {
		case token.GTR:
		case token.LSS:
			lhs, rhs = rhs, lhs
		default:
			continue
		}
		if intPart == nil || core.VarOf(info, lhs) != intPart {
			continue
		}
		q, ok := ast.Unparen(rhs).(*ast.BinaryExpr)
		if !ok || q.Op != token.QUO || !sameScale(q.Y, mul.Y) {
			continue
		}
		if sub, ok := ast.Unparen(q.X).(*ast.BinaryExpr); ok && sub.Op == token.SUB && isMax(sub.X) && core.VarOf(info, sub.Y) == addend {
			checked = true
		} else if isMax(q.X) {
			partial = true
		}
	}
	why := "the integer part is multiplied by 10^decimals and added to the decimal part without the range check `int > (math.MaxInt64 - dec) / 10^decimals` having been found false: over-long digit strings wrap around and are read as a different number"
	if !checked && partial {
		why = "the range check before the product compares against math.MaxInt64 / 10^decimals only and leaves the decimal part out: a string whose integer part is exactly at the limit and whose decimals exceed the remainder is accepted and wraps around"
	}
	c.Ob("C06-R1", key, mul.Pos(), checked, why)
	_ = p
}


// c06PowerTables — C06-R5: a table of powers of ten in package num holds 10^i at
// index i. The text codec scales by 10^exp in both directions; a table with one
// wrong entry makes writer and reader agree with each other and disagree with
// the value (value → text → value is still the identity).
func c06PowerTables(c *core.Ctx) {
	p := c.P
	c.Rule("C06-R5", "tables of powers of ten are exact", 0)
	pk := p.Pkg("num")
	if pk == nil {
		return
	}
	info := pk.TypesInfo
	n := 0
	for _, file := range pk.Syntax {
		if p.IsTestFile(file.Pos()) {
			continue
		}
		ast.Inspect(file, func(m ast.Node) bool {
			cl, ok := m.(*ast.CompositeLit)
			if !ok || len(cl.Elts) < 4 {
				return true
			}
			t := info.TypeOf(cl)
			if t == nil {
				return true
			}
			var elem types.Type
			switch u := t.Underlying().(type) {
			case *types.Array:
				elem = u.Elem()
			case *types.Slice:
				elem = u.Elem()
			default:
				return true
			}
			if b, ok := elem.Underlying().(*types.Basic); !ok || b.Info()&(types.IsInteger|types.IsFloat) == 0 {
				return true
			}
			vals := make([]constant.Value, 0, len(cl.Elts))
			for _, el := range cl.Elts {
				if _, isKV := el.(*ast.KeyValueExpr); isKV {
					return true
				}
				tv, ok := info.Types[el]
				if !ok || tv.Value == nil {
					return true
				}
				vals = append(vals, tv.Value)
			}
			one, ten := constant.MakeInt64(1), constant.MakeInt64(10)
			if !constant.Compare(constant.ToInt(vals[0]), token.EQL, one) || !constant.Compare(constant.ToInt(vals[1]), token.EQL, ten) || !constant.Compare(constant.ToInt(vals[2]), token.EQL, constant.MakeInt64(100)) {
				return true // not a table of powers of ten
			}
			n++
			want := one
			bad := ""
			for i, v := range vals {
				if !constant.Compare(constant.ToInt(v), token.EQL, want) && bad == "" {
					bad = fmt.Sprintf("entry %d is %s, 10^%d is %s", i, v.ExactString(), i, want.ExactString())
				}
				want = constant.BinaryOp(want, token.MUL, ten)
			}
			c.Ob("C06-R5", fmt.Sprintf("num#power-table%d", n), cl.Pos(), bad == "", "a table of powers of ten is wrong: "+bad+" — amounts with that many decimals are scaled by the wrong factor when written and when read")
			return true
		})
	}
	c.Extra("C06-R5_power_tables", n)
}
