package props

import (
	"fmt"
	"go/ast"
	"go/token"
	"go/types"
	"sort"
	"strings"

	"goblcheck/core"
)

func init() { register("C09", C09) }

const josePkg = "github.com/go-jose/go-jose/v4"

// joseSinkKind classifies go-jose routines that hand out a signed payload.
func joseSinkKind(fn *types.Func) string {
	if fn == nil || fn.Pkg() == nil || fn.Pkg().Path() != josePkg {
		return ""
	}
	r := core.RecvNamed(fn)
	if r == nil || r.Obj().Name() != "JSONWebSignature" {
		return ""
	}
	switch fn.Name() {
	case "Verify", "VerifyMulti", "DetachedVerify", "DetachedVerifyMulti":
		return "verify"
	case "UnsafePayloadWithoutVerification":
		return "unsafe"
	}
	return ""
}

// C09 — signature verification accepts exactly what was signed, on every path.
func C09(c *core.Ctx) {
	p := c.P
	c.Explain("Decided: (R1) which functions outside package dsig touch JWS verification or payload extraction; (R2) that each of them reports success only where head.Header.Contains(current, signed) was found true, with the signed header taken from a key-verified payload whenever keys are supplied; (R3) that Contains compares every serialised header field on both headers; (R4) that every caller up the chain (library, CLI, bulk, HTTP) cannot reach a success marker without the verification error found nil; (R5) that Sign signs the envelope's own header. Not decided: the ES256 cryptography (go-jose), and the value-level behaviour of the comparison loops.")
	c.Rule("C09-R1", "who-may-call: functions outside dsig that reference a JWS verify/payload routine must implement the containment check (R2)", 1)
	c.Rule("C09-R2", "success of a JWS-touching function is control-dependent on Header.Contains(current, signed payload)", 2)
	c.Rule("C09-R3", "Header.Contains compares every serialised field of head.Header on both headers", 7)
	c.Rule("C09-R4", "every caller of a verification function heeds its error before any success marker", 1)
	c.Rule("C09-R5", "Sign signs the header of the same envelope", 1)
	c.Rule("C09-R6", "inside dsig, every success exit of a key-verifying function has just found the go-jose verification (or a dsig verifier it delegates to) error-free", 2)
	c09KeysForwarded(c)
	c09SignParseAlgorithms(c, "C09-R8")

	dsigPath := core.ModPath + "/dsig"
	// protected dsig API: functions of package dsig that reach a go-jose sink
	protKind := map[*types.Func]string{}
	// verifies: reaches a go-jose verification routine at all (whatever else it reaches): the
	// functions whose success must come from that verification (R6)
	verifies := map[*types.Func]bool{}
	if dp := p.Pkg("dsig"); dp != nil {
		for _, fd := range p.Funcs(dp) {
			kinds := map[string]bool{}
			var walk func(f *types.Func, d int, seen map[*types.Func]bool)
			walk = func(f *types.Func, d int, seen map[*types.Func]bool) {
				if seen[f] || d > 4 {
					return
				}
				seen[f] = true
				for _, g := range p.FuncRefs(f) {
					if k := joseSinkKind(g); k != "" {
						kinds[k] = true
					} else if g.Pkg() != nil && g.Pkg().Path() == dsigPath {
						walk(g, d+1, seen)
					}
				}
			}
			walk(fd.Obj, 0, map[*types.Func]bool{})
			switch {
			case kinds["unsafe"]:
				protKind[fd.Obj] = "unsafe"
			case kinds["verify"]:
				protKind[fd.Obj] = "verify"
			}
			if kinds["verify"] {
				verifies[fd.Obj] = true
			}
		}
	}
	var protNames []string
	for f, k := range protKind {
		protNames = append(protNames, core.FuncName(f)+":"+k)
	}
	sort.Strings(protNames)
	c.Extra("protected_dsig_api", protNames)
	if len(protKind) < 4 {
		c.Ob("C09-R1", "UNRESOLVED:protected-set", token.NoPos, false, fmt.Sprintf("only %d dsig functions reach a go-jose verify/payload routine (expected ≥4)", len(protKind)))
	}
	isProt := func(f *types.Func) string {
		if k := joseSinkKind(f); k != "" {
			return k
		}
		return protKind[f]
	}

	// R1: referrers outside dsig. Each must either implement the containment
	// check itself (R2) or heed a function that does (R4) before any success.
	chain := map[*types.Func]bool{} // functions that can say "verified"
	type referrer struct {
		fd   *core.FuncDecl
		refs []string
	}
	var referrers []referrer
	// helpers outside dsig that only hand the checked payload back with a verdict (no verdict on
	// the envelope of their own) count as protected routines: whoever calls them is the referrer
	providers := map[*types.Func]bool{}
	for _, fd := range p.AllFuncs() {
		if fd.Obj.Pkg().Path() == dsigPath || p.IsTestFile(fd.Decl.Pos()) {
			continue
		}
		direct := false
		for _, g := range p.FuncRefs(fd.Obj) {
			if isProt(g) != "" {
				direct = true
			}
		}
		if !direct {
			continue
		}
		if k := c09ProviderKind(p, fd.Obj); k != "" {
			protKind[fd.Obj] = k
			providers[fd.Obj] = true
			c.Ob("C09-R1", fd.Name(), fd.Decl.Pos(), true, "")
		}
	}
	for _, fd := range p.AllFuncs() {
		if fd.Obj.Pkg().Path() == dsigPath || providers[fd.Obj] {
			continue
		}
		var refs []string
		for _, g := range p.FuncRefs(fd.Obj) {
			if k := isProt(g); k != "" {
				refs = append(refs, core.FuncName(g))
			}
		}
		if len(refs) > 0 {
			referrers = append(referrers, referrer{fd, refs})
		}
	}
	pending := map[*types.Func]referrer{}
	for _, r := range referrers {
		if c09HasContains(r.fd) {
			ok, why := c09Containment(c, r.fd)
			msg := ""
			if !ok {
				msg = fmt.Sprintf("references %s but does not condition success on Header.Contains: %s", strings.Join(r.refs, ", "), why)
			}
			c.Ob("C09-R1", r.fd.Name(), r.fd.Decl.Pos(), ok, msg)
			if ok {
				chain[r.fd.Obj] = true
			}
		} else {
			pending[r.fd.Obj] = r
		}
	}

	// R4: chain upwards through module callers
	c09Chain(c, chain)
	for fn, r := range pending {
		ok := chain[fn]
		c.Ob("C09-R1", r.fd.Name(), r.fd.Decl.Pos(), ok,
			fmt.Sprintf("references %s but neither compares headers with Header.Contains nor heeds a function that does before reporting success", strings.Join(r.refs, ", ")))
	}

	// R6: inside dsig
	c09InsideDsig(c, protKind, verifies)

	// R3: Contains coverage
	c09Contains(c, "C09-R3")

	// R5: Sign signs recv.Head
	if fd := p.Func("", "Envelope", "Sign"); fd != nil {
		info := fd.Pkg.TypesInfo
		recv := recvVar(fd)
		found := false
		ast.Inspect(fd.Decl.Body, func(n ast.Node) bool {
			call, ok := n.(*ast.CallExpr)
			if !ok {
				return true
			}
			fn := core.Callee(info, call)
			if fn == nil || fn.Pkg() == nil || fn.Pkg().Path() != dsigPath || fn.Name() != "Sign" {
				return true
			}
			found = true
			okArg := false
			if len(call.Args) >= 1 {
				if f := core.FieldOf(info, call.Args[0]); f != nil && f.Name() == "Head" && core.RootVar(info, call.Args[0]) == recv {
					okArg = true
				}
			}
			c.Ob("C09-R5", fd.Name()+"#sign-arg", call.Pos(), okArg, "the signed payload is not the Head field of the receiver envelope")
			return true
		})
		if !found {
			c.Ob("C09-R5", fd.Name()+"#sign-call", fd.Decl.Pos(), false, "no call to dsig key Sign found")
		}
	}
}

func recvVar(fd *core.FuncDecl) *types.Var {
	sig := fd.Obj.Type().(*types.Signature)
	return sig.Recv()
}

// c09HasContains reports whether the function calls head.Header.Contains.
func c09HasContains(fd *core.FuncDecl) bool {
	found := false
	ast.Inspect(fd.Decl.Body, func(n ast.Node) bool {
		if call, ok := n.(*ast.CallExpr); ok {
			if fn := core.Callee(fd.Pkg.TypesInfo, call); fn != nil && core.IsFunc(fn, core.ModPath+"/head", "Header", "Contains") {
				found = true
			}
		}
		return true
	})
	return found
}

// c09Containment decides R2 for one JWS-touching function.
func c09Containment(c *core.Ctx, fd *core.FuncDecl) (bool, string) {
	p := c.P
	info := fd.Pkg.TypesInfo
	ff := core.NewFuncFlow(fd)
	sig := fd.Obj.Type().(*types.Signature)
	if core.ErrResultIndex(sig) < 0 {
		return false, "function has no error result to carry the verdict"
	}
	recv := sig.Recv()
	// variadic/slice-of-keys parameter
	var keys *types.Var
	for i := 0; i < sig.Params().Len(); i++ {
		pv := sig.Params().At(i)
		if sl, ok := pv.Type().(*types.Slice); ok {
			if n, _ := core.StructOf(sl.Elem()); n != nil && n.Obj().Name() == "PublicKey" {
				keys = pv
			}
		}
	}
	nSuccess := 0
	allOK := true
	why := ""
	cld := core.NewLocalDefs(info, fd.Decl.Body)
	for _, r := range ff.Flow.Returns() {
		if !ff.Flow.Reachable(r) {
			continue
		}
		k, _ := ff.ClassifyReturn(p, r)
		if k == core.RetFailure {
			continue
		}
		if k != core.RetSuccess && len(r.Results) == 1 {
			// the verdict is a helper's: `return verifySignatureContents(current, sig)` — the helper is
			// judged on its own
			if call, ok := ast.Unparen(r.Results[0]).(*ast.CallExpr); ok {
				if g := core.Callee(info, call); g != nil && g != fd.Obj && g.Pkg() == fd.Obj.Pkg() {
					if gfd := p.DeclOf(g); gfd != nil && c09HasContains(gfd) && c09Depth < 3 {
						c09Depth++
						gok, _ := c09Containment(core.NewCtx("C09", c.Tier, c.Seed, p, c.VerifDir), gfd)
						c09Depth--
						if gok {
							continue
						}
					}
				}
			}
		}
		if k != core.RetSuccess {
			allOK = false
			why = fmt.Sprintf("return at %s has an undetermined error value", p.Rel(r.Pos()))
			c.Ob("C09-R2", fd.Name()+"#return-undetermined", r.Pos(), false, why)
			continue
		}
		nSuccess++
		key := fmt.Sprintf("%s#success%d", fd.Name(), nSuccess)
		// facts
		var containsArg *types.Var
		containsOK := false
		for leaf, v := range ff.Flow.CondsAt(r) {
			g := core.GuardOf(info, leaf, ff.Errs)
			if g.Kind != "bool" || !v {
				continue
			}
			fn := core.Callee(info, g.Call)
			if fn == nil || !core.IsFunc(fn, core.ModPath+"/head", "Header", "Contains") {
				continue
			}
			se := ast.Unparen(g.Call.Fun).(*ast.SelectorExpr)
			// the current header: <receiver>.Head, or a local that was set to it once (hd := e.Head)
			cur := ast.Unparen(se.X)
			if id, ok := cur.(*ast.Ident); ok {
				if lv := core.VarOf(info, id); lv != nil && len(cld.All(lv)) == 1 {
					cur = ast.Unparen(cld.Resolve(id, 2))
				}
			}
			if f := core.FieldOf(info, cur); f == nil || f.Name() != "Head" || core.RootVar(info, cur) != recv || recv == nil {
				// or a header parameter of an unexported helper that every call site gives the
				// caller's own <receiver>.Head
				if !c09CurrentHeaderParam(p, fd, cur) {
					continue
				}
			}
			if len(g.Call.Args) == 1 {
				containsArg = core.RootVar(info, g.Call.Args[0])
				containsOK = containsArg != nil
			}
		}
		if !containsOK {
			allOK = false
			why = fmt.Sprintf("success return at %s is not dominated by a true result of <receiver>.Head.Contains(<signed header>)", p.Rel(r.Pos()))
			c.Ob("C09-R2", key, r.Pos(), false, why)
			continue
		}
		// the compared header must be the payload of a call whose error was found nil
		payloadKind := ""
		for leaf, lv := range ff.Flow.CondsAt(r) {
			g := core.GuardOf(info, leaf, ff.Errs)
			if g.Call == nil {
				continue
			}
			switch g.Kind {
			case "err":
				if ff.ErrNilAt(r, g.Call) != 1 {
					continue
				}
			case "nil":
				// the call's error compared with nil where it stands: `if sig.VerifyPayload(k, &h) != nil { continue }`
				if lv == g.Neg {
					continue // known non-nil
				}
			default:
				continue
			}
			fn := core.Callee(info, g.Call)
			if fn == nil {
				continue
			}
			for _, a := range g.Call.Args {
				if core.RootVar(info, a) == containsArg {
					if k := protKindOf(p, fn); k != "" {
						payloadKind = k
					}
				}
			}
		}
		if payloadKind == "" && containsArg != nil {
			// the header comes from a helper of the package that hands back the payload together
			// with a verdict: `h, ok := signedHeader(sig, k)` with ok found true here
			for _, d := range cld.All(containsArg) {
				call, isCall := ast.Unparen(d.RHS).(*ast.CallExpr)
				if d.RHS == nil || !isCall || d.N != 2 || d.Idx != 0 {
					continue
				}
				as, isAs := d.Stmt.(*ast.AssignStmt)
				if !isAs || len(as.Lhs) != 2 {
					continue
				}
				verdict := core.VarOf(info, as.Lhs[1])
				if verdict == nil {
					if id, ok := as.Lhs[1].(*ast.Ident); ok {
						verdict, _ = info.Defs[id].(*types.Var)
					}
				}
				okHere := false
				for leaf, lv := range ff.Flow.CondsAt(r) {
					if core.VarOf(info, leaf) == verdict && verdict != nil {
						if b, isB := verdict.Type().Underlying().(*types.Basic); isB && b.Info()&types.IsBoolean != 0 && lv {
							okHere = true
						}
					}
					g := core.GuardOf(info, leaf, ff.Errs)
					if (g.Kind == "nil" || g.Kind == "err") && g.X != nil && core.VarOf(info, g.X) == verdict && lv != g.Neg {
						okHere = true // the error handed back was found nil
					}
				}
				if !okHere {
					continue
				}
				if fn := core.Callee(info, call); fn != nil {
					if k := c09ProviderKind(p, fn); k != "" {
						payloadKind = k
					}
				}
			}
		}
		switch payloadKind {
		case "":
			allOK = false
			why = fmt.Sprintf("the header compared at %s is not the payload of a successfully checked signature call", p.Rel(r.Pos()))
			c.Ob("C09-R2", key, r.Pos(), false, why)
			continue
		case "unsafe":
			// allowed only where no keys were supplied
			zero := keys != nil && ff.LenFactAt(r, func(e ast.Expr) bool {
				id, ok := ast.Unparen(e).(*ast.Ident)
				return ok && info.Uses[id] == keys
			}) == -1
			// ... and the list tested is the caller's, not a filtered replacement
			if zero {
				ast.Inspect(fd.Decl.Body, func(n ast.Node) bool {
					switch x := n.(type) {
					case *ast.AssignStmt:
						for _, l := range x.Lhs {
							if id, ok := ast.Unparen(l).(*ast.Ident); ok && (info.Uses[id] == keys || info.Defs[id] == keys) && x.Pos() < r.Pos() {
								zero = false
							}
						}
					case *ast.UnaryExpr:
						if id, ok := ast.Unparen(x.X).(*ast.Ident); ok && x.Op == token.AND && info.Uses[id] == keys {
							zero = false
						}
					}
					return true
				})
			}
			if !zero && keys == nil && !fd.Obj.Exported() {
				// a helper without key list: every call site stands where the caller's own list is empty
				zero = c09CalledWithoutKeys(p, fd)
			}
			if !zero {
				allOK = false
				why = fmt.Sprintf("success at %s relies on an unverified payload although keys may have been supplied (the test must be on the caller's own key list)", p.Rel(r.Pos()))
				c.Ob("C09-R2", key, r.Pos(), false, why)
				continue
			}
		}
		c.Ob("C09-R2", key, r.Pos(), true, "")
	}
	if nSuccess == 0 && allOK {
		return false, "no success return found"
	}
	return allOK, why
}

// protKindOf recomputes the protection kind of a dsig function.
func protKindOf(p *core.Program, fn *types.Func) string {
	if k := joseSinkKind(fn); k != "" {
		return k
	}
	if fn.Pkg() == nil || fn.Pkg().Path() != core.ModPath+"/dsig" {
		return ""
	}
	kind := ""
	p.Reaches(fn, func(g *types.Func) bool {
		if k := joseSinkKind(g); k != "" {
			if k == "unsafe" || kind == "" {
				kind = k
			}
		}
		return false
	}, 4)
	return kind
}

// c09Chain applies R4 to every module caller of a chain function, transitively.
func c09Chain(c *core.Ctx, chain map[*types.Func]bool) {
	p := c.P
	all := p.AllFuncs()
	terminal := map[*types.Func]bool{}
	failed := map[*types.Func]bool{}
	for changed := true; changed; {
		changed = false
		for _, fd := range all {
			if chain[fd.Obj] || terminal[fd.Obj] || failed[fd.Obj] {
				continue
			}
			info := fd.Pkg.TypesInfo
			var sites []*ast.CallExpr
			valueRef := false
			callFuns := map[*ast.Ident]bool{}
			ast.Inspect(fd.Decl.Body, func(n ast.Node) bool {
				if call, ok := n.(*ast.CallExpr); ok {
					if fn := core.Callee(info, call); fn != nil && chain[fn] {
						sites = append(sites, call)
						switch f := ast.Unparen(call.Fun).(type) {
						case *ast.Ident:
							callFuns[f] = true
						case *ast.SelectorExpr:
							callFuns[f.Sel] = true
						}
					}
				}
				return true
			})
			ast.Inspect(fd.Decl.Body, func(n ast.Node) bool {
				if id, ok := n.(*ast.Ident); ok && !callFuns[id] {
					if fn, ok := info.Uses[id].(*types.Func); ok && chain[fn] {
						valueRef = true
					}
				}
				return true
			})
			if valueRef {
				// handed to a framework (cobra RunE, echo route) which reports the
				// returned error: a terminal entry point, listed in evidence
				c.Note("terminal entry point: %s registers a verification function as a handler value", fd.Name())
			}
			if len(sites) == 0 {
				continue
			}
			ff := core.NewFuncFlow(fd)
			okAll := true
			for i, call := range sites {
				callee := core.Callee(info, call)
				var markers []ast.Node
				ast.Inspect(fd.Decl.Body, func(n ast.Node) bool {
					cl, ok := n.(*ast.CompositeLit)
					if !ok {
						return true
					}
					for _, el := range cl.Elts {
						kv, ok := el.(*ast.KeyValueExpr)
						if !ok {
							continue
						}
						if id, ok := kv.Key.(*ast.Ident); ok && id.Name == "OK" {
							if tv, ok := info.Types[kv.Value]; ok && tv.Value != nil && tv.Value.String() == "true" {
								markers = append(markers, cl)
							}
						}
					}
					return true
				})
				h := ff.Heeds(p, call, markers)
				key := fmt.Sprintf("%s#call:%s%d", fd.Name(), callee.Name(), i+1)
				// success in loops over the signatures must cover all of them
				if h.OK && h.How == "collect" {
					if why := c09LoopCoversAll(fd, call); why != "" {
						h.OK, h.Why = false, why
					}
				}
				c.Ob("C09-R4", key, call.Pos(), h.OK, h.Why)
				if !h.OK {
					okAll = false
					failed[fd.Obj] = true
				}
			}
			if okAll && core.ErrResultIndex(fd.Obj.Type().(*types.Signature)) >= 0 {
				// only functions that carry the verdict in an error result
				// propagate the obligation to their callers
				chain[fd.Obj] = true
				changed = true
			} else if okAll {
				terminal[fd.Obj] = true
			}
		}
	}
	// Envelope.Verify must also refuse an empty signature list
	if fd := p.Func("", "Envelope", "Verify"); fd != nil {
		ff := core.NewFuncFlow(fd)
		info := fd.Pkg.TypesInfo
		recv := recvVar(fd)
		n := 0
		for _, r := range ff.Flow.Returns() {
			if k, _ := ff.ClassifyReturn(p, r); k != core.RetSuccess || !ff.Flow.Reachable(r) {
				continue
			}
			n++
			nonEmpty := ff.LenFactAt(r, func(e ast.Expr) bool {
				f := core.FieldOf(info, e)
				return f != nil && f.Name() == "Signatures" && core.RootVar(info, e) == recv
			}) == 1
			c.Ob("C09-R4", fmt.Sprintf("%s#nonempty%d", fd.Name(), n), r.Pos(), nonEmpty, "success is reachable with an empty signature list (nothing was signed)")
		}
	} else {
		c.Ob("C09-R4", "UNRESOLVED:Envelope.Verify", token.NoPos, false, "gobl.(*Envelope).Verify not found")
	}
	var names []string
	for f := range chain {
		names = append(names, core.FuncName(f))
	}
	sort.Strings(names)
	c.Extra("verification_chain", names)
}

// c09LoopCoversAll checks that a collect-idiom call sits in a range loop over
// <recv>.Signatures, receives the element, and is executed on every iteration.
func c09LoopCoversAll(fd *core.FuncDecl, call *ast.CallExpr) string {
	info := fd.Pkg.TypesInfo
	var loop *ast.RangeStmt
	ast.Inspect(fd.Decl.Body, func(n ast.Node) bool {
		if rs, ok := n.(*ast.RangeStmt); ok && rs.Body.Pos() <= call.Pos() && call.End() <= rs.Body.End() {
			loop = rs
		}
		return true
	})
	if loop == nil {
		return "collected verification is not inside a loop over the signatures"
	}
	f := core.FieldOf(info, loop.X)
	if f == nil || f.Name() != "Signatures" || core.RootVar(info, loop.X) != recvVar(fd) {
		return "the loop does not range over the receiver's Signatures"
	}
	val, _ := loop.Value.(*ast.Ident)
	if val == nil || len(call.Args) == 0 || core.RootVar(info, call.Args[0]) != info.Defs[val] {
		return "the loop element is not the signature passed to the verifier"
	}
	for _, s := range loop.Body.List {
		if s.Pos() <= call.Pos() && call.End() <= s.End() {
			return ""
		}
		bad := false
		ast.Inspect(s, func(n ast.Node) bool {
			switch n.(type) {
			case *ast.BranchStmt, *ast.ReturnStmt:
				bad = true
			}
			return true
		})
		if bad {
			return "an earlier statement of the loop body can skip the verification of an element"
		}
	}
	return "call is not in a top-level statement of the loop body"
}

// c09Contains decides R3.
func c09Contains(c *core.Ctx, rule string) {
	p := c.P
	fd := p.Func("head", "Header", "Contains")
	if fd == nil {
		c.Ob(rule, "UNRESOLVED:head.Header.Contains", token.NoPos, false, "method not found")
		return
	}
	info := fd.Pkg.TypesInfo
	sig := fd.Obj.Type().(*types.Signature)
	if sig.Params().Len() != 1 {
		c.Ob(rule, "UNRESOLVED:signature", fd.Decl.Pos(), false, "unexpected signature")
		return
	}
	a, b := sig.Recv(), sig.Params().At(0)
	om := core.NewOriginMap(info, fd.Decl.Body, a, b)
	cmp := om.ComparedPaths(fd.Decl.Body, a, b)
	named, st := core.StructOf(a.Type())
	if st == nil {
		c.Ob(rule, "UNRESOLVED:struct", fd.Decl.Pos(), false, "receiver is not a struct")
		return
	}
	for i := 0; i < st.NumFields(); i++ {
		f := st.Field(i)
		jn, _ := core.JSONName(st.Tag(i), f.Name())
		if jn == "" {
			continue
		}
		var need []string
		if en, es := core.ElemStruct(f.Type()); es != nil {
			req := core.RequiredFields(p, en)
			for j := 0; j < es.NumFields(); j++ {
				if req[es.Field(j)] {
					need = append(need, f.Name()+".[]."+es.Field(j).Name())
				}
			}
			if len(need) == 0 {
				c.Undecided(rule, named.Obj().Name()+"."+f.Name(), f.Pos(), "element type has no required fields to identify it by")
				continue
			}
		} else {
			switch f.Type().Underlying().(type) {
			case *types.Slice, *types.Map, *types.Array:
				need = []string{f.Name() + ".[]"}
			default:
				need = []string{f.Name()}
			}
		}
		for _, path := range need {
			_, ok := cmp[path]
			c.Ob(rule, named.Obj().Name()+"."+path, f.Pos(), ok,
				fmt.Sprintf("%s never compares %s of the current header with %s of the signed header", fd.Name(), path, path))
		}
	}
}

// c09InsideDsig: every dsig function classified as key-verifying must reach
// success only where a verifying call (go-jose Verify*, or another verifying
// dsig function) was executed on this path and its error found nil.
func c09InsideDsig(c *core.Ctx, protKind map[*types.Func]string, verifies map[*types.Func]bool) {
	p := c.P
	for fn := range verifies {
		fd := p.DeclOf(fn)
		if fd == nil {
			continue
		}
		info := fd.Pkg.TypesInfo
		ff := core.NewFuncFlow(fd)
		isVerifier := func(f *types.Func) bool {
			return joseSinkKind(f) == "verify" || (verifies[f] && f != fn)
		}
		calls := core.CallsTo(info, fd.Decl.Body, isVerifier)
		n := 0
		for _, r := range ff.Flow.Returns() {
			if !ff.Flow.Reachable(r) {
				continue
			}
			k, tc := ff.ClassifyReturn(p, r)
			if k == core.RetFailure {
				continue
			}
			n++
			key := fmt.Sprintf("%s#exit%d", fd.Name(), n)
			if k == core.RetTransfer {
				if f := core.Callee(info, tc); f != nil && isVerifier(f) {
					c.Ob("C09-R6", key, r.Pos(), true, "")
					continue
				}
			}
			ok := false
			for _, call := range calls {
				if ff.ErrNilAt(r, call) == 1 && ff.Flow.PassedAt(r)[call] {
					ok = true
				}
			}
			// `return err` of the verifier itself, untested, is a transfer in disguise
			if !ok && k == core.RetUnknown && len(r.Results) > 0 {
				if v := core.VarOf(info, r.Results[len(r.Results)-1]); v != nil {
					ld := core.NewLocalDefs(info, fd.Decl.Body)
					if d, has := ld.Before(v, r.Pos()); has {
						if dc, isCall := ast.Unparen(d.RHS).(*ast.CallExpr); isCall {
							if f := core.Callee(info, dc); f != nil && isVerifier(f) {
								ok = true
							}
						}
					}
				}
			}
			c.Ob("C09-R6", key, r.Pos(), ok, "a key-verifying function can report success on a path where no signature verification against the supplied key was found error-free (e.g. a remembered earlier result)")
		}
	}
}

// c09ProviderKind: a function outside dsig that hands back a header together
// with a verdict (bool or error): every return with a positive verdict returns
// the variable that was the payload argument of a protected dsig call whose
// error was found nil at that return. The kind is that call's ("verify" /
// "unsafe"); "" if the function is not such a provider.
func c09ProviderKind(p *core.Program, fn *types.Func) string {
	fd := p.DeclOf(fn)
	if fd == nil || fd.Decl.Body == nil {
		return ""
	}
	sig := fn.Type().(*types.Signature)
	if sig.Results().Len() != 2 {
		return ""
	}
	info := fd.Pkg.TypesInfo
	ff := core.NewFuncFlow(fd)
	kind := ""
	for _, r := range ff.Flow.Returns() {
		if !ff.Flow.Reachable(r) || len(r.Results) != 2 {
			return ""
		}
		// a negative verdict: false, or a non-nil error
		if tv, ok := info.Types[r.Results[1]]; ok && tv.Value != nil && tv.Value.String() == "false" {
			continue
		}
		if _, isErr := sig.Results().At(1).Type().Underlying().(*types.Interface); isErr && !core.IsNil(info, r.Results[1]) {
			continue
		}
		hv := core.RootVar(info, r.Results[0])
		if hv == nil {
			return ""
		}
		k := ""
		for leaf, lv := range ff.Flow.CondsAt(r) {
			g := core.GuardOf(info, leaf, ff.Errs)
			if g.Call == nil {
				continue
			}
			switch g.Kind {
			case "err":
				if ff.ErrNilAt(r, g.Call) != 1 {
					continue
				}
			case "nil":
				if lv == g.Neg {
					continue
				}
			default:
				continue
			}
			cf := core.Callee(info, g.Call)
			if cf == nil {
				continue
			}
			for _, a := range g.Call.Args {
				if core.RootVar(info, a) == hv {
					if pk := protKindOf(p, cf); pk != "" {
						k = pk
					}
				}
			}
		}
		if k == "" {
			return ""
		}
		if kind == "" || k == "unsafe" {
			kind = k
		}
	}
	return kind
}

var c09Depth int

// c09CurrentHeaderParam: e is a *head.Header parameter of the unexported
// function fd, and at every call site of fd (same package) the argument is the
// Head member of the calling method's receiver, directly or through a local
// that was set to it once.
func c09CurrentHeaderParam(p *core.Program, fd *core.FuncDecl, e ast.Expr) bool {
	info := fd.Pkg.TypesInfo
	pv := core.VarOf(info, e)
	if pv == nil || fd.Obj.Exported() {
		return false
	}
	idx, isParam := paramIndex(fd.Obj, pv)
	if !isParam || idx < 0 || core.TypeString(pv.Type()) != "*head.Header" {
		return false
	}
	n := 0
	for _, cfd := range p.Funcs(fd.Pkg) {
		if cfd.Decl.Body == nil || p.IsTestFile(cfd.Decl.Pos()) {
			continue
		}
		crecv := recvVar(cfd)
		cld := core.NewLocalDefs(info, cfd.Decl.Body)
		bad := false
		ast.Inspect(cfd.Decl.Body, func(nd ast.Node) bool {
			call, ok := nd.(*ast.CallExpr)
			if !ok || core.Callee(info, call) != fd.Obj || idx >= len(call.Args) {
				return true
			}
			n++
			a := ast.Unparen(call.Args[idx])
			if id, ok := a.(*ast.Ident); ok {
				if lv := core.VarOf(info, id); lv != nil && len(cld.All(lv)) == 1 {
					a = ast.Unparen(cld.Resolve(id, 2))
				}
			}
			if f := core.FieldOf(info, a); f == nil || f.Name() != "Head" || crecv == nil || core.RootVar(info, a) != crecv {
				bad = true
			}
			return true
		})
		if bad {
			return false
		}
	}
	return n > 0
}

// c09CalledWithoutKeys: every call of the unexported helper fd stands in a
// function that has a public-key list parameter, at a place where that list is
// known to be empty (and the list was not replaced before).
func c09CalledWithoutKeys(p *core.Program, fd *core.FuncDecl) bool {
	info := fd.Pkg.TypesInfo
	n := 0
	for _, cfd := range p.Funcs(fd.Pkg) {
		if cfd.Decl.Body == nil || p.IsTestFile(cfd.Decl.Pos()) {
			continue
		}
		var calls []*ast.CallExpr
		ast.Inspect(cfd.Decl.Body, func(nd ast.Node) bool {
			if call, ok := nd.(*ast.CallExpr); ok && core.Callee(info, call) == fd.Obj {
				calls = append(calls, call)
			}
			return true
		})
		if len(calls) == 0 {
			continue
		}
		sig := cfd.Obj.Type().(*types.Signature)
		var keys *types.Var
		for i := 0; i < sig.Params().Len(); i++ {
			pv := sig.Params().At(i)
			if sl, ok := pv.Type().(*types.Slice); ok {
				if nn, _ := core.StructOf(sl.Elem()); nn != nil && nn.Obj().Name() == "PublicKey" {
					keys = pv
				}
			}
		}
		if keys == nil {
			return false
		}
		reassigned := false
		ast.Inspect(cfd.Decl.Body, func(nd ast.Node) bool {
			if as, ok := nd.(*ast.AssignStmt); ok {
				for _, l := range as.Lhs {
					if core.VarOf(info, l) == keys {
						reassigned = true
					}
				}
			}
			return true
		})
		if reassigned {
			return false
		}
		ff := core.NewFuncFlow(cfd)
		for _, call := range calls {
			n++
			node := ff.Flow.EnclosingNode(call)
			if node == nil || ff.LenFactAt(node, func(e ast.Expr) bool {
				id, ok := ast.Unparen(e).(*ast.Ident)
				return ok && info.Uses[id] == keys
			}) != -1 {
				return false
			}
		}
	}
	return n > 0
}
