package props

import (
	"fmt"
	"go/ast"
	"go/constant"
	"go/token"
	"go/types"

	"goblcheck/core"
)

// c14Pow — C14-R8: in the text parsers of package num (functions taking the
// untrusted string and returning an error) a power of ten with a
// non-constant exponent is evaluated only where the exponent is known to be at
// most 18. 10^e wraps for e > 18 and is exactly 0 (mod 2^64) for e >= 64, so
// an unbounded evaluation turns a long fractional part into a wrong value or
// an integer division by zero.
func c14Pow(c *core.Ctx) {
	p := c.P
	c.Rule("C14-R8", "num text parsers evaluate 10^e only under a bound e <= 18", 1)
	pk := p.Pkg("num")
	if pk == nil {
		c.Ob("C14-R8", "UNRESOLVED:num", token.NoPos, false, "package num not found")
		return
	}
	pow := p.Func("num", "", "intPow")
	if pow == nil {
		c.Ob("C14-R8", "UNRESOLVED:num.intPow", token.NoPos, false, "power helper not found")
		return
	}
	for _, fd := range p.Funcs(pk) {
		sig := fd.Obj.Type().(*types.Signature)
		if core.ErrResultIndex(sig) < 0 {
			continue
		}
		hasString := false
		for i := 0; i < sig.Params().Len(); i++ {
			if b, ok := sig.Params().At(i).Type().Underlying().(*types.Basic); ok && b.Kind() == types.String {
				hasString = true
			}
		}
		if !hasString {
			continue
		}
		info := fd.Pkg.TypesInfo
		var ff *core.FuncFlow
		var stack []ast.Node
		n := 0
		ast.Inspect(fd.Decl.Body, func(m ast.Node) bool {
			if m == nil {
				stack = stack[:len(stack)-1]
				return true
			}
			stack = append(stack, m)
			call, ok := m.(*ast.CallExpr)
			if !ok || core.Callee(info, call) != pow.Obj || len(call.Args) != 2 {
				return true
			}
			if tv := info.Types[call.Args[1]]; tv.Value != nil {
				if v, ok := constant.Int64Val(tv.Value); ok && v <= 18 {
					return true
				}
			}
			n++
			key := fmt.Sprintf("%s#pow%d", fd.Name(), n)
			ev := core.VarOf(info, call.Args[1])
			if ev == nil {
				c.Undecided("C14-R8", key, call.Pos(), "the exponent is not a local variable")
				return true
			}
			if ff == nil {
				ff = core.NewFuncFlow(fd)
			}
			facts := map[ast.Expr]bool{}
			// short-circuit facts inside the same expression
			for i := len(stack) - 1; i > 0; i-- {
				if be, ok := stack[i-1].(*ast.BinaryExpr); ok && be.Y == stack[i] {
					switch be.Op {
					case token.LOR:
						core.DeriveCond(be.X, false, facts)
					case token.LAND:
						core.DeriveCond(be.X, true, facts)
					}
				}
			}
			// dominating branch facts
			if node := ff.Flow.EnclosingNode(call); node != nil {
				for l, v := range ff.Flow.CondsAt(node) {
					facts[l] = v
				}
			}
			bounded := false
			for l, v := range facts {
				be, ok := ast.Unparen(l).(*ast.BinaryExpr)
				if !ok || core.VarOf(info, be.X) != ev {
					continue
				}
				tv := info.Types[be.Y]
				if tv.Value == nil {
					continue
				}
				k, ok := constant.Int64Val(constant.ToInt(tv.Value))
				if !ok {
					continue
				}
				switch {
				case be.Op == token.GTR && !v && k <= 18, // !(e > k)
					be.Op == token.GEQ && !v && k <= 19,
					be.Op == token.LEQ && v && k <= 18,
					be.Op == token.LSS && v && k <= 19:
					bounded = true
				}
			}
			// the bound must still describe the exponent: no assignment to it after its last definition that precedes the guard
			c.Ob("C14-R8", key, call.Pos(), bounded,
				fmt.Sprintf("intPow(10, %s) is evaluated where %s is not known to be <= 18: for a long fractional part the power wraps (0 for 64 digits or more) before any range check", ev.Name(), ev.Name()))
			return true
		})
	}
}
