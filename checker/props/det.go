package props

import (
	"fmt"
	"go/ast"
	"go/token"
	"go/types"
	"strings"

	"goblcheck/core"
)

// mapLoop is a classified `range` over a map.
type mapLoop struct {
	FD    *core.FuncDecl
	Stmt  *ast.RangeStmt
	Class string // "independent" or "order-dependent"
	Why   string
}

// classifyMapLoops finds every range-over-map in non-test module code and
// classifies it by the effects of its body.
func classifyMapLoops(p *core.Program) []mapLoop {
	var out []mapLoop
	for _, fd := range p.AllFuncs() {
		info := fd.Pkg.TypesInfo
		ast.Inspect(fd.Decl.Body, func(n ast.Node) bool {
			rs, ok := n.(*ast.RangeStmt)
			if !ok {
				return true
			}
			t := info.TypeOf(rs.X)
			if t == nil {
				return true
			}
			if _, isMap := t.Underlying().(*types.Map); !isMap {
				return true
			}
			ml := mapLoop{FD: fd, Stmt: rs, Class: "independent"}
			kv := map[*types.Var]bool{}
			if v := core.VarOf(info, rs.Key); v != nil {
				kv[v] = true
			}
			if rs.Value != nil {
				if v := core.VarOf(info, rs.Value); v != nil {
					kv[v] = true
				}
			}
			usesIter := func(e ast.Node) bool {
				found := false
				ast.Inspect(e, func(m ast.Node) bool {
					if id, ok := m.(*ast.Ident); ok {
						if v, ok := info.Uses[id].(*types.Var); ok && kv[v] {
							found = true
						}
					}
					return true
				})
				return found
			}
			dep := func(why string) {
				if ml.Class == "independent" {
					ml.Class, ml.Why = "order-dependent", why
				}
			}
			ast.Inspect(rs.Body, func(m ast.Node) bool {
				switch s := m.(type) {
				case *ast.FuncLit:
					return false
				case *ast.ReturnStmt:
					// a search for one specific key (`if k == X { return … }`) matches at most one entry
					keyEq := false
					if kvr := core.VarOf(info, rs.Key); kvr != nil {
						for _, cnd := range enclosingConds(rs.Body, s) {
							if be, ok := ast.Unparen(cnd).(*ast.BinaryExpr); ok && be.Op == token.EQL {
								if (core.VarOf(info, be.X) == kvr && !usesIter(be.Y)) || (core.VarOf(info, be.Y) == kvr && !usesIter(be.X)) {
									keyEq = true
								}
							}
						}
					}
					if keyEq {
						return true
					}
					for _, r := range s.Results {
						if usesIter(r) {
							// returning an error that mentions the key is order-dependent only in its text: errors are out of scope
							if core.IsErrorType(info.TypeOf(r)) || strings.HasSuffix(core.TypeString(info.TypeOf(r)), "rror") {
								continue
							}
							if b, ok := info.TypeOf(r).Underlying().(*types.Basic); ok && b.Kind() == types.Bool {
								continue
							}
							dep("returns a value taken from the first entry that satisfies a condition: " + types.ExprString(r))
						}
					}
				case *ast.AssignStmt:
					for i, l := range s.Lhs {
						// append to an outer slice
						if i < len(s.Rhs) {
							if call, ok := ast.Unparen(s.Rhs[i]).(*ast.CallExpr); ok {
								if id, ok := call.Fun.(*ast.Ident); ok && id.Name == "append" && usesIter(call) {
									if v := core.RootVar(info, l); v != nil && !declaredWithin(info, rs, v) {
										if !sortedLater(info, fd, v, rs) {
											dep("appends entries to " + types.ExprString(l) + " in iteration order and the slice is not sorted afterwards")
										}
									}
								}
							}
						}
						// plain assignment of an iteration value to an outer variable (last one wins)
						if id, ok := ast.Unparen(l).(*ast.Ident); ok && i < len(s.Rhs) && usesIter(s.Rhs[i]) && s.Tok == token.ASSIGN {
							if v := core.VarOf(info, id); v != nil && !declaredWithin(info, rs, v) {
								if b, ok := v.Type().Underlying().(*types.Basic); ok && b.Kind() == types.Bool {
									continue
								}
								if _, isCall := ast.Unparen(s.Rhs[i]).(*ast.CallExpr); isCall {
									// x = f(x, k, v): accumulations through a function are judged by the function (Add is commutative)
									continue
								}
								dep("assigns an entry to the outer variable " + id.Name + ": which entry survives depends on iteration order")
							}
						}
					}
				case *ast.CallExpr:
					if fn := core.Callee(info, s); fn != nil {
						r := core.RecvNamed(fn)
						if r != nil && r.Obj().Pkg() != nil {
							full := r.Obj().Pkg().Path() + "." + r.Obj().Name()
							if (full == "strings.Builder" || full == "bytes.Buffer") && strings.HasPrefix(fn.Name(), "Write") && usesIter(s) {
								dep("writes entries to a " + full + " in iteration order")
							}
						}
						if fn.Pkg() != nil && fn.Pkg().Path() == "fmt" && strings.HasPrefix(fn.Name(), "Fprint") && usesIter(s) {
							dep("prints entries in iteration order")
						}
					}
				}
				return true
			})
			out = append(out, ml)
			return true
		})
	}
	return out
}

// sortedLater: the slice variable is passed to a sort function after the loop in the same function.
func sortedLater(info *types.Info, fd *core.FuncDecl, v *types.Var, after ast.Node) bool {
	found := false
	ast.Inspect(fd.Decl.Body, func(n ast.Node) bool {
		call, ok := n.(*ast.CallExpr)
		if !ok || call.Pos() < after.End() {
			return true
		}
		fn := core.Callee(info, call)
		if fn == nil || fn.Pkg() == nil || (fn.Pkg().Path() != "sort" && fn.Pkg().Path() != "slices") {
			return true
		}
		for _, a := range call.Args {
			if core.RootVar(info, a) == v {
				found = true
			}
		}
		return true
	})
	return found
}

func mapLoopKey(p *core.Program, ml mapLoop, idx int) string {
	return fmt.Sprintf("%s#range-map%d:%s", ml.FD.Name(), idx, types.ExprString(ml.Stmt.X))
}

// declaredWithin: the variable is declared inside node n (by the declaring
// identifier's own position, which on a normalised declaration differs from
// the object's recorded position).
func declaredWithin(info *types.Info, n ast.Node, v *types.Var) bool {
	p := core.DefPosIn(info, n, v)
	return n.Pos() <= p && p <= n.End()
}
