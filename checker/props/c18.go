package props

import (
	"fmt"
	"go/ast"
	"go/token"
	"go/types"
	"sort"
	"strings"

	"goblcheck/core"
)

func init() { register("C18", C18) }

// referenceTypes: named types whose values are references into the published
// definitions; each must have a validator that consults the definitions (R2).
var referenceTypes = map[string]string{
	"currency.Code":       "currency definitions",
	"l10n.ISOCountryCode": "ISO country table",
	"l10n.TaxCountryCode": "tax country table",
	"tax.Extensions":      "extension registry",
	"tax.Combo":           "regime categories and rates",
	"tax.Addons":          "addon registry",
	"tax.Regime":          "regime registry",
	"tax.Tags":            "tags offered by regime and addons",
}

// c18Outputs: members that hold the result of the calculation pass, rebuilt
// from the (validated) inputs on every Calculate; one symbol each.
var c18Outputs = map[string]string{
	"bill.Totals.Taxes": "tax summary rebuilt by tax.TotalCalculator from the lines' validated combos on every calculation",
	"bill.Payment.Tax":  "merge of the line documents' summaries rebuilt by Payment.calculate on every calculation",
}

type fieldVal struct {
	listed bool
	skip   bool // listed only with an unconditional validation.Skip
	// condSkip: listed only with a Skip that applies under some condition
	// (Skip.When(c), or a rule variable that is Skip on some path)
	condSkip string
	pos    token.Pos
	rules  []ast.Expr
	info   *types.Info
}

type typeVal struct {
	named     *types.Named
	hasValue  bool // validator callable on a value of the type
	hasPtr    bool // validator callable on a pointer to the type
	decl      *core.FuncDecl
	fields    map[*types.Var]*fieldVal
	opaque    bool
	structVal bool
}

type c18 struct {
	c     *core.Ctx
	p     *core.Program
	vals  map[*types.Named]*typeVal
	leads map[*types.Named]int // 0 unknown, 1 no, 2 yes, 3 in progress
}

func validatorMethods(n *types.Named) (value, ptr *types.Func) {
	for _, name := range []string{"ValidateWithContext", "Validate"} {
		if value == nil {
			if o, _, _ := types.LookupFieldOrMethod(n, false, n.Obj().Pkg(), name); o != nil {
				if f, ok := o.(*types.Func); ok && isValidatorSig(f) {
					value = f
				}
			}
		}
		if ptr == nil {
			if o, _, _ := types.LookupFieldOrMethod(types.NewPointer(n), false, n.Obj().Pkg(), name); o != nil {
				if f, ok := o.(*types.Func); ok && isValidatorSig(f) {
					ptr = f
				}
			}
		}
	}
	return
}

func isValidatorSig(f *types.Func) bool {
	sig := f.Type().(*types.Signature)
	if sig.Results().Len() != 1 || !core.IsErrorType(sig.Results().At(0).Type()) {
		return false
	}
	switch sig.Params().Len() {
	case 0:
		return f.Name() == "Validate"
	case 1:
		return f.Name() == "ValidateWithContext" && core.TypeString(sig.Params().At(0).Type()) == "context.Context"
	}
	return false
}

func (a *c18) valOf(n *types.Named) *typeVal {
	if v, ok := a.vals[n]; ok {
		return v
	}
	tv := &typeVal{named: n, fields: map[*types.Var]*fieldVal{}}
	a.vals[n] = tv
	vm, pm := validatorMethods(n)
	tv.hasValue, tv.hasPtr = vm != nil, pm != nil
	// collect struct validations from both methods (Validate often delegates)
	seen := map[*types.Func]bool{}
	var visit func(fn *types.Func, depth int)
	visit = func(fn *types.Func, depth int) {
		if fn == nil || seen[fn] || depth > 3 {
			return
		}
		seen[fn] = true
		fd := a.p.DeclOf(fn)
		if fd == nil {
			return
		}
		if tv.decl == nil {
			tv.decl = fd
		}
		info := fd.Pkg.TypesInfo
		ld := core.NewLocalDefs(info, fd.Decl.Body)
		for _, sv := range core.StructValidations(info, fd.Decl.Body) {
			tv.structVal = true
			if sv.Opaque {
				tv.opaque = true
			}
			for _, fr := range sv.Fields {
				fv := tv.fields[fr.Field]
				unconditionalSkip := false
				condSkip := ""
				if fr.Cond != nil {
					condSkip = "unless " + types.ExprString(fr.Cond) + " (the field is listed conditionally)"
				}
				for _, r := range fr.Rules {
					switch un, cond := skipKind(info, ld, r, 0); {
					case un:
						unconditionalSkip = true
					case cond != "":
						condSkip = cond
					}
				}
				if fv == nil {
					fv = &fieldVal{pos: fr.Call.Pos(), info: info}
					tv.fields[fr.Field] = fv
					fv.listed = true
					fv.skip = unconditionalSkip
					fv.condSkip = condSkip
				} else if !unconditionalSkip && condSkip == "" {
					fv.skip = false // listed again without Skip: the recursive step runs
					fv.condSkip = ""
				}
				fv.rules = append(fv.rules, fr.Rules...)
			}
		}
		// methods of the same type called on the receiver, and module helpers taking the receiver
		recv := recvVar(fd)
		ast.Inspect(fd.Decl.Body, func(m ast.Node) bool {
			call, ok := m.(*ast.CallExpr)
			if !ok {
				return true
			}
			callee := core.Callee(info, call)
			if callee == nil || !core.InModule(callee.Pkg()) {
				return true
			}
			if core.RecvNamed(callee) == n && core.VarOf(info, core.RecvExpr(call)) == recv {
				visit(callee, depth+1)
			}
			return true
		})
	}
	visit(pm, 0)
	visit(vm, 0)
	return tv
}

// skipKindProgram gives skipKind access to the declarations of rule constructors.
var skipKindProgram *core.Program

// skipKind: is this rule of a field's rule list validation.Skip — always, or
// under a condition (Skip.When(c); a rule variable that holds Skip on some
// path)? A Skip inside Each(...) or When(...) only ends that rule's own list.
func skipKind(info *types.Info, ld *core.LocalDefs, r ast.Expr, depth int) (always bool, cond string) {
	r = ast.Unparen(r)
	if core.IsValidationVar(info, r, "Skip") {
		return true, ""
	}
	if depth > 3 {
		return false, ""
	}
	switch x := r.(type) {
	case *ast.CallExpr:
		if se, ok := x.Fun.(*ast.SelectorExpr); ok && se.Sel.Name == "When" && len(x.Args) == 1 {
			if un, cd := skipKind(info, ld, se.X, depth+1); un || cd != "" {
				return false, "when " + types.ExprString(x.Args[0])
			}
		}
		// a rule constructor of the module that hands back Skip on some path
		// (CanConvertInto returning Skip for an empty destination)
		if skipKindProgram != nil {
			if fn := core.Callee(info, x); fn != nil && core.InModule(fn.Pkg()) {
				if cfd := skipKindProgram.DeclOf(fn); cfd != nil && cfd.Decl.Body != nil {
					cinfo := cfd.Pkg.TypesInfo
					cld := core.NewLocalDefs(cinfo, cfd.Decl.Body)
					n, skips := 0, 0
					ast.Inspect(cfd.Decl.Body, func(m ast.Node) bool {
						if _, isLit := m.(*ast.FuncLit); isLit {
							return false
						}
						if rs, ok := m.(*ast.ReturnStmt); ok && len(rs.Results) == 1 {
							n++
							if un, cd := skipKind(cinfo, cld, rs.Results[0], depth+1); un || cd != "" {
								skips++
							}
						}
						return true
					})
					if skips > 0 && skips == n {
						return true, ""
					}
					if skips > 0 {
						return false, "on the paths where " + fn.Name() + " returns validation.Skip"
					}
				}
			}
		}
	case *ast.Ident:
		v := core.VarOf(info, x)
		if v == nil || ld == nil {
			return false, ""
		}
		defs := ld.All(v)
		n, all := 0, len(defs) > 0
		for _, d := range defs {
			if d.RHS == nil {
				all = false
				continue
			}
			if un, cd := skipKind(info, ld, d.RHS, depth+1); un || cd != "" {
				n++
				if !un {
					all = false
				}
			} else {
				all = false
			}
		}
		if n > 0 && all {
			return true, ""
		}
		if n > 0 {
			return false, "on some paths (the rule variable " + v.Name() + " is set to Skip)"
		}
	}
	return false, ""
}

func isReference(n *types.Named) bool {
	_, ok := referenceTypes[core.TypeName(n)]
	return ok
}

// leadsToRef: does a value of named type n contain a reference position?
func (a *c18) leadsToRef(n *types.Named) bool {
	switch a.leads[n] {
	case 1, 3:
		return false
	case 2:
		return true
	}
	if isReference(n) {
		a.leads[n] = 2
		return true
	}
	a.leads[n] = 3
	res := false
	switch u := n.Underlying().(type) {
	case *types.Struct:
		for i := 0; i < u.NumFields(); i++ {
			f := u.Field(i)
			if jn, _ := core.JSONName(u.Tag(i), f.Name()); jn == "" || (!f.Exported() && !f.Embedded()) {
				continue
			}
			for _, m := range core.NamedIn(f.Type()) {
				if core.InModule(m.Obj().Pkg()) && a.leadsToRef(m) {
					res = true
				}
			}
		}
	default:
		for _, m := range core.NamedIn(u) {
			if core.InModule(m.Obj().Pkg()) && a.leadsToRef(m) {
				res = true
			}
		}
	}
	if res {
		a.leads[n] = 2
	} else {
		a.leads[n] = 1
	}
	return res
}

// heldHow classifies how field type t holds named type m: "value", "ptr".
func heldHow(t types.Type, m *types.Named) string {
	switch x := t.(type) {
	case *types.Named:
		if x == m {
			return "value"
		}
		return heldHow(x.Underlying(), m)
	case *types.Pointer:
		if n, ok := x.Elem().(*types.Named); ok && n == m {
			return "ptr"
		}
		return heldHow(x.Elem(), m)
	case *types.Slice:
		return heldHow(x.Elem(), m)
	case *types.Array:
		return heldHow(x.Elem(), m)
	case *types.Map:
		return heldHow(x.Elem(), m)
	}
	return ""
}

// C18 — validated documents only reference defined codes, keys and rates.
func C18(c *core.Ctx) {
	p := c.P
	c.Explain("Decided: (R1) validation reaches every reference position — for every registered document type, walking the type graph to each field whose type is (or contains) a reference type (currency code, country codes, extensions, tax combos, addons, regime, tags), each struct on the path has a validator, lists the field in its ValidateStruct call without an unconditional Skip, and holds the next type in a way the validation library actually recurses into (a value field whose validator has a pointer receiver is silently skipped); (R2) every reference type has a validator that consults the corresponding registry or table; (R3) every document type embedding tax.Tags validates the tag list against the tags offered by its regime and addons (sibling agreement). Not decided: that the registries themselves are complete (C19), nor the value-level behaviour of each rule.")
	skipKindProgram = p
	c.Rule("C18-R1", "validation reaches every reference position", 120)
	c.Rule("C18-R2", "every reference type has a validator consulting the definitions", 7)
	c.Rule("C18-R3", "documents embedding tax.Tags validate the list with TagsIn(supported tags)", 4)
	a := &c18{c: c, p: p, vals: map[*types.Named]*typeVal{}, leads: map[*types.Named]int{}}

	// roots: registered document types, minus definition documents
	var roots []*types.Named
	opts := optionStructTypes(p)
	for _, r := range p.RegisteredTypes() {
		name := core.TypeName(r.Named)
		if strings.HasSuffix(name, "Def") || name == "cbc.Definition" || name == "tax.Scenario" || opts[r.Named] {
			continue // definition documents (C19) and option structs are not business documents
		}
		if _, isStruct := r.Named.Underlying().(*types.Struct); isStruct && a.leadsToRef(r.Named) {
			roots = append(roots, r.Named)
		}
	}
	if env := p.Named("", "Envelope"); env != nil {
		roots = append(roots, env)
	}
	visited := map[*types.Named]bool{}
	type item struct {
		n    *types.Named
		path string
	}
	queue := []item{}
	for _, r := range roots {
		queue = append(queue, item{r, core.TypeName(r)})
	}
	nPos := 0
	for len(queue) > 0 {
		it := queue[0]
		queue = queue[1:]
		if visited[it.n] || isReference(it.n) && core.TypeName(it.n) != "tax.Combo" {
			continue
		}
		visited[it.n] = true
		st, ok := it.n.Underlying().(*types.Struct)
		if !ok {
			// named slice/map type: must validate its elements itself when it has a validator
			tv := a.valOf(it.n)
			for _, m := range core.NamedIn(it.n.Underlying()) {
				if core.InModule(m.Obj().Pkg()) && a.leadsToRef(m) {
					if tv.hasValue || tv.hasPtr {
						ok := elementsValidated(p, tv)
						c.Ob("C18-R1", core.TypeName(it.n)+"#elements", it.n.Obj().Pos(), ok,
							fmt.Sprintf("%s has its own validator, so the library does not visit its elements; that validator does not validate them either (path %s)", core.TypeName(it.n), it.path))
					}
					queue = append(queue, item{m, it.path + " → " + core.TypeName(m)})
				}
			}
			continue
		}
		tv := a.valOf(it.n)
		for i := 0; i < st.NumFields(); i++ {
			f := st.Field(i)
			if jn, _ := core.JSONName(st.Tag(i), f.Name()); jn == "" || (!f.Exported() && !f.Embedded()) {
				continue
			}
			var targets []*types.Named
			for _, m := range core.NamedIn(f.Type()) {
				if core.TypeName(m) == "tax.Tags" {
					continue // decided by R3 (the list is validated through Field(&x.Tags.List, TagsIn(...)))
				}
				if core.InModule(m.Obj().Pkg()) && a.leadsToRef(m) {
					targets = append(targets, m)
				}
			}
			if len(targets) == 0 {
				continue
			}
			nPos++
			key := core.TypeName(it.n) + "." + f.Name()
			path := it.path + "." + f.Name()
			if reason, ok := c18Outputs[key]; ok {
				c.Ob("C18-R1", key, f.Pos(), true, "")
				c.Note("not walked: %s — %s", key, reason)
				continue
			}
			if !tv.hasValue && !tv.hasPtr {
				c.Ob("C18-R1", key, f.Pos(), false, fmt.Sprintf("%s has no Validate method, so nothing below it is validated; field %s leads to %s (path %s)", core.TypeName(it.n), f.Name(), core.TypeName(targets[0]), path))
				continue
			}
			if !tv.structVal {
				c.Undecided("C18-R1", key, f.Pos(), fmt.Sprintf("validator of %s is not built on ValidateStruct; cannot decide whether field %s is visited", core.TypeName(it.n), f.Name()))
				continue
			}
			fv := tv.fields[f]
			switch {
			case fv == nil && tv.opaque:
				c.Undecided("C18-R1", key, f.Pos(), fmt.Sprintf("validator of %s builds its field list dynamically", core.TypeName(it.n)))
				continue
			case fv == nil:
				c.Ob("C18-R1", key, f.Pos(), false, fmt.Sprintf("field is not listed in the validator of %s, so it is never visited: an undefined %s below it passes validation (path %s)", core.TypeName(it.n), referenceTypes[core.TypeName(leaf(a, targets[0]))], path))
				continue
			case fv.skip:
				c.Ob("C18-R1", key, fv.pos, false, fmt.Sprintf("field is listed with an unconditional validation.Skip, which returns before the recursive validation (path %s)", path))
				continue
			case fv.condSkip != "":
				c.Ob("C18-R1", key, fv.pos, false, fmt.Sprintf("field is listed with a validation.Skip that applies %s: whenever it does, the library returns before the remaining rules and before the value's own validation, so an undefined %s there passes (path %s)", fv.condSkip, referenceTypes[core.TypeName(leaf(a, targets[0]))], path))
				continue
			}
			// how is the target held, and can the library call its validator that way?
			okHeld := true
			why := ""
			for _, m := range targets {
				mv := a.valOf(m)
				how := heldHow(f.Type(), m)
				if _, isStruct := m.Underlying().(*types.Struct); !isStruct && !mv.hasValue && !mv.hasPtr {
					continue // plain named slice/map without validator: the library walks its elements
				}
				if how == "value" && !mv.hasValue {
					okHeld, why = false, fmt.Sprintf("%s is held by value but its validator has a pointer receiver: the validation library does not call it", core.TypeName(m))
					if !mv.hasPtr {
						why = fmt.Sprintf("%s has no Validate method", core.TypeName(m))
					}
				}
				if how == "ptr" && !mv.hasPtr {
					okHeld, why = false, fmt.Sprintf("%s has no Validate method", core.TypeName(m))
				}
			}
			c.Ob("C18-R1", key, fv.pos, okHeld, fmt.Sprintf("%s (path %s)", why, path))
			for _, m := range targets {
				queue = append(queue, item{m, path + " → " + core.TypeName(m)})
			}
		}
	}
	c.Extra("reference_positions", nPos)
	c.Extra("document_roots", len(roots))
	var vs []string
	for n := range visited {
		vs = append(vs, core.TypeName(n))
	}
	sort.Strings(vs)
	c.Extra("types_on_paths_to_references", vs)

	c18Consult(c)
	c18Tags(c, a)
	c18TagRule(c)
	deadRulesAfterSkip(c, "C18-R7", "no validation rule is written after an unconditional validation.Skip")
	// R8: the regime and the addons a combo, an extension or a tag is judged against travel in
	// the context; a ValidateWithContext that validates what is below it without the context
	// leaves those references unjudged
	// R9: what a document may reference is decided by the definitions of ITS regime and addons;
	// a set kept in package-level state that run-time code writes (a cache that grows with every
	// document seen) makes the answer depend on what was validated before
	c.Rule("C18-R9", "the sets of offered keys and tags are not kept in package-level state written at run time (shared with C15-R1)", 8)
	{
		sub := core.NewCtx("C15", c.Tier, c.Seed, c.P, c.VerifDir)
		sub.Quiet = true
		c15Globals(sub, buildCallers(c.P))
		for _, o := range sub.Obligations() {
			if o.Rule == "C15-R1" {
				c.ObAt("C18-R9", o.Key, o.Pos, o.OK, o.Msg)
			}
		}
	}
	c.Rule("C18-R8", "ValidateWithContext methods pass their context on to every nested validation (shared with C10-R5)", 20)
	{
		sub := core.NewCtx("C10", c.Tier, c.Seed, c.P, c.VerifDir)
		sub.Quiet = true
		c10ContextPropagation(sub)
		for _, o := range sub.Obligations() {
			if o.Rule == "C10-R5" {
				c.ObAt("C18-R8", o.Key, o.Pos, o.OK, o.Msg)
			}
		}
	}
	c18ComboRegime(c)
	c18Exact(c)
	c18Components(c)
}

// c18ComboRegime: the regime whose tables a combo's category and rate are
// checked against is the combo's own country's when that is set, otherwise the
// document's (from the context).
func c18ComboRegime(c *core.Ctx) {
	p := c.P
	c.Rule("C18-R4", "a tax combo is checked against the regime that applies to it (its country override, else the document's)", 2)
	fd := p.Func("tax", "Combo", "ValidateWithContext")
	if fd == nil {
		c.Ob("C18-R4", "UNRESOLVED:tax.Combo.ValidateWithContext", token.NoPos, false, "method not found")
		return
	}
	info := fd.Pkg.TypesInfo
	recv := recvVar(fd)
	ff := core.NewFuncFlow(fd)
	ld := core.NewLocalDefs(info, fd.Decl.Body)
	for _, mname := range []string{"InCategories", "InCategoryRates"} {
		calls := core.CallsTo(info, fd.Decl.Body, func(f *types.Func) bool {
			return f.Name() == mname && core.RecvNamed(f) != nil && core.RecvNamed(f).Obj().Name() == "RegimeDef"
		})
		if len(calls) == 0 {
			c.Ob("C18-R4", fd.Name()+"#"+mname, fd.Decl.Pos(), false, "the combo validator does not use "+mname)
			continue
		}
		for _, call := range calls {
			v := core.VarOf(info, core.RecvExpr(call))
			ok, why := false, "the regime is not a local variable chosen by the combo's country"
			if v != nil {
				own, ctxOK, other := false, false, false
				for _, d := range ld.All(v) {
					if d.RHS == nil {
						continue
					}
					rc, isCall := ast.Unparen(d.RHS).(*ast.CallExpr)
					if !isCall {
						other = true
						continue
					}
					fn := core.Callee(info, rc)
					// under which value of <recv>.Country.Empty()?
					emptyVal, known := false, false
					if node := ff.Flow.EnclosingNode(d.Stmt); node != nil {
						for leaf, val := range ff.Flow.CondsAt(node) {
							if lc, isC := ast.Unparen(leaf).(*ast.CallExpr); isC {
								if f := core.Callee(info, lc); f != nil && f.Name() == "Empty" {
									if fld := core.FieldOf(info, core.RecvExpr(lc)); fld != nil && fld.Name() == "Country" && core.RootVar(info, core.RecvExpr(lc)) == recv {
										emptyVal, known = val, true
									}
								}
							}
						}
					}
					switch {
					case fn != nil && fn.Name() == "RegimeDefFor" && known && !emptyVal:
						// argument derives from recv.Country
						arg := ast.Expr(nil)
						if len(rc.Args) == 1 {
							arg = ast.Unparen(rc.Args[0])
							if ac, isC := arg.(*ast.CallExpr); isC && core.RecvExpr(ac) != nil {
								arg = core.RecvExpr(ac) // c.Country.Code()
							}
						}
						if fld := core.FieldOf(info, arg); arg != nil && fld != nil && fld.Name() == "Country" && core.RootVar(info, arg) == recv {
							own = true
						} else {
							other = true
						}
					case fn != nil && fn.Name() == "RegimeDefFromContext" && known && emptyVal:
						ctxOK = true
					default:
						other = true
					}
				}
				ok = own && ctxOK && !other
				why = fmt.Sprintf("the regime passed to %s is not `RegimeDefFor(combo country)` when the combo has a country and the context regime only when it has none (own=%v context=%v other=%v): a combo with a country override is checked against the wrong regime's categories and rates", mname, own, ctxOK, other)
			}
			c.Ob("C18-R4", fd.Name()+"#"+mname, call.Pos(), ok, why)
		}
	}
}

func leaf(a *c18, n *types.Named) *types.Named {
	if isReference(n) {
		return n
	}
	// first reference type below
	seen := map[*types.Named]bool{}
	var rec func(m *types.Named) *types.Named
	rec = func(m *types.Named) *types.Named {
		if isReference(m) {
			return m
		}
		if seen[m] {
			return nil
		}
		seen[m] = true
		if st, ok := m.Underlying().(*types.Struct); ok {
			for i := 0; i < st.NumFields(); i++ {
				for _, k := range core.NamedIn(st.Field(i).Type()) {
					if core.InModule(k.Obj().Pkg()) {
						if r := rec(k); r != nil {
							return r
						}
					}
				}
			}
		} else {
			for _, k := range core.NamedIn(m.Underlying()) {
				if r := rec(k); r != nil {
					return r
				}
			}
		}
		return nil
	}
	if r := rec(n); r != nil {
		return r
	}
	return n
}

// elementsValidated: the validator of a named slice/map type validates its elements.
func elementsValidated(p *core.Program, tv *typeVal) bool {
	vm, pm := validatorMethods(tv.named)
	for _, fn := range []*types.Func{vm, pm} {
		fd := p.DeclOf(fn)
		if fd == nil {
			continue
		}
		info := fd.Pkg.TypesInfo
		found := false
		ast.Inspect(fd.Decl.Body, func(n ast.Node) bool {
			rs, ok := n.(*ast.RangeStmt)
			if !ok {
				return true
			}
			val := core.VarOf(info, rs.Value)
			ast.Inspect(rs.Body, func(m ast.Node) bool {
				call, ok := m.(*ast.CallExpr)
				if !ok {
					return true
				}
				callee := core.Callee(info, call)
				if callee == nil || !strings.HasPrefix(callee.Name(), "Validate") {
					return true
				}
				if val != nil && (core.VarOf(info, core.RecvExpr(call)) == val) {
					found = true
				}
				for _, arg := range call.Args {
					if val != nil && core.RootVar(info, arg) == val {
						found = true
					}
				}
				return true
			})
			return true
		})
		if found {
			return true
		}
	}
	return false
}

func c18Consult(c *core.Ctx) {
	p := c.P
	need := map[string]func(f *types.Func) bool{
		"currency.Code": func(f *types.Func) bool {
			return f.Pkg().Path() == core.ModPath+"/currency" && (f.Name() == "Get" || f.Name() == "get" || f.Name() == "Def")
		},
		"l10n.ISOCountryCode": func(f *types.Func) bool { return f.Pkg().Path() == core.ModPath+"/l10n" && f.Name() == "ISO" },
		"l10n.TaxCountryCode": func(f *types.Func) bool { return f.Pkg().Path() == core.ModPath+"/l10n" && f.Name() == "Tax" },
		"tax.Extensions": func(f *types.Func) bool {
			return f.Pkg().Path() == core.ModPath+"/tax" && f.Name() == "ExtensionForKey"
		},
		"tax.Combo": func(f *types.Func) bool {
			return f.Pkg().Path() == core.ModPath+"/tax" && (f.Name() == "InCategories" || f.Name() == "InCategoryRates")
		},
		"tax.Addons": func(f *types.Func) bool {
			return f.Pkg().Path() == core.ModPath+"/tax" && (f.Name() == "AddonForKey" || f.Name() == "AddonRegistered")
		},
		"tax.Regime": func(f *types.Func) bool {
			return f.Pkg().Path() == core.ModPath+"/tax" && (f.Name() == "RegimeDefFor" || (f.Name() == "For" && core.RecvNamed(f) != nil && core.RecvNamed(f).Obj().Name() == "RegimeDefCollection"))
		},
	}
	var names []string
	for n := range need {
		names = append(names, n)
	}
	sort.Strings(names)
	for _, name := range names {
		parts := strings.SplitN(name, ".", 2)
		n := p.Named(parts[0], parts[1])
		if n == nil {
			c.Ob("C18-R2", name, token.NoPos, false, "reference type not found")
			continue
		}
		vm, pm := validatorMethods(n)
		fn := vm
		if fn == nil {
			fn = pm
		}
		if fn == nil {
			c.Ob("C18-R2", name, n.Obj().Pos(), false, fmt.Sprintf("%s has no Validate method: any value, defined or not, passes validation (%s never consulted)", name, referenceTypes[name]))
			continue
		}
		ok := reachesThroughVars(p, fn, func(f *types.Func) bool { return f.Pkg() != nil && need[name](f) }, 6, map[types.Object]bool{})
		c.Ob("C18-R2", name, fn.Pos(), ok, fmt.Sprintf("the validator of %s does not reach the lookup of the %s", name, referenceTypes[name]))
	}
}

func c18Tags(c *core.Ctx, a *c18) {
	p := c.P
	tags := p.Named("tax", "Tags")
	n := 0
	for _, r := range p.RegisteredTypes() {
		st, ok := r.Named.Underlying().(*types.Struct)
		if !ok {
			continue
		}
		var tagField *types.Var
		for i := 0; i < st.NumFields(); i++ {
			if st.Field(i).Embedded() && st.Field(i).Type() == types.Type(tags) {
				tagField = st.Field(i)
			}
		}
		if tagField == nil {
			continue
		}
		n++
		tv := a.valOf(r.Named)
		ok = false
		if tv.decl != nil {
			// a Field(&x.Tags.List, tax.TagsIn(...)) entry
			for f, fv := range tv.fields {
				if f.Name() != "List" {
					continue
				}
				for _, rule := range fv.rules {
					if call, isCall := ast.Unparen(rule).(*ast.CallExpr); isCall {
						if fn := core.Callee(fv.info, call); fn != nil && fn.Name() == "TagsIn" {
							ok = true
						}
					}
				}
			}
		}
		c.Ob("C18-R3", core.TypeName(r.Named)+".Tags", r.Pos, ok,
			"the document embeds tax.Tags but its validator does not check the tag list with tax.TagsIn(tags offered by its regime and addons): any $tags value validates")
	}
	if n < 4 {
		c.Ob("C18-R3", "UNRESOLVED:tag-documents", token.NoPos, false, fmt.Sprintf("only %d document types embedding tax.Tags", n))
	}
}

// reachesThroughVars: like Program.Reaches, but also follows package-level
// variables referenced by a function into the functions their initialisers use
// (validators are often built once: var isISOCountry = validation.In(valid()...)).
func reachesThroughVars(p *core.Program, fn *types.Func, pred func(*types.Func) bool, depth int, seen map[types.Object]bool) bool {
	if fn == nil || seen[fn] || depth < 0 {
		return false
	}
	seen[fn] = true
	if pred(fn) {
		return true
	}
	fd := p.DeclOf(fn)
	if fd == nil {
		return false
	}
	info := fd.Pkg.TypesInfo
	found := false
	var scan func(n ast.Node, inf *types.Info)
	scan = func(n ast.Node, inf *types.Info) {
		ast.Inspect(n, func(m ast.Node) bool {
			if found {
				return false
			}
			id, ok := m.(*ast.Ident)
			if !ok {
				return true
			}
			switch o := inf.Uses[id].(type) {
			case *types.Func:
				if reachesThroughVars(p, o.Origin(), pred, depth-1, seen) {
					found = true
				}
			case *types.Var:
				if isPkgVar(o) && core.InModule(o.Pkg()) && !seen[o] {
					seen[o] = true
					// a rule object: the validator lives in the methods of its type
					if nt, _ := core.StructOf(o.Type()); nt != nil && core.InModule(nt.Obj().Pkg()) {
						vm, pm := validatorMethods(nt)
						for _, m := range []*types.Func{vm, pm} {
							if m != nil && reachesThroughVars(p, m, pred, depth-1, seen) {
								found = true
							}
						}
						for _, mn := range []string{"Validate", "ValidateWithContext"} {
							if mo, _, _ := types.LookupFieldOrMethod(types.NewPointer(nt), true, nt.Obj().Pkg(), mn); mo != nil {
								if mf, ok := mo.(*types.Func); ok && reachesThroughVars(p, mf, pred, depth-1, seen) {
									found = true
								}
							}
						}
					}
					if pk := p.ByPath[o.Pkg().Path()]; pk != nil && pk.TypesInfo != nil {
						for _, file := range pk.Syntax {
							if !(file.Pos() <= o.Pos() && o.Pos() <= file.End()) {
								continue
							}
							for _, d := range file.Decls {
								gd, ok := d.(*ast.GenDecl)
								if !ok {
									continue
								}
								for _, sp := range gd.Specs {
									if vs, ok := sp.(*ast.ValueSpec); ok {
										for i, nm := range vs.Names {
											if nm.Pos() == o.Pos() && i < len(vs.Values) {
												scan(vs.Values[i], pk.TypesInfo)
											}
										}
									}
								}
							}
						}
					}
				}
			}
			return true
		})
	}
	scan(fd.Decl.Body, info)
	return found
}

// c18TagRule — C18-R6: the rule behind tax.TagsIn accepts a list only after
// testing every entry for membership of the keys it was given. Its Validate
// may return nil (a) after the membership loop, or (b) because the value is not
// a tag list at all (a failed type assertion); a nil returned for any other
// reason — the rule's own key list being empty, say — lets every tag through.
func c18TagRule(c *core.Ctx) {
	p := c.P
	c.Rule("C18-R6", "the TagsIn rule accepts only after testing every tag against its keys", 3)
	ctor := p.Func("tax", "", "TagsIn")
	if ctor == nil {
		c.Ob("C18-R6", "UNRESOLVED:tax.TagsIn", token.NoPos, false, "function not found")
		return
	}
	// the rule type: what TagsIn returns
	var ruleType *types.Named
	ast.Inspect(ctor.Decl.Body, func(n ast.Node) bool {
		if r, ok := n.(*ast.ReturnStmt); ok && len(r.Results) == 1 {
			if nn, _ := core.StructOf(ctor.Pkg.TypesInfo.TypeOf(r.Results[0])); nn != nil {
				ruleType = nn
			}
		}
		return true
	})
	if ruleType == nil {
		c.Ob("C18-R6", "UNRESOLVED:tag-rule-type", ctor.Decl.Pos(), false, "UNDECIDED: tax.TagsIn does not return a struct rule")
		return
	}
	fd := p.Func("tax", ruleType.Obj().Name(), "Validate")
	if fd == nil {
		c.Ob("C18-R6", "UNRESOLVED:tag-rule-validate", ruleType.Obj().Pos(), false, "NOT FOUND: the tag rule has no Validate method")
		return
	}
	info := fd.Pkg.TypesInfo
	recv := recvVar(fd)
	ff := core.NewFuncFlow(fd)
	fromRecv := func(e ast.Expr) bool { return core.RootVar(info, e) == recv }
	ld := core.NewLocalDefs(info, fd.Decl.Body)
	// the membership loop: a loop (range or index form) whose body tests `!k.In(recv.keys...)`
	// for its element k and returns an error
	var loop ast.Stmt
	var test *ast.IfStmt
	elemOfLoop := func(lp ast.Stmt, k *types.Var) bool {
		if k == nil {
			return false
		}
		if rs, ok := lp.(*ast.RangeStmt); ok {
			if rs.Value != nil && core.VarOf(info, rs.Value) == k {
				switch ast.Unparen(rs.X).(type) {
				case *ast.Ident, *ast.SelectorExpr:
					return true
				}
				return false
			}
		}
		// k := list[i] (in the loop body or the if's init), i the loop's index
		for _, d := range ld.All(k) {
			if d.RHS == nil || d.Pos < lp.Pos() || d.Pos > lp.End() {
				return false
			}
			ix, ok := ast.Unparen(d.RHS).(*ast.IndexExpr)
			if !ok {
				return false
			}
			switch ast.Unparen(ix.X).(type) {
			case *ast.Ident, *ast.SelectorExpr:
			default:
				return false
			}
			if _, isIdent := ast.Unparen(ix.Index).(*ast.Ident); !isIdent {
				return false
			}
		}
		return len(ld.All(k)) > 0
	}
	var visit func(n ast.Node) bool
	visit = func(n ast.Node) bool {
		var body *ast.BlockStmt
		switch x := n.(type) {
		case *ast.RangeStmt:
			body = x.Body
		case *ast.ForStmt:
			body = x.Body
		default:
			return true
		}
		if loop != nil {
			return false
		}
		ast.Inspect(body, func(m ast.Node) bool {
			is, ok := m.(*ast.IfStmt)
			if !ok || test != nil {
				return true
			}
			un, ok := ast.Unparen(is.Cond).(*ast.UnaryExpr)
			if !ok || un.Op != token.NOT {
				return true
			}
			call, ok := ast.Unparen(un.X).(*ast.CallExpr)
			if !ok {
				return true
			}
			fn := core.Callee(info, call)
			if fn == nil || fn.Name() != "In" || !elemOfLoop(n.(ast.Stmt), core.VarOf(info, core.RecvExpr(call))) {
				return true
			}
			if len(call.Args) != 1 || !call.Ellipsis.IsValid() || !fromRecv(call.Args[0]) {
				return true
			}
			if _, isSel := ast.Unparen(call.Args[0]).(*ast.SelectorExpr); !isSel {
				return true // a slice of the keys is not the keys
			}
			if !endsWithReturn(is.Body.List) {
				return true
			}
			ret := is.Body.List[len(is.Body.List)-1].(*ast.ReturnStmt)
			if len(ret.Results) != 1 || core.IsNil(info, ret.Results[0]) {
				return true
			}
			test = is
			return false
		})
		if test != nil {
			loop = n.(ast.Stmt)
		}
		return true
	}
	ast.Inspect(fd.Decl.Body, visit)
	if loop == nil {
		c.Ob("C18-R6", fd.Name()+"#membership-loop", fd.Decl.Pos(), false, "NOT FOUND: no loop over the tag list that rejects an entry which is not In(the rule's keys...)")
		return
	}
	why := everyIteration(p, info, fd.Decl.Body, test, func(ast.Expr, bool) bool { return false })
	c.Ob("C18-R6", fd.Name()+"#every-entry", test.Pos(), why == "", "the membership test is not applied to every entry of the list: "+why)
	// what the loop walks is the value itself (or its List)
	n := 0
	for _, r := range ff.Flow.Returns() {
		if !ff.Flow.Reachable(r) || len(r.Results) != 1 || !core.IsNil(info, r.Results[0]) {
			continue
		}
		n++
		key := fmt.Sprintf("%s#accepts%d", fd.Name(), n)
		if ff.Flow.EveryPathPasses(r, func(nd ast.Node) bool { return nd.Pos() >= loop.Pos() && nd.End() <= loop.End() }) {
			c.Ob("C18-R6", key, r.Pos(), true, "")
			continue
		}
		// not after the loop: the reason may only be the dynamic type of the value (a failed
		// assertion, a type-switch clause), never the rule's own keys or the list's contents
		bad := ""
		nconds := 0
		mentionsBad := func(e ast.Expr) string {
			why := ""
			ast.Inspect(e, func(m ast.Node) bool {
				switch x := m.(type) {
				case *ast.Ident:
					if v := core.VarOf(info, x); v != nil && v == recv {
						why = "depends on the rule itself"
					}
				case *ast.CallExpr:
					if id, ok := x.Fun.(*ast.Ident); ok && id.Name == "len" {
						why = "depends on a length"
					}
				case *ast.IndexExpr:
					why = "depends on an element"
				}
				return why == ""
			})
			return why
		}
		for leaf, val := range ff.Flow.CondsAt(r) {
			nconds++
			if why := mentionsBad(leaf); why != "" {
				bad = fmt.Sprintf("%s is %v, which %s", types.ExprString(leaf), val, why)
				continue
			}
			// a boolean local: every definition comes from a type assertion, a type-switch clause or a constant
			if id, ok := ast.Unparen(leaf).(*ast.Ident); ok {
				if v := core.VarOf(info, id); v != nil {
					for _, d := range ld.All(v) {
						if d.RHS == nil {
							continue
						}
						if _, isTA := ast.Unparen(d.RHS).(*ast.TypeAssertExpr); isTA {
							continue
						}
						if tv, isConst := info.Types[d.RHS]; isConst && tv.Value != nil {
							continue
						}
						if call, isCall := ast.Unparen(d.RHS).(*ast.CallExpr); isCall && mentionsBad(call) == "" {
							continue // a helper over the value alone (decided in the other view when inlined)
						}
						bad = fmt.Sprintf("%s is %v, set from %s", types.ExprString(leaf), val, types.ExprString(d.RHS))
					}
				}
			}
		}
		inTypeSwitch := false
		ast.Inspect(fd.Decl.Body, func(m ast.Node) bool {
			if ts, ok := m.(*ast.TypeSwitchStmt); ok && ts.Pos() <= r.Pos() && r.End() <= ts.End() {
				inTypeSwitch = true
			}
			return true
		})
		if nconds == 0 && !inTypeSwitch {
			bad = "no condition at all"
		}
		c.Ob("C18-R6", key, r.Pos(), bad == "", fmt.Sprintf("the tag rule accepts the value here without having tested its entries (%s): with that, any tag — defined by the regime and addons or not — passes validation", bad))
	}
}
