package props

import (
	"golang.org/x/tools/go/packages"
	"fmt"
	"go/ast"
	"go/constant"
	"go/token"
	"go/types"
	"strings"

	"goblcheck/core"
)

func init() { register("C07", C07) }

// C07 — canonical JSON follows its specification.
func C07(c *core.Ctx) {
	p := c.P
	c.Explain("Decided for package c14n: (R1) the reader accepts exactly one complete value — every success return of UnmarshalJSON lies where a further Token() call was found to return io.EOF, and reaching the end of input inside handleNextToken is never turned into a nil result; (R2) nil-result contract — UnmarshalJSON never succeeds with a nil value, so CanonicalJSON's call on the result cannot be on nil; (R3) separator-after-skip — in every loop that writes a separator and can skip an element, the separator does not depend on the range index; (R4) the tables equal the specification: safeSet is true exactly for 0x20–0x7F except \" and \\, the two-character escapes are exactly the seven of README §8.1, and the fallback writes \\u00 plus two digits taken from an upper-case hex table (§8.2); (R5) object members are sorted with a plain < on the keys (byte order = code point order for UTF-8) before every object is returned; (R6) a decoding error in a string reaches an error return (§8.3). Not decided: the number formatter (index arithmetic on strconv output — value-level), idempotence and injectivity of the canonical form.")
	c.Rule("C07-R1", "one complete value: EOF required after the top-level value; EOF inside is an error", 2)
	c.Rule("C07-R2", "UnmarshalJSON never succeeds with nil", 1)
	c.Rule("C07-R3", "separator after skipped elements does not depend on the index", 2)
	c.Rule("C07-R4", "safeSet, escape switch and hex table equal the specification", 4)
	c.Rule("C07-R5", "members sorted by key with <, on every object", 2)
	c.Rule("C07-R6", "invalid UTF-8 is rejected", 1)
	pk := p.Pkg("c14n")
	if pk == nil {
		c.Ob("C07-R1", "UNRESOLVED:c14n", token.NoPos, false, "package not loaded")
		return
	}
	info := pk.TypesInfo
	isToken := func(f *types.Func) bool { return core.IsFunc(f, "encoding/json", "Decoder", "Token") }
	isEOF := func(e ast.Expr) bool {
		se, ok := ast.Unparen(e).(*ast.SelectorExpr)
		if !ok {
			return false
		}
		v, ok := info.Uses[se.Sel].(*types.Var)
		return ok && v.Pkg() != nil && v.Pkg().Path() == "io" && v.Name() == "EOF"
	}
	// R1/R2 on UnmarshalJSON
	if fd := p.Func("c14n", "", "UnmarshalJSON"); fd != nil {
		ff := core.NewFuncFlow(fd)
		n := 0
		for _, r := range ff.Flow.Returns() {
			if !ff.Flow.Reachable(r) {
				continue
			}
			if k, _ := ff.ClassifyReturn(p, r); k != core.RetSuccess {
				continue
			}
			n++
			eofSeen := false
			nonNil := false
			for leaf, val := range ff.Flow.CondsAt(r) {
				be, ok := ast.Unparen(leaf).(*ast.BinaryExpr)
				if !ok {
					continue
				}
				// err != io.EOF found false (or err == io.EOF found true), err being the error of a Token() call made after the first value
				if isEOF(be.Y) || isEOF(be.X) {
					if (be.Op == token.NEQ && !val) || (be.Op == token.EQL && val) {
						// the tested error is the error of a Token call (every definition of the variable is one)
						other := be.X
						if isEOF(be.X) {
							other = be.Y
						}
						if ev := core.VarOf(info, other); ev != nil {
							defs := core.NewLocalDefs(info, fd.Decl.Body).All(ev)
							all := len(defs) > 0
							for _, d := range defs {
								call, isCall := ast.Unparen(d.RHS).(*ast.CallExpr)
								if d.RHS == nil || !isCall || !isToken(core.Callee(info, call)) || d.N != 2 || d.Idx != 1 {
									all = false
								}
							}
							if all {
								eofSeen = true
							}
						}
					}
				}
				g := core.GuardOf(info, leaf, ff.Errs)
				if g.Kind == "nil" || g.Kind == "err" {
					if v := core.VarOf(info, g.X); v != nil && len(r.Results) > 0 && core.VarOf(info, r.Results[0]) == v && val == g.Neg {
						nonNil = true
					}
				}
			}
			c.Ob("C07-R1", fmt.Sprintf("%s#success%d-eof", fd.Name(), n), r.Pos(), eofSeen,
				"the reader reports success without having found the end of input after the top-level value: trailing data (or a second value) is silently ignored")
			c.Ob("C07-R2", fmt.Sprintf("%s#success%d-non-nil", fd.Name(), n), r.Pos(), nonNil,
				"the reader can succeed with a nil value (empty input, stray delimiter), on which CanonicalJSON calls MarshalJSON: nil dereference")
		}
	} else {
		c.Ob("C07-R1", "UNRESOLVED:c14n.UnmarshalJSON", token.NoPos, false, "function not found")
	}
	// EOF inside handleNextToken must be an error
	if fd := p.Func("c14n", "", "handleNextToken"); fd != nil {
		ff := core.NewFuncFlow(fd)
		found := false
		okAll := true
		for _, r := range ff.Flow.Returns() {
			for leaf, val := range ff.Flow.CondsAt(r) {
				be, ok := ast.Unparen(leaf).(*ast.BinaryExpr)
				if !ok || !(isEOF(be.Y) || isEOF(be.X)) {
					continue
				}
				if (be.Op == token.EQL && val) || (be.Op == token.NEQ && !val) {
					found = true
					if k, _ := ff.ClassifyReturn(p, r); k != core.RetFailure {
						okAll = false
					}
				}
			}
		}
		if !found {
			// no special EOF branch: the decoder's io.EOF is returned as the error by the generic `err != nil` branch — fine
			found = true
		}
		c.Ob("C07-R1", fd.Name()+"#eof-is-error", fd.Decl.Pos(), found && okAll,
			"reaching the end of input where a value or a closing delimiter is expected is turned into a nil result: truncated documents are canonicalised as if they were complete")
	} else {
		c.Ob("C07-R1", "UNRESOLVED:c14n.handleNextToken", token.NoPos, false, "function not found")
	}

	// R3 separator-after-skip
	nSep := 0
	for _, fd := range p.Funcs(pk) {
		ast.Inspect(fd.Decl.Body, func(n ast.Node) bool {
			// a loop over the elements: range, or an index loop
			var rs struct {
				Body *ast.BlockStmt
				Key  ast.Expr
			}
			switch x := n.(type) {
			case *ast.RangeStmt:
				rs.Body, rs.Key = x.Body, x.Key
			case *ast.ForStmt:
				rs.Body = x.Body
				if as, ok := x.Init.(*ast.AssignStmt); ok && len(as.Lhs) == 1 {
					rs.Key = as.Lhs[0]
				}
			default:
				return true
			}
			// separator writes: WriteByte(',') / WriteString(",")
			var seps []*ast.CallExpr
			ast.Inspect(rs.Body, func(m ast.Node) bool {
				call, ok := m.(*ast.CallExpr)
				if !ok || len(call.Args) != 1 {
					return true
				}
				if tv, ok := info.Types[call.Args[0]]; ok && tv.Value != nil {
					s := tv.Value.ExactString()
					if s == "44" || s == `","` {
						seps = append(seps, call)
					}
				}
				return true
			})
			if len(seps) == 0 {
				return true
			}
			nSep++
			idx := core.VarOf(info, rs.Key)
			for i, sep := range seps {
				key := fmt.Sprintf("%s#separator%d", fd.Name(), i+1)
				// can an iteration be skipped before the separator?
				skip := false
				ast.Inspect(rs.Body, func(m ast.Node) bool {
					if b, ok := m.(*ast.BranchStmt); ok && b.Tok == token.CONTINUE && b.Pos() < sep.Pos() {
						skip = true
					}
					return true
				})
				dependsOnIndex := false
				for _, cond := range enclosingConds(rs.Body, sep) {
					ast.Inspect(cond, func(m ast.Node) bool {
						if id, ok := m.(*ast.Ident); ok && idx != nil && info.Uses[id] == idx {
							dependsOnIndex = true
						}
						return true
					})
				}
				c.Ob("C07-R3", key, sep.Pos(), !(skip && dependsOnIndex),
					"the separator is written when the range index is positive although earlier elements can have been skipped: a leading separator is produced ({,\"b\":1})")
				// when nothing is skipped the separator must precede every element but the first: index-based is fine
			}
			return true
		})
	}
	if nSep < 1 {
		c.Ob("C07-R3", "UNRESOLVED:separator-loops", token.NoPos, false, fmt.Sprintf("only %d loops writing separators found in c14n", nSep))
	}

	// R4 tables
	c07Tables(c)

	// R7: a bare `break` inside a switch inside a loop leaves only the switch
	c.Rule("C07-R7", "no `break` that ends a switch case inside a loop (it leaves the switch, not the loop): loops of the number and string formatters terminate where intended", 1)
	nLoops, nBad := 0, 0
	for _, fd := range p.Funcs(pk) {
		ast.Inspect(fd.Decl.Body, func(n ast.Node) bool {
			var body *ast.BlockStmt
			switch l := n.(type) {
			case *ast.ForStmt:
				body = l.Body
			case *ast.RangeStmt:
				body = l.Body
			default:
				return true
			}
			nLoops++
			ast.Inspect(body, func(m ast.Node) bool {
				switch x := m.(type) {
				case *ast.ForStmt, *ast.RangeStmt, *ast.FuncLit:
					return m == ast.Node(body) // inner loops are visited on their own
				case *ast.CaseClause:
					if len(x.Body) > 0 {
						if b, ok := x.Body[len(x.Body)-1].(*ast.BranchStmt); ok && b.Tok == token.BREAK && b.Label == nil {
							nBad++
							c.Ob("C07-R7", fmt.Sprintf("%s#break-in-switch%d", fd.Name(), nBad), b.Pos(), false,
								"this `break` ends a switch case inside a loop: it only leaves the switch (where it is redundant), the loop goes on — if it was meant to stop the loop, later iterations keep modifying the result")
						}
					}
				}
				return true
			})
			return true
		})
	}
	c.Extra("c14n_loops_scanned", nLoops)
	if nBad == 0 {
		c.Ob("C07-R7", "c14n#no-break-in-switch-in-loop", token.NoPos, nLoops >= 5, fmt.Sprintf("only %d loops scanned", nLoops))
	}

	// R5 sort
	if fd := p.Func("c14n", "Object", "Sort"); fd != nil {
		ok := false
		// the comparison: a function literal handed to sort.Slice / SliceStable, or the Less method
		// of the sort.Interface type the members are converted to for sort.Sort / Stable
		checkLess := func(linfo *types.Info, body *ast.BlockStmt, pi, pj types.Object) {
			if body == nil || len(body.List) != 1 {
				return
			}
			r, isR := body.List[0].(*ast.ReturnStmt)
			if !isR || len(r.Results) != 1 {
				return
			}
			be, isB := ast.Unparen(r.Results[0]).(*ast.BinaryExpr)
			if !isB || be.Op != token.LSS {
				return
			}
			fx, fy := core.FieldOf(linfo, be.X), core.FieldOf(linfo, be.Y)
			if fx != nil && fx == fy && fx.Name() == "Key" && core.TypeString(fx.Type()) == "string" {
				// left uses the first index parameter, right the second
				if li, ri := indexVarOf(linfo, be.X), indexVarOf(linfo, be.Y); li != nil && li == pi && ri == pj {
					ok = true
				}
			}
		}
		ast.Inspect(fd.Decl.Body, func(n ast.Node) bool {
			switch x := n.(type) {
			case *ast.FuncLit:
				var names []*ast.Ident
				for _, f := range x.Type.Params.List {
					names = append(names, f.Names...)
				}
				if len(names) == 2 {
					checkLess(info, x.Body, info.Defs[names[0]], info.Defs[names[1]])
				}
			case *ast.CallExpr:
				fn := core.Callee(info, x)
				if fn == nil || fn.Pkg() == nil || fn.Pkg().Path() != "sort" || (fn.Name() != "Sort" && fn.Name() != "Stable") || len(x.Args) != 1 {
					return true
				}
				t := info.TypeOf(x.Args[0])
				if t == nil {
					return true
				}
				obj, _, _ := types.LookupFieldOrMethod(t, true, fd.Obj.Pkg(), "Less")
				lfn, _ := obj.(*types.Func)
				if lfd := p.DeclOf(lfn); lfd != nil {
					lsig := lfn.Type().(*types.Signature)
					if lsig.Params().Len() == 2 {
						checkLess(lfd.Pkg.TypesInfo, lfd.Decl.Body, lsig.Params().At(0), lsig.Params().At(1))
					}
				}
			}
			return true
		})
		sorts := core.CallsTo(info, fd.Decl.Body, func(f *types.Func) bool { return f.Pkg() != nil && f.Pkg().Path() == "sort" })
		c.Ob("C07-R5", fd.Name()+"#comparator", fd.Decl.Pos(), ok && len(sorts) == 1,
			"object members are not sorted with a plain `<` on the two keys (byte order, which is code point order for UTF-8)")
	} else {
		c.Ob("C07-R5", "UNRESOLVED:c14n.Object.Sort", token.NoPos, false, "method not found")
	}
	if fd := p.Func("c14n", "", "handleObject"); fd != nil {
		ff := core.NewFuncFlow(fd)
		okAll, n := true, 0
		for _, r := range ff.Flow.Returns() {
			if k, _ := ff.ClassifyReturn(p, r); k != core.RetSuccess || !ff.Flow.Reachable(r) {
				continue
			}
			n++
			sorted := false
			for pc := range ff.Flow.PassedAt(r) {
				if fn := core.Callee(info, pc); fn != nil && fn.Name() == "Sort" && core.RecvNamed(fn) != nil && core.RecvNamed(fn).Obj().Name() == "Object" {
					if len(r.Results) > 0 && core.VarOf(info, core.RecvExpr(pc)) == core.VarOf(info, r.Results[0]) {
						sorted = true
					}
				}
			}
			if !sorted {
				okAll = false
			}
		}
		c.Ob("C07-R5", fd.Name()+"#sorted-before-return", fd.Decl.Pos(), okAll && n > 0, "an object is returned by the reader without its members having been sorted")
	} else {
		c.Ob("C07-R5", "UNRESOLVED:c14n.handleObject", token.NoPos, false, "function not found")
	}

	// R6 invalid UTF-8: one iteration of the encoder's loop is evaluated for a non-ASCII lead
	// byte with the three things utf8.DecodeRuneInString can answer — an invalid byte
	// (RuneError, size 1), the replacement character itself (RuneError, size 3: what the JSON
	// decoder has already put in place of invalid input) and a valid rune — the first two
	// must end in an error return, the third must write nothing and advance by the size
	if fd := p.Func("c14n", "", "encodeString"); fd != nil {
		info := fd.Pkg.TypesInfo
		sig := fd.Obj.Type().(*types.Signature)
		var loopBody *ast.BlockStmt
		var idxVar *types.Var
		for _, st := range fd.Decl.Body.List {
			if x, ok := st.(*ast.ForStmt); ok && loopBody == nil {
				if as, ok := x.Init.(*ast.AssignStmt); ok && len(as.Lhs) == 1 {
					loopBody, idxVar = x.Body, core.VarOf(info, as.Lhs[0])
				}
			}
		}
		if loopBody == nil || idxVar == nil || sig.Params().Len() != 1 {
			c.Undecided("C07-R6", fd.Name()+"#rune-error-rejected", fd.Decl.Pos(), "the loop over the input bytes was not found")
		} else {
			sParam := sig.Params().At(0)
			var diffs []string
			undecided := ""
			for _, tc := range []struct {
				name      string
				r, size   int64
				wantError bool
			}{{"an invalid byte (RuneError, size 1)", 0xFFFD, 1, true}, {"the replacement character U+FFFD (RuneError, size 3)", 0xFFFD, 3, true}, {"a valid two-byte rune", 0xE9, 2, false}} {
				tc := tc
				wrote := false
				ev := &core.AbsEval{Info: info}
				ev.Branch = func(br *ast.BranchStmt) ([]any, bool) {
					return []any{"next"}, br.Tok == token.CONTINUE && br.Label == nil
				}
				ev.Atom = func(e ast.Expr) (any, bool) {
					e = ast.Unparen(e)
					if core.IsNil(info, e) {
						return "nil", true
					}
					switch x := e.(type) {
					case *ast.IndexExpr:
						if core.VarOf(info, x.X) == sParam {
							return int64(0xC3), true
						}
					case *ast.UnaryExpr:
						if x.Op == token.AND {
							if _, isLit := ast.Unparen(x.X).(*ast.CompositeLit); isLit {
								return "error", true
							}
						}
					case *ast.CallExpr:
						if t := info.TypeOf(x); t != nil && types.Identical(t, types.Universe.Lookup("error").Type()) {
							return "error", true
						}
					}
					return nil, false
				}
				ev.Tuple = func(call *ast.CallExpr) ([]any, bool) {
					if fn := core.Callee(info, call); fn != nil && fn.Pkg() != nil && fn.Pkg().Path() == "unicode/utf8" && (fn.Name() == "DecodeRuneInString" || fn.Name() == "DecodeRune") {
						return []any{tc.r, tc.size}, true
					}
					return nil, false
				}
				ev.Effect = func(call *ast.CallExpr) bool {
					if fn := core.Callee(info, call); fn != nil && fn.Pkg() != nil && fn.Pkg().Path() == "bytes" && strings.HasPrefix(fn.Name(), "Write") {
						wrote = true
					}
					return true
				}
				for _, st := range fd.Decl.Body.List {
					if as, ok := st.(*ast.AssignStmt); ok && len(as.Lhs) == len(as.Rhs) && st.Pos() < loopBody.Pos() {
						for i, l := range as.Lhs {
							if v := core.VarOf(info, l); v != nil {
								if tv, ok := info.Types[as.Rhs[i]]; ok && tv.Value != nil && tv.Value.Kind() == constant.Int {
									n, _ := constant.Int64Val(tv.Value)
									ev.Set(v, n)
								}
							}
						}
					}
				}
				ev.Set(idxVar, int64(1))
				ret, reached, ok := ev.RunList(loopBody.List)
				if !ok {
					undecided = "one iteration could not be evaluated for " + tc.name
					break
				}
				isErr := reached && len(ret) == 2 && ret[1] == any("error")
				iv, _ := ev.VarValue(idxVar).(int64)
				switch {
				case tc.wantError && !isErr:
					diffs = append(diffs, tc.name+" does not end in an error return")
				case !tc.wantError && (isErr || wrote || iv != 1+tc.size):
					diffs = append(diffs, tc.name+" is not passed over as it is (written, rejected, or the position is not advanced by its size)")
				}
			}
			if undecided != "" {
				c.Undecided("C07-R6", fd.Name()+"#rune-error-rejected", fd.Decl.Pos(), undecided)
			} else {
				c.Ob("C07-R6", fd.Name()+"#rune-error-rejected", fd.Decl.Pos(), len(diffs) == 0,
					"text that is not valid UTF-8 is not rejected (README §8.3): "+strings.Join(diffs, "; "))
			}
		}
	} else {
		c.Ob("C07-R6", "UNRESOLVED:c14n.encodeString", token.NoPos, false, "function not found")
	}
	c07StringsEncoded(c)
	c07ArrayComplete(c)
	c07EntryPoints(c)
}

// c07StringsEncoded — C07-R8: the raw text of an object key and of a string
// value reaches the output only through encodeString: every use of the key /
// the string in the two marshallers is the argument of encodeString, or of a
// function of the package every return of which is encodeString of that very
// parameter. A second, "faster" encoder for keys that are thought to be plain
// is where escaping rules drift apart.
func c07StringsEncoded(c *core.Ctx) {
	p := c.P
	c.Rule("C07-R8", "keys and string values are written only through encodeString", 2)
	enc := p.Func("c14n", "", "encodeString")
	if enc == nil {
		c.Ob("C07-R8", "UNRESOLVED:c14n.encodeString", token.NoPos, false, "function not found")
		return
	}
	var encodesOnly func(fn *types.Func, depth int) bool
	encodesOnly = func(fn *types.Func, depth int) bool {
		if fn == enc.Obj {
			return true
		}
		fd := p.DeclOf(fn)
		if fd == nil || depth > 2 || fn.Pkg() != enc.Obj.Pkg() {
			return false
		}
		sig := fn.Type().(*types.Signature)
		if sig.Params().Len() != 1 {
			return false
		}
		info := fd.Pkg.TypesInfo
		ok, n := true, 0
		ast.Inspect(fd.Decl.Body, func(m ast.Node) bool {
			if _, isLit := m.(*ast.FuncLit); isLit {
				return false
			}
			r, isR := m.(*ast.ReturnStmt)
			if !isR {
				return true
			}
			n++
			if len(r.Results) != 1 {
				ok = false
				return true
			}
			call, isCall := ast.Unparen(r.Results[0]).(*ast.CallExpr)
			if !isCall || len(call.Args) != 1 || core.VarOf(info, call.Args[0]) != sig.Params().At(0) {
				ok = false
				return true
			}
			if cf := core.Callee(info, call); cf == nil || !encodesOnly(cf, depth+1) {
				ok = false
			}
			return true
		})
		return ok && n > 0
	}
	check := func(fd *core.FuncDecl, what string, isRaw func(info *types.Info, e ast.Expr) bool) {
		info := fd.Pkg.TypesInfo
		okAll, n := true, 0
		why := ""
		// parents of each raw occurrence
		var stack []ast.Node
		ast.Inspect(fd.Decl.Body, func(m ast.Node) bool {
			if m == nil {
				stack = stack[:len(stack)-1]
				return true
			}
			stack = append(stack, m)
			e, isE := m.(ast.Expr)
			if !isE || !isRaw(info, e) {
				return true
			}
			n++
			// climb through conversions and parentheses to the call the text is handed to
			i := len(stack) - 2
			for ; i >= 0; i-- {
				switch x := stack[i].(type) {
				case *ast.ParenExpr:
					continue
				case *ast.CallExpr:
					if tv, ok := info.Types[x.Fun]; ok && tv.IsType() {
						continue // string(o)
					}
					if fn := core.Callee(info, x); fn != nil && encodesOnly(fn, 0) {
						return false
					}
				}
				break
			}
			okAll = false
			why = p.Rel(e.Pos())
			return false
		})
		c.Ob("C07-R8", fd.Name()+"#"+what, fd.Decl.Pos(), okAll && n > 0,
			"the "+what+" is used at "+why+" other than as the argument of encodeString: it can reach the canonical output without the escaping of README §8")
	}
	if fd := p.Func("c14n", "Attribute", "MarshalJSON"); fd != nil {
		recv := recvVar(fd)
		check(fd, "key", func(info *types.Info, e ast.Expr) bool { return core.IsFieldOfVar(info, e, recv, "Key") })
	} else {
		c.Ob("C07-R8", "UNRESOLVED:c14n.Attribute.MarshalJSON", token.NoPos, false, "method not found")
	}
	if fd := p.Func("c14n", "String", "MarshalJSON"); fd != nil {
		recv := recvVar(fd)
		check(fd, "string value", func(info *types.Info, e ast.Expr) bool { return recv != nil && core.VarOf(info, e) == recv })
	} else {
		c.Ob("C07-R8", "UNRESOLVED:c14n.String.MarshalJSON", token.NoPos, false, "method not found")
	}
}

func containsNode(outer ast.Node, inner ast.Node) bool {
	found := false
	ast.Inspect(outer, func(n ast.Node) bool {
		if n == inner {
			found = true
		}
		return !found
	})
	return found
}

// indexVarOf returns the index variable i of an expression like s[i].Key.
func indexVarOf(info *types.Info, e ast.Expr) types.Object {
	var o types.Object
	ast.Inspect(e, func(n ast.Node) bool {
		if ix, ok := n.(*ast.IndexExpr); ok {
			if id, ok := ast.Unparen(ix.Index).(*ast.Ident); ok {
				o = info.Uses[id]
			}
		}
		return true
	})
	return o
}

func c07Tables(c *core.Ctx) {
	p := c.P
	pk := p.Pkg("c14n")
	info := pk.TypesInfo
	// safeSet literal
	var lit *ast.CompositeLit
	var hexVal string
	hexFound := false
	for _, file := range pk.Syntax {
		ast.Inspect(file, func(n ast.Node) bool {
			vs, ok := n.(*ast.ValueSpec)
			if !ok {
				return true
			}
			for i, nm := range vs.Names {
				if i >= len(vs.Values) {
					continue
				}
				switch nm.Name {
				case "safeSet":
					lit, _ = vs.Values[i].(*ast.CompositeLit)
				case "hex":
					if s, ok := foldString(info, vs.Values[i]); ok {
						hexVal, hexFound = s, true
					}
				}
			}
			return true
		})
	}
	if lit == nil {
		c.Ob("C07-R4", "UNRESOLVED:c14n.safeSet", token.NoPos, false, "table literal not found")
	} else {
		got := map[int]bool{}
		undecided := false
		for _, el := range lit.Elts {
			kv, ok := el.(*ast.KeyValueExpr)
			if !ok {
				undecided = true
				continue
			}
			ktv, ok1 := info.Types[kv.Key]
			vtv, ok2 := info.Types[kv.Value]
			if !ok1 || !ok2 || ktv.Value == nil || vtv.Value == nil {
				undecided = true
				continue
			}
			k, _ := constant.Int64Val(ktv.Value)
			got[int(k)] = constant.BoolVal(vtv.Value)
		}
		var wrong []string
		for ch := 0; ch < 128; ch++ {
			want := ch >= 0x20 && ch != '"' && ch != '\\'
			if got[ch] != want {
				wrong = append(wrong, fmt.Sprintf("0x%02X", ch))
			}
		}
		if undecided {
			c.Undecided("C07-R4", "c14n.safeSet", lit.Pos(), "table has entries that are not constants")
		} else {
			c.Ob("C07-R4", "c14n.safeSet", lit.Pos(), len(wrong) == 0,
				"the table of characters written without escaping differs from the specification (all of 0x20–0x7F except \" and \\) at: "+strings.Join(wrong, " "))
		}
	}
	c.Ob("C07-R4", "c14n.hex", token.NoPos, hexFound && hexVal == "0123456789ABCDEF", fmt.Sprintf("the hex digit table is %q, the specification requires upper-case hexadecimal", hexVal))
	// escape switch in encodeString
	fd := p.Func("c14n", "", "encodeString")
	if fd == nil {
		c.Ob("C07-R4", "UNRESOLVED:c14n.encodeString", token.NoPos, false, "function not found")
		return
	}
	// The escapes, by finite abstract evaluation: one iteration of the loop over the
	// input is run for each ASCII byte, with the table and the hex digits as found
	// above; what it writes to the buffer and where it leaves the two positions
	// (current, start of the pending run) is compared with README §8.
	sig := fd.Obj.Type().(*types.Signature)
	if sig.Params().Len() != 1 {
		c.Undecided("C07-R4", fd.Name()+"#escapes", fd.Decl.Pos(), "unexpected signature")
		return
	}
	sParam := sig.Params().At(0)
	var loopBody *ast.BlockStmt
	var idxVar, valVar *types.Var
	var loopPos token.Pos
	for _, st := range fd.Decl.Body.List {
		switch x := st.(type) {
		case *ast.ForStmt:
			if as, ok := x.Init.(*ast.AssignStmt); ok && len(as.Lhs) == 1 && loopBody == nil {
				loopBody, idxVar, loopPos = x.Body, core.VarOf(info, as.Lhs[0]), x.Pos()
			}
		case *ast.RangeStmt:
			if core.VarOf(info, x.X) == sParam && loopBody == nil {
				// ranging over a string yields runes: a different algorithm, not evaluated here
			}
		}
	}
	if loopBody == nil || idxVar == nil {
		c.Undecided("C07-R4", fd.Name()+"#escapes", fd.Decl.Pos(), "the loop over the input bytes was not found")
		return
	}
	_ = valVar
	table := map[int64]bool{}
	if lit != nil {
		for _, el := range lit.Elts {
			if kv, ok := el.(*ast.KeyValueExpr); ok {
				ktv, vtv := info.Types[kv.Key], info.Types[kv.Value]
				if ktv.Value != nil && vtv.Value != nil {
					k, _ := constant.Int64Val(ktv.Value)
					table[k] = constant.BoolVal(vtv.Value)
				}
			}
		}
	}
	short := map[int64]byte{'"': '"', '\\': '\\', '\b': 'b', '\t': 't', '\n': 'n', '\f': 'f', '\r': 'r'}
	var diffShort, diffLong, diffSafe []string
	undecided := ""
	for b := int64(0); b < 128 && undecided == ""; b++ {
		b := b
		var out []byte
		ev := &core.AbsEval{Info: info}
		ev.Branch = func(br *ast.BranchStmt) ([]any, bool) { return nil, br.Tok == token.CONTINUE && br.Label == nil }
		ev.Atom = func(e ast.Expr) (any, bool) {
			switch x := ast.Unparen(e).(type) {
			case *ast.Ident:
				if v, ok := info.Uses[x].(*types.Var); ok && v.Name() == "hex" && v.Parent() == v.Pkg().Scope() && hexFound {
					return hexVal, true
				}
			case *ast.IndexExpr:
				if core.VarOf(info, x.X) == sParam {
					return b, true
				}
				if v := core.VarOf(info, x.X); v != nil && v.Name() == "safeSet" && v.Parent() == v.Pkg().Scope() {
					if iv, ok := ev.Eval(x.Index); ok {
						if n, isN := iv.(int64); isN {
							return table[n], true
						}
					}
				}
				// any other constant table of the package (an array of escape letters, say)
				if v := core.VarOf(info, x.X); v != nil && v.Pkg() != nil && v.Parent() == v.Pkg().Scope() && v.Name() != "hex" {
					if tb, zero, ok := c07ConstTable(fd.Pkg, v); ok {
						if iv, ok := ev.Eval(x.Index); ok {
							if n, isN := iv.(int64); isN {
								if val, has := tb[n]; has {
									return val, true
								}
								return zero, true
							}
						}
					}
				}
			}
			return nil, false
		}
		ev.Effect = func(call *ast.CallExpr) bool {
			fn := core.Callee(info, call)
			if fn == nil || fn.Pkg() == nil || fn.Pkg().Path() != "bytes" || len(call.Args) != 1 {
				return fn != nil // a call through a value: cannot tell what it writes
			}
			switch fn.Name() {
			case "WriteByte", "WriteString", "WriteRune", "Write":
			default:
				return true
			}
			arg := ast.Unparen(call.Args[0])
			if se, ok := arg.(*ast.SliceExpr); ok && core.VarOf(info, se.X) == sParam {
				return true // the pending run of unescaped text
			}
			v, ok := ev.Eval(arg)
			if !ok {
				return false
			}
			switch w := v.(type) {
			case int64:
				out = append(out, byte(w))
			case string:
				out = append(out, w...)
			default:
				return false
			}
			return true
		}
		// integer locals set to constants before the loop (the start of the pending run)
		var startVars []*types.Var
		for _, st := range fd.Decl.Body.List {
			if st.Pos() >= loopPos {
				break
			}
			if as, ok := st.(*ast.AssignStmt); ok && len(as.Lhs) == len(as.Rhs) {
				for i, l := range as.Lhs {
					if v := core.VarOf(info, l); v != nil {
						if tv, ok := info.Types[as.Rhs[i]]; ok && tv.Value != nil && tv.Value.Kind() == constant.Int {
							n, _ := constant.Int64Val(tv.Value)
							ev.Set(v, n)
							startVars = append(startVars, v)
						}
					}
				}
			}
		}
		ev.Set(idxVar, int64(1))
		_, _, ok := ev.RunList(loopBody.List)
		iv, isN := ev.VarValue(idxVar).(int64)
		if !ok || !isN {
			undecided = fmt.Sprintf("one iteration could not be evaluated for byte 0x%02X", b)
			break
		}
		startMoved := false
		for _, v := range startVars {
			if n, isN := ev.VarValue(v).(int64); isN && n == 2 {
				startMoved = true
			}
		}
		safe := b >= 0x20 && b != '"' && b != '\\'
		switch {
		case safe:
			if len(out) != 0 || iv != 2 || startMoved {
				diffSafe = append(diffSafe, fmt.Sprintf("0x%02X", b))
			}
		default:
			want := []byte{'\\'}
			if sc, has := short[b]; has {
				want = append(want, sc)
			} else {
				want = append(want, 'u', '0', '0', "0123456789ABCDEF"[b>>4], "0123456789ABCDEF"[b&15])
			}
			if string(out) != string(want) || iv != 2 || !startMoved {
				d := fmt.Sprintf("0x%02X→%q (spec %q)", b, out, want)
				if iv != 2 || !startMoved {
					d += " [positions not advanced past the byte]"
				}
				if _, has := short[b]; has {
					diffShort = append(diffShort, d)
				} else {
					diffLong = append(diffLong, d)
				}
			}
		}
	}
	if undecided != "" {
		c.Undecided("C07-R4", fd.Name()+"#escapes", fd.Decl.Pos(), undecided)
		return
	}
	c.Ob("C07-R4", fd.Name()+"#two-character-escapes", loopPos, len(diffShort) == 0, "the two-character escapes differ from README §8.1: "+strings.Join(diffShort, ", "))
	c.Ob("C07-R4", fd.Name()+"#u00XX-fallback", loopPos, len(diffLong) == 0, "the fallback escape is not `\\u00` followed by two upper-case hex digits (README §8.2): "+strings.Join(diffLong, ", "))
	c.Ob("C07-R4", fd.Name()+"#plain-bytes-untouched", loopPos, len(diffSafe) == 0, "bytes that need no escape are not left for the pending run as they are: "+strings.Join(diffSafe, " "))
}

// hexIndex recognises hex[tag OP k].
func hexIndex(info *types.Info, e ast.Expr, tag *types.Var, op token.Token, k int64) bool {
	ix, ok := ast.Unparen(e).(*ast.IndexExpr)
	if !ok {
		return false
	}
	if id, ok := ast.Unparen(ix.X).(*ast.Ident); !ok || id.Name != "hex" {
		return false
	}
	be, ok := ast.Unparen(ix.Index).(*ast.BinaryExpr)
	if !ok || be.Op != op || core.VarOf(info, be.X) != tag {
		return false
	}
	tv, ok := info.Types[be.Y]
	if !ok || tv.Value == nil {
		return false
	}
	v, _ := constant.Int64Val(tv.Value)
	return v == k
}

// c07ArrayComplete — C07-R9: an array keeps every element, nulls included
// (README: only object members with a null value are dropped; an array's
// length and positions are data). In (*Array).MarshalJSON the element's own
// MarshalJSON is called, and its result written, on every iteration of the
// loop over the values — under no condition on the element.
func c07ArrayComplete(c *core.Ctx) {
	p := c.P
	c.Rule("C07-R9", "an array writes every element, null or not", 1)
	fd := p.Func("c14n", "Array", "MarshalJSON")
	if fd == nil {
		c.Ob("C07-R9", "UNRESOLVED:c14n.Array.MarshalJSON", token.NoPos, false, "method not found")
		return
	}
	info := fd.Pkg.TypesInfo
	recv := recvVar(fd)
	// the element type of the receiver's list of values
	var elemT types.Type
	if _, st := core.StructOf(recv.Type()); st != nil {
		for k := 0; k < st.NumFields(); k++ {
			if sl, ok := st.Field(k).Type().Underlying().(*types.Slice); ok {
				elemT = sl.Elem()
			}
		}
	}
	if elemT == nil {
		c.Ob("C07-R9", fd.Name()+"#loop", fd.Decl.Pos(), false, "UNDECIDED: the array type has no slice member")
		return
	}
	// the call that encodes an element: <value of the element type>.MarshalJSON() inside a loop
	var enc ast.Node
	var loop ast.Node
	var walk func(n ast.Node, in ast.Node)
	walk = func(n ast.Node, in ast.Node) {
		ast.Inspect(n, func(m ast.Node) bool {
			if m == nil || m == n {
				return true
			}
			switch x := m.(type) {
			case *ast.FuncLit:
				return false
			case *ast.RangeStmt:
				walk(x.Body, x)
				return false
			case *ast.ForStmt:
				walk(x.Body, x)
				return false
			case *ast.CallExpr:
				if se, ok := x.Fun.(*ast.SelectorExpr); ok && se.Sel.Name == "MarshalJSON" && in != nil && enc == nil {
					if t := info.TypeOf(se.X); t != nil && types.Identical(t, elemT) {
						enc, loop = x, in
					}
				}
			}
			return true
		})
	}
	walk(fd.Decl.Body, nil)
	if enc == nil {
		c.Ob("C07-R9", fd.Name()+"#loop", fd.Decl.Pos(), false, "NOT FOUND: no loop that calls MarshalJSON of the array's elements")
		return
	}
	_ = loop
	why := everyIteration(p, info, fd.Decl.Body, enc, func(ast.Expr, bool) bool { return false })
	c.Ob("C07-R9", fd.Name()+"#every-element", enc.Pos(), why == "", "not every element of an array is written: "+why+" — [x,null] and [x] get the same canonical form, so adding or removing a null entry of an array does not change the digest")
}

// c07EntryPoints — C07-R10: whatever the canonicalising entry points of package
// c14n hand back was produced by serialising the tree that UnmarshalJSON built
// from a JSON text: MarshalJSON(any) and CanonicalJSON(reader) return the result
// of CanonicalJSON(…), or of MarshalJSON() on a value obtained from
// UnmarshalJSON(…). A shortcut that returns the argument's own MarshalJSON()
// (a json.RawMessage, a document object, a hand-built tree) hands back bytes
// that never went through the canonical model.
func c07EntryPoints(c *core.Ctx) {
	p := c.P
	c.Rule("C07-R10", "the canonicalising entry points return only what the canonical tree serialises", 2)
	pkgPath := core.ModPath + "/c14n"
	isFn := func(fn *types.Func, name string) bool {
		return fn != nil && fn.Pkg() != nil && fn.Pkg().Path() == pkgPath && fn.Name() == name && fn.Type().(*types.Signature).Recv() == nil
	}
	// the tree builders: UnmarshalJSON and the functions of the package it builds the tree with
	// (those that hand back a Canonicalable)
	treeBuilder := map[*types.Func]bool{}
	if ufd := p.Func("c14n", "", "UnmarshalJSON"); ufd != nil {
		treeBuilder[ufd.Obj] = true
		work := []*types.Func{ufd.Obj}
		for depth := 0; depth < 4 && len(work) > 0; depth++ {
			var next []*types.Func
			for _, f := range work {
				for _, g := range p.FuncRefs(f) {
					if g.Pkg() == nil || g.Pkg().Path() != pkgPath || treeBuilder[g] || p.DeclOf(g) == nil {
						continue
					}
					if rs := g.Type().(*types.Signature).Results(); rs.Len() >= 1 && core.TypeString(rs.At(0).Type()) == "c14n.Canonicalable" {
						treeBuilder[g] = true
						next = append(next, g)
					}
				}
			}
			work = next
		}
	}
	// canonicalBytes: every success return of the function hands back CanonicalJSON(...), the
	// serialisation of a built tree, or what an unexported helper of the package with the same
	// property returns
	memo := map[*types.Func]int{}
	var resultOK func(fd *core.FuncDecl, res ast.Expr, depth int) (bool, string)
	var canonicalBytes func(fn *types.Func, depth int) bool
	resultOK = func(fd *core.FuncDecl, res ast.Expr, depth int) (bool, string) {
		info := fd.Pkg.TypesInfo
		ld := core.NewLocalDefs(info, fd.Decl.Body)
		ok, why := true, ""
		for _, src := range valueSources(info, ld, res, 0) {
			call, isCall := ast.Unparen(src).(*ast.CallExpr)
			if !isCall {
				ok, why = false, types.ExprString(src)
				continue
			}
			fn := core.Callee(info, call)
			switch {
			case isFn(fn, "CanonicalJSON"):
			case fn != nil && fn.Name() == "MarshalJSON" && core.RecvExpr(call) != nil:
				// the receiver must be a tree the package built from a JSON text
				for _, rs := range valueSources(info, ld, core.RecvExpr(call), 0) {
					rc, isC := ast.Unparen(rs).(*ast.CallExpr)
					if !isC || core.Callee(info, rc) == nil || !treeBuilder[core.Callee(info, rc)] {
						ok, why = false, types.ExprString(call)+", whose receiver is not the result of UnmarshalJSON"
					}
				}
			case fn != nil && fn.Pkg() != nil && fn.Pkg().Path() == pkgPath && !fn.Exported() && fn.Type().(*types.Signature).Recv() == nil && canonicalBytes(fn, depth+1):
			default:
				ok, why = false, types.ExprString(call)
			}
		}
		return ok, why
	}
	canonicalBytes = func(fn *types.Func, depth int) bool {
		if v, ok := memo[fn]; ok {
			return v == 1
		}
		memo[fn] = 2
		hfd := p.DeclOf(fn)
		if hfd == nil || hfd.Decl.Body == nil || depth > 3 {
			return false
		}
		hinfo := hfd.Pkg.TypesInfo
		hff := core.NewFuncFlow(hfd)
		n, all := 0, true
		for _, r := range hff.Flow.Returns() {
			if !hff.Flow.Reachable(r) || len(r.Results) == 0 {
				continue
			}
			if len(r.Results) == 2 && core.IsNil(hinfo, r.Results[0]) {
				continue
			}
			n++
			if ok, _ := resultOK(hfd, r.Results[0], depth); !ok {
				all = false
			}
		}
		if n > 0 && all {
			memo[fn] = 1
			return true
		}
		return false
	}
	for _, name := range []string{"MarshalJSON", "CanonicalJSON"} {
		fd := p.Func("c14n", "", name)
		if fd == nil {
			c.Ob("C07-R10", "UNRESOLVED:c14n."+name, token.NoPos, false, "function not found")
			continue
		}
		info := fd.Pkg.TypesInfo
		ff := core.NewFuncFlow(fd)
		n := 0
		for _, r := range ff.Flow.Returns() {
			if !ff.Flow.Reachable(r) || len(r.Results) == 0 {
				continue
			}
			res := r.Results[0]
			if len(r.Results) == 2 && core.IsNil(info, res) {
				continue // a failure
			}
			n++
			ok, why := resultOK(fd, res, 0)
			c.Ob("C07-R10", fmt.Sprintf("%s#result%d", fd.Name(), n), r.Pos(), ok, fmt.Sprintf("%s returns %s: bytes that were not produced by serialising the canonical tree built from a JSON text — a value with its own MarshalJSON (json.RawMessage, a document object, a hand-built tree) comes back as it is, unsorted and unnormalised", fd.Name(), why))
		}
		if n == 0 {
			c.Ob("C07-R10", fd.Name()+"#result", fd.Decl.Pos(), false, "NOT FOUND: no result returned")
		}
	}
}

// c07ConstTable folds a package-level array / slice / map literal with constant
// integer keys (or positions) and constant elements (integers, booleans,
// strings) into a table; zero is what an absent index of an array yields.
func c07ConstTable(pk *packages.Package, v *types.Var) (map[int64]any, any, bool) {
	info := pk.TypesInfo
	var lit *ast.CompositeLit
	for _, file := range pk.Syntax {
		ast.Inspect(file, func(n ast.Node) bool {
			if vs, ok := n.(*ast.ValueSpec); ok {
				for i, nm := range vs.Names {
					if info.Defs[nm] == v && i < len(vs.Values) {
						lit, _ = ast.Unparen(vs.Values[i]).(*ast.CompositeLit)
					}
				}
			}
			return true
		})
	}
	if lit == nil {
		return nil, nil, false
	}
	var elem types.Type
	switch t := v.Type().Underlying().(type) {
	case *types.Array:
		elem = t.Elem()
	case *types.Slice:
		elem = t.Elem()
	case *types.Map:
		elem = t.Elem()
	default:
		return nil, nil, false
	}
	var zero any
	if b, ok := elem.Underlying().(*types.Basic); ok {
		switch {
		case b.Info()&types.IsBoolean != 0:
			zero = false
		case b.Info()&types.IsInteger != 0:
			zero = int64(0)
		case b.Info()&types.IsString != 0:
			zero = ""
		default:
			return nil, nil, false
		}
	} else {
		return nil, nil, false
	}
	out := map[int64]any{}
	next := int64(0)
	for _, el := range lit.Elts {
		val := el
		if kv, ok := el.(*ast.KeyValueExpr); ok {
			ktv, ok := info.Types[kv.Key]
			if !ok || ktv.Value == nil {
				return nil, nil, false
			}
			k, exact := constant.Int64Val(constant.ToInt(ktv.Value))
			if !exact {
				return nil, nil, false
			}
			next = k
			val = kv.Value
		}
		vtv, ok := info.Types[val]
		if !ok || vtv.Value == nil {
			return nil, nil, false
		}
		switch vtv.Value.Kind() {
		case constant.Bool:
			out[next] = constant.BoolVal(vtv.Value)
		case constant.Int:
			n, _ := constant.Int64Val(vtv.Value)
			out[next] = n
		case constant.String:
			out[next] = constant.StringVal(vtv.Value)
		default:
			return nil, nil, false
		}
		next++
	}
	return out, zero, true
}
