package props

import (
	"fmt"
	"go/ast"
	"go/token"
	"go/types"
	"sort"

	"goblcheck/core"
)

// c08RawJSON — C08-R7: a custom UnmarshalJSON never works on the raw text of the
// value: the bytes it is given go to encoding/json (or to another decoder's
// UnmarshalJSON), directly or through module helpers that do the same with
// them. Anything else — slicing off the quotes, converting to a string and
// parsing it — does not decode JSON string escapes, so a re-serialisation of
// the same content with `\uXXXX` escapes (which the digest, computed after
// decoding, does not notice) stops loading. Comparing the text with the
// literal `null` is allowed.
//
// C08-R8: a custom UnmarshalJSON does not put the decoded members of its
// receiver in another order (no sort over them): an edit that re-orders an
// array would be undone on load, before the digest is compared.
func c08RawJSON(c *core.Ctx) {
	p := c.P
	c.Rule("C08-R7", "custom UnmarshalJSON methods decode the value with encoding/json, not from its raw text", 8)
	c.Rule("C08-R8", "custom UnmarshalJSON methods do not re-order decoded members", 8)
	type use struct {
		ok  bool
		why string
	}
	memo := map[*types.Var]*use{}
	var paramOK func(fd *core.FuncDecl, v *types.Var, depth int) *use
	paramOK = func(fd *core.FuncDecl, v *types.Var, depth int) *use {
		if u, ok := memo[v]; ok {
			return u
		}
		res := &use{ok: true}
		memo[v] = res
		info := fd.Pkg.TypesInfo
		var stack []ast.Node
		ast.Inspect(fd.Decl.Body, func(n ast.Node) bool {
			if n == nil {
				stack = stack[:len(stack)-1]
				return true
			}
			stack = append(stack, n)
			id, isID := n.(*ast.Ident)
			if !isID || info.Uses[id] != types.Object(v) || !res.ok {
				return true
			}
			// what is the identifier an operand of?
			var parent ast.Node
			for i := len(stack) - 2; i >= 0; i-- {
				if _, isParen := stack[i].(*ast.ParenExpr); isParen {
					continue
				}
				parent = stack[i]
				break
			}
			fail := func(why string) {
				// the raw text may be used as it is where decoding it as a JSON string has just been
				// tried and failed (not a string: numbers and literals have no escapes), or where the
				// decoded string was found to be empty
				if rawExcused(fd, v, id) {
					return
				}
				res.ok, res.why = false, fmt.Sprintf("%s at %s", why, p.Rel(id.Pos()))
			}
			switch x := parent.(type) {
			case *ast.CallExpr:
				if tv, ok := info.Types[x.Fun]; ok && tv.IsType() {
					// string(data): only to compare it with the literal null
					cmpNull := false
					for i := len(stack) - 2; i >= 0; i-- {
						if be, ok := stack[i].(*ast.BinaryExpr); ok && (be.Op == token.EQL || be.Op == token.NEQ) {
							if s, ok := foldString(info, be.X); ok && s == "null" {
								cmpNull = true
							}
							if s, ok := foldString(info, be.Y); ok && s == "null" {
								cmpNull = true
							}
							break
						}
						if _, ok := stack[i].(ast.Stmt); ok {
							break
						}
					}
					if !cmpNull {
						fail("the raw text is converted to " + types.ExprString(x.Fun))
					}
					return true
				}
				fn := core.Callee(info, x)
				if fn == nil {
					if bid, ok := ast.Unparen(x.Fun).(*ast.Ident); ok {
						if _, isB := info.Uses[bid].(*types.Builtin); isB {
							fail("the raw text is inspected with " + bid.Name)
							return true
						}
					}
					fail("the raw text is handed to a call that cannot be resolved")
					return true
				}
				pkg := ""
				if fn.Pkg() != nil {
					pkg = fn.Pkg().Path()
				}
				switch {
				case pkg == "encoding/json" && (fn.Name() == "Unmarshal" || fn.Name() == "Valid"):
				case pkg == "bytes" && (fn.Name() == "NewReader" || fn.Name() == "NewBuffer" || fn.Name() == "Equal"):
					// a reader over the text: where it goes is not followed; json.NewDecoder is the only consumer in the module
				case fn.Name() == "UnmarshalJSON" || fn.Name() == "UnmarshalText" && false:
				case core.InModule(fn.Pkg()):
					cfd := p.DeclOf(fn)
					if cfd == nil || depth > 3 {
						fail("the raw text is handed to " + core.FuncName(fn) + ", which has no body here")
						return true
					}
					sig := fn.Type().(*types.Signature)
					for i, a := range x.Args {
						if ast.Unparen(a) == ast.Expr(id) && i < sig.Params().Len() {
							if sub := paramOK(cfd, sig.Params().At(i), depth+1); !sub.ok {
								fail("the raw text is handed to " + core.FuncName(fn) + ", where " + sub.why)
							}
						}
					}
				default:
					fail("the raw text is handed to " + core.FuncName(fn))
				}
			case *ast.IndexExpr, *ast.SliceExpr:
				fail("the raw text is indexed or sliced")
			case *ast.BinaryExpr, *ast.UnaryExpr, *ast.RangeStmt, *ast.ReturnStmt, *ast.AssignStmt, *ast.CompositeLit, *ast.KeyValueExpr:
				fail("the raw text is used directly")
			}
			return true
		})
		return res
	}
	var fds []*core.FuncDecl
	for _, fd := range p.AllFuncs() {
		if fd.Obj.Name() == "UnmarshalJSON" && fd.Decl.Recv != nil && !p.IsTestFile(fd.Decl.Pos()) {
			if sig := fd.Obj.Type().(*types.Signature); sig.Params().Len() == 1 {
				fds = append(fds, fd)
			}
		}
	}
	sort.Slice(fds, func(i, j int) bool { return fds[i].Name() < fds[j].Name() })
	for _, fd := range fds {
		sig := fd.Obj.Type().(*types.Signature)
		u := paramOK(fd, sig.Params().At(0), 0)
		c.Ob("C08-R7", fd.Name()+"#decoded", fd.Decl.Pos(), u.ok,
			"the value is read from its raw JSON text instead of being decoded ("+u.why+"): the same content written with string escapes (\\u0031 for 1) does not load, although it is a content-preserving re-encoding")
		// R8: no sort over members of the receiver, here or in same-package functions it hands them to
		info := fd.Pkg.TypesInfo
		recv := recvVar(fd)
		bad := ""
		var scan func(f *core.FuncDecl, roots map[*types.Var]bool, depth int)
		scan = func(f *core.FuncDecl, roots map[*types.Var]bool, depth int) {
			finfo := f.Pkg.TypesInfo
			ast.Inspect(f.Decl.Body, func(n ast.Node) bool {
				call, ok := n.(*ast.CallExpr)
				if !ok || bad != "" {
					return true
				}
				fn := core.Callee(finfo, call)
				if fn == nil || fn.Pkg() == nil {
					return true
				}
				rooted := func(e ast.Expr) bool {
					r := core.RootVar(finfo, e)
					return r != nil && roots[r]
				}
				switch fn.Pkg().Path() {
				case "sort", "slices":
					if len(call.Args) > 0 && rooted(call.Args[0]) {
						bad = fmt.Sprintf("%s.%s over %s at %s", fn.Pkg().Name(), fn.Name(), types.ExprString(call.Args[0]), p.Rel(call.Pos()))
					}
					return true
				}
				if fn.Pkg() == f.Obj.Pkg() && depth < 2 {
					if cfd := p.DeclOf(fn); cfd != nil {
						csig := fn.Type().(*types.Signature)
						sub := map[*types.Var]bool{}
						for i, a := range call.Args {
							if i < csig.Params().Len() && rooted(a) {
								sub[csig.Params().At(i)] = true
							}
						}
						if re := core.RecvExpr(call); re != nil && csig.Recv() != nil && rooted(re) {
							sub[csig.Recv()] = true
						}
						if len(sub) > 0 {
							scan(cfd, sub, depth+1)
						}
					}
				}
				return true
			})
		}
		if recv != nil {
			scan(fd, map[*types.Var]bool{recv: true}, 0)
		}
		_ = info
		c.Ob("C08-R8", fd.Name()+"#order-kept", fd.Decl.Pos(), bad == "",
			"loading re-orders what was decoded ("+bad+"): a document whose array elements were re-ordered after it was sealed is put back in order before the digest is compared, so the edit goes unnoticed")
	}
	if len(fds) == 0 {
		c.Ob("C08-R7", "UNRESOLVED:UnmarshalJSON", token.NoPos, false, "no custom UnmarshalJSON method found")
	}
}

// rawExcused: at the use `at` of the raw bytes v in fd, a decoding attempt
// json.Unmarshal(v, &s) with s a string is known to have failed, or s is known
// to be empty.
func rawExcused(fd *core.FuncDecl, v *types.Var, at ast.Node) bool {
	if rawUntouchedForStrings(fd, v) {
		return true
	}
	info := fd.Pkg.TypesInfo
	ff := core.NewFuncFlow(fd)
	node := ff.Flow.EnclosingNode(at)
	if node == nil {
		return false
	}
	for _, call := range core.CallsTo(info, fd.Decl.Body, func(f *types.Func) bool { return core.IsFunc(f, "encoding/json", "", "Unmarshal") }) {
		if len(call.Args) != 2 || core.VarOf(info, call.Args[0]) != v {
			continue
		}
		u, ok := ast.Unparen(call.Args[1]).(*ast.UnaryExpr)
		if !ok || u.Op != token.AND {
			continue
		}
		sv := core.VarOf(info, u.X)
		if sv == nil {
			continue
		}
		if b, isB := sv.Type().Underlying().(*types.Basic); !isB || b.Kind() != types.String {
			continue
		}
		if ff.ErrNilAt(node, call) == -1 {
			return true
		}
		for leaf, val := range ff.Flow.CondsAt(node) {
			be, ok := ast.Unparen(leaf).(*ast.BinaryExpr)
			if !ok || !((be.Op == token.EQL && val) || (be.Op == token.NEQ && !val)) {
				continue
			}
			x, y := be.X, be.Y
			if s, isC := foldString(info, x); isC && s == "" {
				x, y = y, x
			}
			if s, isC := foldString(info, y); isC && s == "" && core.VarOf(info, x) == sv && ff.Flow.PassedAt(node)[call] {
				return true
			}
		}
	}
	return false
}

// rawUntouchedForStrings: the function tries json.Unmarshal(v, &s) with s a
// string; evaluated for the case that this succeeds with a non-empty s — the
// value is a JSON string with content, the only case in which escapes matter —
// it reaches a return without reading the raw bytes anywhere else.
func rawUntouchedForStrings(fd *core.FuncDecl, v *types.Var) bool {
	info := fd.Pkg.TypesInfo
	decodes := core.CallsTo(info, fd.Decl.Body, func(f *types.Func) bool { return core.IsFunc(f, "encoding/json", "", "Unmarshal") })
	if len(decodes) != 1 || len(decodes[0].Args) != 2 || core.VarOf(info, decodes[0].Args[0]) != v {
		return false
	}
	u, ok := ast.Unparen(decodes[0].Args[1]).(*ast.UnaryExpr)
	if !ok || u.Op != token.AND {
		return false
	}
	sv := core.VarOf(info, u.X)
	if sv == nil {
		return false
	}
	if b, isB := sv.Type().Underlying().(*types.Basic); !isB || b.Kind() != types.String {
		return false
	}
	touched := false
	ev := &core.AbsEval{Info: info}
	ev.Atom = func(e ast.Expr) (any, bool) {
		e = ast.Unparen(e)
		if core.IsNil(info, e) {
			return "nil", true
		}
		if call, ok := e.(*ast.CallExpr); ok && call == decodes[0] {
			return "nil", true
		}
		switch core.VarOf(info, e) {
		case sv:
			return "content", true
		case v:
			touched = true
			return "raw", true
		}
		return nil, false
	}
	_, reached := ev.Run(fd.Decl.Body)
	return reached && !touched
}
