package props

import (
	"fmt"
	"go/ast"
	"go/types"
	"sort"

	"goblcheck/core"
)

type staleHit struct {
	fd     *core.FuncDecl
	def    *ast.AssignStmt
	v      *types.Var
	callee *types.Func
	writer ast.Stmt
	fields []string
}

// staleReads finds, in the calculation packages, a local computed by a module
// function from document data, a later statement (before a use of the local)
// whose callees rewrite fields that function reads, and a use after it.
func staleReads(p *core.Program, fe *fieldEffects, pkgs []string) (hits, oks []staleHit, sites int) {
	for _, rel := range pkgs {
		pk := p.Pkg(rel)
		if pk == nil {
			continue
		}
		for _, fd := range p.Funcs(pk) {
			info := fd.Pkg.TypesInfo
			ast.Inspect(fd.Decl.Body, func(n ast.Node) bool {
				blk, ok := n.(*ast.BlockStmt)
				if !ok {
					return true
				}
				for i, st := range blk.List {
					as, ok := st.(*ast.AssignStmt)
					if !ok || len(as.Lhs) != 1 || len(as.Rhs) != 1 {
						continue
					}
					v := core.VarOf(info, as.Lhs[0])
					call, isCall := ast.Unparen(as.Rhs[0]).(*ast.CallExpr)
					if v == nil || v.IsField() || !isCall {
						continue
					}
					fn := core.Callee(info, call)
					if fn == nil || !core.InModule(fn.Pkg()) || len(fe.reads[fn]) == 0 {
						continue
					}
					// only plain values (a pointer would see the update)
					switch v.Type().Underlying().(type) {
					case *types.Pointer, *types.Slice, *types.Map, *types.Interface, *types.Signature, *types.Chan:
						continue
					}
					sites++
					found := false
					// later siblings: a writer, then a use
					for j := i + 1; j < len(blk.List); j++ {
						w := blk.List[j]
						var inter []string
						ast.Inspect(w, func(m ast.Node) bool {
							if c2, ok := m.(*ast.CallExpr); ok {
								if f2 := core.Callee(info, c2); f2 != nil {
									for f := range fe.writes[f2] {
										if fe.reads[fn][f] {
											inter = append(inter, f.Name())
										}
									}
								}
							}
							return true
						})
						if len(inter) == 0 {
							continue
						}
						used := false
						for k := j; k < len(blk.List); k++ {
							ast.Inspect(blk.List[k], func(m ast.Node) bool {
								if id, ok := m.(*ast.Ident); ok && info.Uses[id] == v && (k > j || id.Pos() > w.Pos()) {
									used = true
								}
								return true
							})
						}
						if used {
							sort.Strings(inter)
							hits = append(hits, staleHit{fd, as, v, fn, w, uniq(inter)})
							found = true
							break
						}
					}
					if !found {
						oks = append(oks, staleHit{fd: fd, def: as, v: v, callee: fn})
					}
				}
				return true
			})
		}
	}
	return
}

// c04Stale — C04-R7: no calculation step keeps a plain value computed from
// document fields across a statement that rewrites those fields and uses it
// afterwards: on the first pass the value reflects the input as typed, on a
// second pass the already-normalised data, so the result is not a fixed point.
func c04Stale(c *core.Ctx) {
	p := c.P
	c.Rule("C04-R7", "values derived from document fields are not carried across a rewrite of those fields", 40)
	fe := newFieldEffects(p)
	hits, oks, sites := staleReads(p, fe, []string{"bill", "tax", "org", "pay", "currency"})
	c.Extra("derived_value_sites", sites)
	for _, h := range oks {
		c.Ob("C04-R7", fmt.Sprintf("%s#%s:=%s", h.fd.Name(), h.v.Name(), h.callee.Name()), h.def.Pos(), true, "")
	}
	for _, h := range hits {
		c.Ob("C04-R7", fmt.Sprintf("%s#%s:=%s", h.fd.Name(), h.v.Name(), h.callee.Name()), h.def.Pos(), false,
			fmt.Sprintf("`%s` is computed by %s from fields %v, which the statement at %s rewrites before `%s` is used: the first calculation sees the data as typed, a repeat sees it normalised", h.v.Name(), core.FuncName(h.callee), h.fields, p.Rel(h.writer.Pos()), h.v.Name()))
	}
}
