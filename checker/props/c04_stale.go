package props

import (
	"fmt"
	"go/ast"
	"go/token"
	"go/types"
	"sort"

	"goblcheck/core"
)

type staleHit struct {
	fd     *core.FuncDecl
	def    *ast.AssignStmt
	v      *types.Var
	callee *types.Func
	writer ast.Stmt
	fields []string
}

// staleReads finds, in the calculation packages, a local computed by a module
// function from document data, a later statement (before a use of the local)
// whose callees rewrite fields that function reads, and a use after it.
func staleReads(p *core.Program, fe *fieldEffects, pkgs []string) (hits, oks []staleHit, sites int) {
	for _, rel := range pkgs {
		pk := p.Pkg(rel)
		if pk == nil {
			continue
		}
		for _, fd := range p.Funcs(pk) {
			info := fd.Pkg.TypesInfo
			ast.Inspect(fd.Decl.Body, func(n ast.Node) bool {
				blk, ok := n.(*ast.BlockStmt)
				if !ok {
					return true
				}
				for i, st := range blk.List {
					as, ok := st.(*ast.AssignStmt)
					if !ok || len(as.Lhs) != 1 || len(as.Rhs) != 1 {
						continue
					}
					v := core.VarOf(info, as.Lhs[0])
					call, isCall := ast.Unparen(as.Rhs[0]).(*ast.CallExpr)
					if v == nil || v.IsField() || !isCall {
						continue
					}
					fn := core.Callee(info, call)
					if fn == nil || !core.InModule(fn.Pkg()) || len(fe.reads[fn]) == 0 {
						continue
					}
					// only plain values (a pointer would see the update)
					switch v.Type().Underlying().(type) {
					case *types.Pointer, *types.Slice, *types.Map, *types.Interface, *types.Signature, *types.Chan:
						continue
					}
					sites++
					found := false
					// later siblings: a writer, then a use
					for j := i + 1; j < len(blk.List); j++ {
						w := blk.List[j]
						var inter []string
						ast.Inspect(w, func(m ast.Node) bool {
							if c2, ok := m.(*ast.CallExpr); ok {
								if f2 := core.Callee(info, c2); f2 != nil {
									for f := range fe.writes[f2] {
										if fe.reads[fn][f] {
											inter = append(inter, f.Name())
										}
									}
								}
							}
							return true
						})
						if len(inter) == 0 {
							continue
						}
						used := false
						for k := j; k < len(blk.List); k++ {
							ast.Inspect(blk.List[k], func(m ast.Node) bool {
								if id, ok := m.(*ast.Ident); ok && info.Uses[id] == v && (k > j || id.Pos() > w.Pos()) {
									used = true
								}
								return true
							})
						}
						if used {
							sort.Strings(inter)
							hits = append(hits, staleHit{fd, as, v, fn, w, uniq(inter)})
							found = true
							break
						}
					}
					if !found {
						oks = append(oks, staleHit{fd: fd, def: as, v: v, callee: fn})
					}
				}
				return true
			})
		}
	}
	return
}

// c04Stale — C04-R7: no calculation step keeps a plain value computed from
// document fields across a statement that rewrites those fields and uses it
// afterwards: on the first pass the value reflects the input as typed, on a
// second pass the already-normalised data, so the result is not a fixed point.
func c04Stale(c *core.Ctx) {
	p := c.P
	c.Rule("C04-R7", "values derived from document fields are not carried across a rewrite of those fields", 40)
	fe := newFieldEffects(p)
	hits, oks, sites := staleReads(p, fe, []string{"bill", "tax", "org", "pay", "currency"})
	c.Extra("derived_value_sites", sites)
	for _, h := range oks {
		c.Ob("C04-R7", fmt.Sprintf("%s#%s:=%s", h.fd.Name(), h.v.Name(), h.callee.Name()), h.def.Pos(), true, "")
	}
	for _, h := range hits {
		c.Ob("C04-R7", fmt.Sprintf("%s#%s:=%s", h.fd.Name(), h.v.Name(), h.callee.Name()), h.def.Pos(), false,
			fmt.Sprintf("`%s` is computed by %s from fields %v, which the statement at %s rewrites before `%s` is used: the first calculation sees the data as typed, a repeat sees it normalised", h.v.Name(), core.FuncName(h.callee), h.fields, p.Rel(h.writer.Pos()), h.v.Name()))
	}
}

// c04InputsKept — C04-R8: presentation rounding of the document totals only
// rewrites members that the recalculation itself produces, i.e. the members
// Totals.reset clears. A member that reset leaves alone is taken as given by
// the next pass (an externally provided rounding): rescaling it in place makes
// the second pass start from other data than the first.
//
// C04-R9: an amount that is derived from a percentage (`x.Amount =
// x.Percent.Of(base)`) is derived again on every pass: the assignment is not
// conditioned on the current value of that amount, which after the first pass
// is the rounded result of the derivation itself.
func c04InputsKept(c *core.Ctx) {
	p := c.P
	c.Rule("C04-R8", "presentation rounding of the totals rewrites only members that reset clears", 5)
	c.Rule("C04-R9", "amounts derived from a percentage are re-derived on every pass", 3)
	reset, round := p.Func("bill", "Totals", "reset"), p.Func("bill", "Totals", "round")
	if reset == nil || round == nil {
		c.Ob("C04-R8", "UNRESOLVED:bill.Totals.reset/round", token.NoPos, false, "method not found")
	} else {
		assigned := func(fd *core.FuncDecl) map[*types.Var]token.Pos {
			out := map[*types.Var]token.Pos{}
			info := fd.Pkg.TypesInfo
			recv := recvVar(fd)
			ast.Inspect(fd.Decl.Body, func(n ast.Node) bool {
				var lhs []ast.Expr
				switch x := n.(type) {
				case *ast.AssignStmt:
					lhs = x.Lhs
				case *ast.IncDecStmt:
					lhs = []ast.Expr{x.X}
				}
				for _, l := range lhs {
					l = ast.Unparen(l)
					if st, ok := l.(*ast.StarExpr); ok {
						l = ast.Unparen(st.X)
					}
					if f := core.FieldOf(info, l); f != nil && core.RootVar(info, l) == recv {
						if se, ok := l.(*ast.SelectorExpr); ok && core.VarOf(info, se.X) == recv {
							out[f] = l.Pos()
						}
					}
				}
				return true
			})
			return out
		}
		cleared := assigned(reset)
		for f, pos := range wholeStructStores(reset.Pkg.TypesInfo, reset.Decl.Body, recvVar(reset)) {
			cleared[f] = pos
		}
		var fs []*types.Var
		rounded := assigned(round)
		for f := range rounded {
			fs = append(fs, f)
		}
		sort.Slice(fs, func(i, j int) bool { return fs[i].Pos() < fs[j].Pos() })
		for _, f := range fs {
			_, ok := cleared[f]
			c.Ob("C04-R8", "bill.Totals."+f.Name()+"#rounded-is-recalculated", rounded[f], ok,
				"Totals.round rewrites "+f.Name()+", which Totals.reset leaves as it is: the member is an input of the next calculation, so calculating the result again starts from other data than the first time and need not reproduce it")
		}
	}
	n := 0
	for _, rel := range []string{"bill", "pay", "tax"} {
		for _, fd := range p.Funcs(p.Pkg(rel)) {
			info := fd.Pkg.TypesInfo
			ast.Inspect(fd.Decl.Body, func(m ast.Node) bool {
				as, ok := m.(*ast.AssignStmt)
				if !ok || len(as.Lhs) != 1 || len(as.Rhs) != 1 {
					return true
				}
				lf := core.FieldOf(info, as.Lhs[0])
				call, isCall := ast.Unparen(as.Rhs[0]).(*ast.CallExpr)
				if lf == nil || !isCall {
					return true
				}
				fn := core.Callee(info, call)
				if fn == nil || fn.Name() != "Of" || core.RecvNamed(fn) == nil || core.RecvNamed(fn).Obj().Name() != "Percentage" {
					return true
				}
				root := core.RootVar(info, as.Lhs[0])
				if root == nil || core.RootVar(info, core.RecvExpr(call)) != root {
					return true
				}
				n++
				bad := ""
				for _, cond := range enclosingConds(fd.Decl.Body, as) {
					ast.Inspect(cond, func(k ast.Node) bool {
						if e, ok := k.(ast.Expr); ok && sameLoc(info, e, as.Lhs[0]) {
							bad = types.ExprString(cond)
						}
						return true
					})
				}
				c.Ob("C04-R9", fmt.Sprintf("%s#%s-rederived", fd.Name(), types.ExprString(as.Lhs[0])), as.Pos(), bad == "",
					fmt.Sprintf("%s is derived from the percentage only when `%s`: once the first pass has stored the (rounded) result the next pass keeps it instead of deriving it again from the precise base, so a second calculation can give another document", types.ExprString(as.Lhs[0]), bad))
				return true
			})
		}
	}
	if n == 0 {
		c.Ob("C04-R9", "UNRESOLVED:derived-amounts", token.NoPos, false, "no amount derived from a percentage found in bill, pay, tax")
	}
}

// c04InputsRoundedInPlace — C04-R10: an amount that can be an input of the
// calculation (no unconditional assignment from a computed value anywhere in
// its package) is not lowered in precision in place (`x.F = x.F.RescaleDown(e)`,
// `x.F = x.F.Rescale(e)`) when the same pass has summed it at full precision:
// the first calculation uses the amount as given and stores it rounded, the
// second starts from the rounded amount, so for an input with more decimals
// than the presentation the two results differ by up to a unit.
func c04InputsRoundedInPlace(c *core.Ctx) {
	p := c.P
	c.Rule("C04-R10", "input amounts are not rounded in place after having been summed at full precision", 0)
	type site struct {
		fd  *core.FuncDecl
		as  *ast.AssignStmt
		f   *types.Var
		own *types.Named
	}
	var sites []site
	pkgs := []string{"bill", "pay"}
	var fds []*core.FuncDecl
	for _, rel := range pkgs {
		fds = append(fds, p.Funcs(p.Pkg(rel))...)
	}
	for _, fd := range fds {
		info := fd.Pkg.TypesInfo
		ast.Inspect(fd.Decl.Body, func(m ast.Node) bool {
			as, ok := m.(*ast.AssignStmt)
			if !ok || len(as.Lhs) != 1 || len(as.Rhs) != 1 {
				return true
			}
			f := core.FieldOf(info, as.Lhs[0])
			call, isCall := ast.Unparen(as.Rhs[0]).(*ast.CallExpr)
			if f == nil || !isCall || !isAmountMethod(core.Callee(info, call), "RescaleDown", "Rescale") {
				return true
			}
			if !sameLoc(info, as.Lhs[0], core.RecvExpr(call)) {
				return true
			}
			se, _ := ast.Unparen(as.Lhs[0]).(*ast.SelectorExpr)
			if se == nil {
				return true
			}
			sites = append(sites, site{fd, as, f, fieldOwner(info, se)})
			return true
		})
	}
	seen := map[*types.Var]bool{}
	n := 0
	for _, s := range sites {
		if seen[s.f] || s.own == nil {
			continue
		}
		seen[s.f] = true
		// input-capable: every other assignment to the field in these packages is conditional
		computed := false
		summed := ""
		for _, fd := range fds {
			info := fd.Pkg.TypesInfo
			ast.Inspect(fd.Decl.Body, func(m ast.Node) bool {
				switch x := m.(type) {
				case *ast.AssignStmt:
					for i, l := range x.Lhs {
						if core.FieldOf(info, l) != s.f || i >= len(x.Rhs) || len(x.Lhs) != len(x.Rhs) {
							continue
						}
						self := false
						ast.Inspect(x.Rhs[i], func(k ast.Node) bool {
							if e, ok := k.(ast.Expr); ok && sameLoc(info, e, l) {
								self = true
							}
							return true
						})
						if self {
							continue
						}
						if len(enclosingConds(fd.Decl.Body, x)) == 0 {
							computed = true
						}
					}
				case *ast.CallExpr:
					// x.Add(<…F…>) / x.Subtract / x.MatchPrecision(<…F…>): the field feeds a sum
					if isAmountMethod(core.Callee(info, x), "Add", "Subtract") && len(x.Args) == 1 {
						ast.Inspect(x.Args[0], func(k ast.Node) bool {
							if se, ok := k.(*ast.SelectorExpr); ok && core.FieldOf(info, se) == s.f && summed == "" {
								summed = p.Rel(x.Pos())
							}
							return true
						})
					}
				}
				return true
			})
		}
		if computed {
			continue // always produced by the calculation itself: rounding the result is presentation
		}
		n++
		key := core.TypeName(s.own) + "." + s.f.Name()
		c.Ob("C04-R10", key+"#rounded-in-place", s.as.Pos(), summed == "",
			fmt.Sprintf("%s can be given by the input (it is only assigned under a condition), is summed at full precision at %s and then lowered in precision in place by %s: with more decimals than the currency in the input, the first calculation stores the rounded amount and a second one starts from it, so the totals can differ by a unit between the two", key, summed, s.fd.Name()))
	}
	if n == 0 {
		c.Note("C04-R10: no input-capable amount is rounded in place")
	}
}

// c04CleanCopies — C04-R11: tax.CleanExtensions hands back a map of its own (or
// nil), never the one it was given. Normalisation relies on this to give every
// tax combo, item and party its own extension map: regime migrations may set
// one map on several rows, and addon normalisers write rate-specific codes into
// a row's map in place; with a shared map the last row's code shows on every
// row in the first pass and — after serialising, when each row has its own map
// again — not in the second.
func c04CleanCopies(c *core.Ctx) {
	p := c.P
	c.Rule("C04-R11", "CleanExtensions returns a map of its own, never its argument", 1)
	fd := p.Func("tax", "", "CleanExtensions")
	if fd == nil {
		c.Ob("C04-R11", "UNRESOLVED:tax.CleanExtensions", token.NoPos, false, "function not found")
		return
	}
	fa := newFreshAnalysis(p, func(types.Type) bool { return false })
	sum := fa.summary(fd.Obj)
	ok, n := true, 0
	for _, rc := range sum.rets {
		n++
		for at := range rc.atoms {
			if at.kind == 3 || at.kind == 2 {
				ok = false
			}
		}
	}
	if n == 0 {
		c.Ob("C04-R11", fd.Name()+"#fresh-result", fd.Decl.Pos(), false, "UNDECIDED: no result of map type found")
		return
	}
	c.Ob("C04-R11", fd.Name()+"#fresh-result", fd.Decl.Pos(), ok, "CleanExtensions can return the very map it was given: rows that were handed one shared map by a regime migration keep sharing it, so an addon's in-place write for one row shows on all of them in this pass and not in the next (after a JSON round trip each row has its own map): the calculation is no longer a fixpoint")
}
