package props

import (
	"encoding/json"
	"fmt"
	"go/ast"
	"go/token"
	"go/types"
	"os"
	"path/filepath"
	"regexp"
	"sort"
	"strings"

	"goblcheck/core"
)

func init() { register("C11", C11) }

const schemaBase = "https://gobl.org/draft-0/"

// C11 — published JSON Schemas are valid and every valid document conforms.
func C11(c *core.Ctx) {
	c.Explain("Conformance of documents to schemas is decided by a JSON-Schema validator at run time and is NOT decided here. Decided are artefact-level and agreement clauses: (R1) every file under data/schemas parses, declares draft 2020-12, has the $id its path implies, and every $ref resolves — to a $defs entry of the same file or to another published schema file; every name in a `required` list is a declared property; every `pattern` compiles; keyword values have the right JSON type; (R2) writer/reader agreement on patterns: the pattern a type's JSONSchema method publishes is the very constant from which a regular expression used by that type's validator is compiled; (R3) null-free output: a member whose Go type marshals to null when empty (pointer, slice, map) and that is serialised without omitempty is required by its struct's validator — otherwise a document the library accepts serialises `null` where the published schema demands an object, array or string. Not decided: acceptance of each valid document by the schema for its type (enumerations, formats, conditional rules).")
	c.Rule("C11-R1", "schema files are well-formed and all references resolve", 68)
	c.Rule("C11-R2", "published patterns are the constants the validators compile", 5)
	c.Rule("C11-R3", "members serialised without omitempty that can be null are required", 10)
	c11Files(c)
	c11Patterns(c)
	c11NullFree(c)
	c11Enums(c)
	c11Bounds(c)
	c11NullItems(c)
	c11ShippedPatterns(c, "C11-R9")
	c11CurrencyEnum(c, "C11-R10")
	// R6: a validator that decides membership of a published closed list looks the value up as given
	c.Rule("C11-R6", "lookups that decide membership of a published closed list use the value exactly (shared with C18-R5)", 4)
	sub := core.NewCtx("C18", c.Tier, c.Seed, c.P, c.VerifDir)
	sub.Quiet = true
	c18Exact(sub)
	for _, o := range sub.Obligations() {
		if o.Rule == "C18-R5" {
			c.ObAt("C11-R6", o.Key, o.Pos, o.OK, o.Msg)
		}
	}
	c11RegistryEnums(c)
	c11RegimeType(c)
	c11SkipPattern(c)
}

func c11Files(c *core.Ctx) {
	p := c.P
	root := filepath.Join(p.Repo, "data", "schemas")
	var files []string
	filepath.Walk(root, func(path string, info os.FileInfo, err error) error {
		if err == nil && !info.IsDir() && strings.HasSuffix(path, ".json") {
			files = append(files, path)
		}
		return nil
	})
	sort.Strings(files)
	docs := map[string]map[string]any{}
	for _, f := range files {
		rel, _ := filepath.Rel(root, f)
		b, err := readSubjectFile(f)
		var d map[string]any
		if err == nil {
			err = json.Unmarshal(b, &d)
		}
		if err != nil {
			c.ObAt("C11-R1", "data/schemas/"+rel+"#parses", "data/schemas/"+rel, false, "not valid JSON: "+fmt.Sprint(err))
			continue
		}
		docs[strings.TrimSuffix(rel, ".json")] = d
	}
	nRefs := 0
	var keys []string
	for k := range docs {
		keys = append(keys, k)
	}
	sort.Strings(keys)
	for _, k := range keys {
		d := docs[k]
		file := "data/schemas/" + k + ".json"
		var problems []string
		if s, _ := d["$schema"].(string); !strings.Contains(s, "2020-12") {
			problems = append(problems, fmt.Sprintf("$schema is %q, not draft 2020-12", s))
		}
		if id, _ := d["$id"].(string); id != schemaBase+k {
			problems = append(problems, fmt.Sprintf("$id %q does not match its path (%s)", id, schemaBase+k))
		}
		defs, _ := d["$defs"].(map[string]any)
		var walk func(x any, path string)
		walk = func(x any, path string) {
			switch v := x.(type) {
			case map[string]any:
				for key, val := range v {
					switch key {
					case "$ref":
						nRefs++
						ref, _ := val.(string)
						switch {
						case strings.HasPrefix(ref, "#/$defs/"):
							if _, ok := defs[strings.TrimPrefix(ref, "#/$defs/")]; !ok {
								problems = append(problems, fmt.Sprintf("%s: $ref %s has no such $defs entry", path, ref))
							}
						case strings.HasPrefix(ref, schemaBase):
							target := strings.TrimPrefix(ref, schemaBase)
							frag := ""
							if i := strings.Index(target, "#"); i >= 0 {
								target, frag = target[:i], target[i+1:]
							}
							td, ok := docs[target]
							if !ok {
								problems = append(problems, fmt.Sprintf("%s: $ref %s points to no published schema file", path, ref))
							} else if strings.HasPrefix(frag, "/$defs/") {
								tdefs, _ := td["$defs"].(map[string]any)
								if _, ok := tdefs[strings.TrimPrefix(frag, "/$defs/")]; !ok {
									problems = append(problems, fmt.Sprintf("%s: $ref %s: no such $defs entry in the target", path, ref))
								}
							}
						default:
							problems = append(problems, fmt.Sprintf("%s: $ref %q is neither local nor a published GOBL schema", path, ref))
						}
					case "required":
						if path == "" || !strings.HasSuffix(path, "/properties") {
							arr, isArr := val.([]any)
							props, _ := v["properties"].(map[string]any)
							if !isArr {
								problems = append(problems, path+": required is not an array")
							} else if props != nil {
								for _, r := range arr {
									if rs, ok := r.(string); ok {
										if _, has := props[rs]; !has {
											problems = append(problems, fmt.Sprintf("%s: required member %q is not a declared property", path, rs))
										}
									}
								}
							}
						}
					case "pattern":
						if strings.HasSuffix(path, "/properties") {
							break
						}
						if ps, ok := val.(string); ok {
							if _, err := regexp.Compile(ps); err != nil {
								problems = append(problems, fmt.Sprintf("%s: pattern %q does not compile", path, ps))
							}
						}
					case "type":
						if strings.HasSuffix(path, "/properties") {
							break
						}
						if ts, ok := val.(string); ok {
							switch ts {
							case "object", "array", "string", "number", "integer", "boolean", "null":
							default:
								problems = append(problems, fmt.Sprintf("%s: unknown type %q", path, ts))
							}
						}
					case "oneOf", "anyOf", "allOf":
						if strings.HasSuffix(path, "/properties") {
							break
						}
						if arr, ok := val.([]any); ok && key == "oneOf" {
							// oneOf demands exactly one matching alternative: a constant that another
							// alternative's pattern (or an equal constant) also accepts matches two
							var consts []string
							var pats []string
							for _, alt := range arr {
								m, isObj := alt.(map[string]any)
								if !isObj {
									continue
								}
								if cs, ok := m["const"].(string); ok {
									consts = append(consts, cs)
								}
								if ps, ok := m["pattern"].(string); ok {
									if _, hasConst := m["const"]; !hasConst {
										pats = append(pats, ps)
									}
								}
							}
							seenConst := map[string]bool{}
							for _, cs := range consts {
								if seenConst[cs] {
									problems = append(problems, fmt.Sprintf("%s: oneOf lists the constant %q twice: it matches two alternatives and is rejected", path, cs))
								}
								seenConst[cs] = true
								for _, ps := range pats {
									if re, err := regexp.Compile(ps); err == nil && re.MatchString(cs) {
										problems = append(problems, fmt.Sprintf("%s: oneOf has the constant %q and an alternative with pattern %s that matches it too: the listed value is rejected by the schema (anyOf is meant)", path, cs, ps))
									}
								}
							}
						}
						if arr, ok := val.([]any); !ok || len(arr) == 0 {
							problems = append(problems, fmt.Sprintf("%s: %s must be a non-empty array", path, key))
						}
					default:
						// value types of the remaining draft 2020-12 keywords (applicator, validation, meta-data vocabularies)
						if strings.HasSuffix(path, "/properties") || strings.HasSuffix(path, "/$defs") {
							break // member names, not keywords
						}
						want := ""
						switch key {
						case "enum", "examples", "prefixItems":
							if _, ok := val.([]any); !ok {
								want = "an array"
							}
						case "properties", "$defs", "patternProperties", "dependentSchemas", "dependentRequired":
							if _, ok := val.(map[string]any); !ok {
								want = "an object"
							}
						case "items", "additionalProperties", "not", "if", "then", "else", "contains", "propertyNames", "unevaluatedProperties", "unevaluatedItems":
							switch val.(type) {
							case map[string]any, bool:
							default:
								want = "a schema (object or boolean)"
							}
						case "title", "description", "format", "$id", "$schema", "$comment", "$anchor", "contentEncoding", "contentMediaType":
							if _, ok := val.(string); !ok {
								want = "a string"
							}
						case "minLength", "maxLength", "minItems", "maxItems", "minProperties", "maxProperties", "minContains", "maxContains":
							if f, ok := val.(float64); !ok || f < 0 || f != float64(int64(f)) {
								want = "a non-negative integer"
							}
						case "minimum", "maximum", "exclusiveMinimum", "exclusiveMaximum", "multipleOf":
							if _, ok := val.(float64); !ok {
								want = "a number"
							}
						case "uniqueItems", "deprecated", "readOnly", "writeOnly":
							if _, ok := val.(bool); !ok {
								want = "a boolean"
							}
						}
						if want != "" {
							problems = append(problems, fmt.Sprintf("%s: %s must be %s, found %T", path, key, want, val))
						}
					}
					walk(val, path+"/"+key)
				}
			case []any:
				for i, e := range v {
					walk(e, fmt.Sprintf("%s/%d", path, i))
				}
			}
		}
		walk(d, "")
		sort.Strings(problems)
		if len(problems) > 4 {
			problems = append(problems[:4], fmt.Sprintf("… and %d more", len(problems)-4))
		}
		c.ObAt("C11-R1", file, file, len(problems) == 0, strings.Join(problems, "; "))
	}
	c.Extra("schema_files", len(docs))
	c.Extra("refs_resolved", nRefs)
}

// c11UnderProperty: the key-value lies in a statement that assigns to (a member
// of) a local obtained from <schema>.Properties.Get(name), or to a local that
// is itself stored in a member of such a local (anyOf = append(anyOf, …);
// prop.AnyOf = anyOf).
func c11UnderProperty(info *types.Info, body *ast.BlockStmt, kv *ast.KeyValueExpr) bool {
	ld := core.NewLocalDefs(info, body)
	isProp := func(v *types.Var) bool {
		for _, d := range ld.All(v) {
			if d.RHS == nil {
				continue
			}
			if call, ok := ast.Unparen(d.RHS).(*ast.CallExpr); ok {
				if se, ok := ast.Unparen(call.Fun).(*ast.SelectorExpr); ok && se.Sel.Name == "Get" {
					return true
				}
			}
		}
		return false
	}
	storedInProp := func(v *types.Var) bool {
		found := false
		ast.Inspect(body, func(n ast.Node) bool {
			as, ok := n.(*ast.AssignStmt)
			if !ok || len(as.Lhs) != len(as.Rhs) {
				return true
			}
			for i, l := range as.Lhs {
				if core.VarOf(info, as.Rhs[i]) == v {
					if root := core.RootVar(info, l); root != nil && core.VarOf(info, l) != root && isProp(root) {
						found = true
					}
				}
			}
			return true
		})
		return found
	}
	under := false
	ast.Inspect(body, func(n ast.Node) bool {
		as, ok := n.(*ast.AssignStmt)
		if !ok || !(as.Pos() <= kv.Pos() && kv.End() <= as.End()) {
			return true
		}
		for _, l := range as.Lhs {
			root := core.RootVar(info, l)
			if root == nil {
				continue
			}
			if core.VarOf(info, l) == root {
				if storedInProp(root) {
					under = true
				}
				continue
			}
			if isProp(root) || storedInProp(root) {
				under = true
			}
		}
		return true
	})
	return under
}

func c11Patterns(c *core.Ctx) {
	p := c.P
	n := 0
	for _, fd := range p.AllFuncs() {
		if (fd.Obj.Name() != "JSONSchema" && fd.Obj.Name() != "JSONSchemaExtend") || core.RecvNamed(fd.Obj) == nil {
			continue
		}
		rel := core.RelPkg(fd.Obj.Pkg().Path())
		if strings.HasPrefix(rel, "addons/") || strings.HasPrefix(rel, "regimes/") {
			continue
		}
		info := fd.Pkg.TypesInfo
		named := core.RecvNamed(fd.Obj)
		var sigParam *types.Var
		if sg := fd.Obj.Type().(*types.Signature); sg.Params().Len() == 1 {
			sigParam = sg.Params().At(0)
		}
		ast.Inspect(fd.Decl.Body, func(m ast.Node) bool {
			var kv *ast.KeyValueExpr
			if as, isAs := m.(*ast.AssignStmt); isAs && len(as.Lhs) == 1 && len(as.Rhs) == 1 {
				// s.Pattern = X on the schema of the type itself (the method's parameter)
				if se, isSel := ast.Unparen(as.Lhs[0]).(*ast.SelectorExpr); isSel && se.Sel.Name == "Pattern" && sigParam != nil && core.VarOf(info, se.X) == sigParam {
					kv = &ast.KeyValueExpr{Key: se.Sel, Colon: as.TokPos, Value: as.Rhs[0]}
				}
			}
			if kv == nil {
				k2, ok := m.(*ast.KeyValueExpr)
				if !ok {
					return true
				}
				kv = k2
				// a literal stored under a property looked up in the schema (prop.AnyOf = append(…,
				// &Schema{Pattern: …})) describes that member, whose own type publishes and
				// enforces its pattern: not the pattern of this type
				if c11UnderProperty(info, fd.Decl.Body, kv) {
					return true
				}
			}
			id, ok := kv.Key.(*ast.Ident)
			if !ok || id.Name != "Pattern" {
				return true
			}
			pat, ok := foldString(info, kv.Value)
			var patObj types.Object
			if !ok {
				// a package-level variable with a constant initialiser
				if v := pkgVar(info, kv.Value); v != nil && isPkgVar(v) {
					patObj = v
					folder := &core.Folder{P: p}
					if s, isS := folder.Fold(fd.Pkg, kv.Value).(string); isS {
						pat, ok = s, true
					}
				}
			}
			if !ok {
				c.Undecided("C11-R2", core.TypeName(named)+"#pattern", kv.Pos(), "published pattern is not a constant")
				return true
			}
			n++
			key := core.TypeName(named) + "#pattern"
			// regexps of the package compiled from this constant
			compiled := map[types.Object]bool{}
			for _, file := range fd.Pkg.Syntax {
				ast.Inspect(file, func(k ast.Node) bool {
					vs, ok := k.(*ast.ValueSpec)
					if !ok {
						return true
					}
					for i, nm := range vs.Names {
						if i >= len(vs.Values) {
							continue
						}
						if call, ok := ast.Unparen(vs.Values[i]).(*ast.CallExpr); ok && len(call.Args) == 1 {
							if fn := core.Callee(info, call); fn != nil && fn.Pkg() != nil && fn.Pkg().Path() == "regexp" {
								if s, ok := foldString(info, call.Args[0]); ok && s == pat {
									compiled[info.Defs[nm]] = true
								} else if patObj != nil && core.VarOf(info, call.Args[0]) == patObj {
									compiled[info.Defs[nm]] = true
								}
							}
						}
					}
					return true
				})
			}
			// the type's validator (or its text unmarshaller, for types rejected at parse time) references one of them
			used := false
			var via string
			for _, mname := range []string{"Validate", "ValidateWithContext", "UnmarshalText", "UnmarshalJSON"} {
				for _, t := range []types.Type{named, types.NewPointer(named)} {
					o, _, _ := types.LookupFieldOrMethod(t, false, named.Obj().Pkg(), mname)
					fn, _ := o.(*types.Func)
					if fn == nil {
						continue
					}
					if refsObject(p, fn, compiled, 4, map[types.Object]bool{}) {
						used, via = true, mname
					}
				}
			}
			if len(compiled) == 0 && named.Obj().Pkg().Path() == core.ModPath+"/num" {
				// handled in depth by C06 (parser guard on the same constant)
				c.Ob("C11-R2", key, kv.Pos(), true, "")
				return true
			}
			if !used && len(compiled) == 0 {
				// a type parsed by a library routine instead of a regular expression: the agreement is what its
				// UnmarshalJSON enforces on top of the library parser (reviewed per type)
				if reason, ok := c11ParsedTypes[core.TypeName(named)]; ok {
					okGuard := c11ParseGuard(p, named)
					c.Ob("C11-R2", key, kv.Pos(), okGuard, "the type is parsed by a library routine that accepts more than the published pattern, and its UnmarshalJSON no longer rejects the surplus ("+reason+")")
					return true
				}
			}
			c.Ob("C11-R2", key, kv.Pos(), used,
				fmt.Sprintf("the published pattern %q is not the constant from which a regular expression used by the type's validator (or text parser) is compiled: the schema and the library can drift apart", pat))
			_ = via
			return true
		})
	}
	if n < 5 {
		c.Ob("C11-R2", "UNRESOLVED:patterns", token.NoPos, false, fmt.Sprintf("only %d published patterns found", n))
	}
}

// refsObject: does fn (transitively, through module functions and package-level variables) reference one of the objects?
func refsObject(p *core.Program, fn *types.Func, targets map[types.Object]bool, depth int, seen map[types.Object]bool) bool {
	if fn == nil || seen[fn] || depth < 0 {
		return false
	}
	seen[fn] = true
	fd := p.DeclOf(fn)
	if fd == nil {
		return false
	}
	info := fd.Pkg.TypesInfo
	found := false
	var scan func(n ast.Node, inf *types.Info)
	scan = func(n ast.Node, inf *types.Info) {
		ast.Inspect(n, func(m ast.Node) bool {
			if found {
				return false
			}
			id, ok := m.(*ast.Ident)
			if !ok {
				return true
			}
			o := inf.Uses[id]
			if o == nil {
				return true
			}
			if targets[o] {
				found = true
				return false
			}
			switch x := o.(type) {
			case *types.Func:
				if core.InModule(x.Pkg()) && refsObject(p, x.Origin(), targets, depth-1, seen) {
					found = true
				}
			case *types.Var:
				if isPkgVar(x) && core.InModule(x.Pkg()) && !seen[x] {
					seen[x] = true
					if pk := p.ByPath[x.Pkg().Path()]; pk != nil && pk.TypesInfo != nil {
						for _, file := range pk.Syntax {
							if !(file.Pos() <= x.Pos() && x.Pos() <= file.End()) {
								continue
							}
							ast.Inspect(file, func(k ast.Node) bool {
								if vs, ok := k.(*ast.ValueSpec); ok {
									for i, nm := range vs.Names {
										if nm.Pos() == x.Pos() && i < len(vs.Values) {
											scan(vs.Values[i], pk.TypesInfo)
										}
									}
								}
								return true
							})
						}
					}
				}
			}
			return true
		})
	}
	scan(fd.Decl.Body, info)
	return found
}

func c11NullFree(c *core.Ctx) {
	p := c.P
	order, _, _ := docClosure(c)
	a := &c18{c: c, p: p, vals: map[*types.Named]*typeVal{}, leads: map[*types.Named]int{}}
	opts := optionStructTypes(p)
	n := 0
	for _, named := range order {
		st, ok := named.Underlying().(*types.Struct)
		if !ok || opts[named] {
			continue
		}
		name := core.TypeName(named)
		if strings.HasSuffix(name, "Def") || strings.HasPrefix(name, "tax.Scenario") || strings.HasPrefix(name, "cbc.Definition") || name == "tax.TagSet" || name == "tax.CorrectionDefinition" || name == "cbc.Source" {
			continue // definition documents are generated, not validated user input
		}
		tv := a.valOf(named)
		for i := 0; i < st.NumFields(); i++ {
			f := st.Field(i)
			jn, omit := core.JSONName(st.Tag(i), f.Name())
			if jn == "" || omit || !f.Exported() || f.Embedded() {
				continue
			}
			nullable := false
			switch u := f.Type().Underlying().(type) {
			case *types.Pointer, *types.Slice, *types.Map:
				nullable = true
				_ = u
			}
			// a named type with its own marshaller decides its own empty form
			if nt, ok := f.Type().(*types.Named); ok {
				if o, _, _ := types.LookupFieldOrMethod(nt, true, nt.Obj().Pkg(), "MarshalJSON"); o != nil {
					nullable = false
				}
				if o, _, _ := types.LookupFieldOrMethod(nt, true, nt.Obj().Pkg(), "MarshalText"); o != nil {
					nullable = false
				}
			}
			// a text type whose own published schema rejects the empty string (a pattern that does not
			// match "", or a minimum length): written without omitempty, an empty value is "" in the output
			emptyRejected := ""
			if !nullable {
				if nt, ok := f.Type().(*types.Named); ok {
					emptyRejected = c11RejectsEmpty(p, nt)
				}
				if emptyRejected == "" {
					continue
				}
			}
			n++
			required := false
			if fv := tv.fields[f]; fv != nil {
				for _, r := range fv.rules {
					// unconditional only: the rule itself, not one inside validation.When(...)
					if core.IsValidationVar(fv.info, r, "Required") {
						required = true
					}
				}
			}
			if emptyRejected != "" {
				c.Ob("C11-R3", name+"."+f.Name()+"#not-empty", f.Pos(), required,
					fmt.Sprintf("%s.%s is serialised as %q without omitempty and its type publishes %s, but the struct's validator does not require it unconditionally: a document the library accepts can contain \"%s\": \"\", which the published schema rejects", name, f.Name(), jn, emptyRejected, jn))
				continue
			}
			if !required {
				c11Producers(c, named, f, jn)
			}
			c.Ob("C11-R3", name+"."+f.Name(), f.Pos(), required,
				fmt.Sprintf("%s.%s is serialised as %q without omitempty and marshals to null when empty, but its struct's validator does not require it: a document the library accepts can contain \"%s\": null, which the published schema (type object/array) rejects", name, f.Name(), jn, jn))
		}
	}
	c.Extra("nullable_members_without_omitempty", n)
}

// c11RejectsEmpty: the named type is a text type whose JSONSchema method publishes a
// pattern that does not match the empty string, or a minimum length: what it publishes.
func c11RejectsEmpty(p *core.Program, nt *types.Named) string {
	if b, ok := nt.Underlying().(*types.Basic); !ok || b.Info()&types.IsString == 0 {
		return ""
	}
	if nt.Obj().Pkg() == nil || !core.InModule(nt.Obj().Pkg()) {
		return ""
	}
	fd := p.Func(core.RelPkg(nt.Obj().Pkg().Path()), nt.Obj().Name(), "JSONSchema")
	if fd == nil {
		return ""
	}
	info := fd.Pkg.TypesInfo
	res := ""
	ast.Inspect(fd.Decl.Body, func(m ast.Node) bool {
		kv, ok := m.(*ast.KeyValueExpr)
		if !ok {
			return true
		}
		id, ok := kv.Key.(*ast.Ident)
		if !ok {
			return true
		}
		switch id.Name {
		case "Pattern":
			pat, ok := foldString(info, kv.Value)
			if !ok {
				if v := pkgVar(info, kv.Value); v != nil {
					folder := &core.Folder{P: p}
					if s, isS := folder.Fold(fd.Pkg, kv.Value).(string); isS {
						pat, ok = s, true
					}
				}
			}
			if ok {
				if re, err := regexp.Compile(pat); err == nil && !re.MatchString("") {
					res = "the pattern " + pat
				}
			}
		case "MinLength":
			res = "a minimum length"
		}
		return true
	})
	return res
}

// c11ParsedTypes: types whose text form is parsed by cloud.google.com/go/civil
// rather than matched against their published pattern, with what the surplus is.
var c11ParsedTypes = map[string]string{
	"cal.DateTime": "civil.ParseDateTime accepts fractional seconds, the pattern does not: UnmarshalJSON must reject a non-zero Nanosecond",
}

// c11ParseGuard: UnmarshalJSON of the type returns an error where the parsed value's Nanosecond is non-zero.
func c11ParseGuard(p *core.Program, named *types.Named) bool {
	o, _, _ := types.LookupFieldOrMethod(types.NewPointer(named), false, named.Obj().Pkg(), "UnmarshalJSON")
	fd := p.DeclOf(asFunc(o))
	if fd == nil {
		return false
	}
	ff := core.NewFuncFlow(fd)
	for _, r := range ff.Flow.Returns() {
		if k, _ := ff.ClassifyReturn(p, r); k != core.RetFailure {
			continue
		}
		for leaf, val := range ff.Flow.CondsAt(r) {
			be, ok := ast.Unparen(leaf).(*ast.BinaryExpr)
			if !ok || !val || be.Op != token.NEQ {
				continue
			}
			if se, ok := ast.Unparen(be.X).(*ast.SelectorExpr); ok && se.Sel.Name == "Nanosecond" {
				return true
			}
		}
	}
	return false
}

// c11Producers — C11-R3, producer clause: a nullable member without omitempty
// that validation does not require can still be null-free in documents the
// library builds itself, provided every function that allocates the struct
// gives the member a non-nil value (make / literal) unconditionally. Each
// allocation site is an obligation.
func c11Producers(c *core.Ctx, named *types.Named, f *types.Var, jn string) {
	p := c.P
	if _, isSlice := f.Type().Underlying().(*types.Slice); !isSlice {
		if _, isMap := f.Type().Underlying().(*types.Map); !isMap {
			return
		}
	}
	for _, fd := range p.AllFuncs() {
		info := fd.Pkg.TypesInfo
		ast.Inspect(fd.Decl.Body, func(n ast.Node) bool {
			var lit *ast.CompositeLit
			var holder *types.Var
			var at ast.Node
			switch x := n.(type) {
			case *ast.AssignStmt:
				if len(x.Lhs) != 1 || len(x.Rhs) != 1 {
					return true
				}
				rhs := ast.Unparen(x.Rhs[0])
				if u, ok := rhs.(*ast.UnaryExpr); ok && u.Op == token.AND {
					rhs = ast.Unparen(u.X)
				}
				switch r := rhs.(type) {
				case *ast.CallExpr:
					if id, ok := r.Fun.(*ast.Ident); ok && id.Name == "new" && len(r.Args) == 1 {
						if tv, ok := info.Types[r.Args[0]]; ok && tv.IsType() && types.Identical(tv.Type, named) {
							holder, at = core.VarOf(info, x.Lhs[0]), x
						}
					}
				case *ast.CompositeLit:
					if tv, ok := info.Types[r]; ok && types.Identical(tv.Type, named) {
						lit, holder, at = r, core.VarOf(info, x.Lhs[0]), x
					}
				}
			}
			if at == nil {
				return true
			}
			nonNil := func(e ast.Expr) bool {
				e = ast.Unparen(e)
				if call, ok := e.(*ast.CallExpr); ok {
					if id, ok := call.Fun.(*ast.Ident); ok && id.Name == "make" {
						return true
					}
				}
				_, isLit := e.(*ast.CompositeLit)
				return isLit
			}
			ok := false
			if lit != nil {
				for _, el := range lit.Elts {
					if kv, isKV := el.(*ast.KeyValueExpr); isKV {
						if id, isID := kv.Key.(*ast.Ident); isID && id.Name == f.Name() && nonNil(kv.Value) {
							ok = true
						}
					}
				}
			}
			if !ok && holder != nil {
				// an unconditional assignment: a statement of the list the allocation itself stands in
				// (or of the function body)
				lists := [][]ast.Stmt{fd.Decl.Body.List}
				ast.Inspect(fd.Decl.Body, func(m ast.Node) bool {
					var l []ast.Stmt
					switch b := m.(type) {
					case *ast.BlockStmt:
						l = b.List
					case *ast.CaseClause:
						l = b.Body
					}
					for _, st := range l {
						if st == at {
							lists = append(lists, l)
						}
					}
					return true
				})
				for _, l := range lists {
					for _, st := range l {
						if as, isAs := st.(*ast.AssignStmt); isAs && len(as.Lhs) == 1 && len(as.Rhs) == 1 &&
							core.IsFieldOfVar(info, as.Lhs[0], holder, f.Name()) && nonNil(as.Rhs[0]) {
							ok = true
						}
					}
				}
			}
			c.Ob("C11-R3", fmt.Sprintf("%s.%s#allocated-in:%s", core.TypeName(named), f.Name(), fd.Name()), at.Pos(), ok,
				fmt.Sprintf("%s allocates a %s without giving %s a non-nil value unconditionally: when it stays empty it serialises as \"%s\": null, which the published schema (type array/object, required) rejects", fd.Name(), core.TypeName(named), f.Name(), jn))
			return true
		})
	}
}
