package props

import (
	"fmt"
	"go/ast"
	"go/token"
	"go/types"
	"sort"

	"goblcheck/core"
)

// docClosure returns the struct types reachable from the registered schema
// types through serialised fields.
func docClosure(c *core.Ctx) ([]*types.Named, map[*types.Named][]core.TypeEdge, []core.RegType) {
	regs := c.P.RegisteredTypes()
	var roots []*types.Named
	for _, r := range regs {
		roots = append(roots, r.Named)
	}
	// the envelope wraps every document
	if n := c.P.Named("", "Envelope"); n != nil {
		roots = append(roots, n)
	}
	order, path := core.StructClosure(roots, func(from *types.Named, f *types.Var, tag string) bool {
		jn, _ := core.JSONName(tag, f.Name())
		return jn != "" && (f.Exported() || f.Embedded())
	})
	return order, path, regs
}

func pathString(path []core.TypeEdge, last *types.Named) string {
	s := ""
	for _, e := range path {
		s += core.TypeName(e.From) + "." + e.Field.Name() + " → "
	}
	return s + core.TypeName(last)
}

// blindFields decides the "no field is hidden from serialisation" rule:
// (a) an exported field tagged json:"-" in a document type must be of function
// type; (b) a custom UnmarshalJSON on a document struct must be the alias
// idiom (decodes every field through the standard decoder, migration members
// not colliding with real members) or be paired with a custom marshaller.
func blindFields(c *core.Ctx, rule string) {
	p := c.P
	order, path, regs := docClosure(c)
	if len(regs) < 40 {
		c.Ob(rule, "UNRESOLVED:registered-types", token.NoPos, false, fmt.Sprintf("only %d schema registrations found (expected ≥40)", len(regs)))
	}
	nStructs, nDash, nUnm := 0, 0, 0
	optionStructs := optionStructTypes(p)
	var optNames []string
	for n := range optionStructs {
		optNames = append(optNames, core.TypeName(n))
	}
	sort.Strings(optNames)
	c.Extra(rule+"_option_structs_exempt", optNames)
	for _, n := range order {
		st, ok := n.Underlying().(*types.Struct)
		if !ok {
			continue
		}
		nStructs++
		for i := 0; i < st.NumFields(); i++ {
			f := st.Field(i)
			jn, _ := core.JSONName(st.Tag(i), f.Name())
			if jn != "" || !f.Exported() {
				continue
			}
			nDash++
			_, isFunc := f.Type().Underlying().(*types.Signature)
			if optionStructs[n] {
				// option struct (argument of a schema.Option closure): never the content of an envelope's calculation
				c.Ob(rule, core.TypeName(n)+"."+f.Name()+"#json-dash", f.Pos(), true, "")
				continue
			}
			c.Ob(rule, core.TypeName(n)+"."+f.Name()+"#json-dash", f.Pos(), isFunc,
				fmt.Sprintf("exported data field excluded from serialisation (json:\"-\") in a document type: changes to it are invisible to the digest (path %s)", pathString(path[n], n)))
		}
		// custom unmarshaller?
		obj, _, _ := types.LookupFieldOrMethod(types.NewPointer(n), true, n.Obj().Pkg(), "UnmarshalJSON")
		fn, _ := obj.(*types.Func)
		if fn == nil || core.RecvNamed(fn) != n {
			continue
		}
		fd := p.DeclOf(fn)
		if fd == nil {
			continue
		}
		nUnm++
		key := core.TypeName(n) + "#UnmarshalJSON"
		if why, isAlias := aliasUnmarshal(fd, n, st); isAlias {
			c.Ob(rule, key, fd.Decl.Pos(), why == "", why)
			continue
		}
		// not the alias idiom: needs a paired marshaller
		hasMarshal := false
		for _, m := range []string{"MarshalJSON", "MarshalText"} {
			if o, _, _ := types.LookupFieldOrMethod(types.NewPointer(n), true, n.Obj().Pkg(), m); o != nil {
				if _, isF := o.(*types.Func); isF {
					hasMarshal = true
				}
			}
		}
		c.Ob(rule, key, fd.Decl.Pos(), hasMarshal, "custom UnmarshalJSON that neither decodes through an alias of the same struct nor is paired with a custom marshaller")
	}
	c.Extra(rule+"_document_structs", nStructs)
	c.Extra(rule+"_json_dash_fields", nDash)
	c.Extra(rule+"_custom_unmarshallers", nUnm)
	if nStructs < 80 {
		c.Ob(rule, "UNRESOLVED:closure", token.NoPos, false, fmt.Sprintf("document type closure has only %d structs", nStructs))
	}
}

// aliasUnmarshal recognises the migration idiom. It returns isAlias=false when
// the function does not declare a local alias type of its receiver type.
func aliasUnmarshal(fd *core.FuncDecl, n *types.Named, st *types.Struct) (why string, isAlias bool) {
	info := fd.Pkg.TypesInfo
	recv := recvVar(fd)
	var alias *types.TypeName
	aliasPtr := false
	ast.Inspect(fd.Decl.Body, func(m ast.Node) bool {
		ts, ok := m.(*ast.TypeSpec)
		if !ok {
			return true
		}
		tn, _ := info.Defs[ts.Name].(*types.TypeName)
		if tn == nil {
			return true
		}
		u := tn.Type().Underlying()
		if pt, ok := u.(*types.Pointer); ok {
			if pt.Elem() == types.Type(n) {
				alias, aliasPtr = tn, true
			}
		} else if types.Identical(u, st) {
			alias = tn
		}
		return true
	})
	if alias == nil {
		return "", false
	}
	// the json.Unmarshal target
	calls := core.CallsTo(info, fd.Decl.Body, func(f *types.Func) bool { return core.IsFunc(f, "encoding/json", "", "Unmarshal") })
	if len(calls) != 1 {
		return fmt.Sprintf("expected exactly one json.Unmarshal call, found %d", len(calls)), true
	}
	target := ast.Unparen(calls[0].Args[1])
	isConvOfRecv := func(e ast.Expr) bool {
		cl, ok := ast.Unparen(e).(*ast.CallExpr)
		if !ok || len(cl.Args) != 1 {
			return false
		}
		tv, ok := info.Types[cl.Fun]
		if !ok || !tv.IsType() {
			return false
		}
		t := tv.Type
		if pt, ok := t.(*types.Pointer); ok {
			t = pt.Elem()
		}
		nt, ok := t.(*types.Named)
		return ok && nt.Obj() == alias && core.VarOf(info, cl.Args[0]) == recv
	}
	if aliasPtr {
		if !isConvOfRecv(target) {
			return "json.Unmarshal does not decode into (Alias)(receiver)", true
		}
		return "", true
	}
	// &aux with embedded *Alias
	ue, ok := target.(*ast.UnaryExpr)
	if !ok || ue.Op != token.AND {
		if isConvOfRecv(target) {
			return "", true
		}
		return "json.Unmarshal target is neither &aux nor (*Alias)(receiver)", true
	}
	auxVar := core.VarOf(info, ue.X)
	if auxVar == nil {
		return "json.Unmarshal target is not a local variable", true
	}
	ast_, ok := auxVar.Type().Underlying().(*types.Struct)
	if !ok {
		return "aux is not a struct", true
	}
	// real JSON names
	real := map[string]bool{}
	for i := 0; i < st.NumFields(); i++ {
		if jn, _ := core.JSONName(st.Tag(i), st.Field(i).Name()); jn != "" && st.Field(i).Exported() {
			real[jn] = true
		}
	}
	embedded := false
	for i := 0; i < ast_.NumFields(); i++ {
		f := ast_.Field(i)
		if f.Embedded() {
			if pt, ok := f.Type().(*types.Pointer); ok {
				if nt, ok := pt.Elem().(*types.Named); ok && nt.Obj() == alias {
					embedded = true
					continue
				}
			}
			return "aux embeds something other than *Alias", true
		}
		jn, _ := core.JSONName(ast_.Tag(i), f.Name())
		if jn != "" && real[jn] {
			return fmt.Sprintf("migration member %q of the auxiliary struct shadows the real member of %s: the real field is no longer decoded", jn, n.Obj().Name()), true
		}
	}
	if !embedded {
		return "aux does not embed *Alias", true
	}
	// the embedded alias must be initialised from the receiver
	okInit := false
	ast.Inspect(fd.Decl.Body, func(m ast.Node) bool {
		kv, ok := m.(*ast.KeyValueExpr)
		if !ok {
			return true
		}
		if id, ok := kv.Key.(*ast.Ident); ok && id.Name == alias.Name() && isConvOfRecv(kv.Value) {
			okInit = true
		}
		return true
	})
	if !okInit {
		return "the embedded *Alias is not initialised with (*Alias)(receiver)", true
	}
	return "", true
}

// optionStructTypes derives the option structs of the module: struct types to
// which a schema.Option closure type-asserts its argument (directly, or through
// an interface the struct's pointer implements), plus structs embedding them.
func optionStructTypes(p *core.Program) map[*types.Named]bool {
	out := map[*types.Named]bool{}
	optType := p.Named("schema", "Option")
	if optType == nil {
		return out
	}
	var allStructs []*types.Named
	for _, pk := range p.Pkgs {
		sc := pk.Types.Scope()
		for _, nm := range sc.Names() {
			if tn, ok := sc.Lookup(nm).(*types.TypeName); ok {
				if n, ok := tn.Type().(*types.Named); ok {
					if _, isS := n.Underlying().(*types.Struct); isS {
						allStructs = append(allStructs, n)
					}
				}
			}
		}
	}
	for _, fd := range p.AllFuncs() {
		info := fd.Pkg.TypesInfo
		ast.Inspect(fd.Decl.Body, func(n ast.Node) bool {
			fl, ok := n.(*ast.FuncLit)
			if !ok {
				return true
			}
			sig, _ := info.TypeOf(fl).(*types.Signature)
			if sig == nil || sig.Params().Len() != 1 || !types.Identical(sig, optType.Underlying()) {
				return true
			}
			if len(fl.Type.Params.List) != 1 || len(fl.Type.Params.List[0].Names) != 1 {
				return true
			}
			param := info.Defs[fl.Type.Params.List[0].Names[0]]
			ast.Inspect(fl.Body, func(m ast.Node) bool {
				ta, ok := m.(*ast.TypeAssertExpr)
				if !ok || ta.Type == nil {
					return true
				}
				if id, ok := ast.Unparen(ta.X).(*ast.Ident); !ok || info.Uses[id] != param {
					return true
				}
				t := info.TypeOf(ta.Type)
				if n, st := core.StructOf(t); n != nil && st != nil {
					out[n] = true
				} else if it, ok := t.Underlying().(*types.Interface); ok {
					for _, sn := range allStructs {
						if types.Implements(types.NewPointer(sn), it) {
							out[sn] = true
						}
					}
				}
				return true
			})
			return true
		})
	}
	return out
}

// valueSources lists the expressions a value can come from: a local variable
// stands for all of its definitions (at any depth), except nil, declarations
// without a value and assignments of the variable to itself; anything else
// stands for itself. nil result: a definition could not be followed.
func valueSources(info *types.Info, ld *core.LocalDefs, e ast.Expr, depth int) []ast.Expr {
	e = ast.Unparen(e)
	v := core.VarOf(info, e)
	if v == nil || v.IsField() || depth > 4 {
		return []ast.Expr{e}
	}
	defs := ld.All(v)
	if len(defs) == 0 {
		return []ast.Expr{e} // parameter or outer variable
	}
	var out []ast.Expr
	for _, d := range defs {
		if d.RHS == nil {
			if _, isDecl := d.Stmt.(*ast.ValueSpec); isDecl {
				continue
			}
			return nil
		}
		if _, isRange := d.Stmt.(*ast.RangeStmt); isRange {
			return nil
		}
		r := ast.Unparen(d.RHS)
		if core.IsNil(info, r) || core.VarOf(info, r) == v {
			continue
		}
		if d.N > 1 {
			// tuple definition: the call stands for the value only at position 0
			if d.Idx != 0 {
				return nil
			}
			out = append(out, r)
			continue
		}
		sub := valueSources(info, ld, r, depth+1)
		if sub == nil {
			return nil
		}
		out = append(out, sub...)
	}
	return out
}

// fieldStore is one place where a struct field is given a value: an assignment
// `x.F = v` or a member `F: v` of a composite literal.
type fieldStore struct {
	field *types.Var
	value ast.Expr
	pos   token.Pos
}

func fieldStores(info *types.Info, body ast.Node) []fieldStore {
	var out []fieldStore
	ast.Inspect(body, func(n ast.Node) bool {
		switch x := n.(type) {
		case *ast.AssignStmt:
			if len(x.Lhs) == len(x.Rhs) {
				for i, l := range x.Lhs {
					if f := core.FieldOf(info, l); f != nil {
						out = append(out, fieldStore{f, x.Rhs[i], x.Pos()})
					}
				}
			}
		case *ast.CompositeLit:
			_, st := core.StructOf(info.TypeOf(x))
			if st == nil {
				return true
			}
			for _, el := range x.Elts {
				kv, ok := el.(*ast.KeyValueExpr)
				if !ok {
					continue
				}
				if id, ok := kv.Key.(*ast.Ident); ok {
					for i := 0; i < st.NumFields(); i++ {
						if st.Field(i).Name() == id.Name {
							out = append(out, fieldStore{st.Field(i), kv.Value, kv.Pos()})
						}
					}
				}
			}
		}
		return true
	})
	return out
}

// wholeStructStores: `*recv = T{...}` overwrites every member of the receiver's
// struct: those not listed get their zero value, those listed the given one —
// except a member given its own current value (`Rounding: t.Rounding`), which
// is kept. It returns the members so written, with the statement's position.
func wholeStructStores(info *types.Info, body ast.Node, recv *types.Var) map[*types.Var]token.Pos {
	out := map[*types.Var]token.Pos{}
	if recv == nil || body == nil {
		return out
	}
	ast.Inspect(body, func(n ast.Node) bool {
		as, ok := n.(*ast.AssignStmt)
		if !ok || len(as.Lhs) != 1 || len(as.Rhs) != 1 || as.Tok != token.ASSIGN {
			return true
		}
		star, ok := ast.Unparen(as.Lhs[0]).(*ast.StarExpr)
		if !ok || core.VarOf(info, star.X) != recv {
			return true
		}
		cl, ok := ast.Unparen(as.Rhs[0]).(*ast.CompositeLit)
		if !ok {
			return true
		}
		_, st := core.StructOf(info.TypeOf(cl))
		if st == nil {
			return true
		}
		kept := map[string]bool{}
		for _, el := range cl.Elts {
			kv, ok := el.(*ast.KeyValueExpr)
			if !ok {
				return true // positional literal: every member is written
			}
			id, _ := kv.Key.(*ast.Ident)
			se, isSel := ast.Unparen(kv.Value).(*ast.SelectorExpr)
			if id != nil && isSel && se.Sel.Name == id.Name && core.VarOf(info, se.X) == recv {
				kept[id.Name] = true
			}
		}
		for i := 0; i < st.NumFields(); i++ {
			if !kept[st.Field(i).Name()] {
				out[st.Field(i)] = as.Pos()
			}
		}
		return true
	})
	return out
}
