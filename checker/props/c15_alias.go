package props

import (
	"fmt"
	"go/ast"
	"go/token"
	"go/types"
	"strings"

	"goblcheck/core"
)

// c15Aliases — C15-R5: R1 finds the writes that name a package-level variable.
// The same state can be reached through a local: `t := table; t[k] = v`, or —
// the memoising idiom — `base := cachedSchema()` with cachedSchema a
// package-level sync.OnceValue(s): every caller gets the same object, and a
// "copy" made with `*js = *base` still shares every map, slice and pointer
// member with it. Decided per run-time function, flow-insensitively: a local
// is *deep* when it is assigned a package-level reference (or a member or
// element of one, or the result of a package-level memoiser, or anything
// selected, indexed, ranged or returned by a method from a deep local), and
// *shallow* when it holds a struct copied out of a deep one; no store goes
// through a deep local, none through a reference-typed member of a shallow one,
// and no receiver-mutating method is called on either.
func c15Aliases(c *core.Ctx, cg *callers) {
	p := c.P
	c.Rule("C15-R5", "package-level state is not written through local aliases or shallow copies at run time", 10)
	// memoisers: package-level variables initialised with sync.OnceValue / OnceValues / OnceFunc
	memo := map[*types.Var]bool{}
	for _, pk := range p.Pkgs {
		if !core.InModule(pk.Types) {
			continue
		}
		for _, file := range pk.Syntax {
			if p.IsTestFile(file.Pos()) {
				continue
			}
			for _, d := range file.Decls {
				gd, ok := d.(*ast.GenDecl)
				if !ok || gd.Tok != token.VAR {
					continue
				}
				for _, sp := range gd.Specs {
					vs := sp.(*ast.ValueSpec)
					for i, nm := range vs.Names {
						if i >= len(vs.Values) {
							continue
						}
						call, ok := ast.Unparen(vs.Values[i]).(*ast.CallExpr)
						if !ok {
							continue
						}
						if fn := core.Callee(pk.TypesInfo, call); fn != nil && fn.Pkg() != nil && fn.Pkg().Path() == "sync" && strings.HasPrefix(fn.Name(), "Once") {
							if v, ok := pk.TypesInfo.Defs[nm].(*types.Var); ok {
								memo[v] = true
							}
						}
					}
				}
			}
		}
	}
	c.Extra("C15-R5_package_level_memoisers", len(memo))
	mutRecv := receiverMutators(p)
	nDeep := 0
	for _, fd := range p.AllFuncs() {
		if p.IsTestFile(fd.Decl.Pos()) || fd.Decl.Body == nil || cg.initOnly(fd.Obj) {
			continue
		}
		if strings.HasSuffix(p.RelFile(fd.Decl.Pos()), "mage.go") || strings.HasPrefix(core.RelPkg(fd.Obj.Pkg().Path()), "examples") {
			continue
		}
		info := fd.Pkg.TypesInfo
		deep := map[*types.Var]string{}
		shallow := map[*types.Var]string{}
		var isDeep func(e ast.Expr, depth int) string
		isDeep = func(e ast.Expr, depth int) string {
			e = ast.Unparen(e)
			if depth > 8 {
				return ""
			}
			switch x := e.(type) {
			case *ast.Ident:
				v, _ := info.Uses[x].(*types.Var)
				if v == nil {
					return ""
				}
				if isPkgVar(v) && core.InModule(v.Pkg()) && refLike(v.Type()) {
					return "package-level " + v.Name()
				}
				return deep[v]
			case *ast.SelectorExpr:
				if sel := info.Selections[x]; sel != nil {
					if sel.Kind() == types.FieldVal {
						if w := isDeep(x.X, depth+1); w != "" {
							return w
						}
						// a reference-typed member of a shallow copy is the original's
						if v := core.VarOf(info, x.X); v != nil && shallow[v] != "" && refLike(info.TypeOf(x)) {
							return shallow[v]
						}
						// a member of a package-level struct value
						if root := core.RootVar(info, x); isPkgVar(root) && core.InModule(root.Pkg()) && refLike(info.TypeOf(x)) {
							return "package-level " + root.Name()
						}
					}
					return ""
				}
				if v, ok := info.Uses[x.Sel].(*types.Var); ok && isPkgVar(v) && core.InModule(v.Pkg()) && refLike(v.Type()) {
					return "package-level " + v.Name()
				}
			case *ast.IndexExpr:
				return isDeep(x.X, depth+1)
			case *ast.SliceExpr:
				return isDeep(x.X, depth+1)
			case *ast.StarExpr:
				return isDeep(x.X, depth+1)
			case *ast.TypeAssertExpr:
				return isDeep(x.X, depth+1)
			case *ast.UnaryExpr:
				if x.Op == token.AND {
					return isDeep(x.X, depth+1)
				}
			case *ast.CallExpr:
				// a package-level memoiser
				var fv *types.Var
				switch f := ast.Unparen(x.Fun).(type) {
				case *ast.Ident:
					fv, _ = info.Uses[f].(*types.Var)
				case *ast.SelectorExpr:
					fv, _ = info.Uses[f.Sel].(*types.Var)
				}
				if fv != nil && memo[fv] {
					return "the memoised result of " + fv.Name()
				}
				// a method on a deep receiver hands out what the receiver holds
				if re := core.RecvExpr(x); re != nil {
					if w := isDeep(re, depth+1); w != "" {
						if fn := core.Callee(info, x); fn == nil || !core.InModule(fn.Pkg()) {
							return w
						}
					}
				}
			}
			return ""
		}
		// fixpoint over the locals
		for iter := 0; iter < 6; iter++ {
			changed := false
			set := func(m map[*types.Var]string, v *types.Var, why string) {
				if v != nil && !isPkgVar(v) && !v.IsField() && m[v] == "" && why != "" {
					m[v] = why
					changed = true
				}
			}
			ast.Inspect(fd.Decl.Body, func(n ast.Node) bool {
				switch s := n.(type) {
				case *ast.AssignStmt:
					for i, l := range s.Lhs {
						var rhs ast.Expr
						if len(s.Rhs) == len(s.Lhs) {
							rhs = s.Rhs[i]
						} else if i == 0 {
							rhs = s.Rhs[0]
						}
						if rhs == nil {
							continue
						}
						// *v = *deep : v holds a shallow copy
						if st, ok := ast.Unparen(l).(*ast.StarExpr); ok {
							if rs, ok := ast.Unparen(rhs).(*ast.StarExpr); ok {
								if w := isDeep(rs.X, 0); w != "" {
									set(shallow, core.VarOf(info, st.X), w)
								}
							}
							continue
						}
						v := core.VarOf(info, l)
						if v == nil {
							continue
						}
						if refLike(v.Type()) {
							set(deep, v, isDeep(rhs, 0))
						} else if structLike(v.Type()) {
							if rs, ok := ast.Unparen(rhs).(*ast.StarExpr); ok {
								set(shallow, v, isDeep(rs.X, 0))
							} else if w := isDeep(rhs, 0); w != "" {
								set(shallow, v, w) // an element or member held by value
							}
						}
					}
				case *ast.RangeStmt:
					if s.Value != nil {
						if v := core.VarOf(info, s.Value); v != nil {
							if w := isDeep(s.X, 0); w != "" {
								if refLike(v.Type()) {
									set(deep, v, w)
								} else if structLike(v.Type()) {
									set(shallow, v, w)
								}
							}
						}
					}
				}
				return true
			})
			if !changed {
				break
			}
		}
		nDeep += len(deep) + len(shallow)
		// a store goes through shared state when its path reaches a deep place
		through := func(l ast.Expr) string {
			l = ast.Unparen(l)
			switch x := l.(type) {
			case *ast.SelectorExpr:
				if core.FieldOf(info, x) == nil {
					return ""
				}
				if t := info.TypeOf(x.X); t != nil {
					if _, isPtr := t.Underlying().(*types.Pointer); isPtr {
						return isDeep(x.X, 0)
					}
				}
				// a field of a struct value: deep only if that value lives in a deep place
				if _, isID := ast.Unparen(x.X).(*ast.Ident); isID {
					return ""
				}
				return isDeep(x.X, 0)
			case *ast.IndexExpr:
				return isDeep(x.X, 0)
			case *ast.StarExpr:
				return isDeep(x.X, 0)
			}
			return ""
		}
		var firstPos token.Pos
		var msgs []string
		report := func(pos token.Pos, what, why string) {
			if !firstPos.IsValid() {
				firstPos = pos
			}
			msgs = append(msgs, fmt.Sprintf("%s, reached from %s", what, why))
		}
		ast.Inspect(fd.Decl.Body, func(n ast.Node) bool {
			switch s := n.(type) {
			case *ast.AssignStmt:
				for _, l := range s.Lhs {
					if root := core.RootVar(info, l); isPkgVar(root) {
						continue // R1's
					}
					if w := through(l); w != "" {
						report(s.Pos(), types.ExprString(l), w)
					}
				}
			case *ast.IncDecStmt:
				if root := core.RootVar(info, s.X); !isPkgVar(root) {
					if w := through(s.X); w != "" {
						report(s.Pos(), types.ExprString(s.X), w)
					}
				}
			case *ast.CallExpr:
				if id, ok := s.Fun.(*ast.Ident); ok && id.Name == "delete" && len(s.Args) == 2 {
					if root := core.RootVar(info, s.Args[0]); !isPkgVar(root) {
						if w := isDeep(s.Args[0], 0); w != "" {
							report(s.Pos(), "an entry of "+types.ExprString(s.Args[0]), w)
						}
					}
				}
				if fn := core.Callee(info, s); fn != nil {
					re := core.RecvExpr(s)
					if re == nil || fn.Type().(*types.Signature).Recv() == nil {
						return true
					}
					if root := core.RootVar(info, re); isPkgVar(root) {
						return true
					}
					mut := mutRecv[fn.Origin()]
					if !core.InModule(fn.Pkg()) {
						switch fn.Name() {
						case "Set", "Delete", "Store", "Add", "Put", "Remove", "Append", "Reset", "Clear", "Sort", "Write", "WriteString":
							if _, ptr := fn.Type().(*types.Signature).Recv().Type().(*types.Pointer); ptr {
								mut = true
							}
						}
					}
					if mut {
						if w := isDeep(re, 0); w != "" {
							report(s.Pos(), types.ExprString(re)+" (method "+fn.Name()+")", w)
						}
					}
				}
			}
			return true
		})
		if len(deep)+len(shallow) > 0 || len(msgs) > 0 {
			pos := fd.Decl.Pos()
			if firstPos.IsValid() {
				pos = firstPos
			}
			if len(msgs) > 3 {
				msgs = append(msgs[:3], "…")
			}
			c.Ob("C15-R5", fd.Name()+"#no-store-through-alias", pos, len(msgs) == 0,
				fmt.Sprintf("%s writes %s — state every goroutine and every later call shares: concurrent operations race on it, and a result depends on what ran before", fd.Name(), strings.Join(msgs, "; ")))
		}
	}
	c.Ob("C15-R5", "aliases#found", token.NoPos, nDeep >= 5, fmt.Sprintf("only %d locals holding package-level state were found", nDeep))
	c.Extra("C15-R5_locals_holding_package_level_state", nDeep)
}

// receiverMutators: module methods that store into their receiver, or call one that does.
func receiverMutators(p *core.Program) map[*types.Func]bool {
	mutRecv := map[*types.Func]bool{}
	for changed := true; changed; {
		changed = false
		for _, fd := range p.AllFuncs() {
			recv := recvVar(fd)
			if recv == nil || mutRecv[fd.Obj] || fd.Decl.Body == nil {
				continue
			}
			info := fd.Pkg.TypesInfo
			mut := false
			ast.Inspect(fd.Decl.Body, func(n ast.Node) bool {
				switch s := n.(type) {
				case *ast.AssignStmt:
					for _, l := range s.Lhs {
						if _, isID := ast.Unparen(l).(*ast.Ident); !isID && core.RootVar(info, l) == recv {
							if _, isPtr := recv.Type().(*types.Pointer); isPtr {
								mut = true
							} else if _, isMap := recv.Type().Underlying().(*types.Map); isMap {
								mut = true
							}
						}
					}
				case *ast.CallExpr:
					if fn := core.Callee(info, s); fn != nil && mutRecv[fn.Origin()] && core.RootVar(info, core.RecvExpr(s)) == recv {
						mut = true
					}
					if id, ok := s.Fun.(*ast.Ident); ok && id.Name == "delete" && len(s.Args) == 2 && core.RootVar(info, s.Args[0]) == recv {
						mut = true
					}
				}
				return true
			})
			if mut {
				mutRecv[fd.Obj] = true
				changed = true
			}
		}
	}
	return mutRecv
}
