package props

import (
	"fmt"
	"go/ast"
	"go/token"
	"go/types"

	"goblcheck/core"
)

// rateAmountFromBase: in the tax summary calculation every `X.Amount =
// X.Percent.Of(arg)` on a rate row (and on its surcharge) takes as argument the
// row's own stored Base, unchanged — not a rescaled or otherwise derived copy.
// The presented amount is then the percentage of the presented base rounded
// once; a base with extra working decimals makes it a value rounded twice
// under the 'currency' rule.
func rateAmountFromBase(c *core.Ctx, rule string) {
	p := c.P
	n := 0
	for _, fd := range p.Funcs(p.Pkg("tax")) {
		info := fd.Pkg.TypesInfo
		ld := core.NewLocalDefs(info, fd.Decl.Body)
		ast.Inspect(fd.Decl.Body, func(m ast.Node) bool {
			as, ok := m.(*ast.AssignStmt)
			if !ok || len(as.Lhs) != 1 || len(as.Rhs) != 1 {
				return true
			}
			lf := core.FieldOf(info, as.Lhs[0])
			if lf == nil || lf.Name() != "Amount" {
				return true
			}
			rhs := ast.Unparen(as.Rhs[0])
			// a local with exactly one definition stands for its definition
			if v := core.VarOf(info, rhs); v != nil && !v.IsField() {
				if defs := ld.All(v); len(defs) == 1 && defs[0].RHS != nil && defs[0].N == 1 {
					rhs = ast.Unparen(defs[0].RHS)
				}
			}
			call, ok := rhs.(*ast.CallExpr)
			if !ok || len(call.Args) != 1 {
				return true
			}
			fn := core.Callee(info, call)
			if fn == nil || fn.Name() != "Of" || core.RecvNamed(fn) == nil || core.RecvNamed(fn).Obj().Name() != "Percentage" {
				return true
			}
			row := core.RootVar(info, as.Lhs[0])
			if row == nil {
				return true
			}
			if n0, _ := core.StructOf(row.Type()); n0 == nil || n0.Obj().Name() != "RateTotal" {
				return true
			}
			n++
			arg := ast.Unparen(call.Args[0])
			// a local with exactly one definition stands for its definition
			if v := core.VarOf(info, arg); v != nil && !v.IsField() {
				defs := ld.All(v)
				if len(defs) == 1 && defs[0].RHS != nil {
					arg = ast.Unparen(defs[0].RHS)
				}
			}
			ok2 := core.IsFieldOfVar(info, arg, row, "Base")
			c.Ob(rule, fmt.Sprintf("%s#%s-of-base", fd.Name(), types.ExprString(as.Lhs[0])), as.Pos(), ok2,
				fmt.Sprintf("%s is the percentage of `%s`, not of the row's stored Base: the presented amount is no longer the percentage of the presented base rounded once", types.ExprString(as.Lhs[0]), types.ExprString(arg)))
			return true
		})
	}
	if n < 2 {
		c.Ob(rule, "UNRESOLVED:rate-amounts", token.NoPos, false, fmt.Sprintf("only %d rate amount computations found in package tax", n))
	}
}
