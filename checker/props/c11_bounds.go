package props

import (
	"encoding/json"
	"fmt"
	"go/ast"
	"go/constant"
	"go/token"
	"go/types"
	"os"
	"path/filepath"
	"sort"
	"strings"

	"goblcheck/core"
)

// c11Bounds — C11-R7: a numeric or length bound that a published schema puts on
// a property (minimum, maximum, exclusiveMinimum, exclusiveMaximum, minLength,
// maxLength, minItems, maxItems) is enforced at least as strictly by the
// member's validation rules (validation.Min / Max / Length / RuneLength with
// constant arguments): otherwise the library accepts, and publishes, a value
// the schema rejects. Published bounds come from data/schemas; the struct is
// the type named like the $defs entry in the package named like the file's
// directory.
func c11Bounds(c *core.Ctx) {
	p := c.P
	c.Rule("C11-R7", "bounds published for a property are enforced by its validation rules", 0)
	root := filepath.Join(p.Repo, "data", "schemas")
	var files []string
	filepath.Walk(root, func(path string, info os.FileInfo, err error) error {
		if err == nil && !info.IsDir() && strings.HasSuffix(path, ".json") {
			files = append(files, path)
		}
		return nil
	})
	sort.Strings(files)
	keywords := []string{"minimum", "maximum", "exclusiveMinimum", "exclusiveMaximum", "minLength", "maxLength", "minItems", "maxItems"}
	n := 0
	for _, path := range files {
		b, err := readSubjectFile(path)
		if err != nil {
			continue
		}
		var doc struct {
			Defs map[string]struct {
				Properties map[string]map[string]json.RawMessage `json:"properties"`
			} `json:"$defs"`
		}
		if json.Unmarshal(b, &doc) != nil {
			continue
		}
		rel, _ := filepath.Rel(root, path)
		pkgRel := filepath.Dir(rel)
		if pkgRel == "." {
			pkgRel = ""
		}
		var defNames []string
		for d := range doc.Defs {
			defNames = append(defNames, d)
		}
		sort.Strings(defNames)
		for _, dn := range defNames {
			var props []string
			for pn := range doc.Defs[dn].Properties {
				props = append(props, pn)
			}
			sort.Strings(props)
			for _, pn := range props {
				for _, kw := range keywords {
					raw, ok := doc.Defs[dn].Properties[pn][kw]
					if !ok {
						continue
					}
					var bound float64
					if json.Unmarshal(raw, &bound) != nil {
						continue
					}
					n++
					key := fmt.Sprintf("%s/%s.%s#%s", pkgRel, dn, pn, kw)
					named := p.Named(pkgRel, dn)
					if named == nil {
						c.Undecided("C11-R7", key, token.NoPos, "no Go type named like this schema definition in package "+pkgRel)
						continue
					}
					st, _ := named.Underlying().(*types.Struct)
					var field *types.Var
					if st != nil {
						for i := 0; i < st.NumFields(); i++ {
							if jn, _ := core.JSONName(st.Tag(i), st.Field(i).Name()); jn == pn {
								field = st.Field(i)
							}
						}
					}
					if field == nil {
						c.Undecided("C11-R7", key, named.Obj().Pos(), "no struct member with that JSON name")
						continue
					}
					lo, hi, hasLo, hasHi, exLo, exHi := validatorBounds(p, named, field, strings.Contains(strings.ToLower(kw), "length") || strings.Contains(kw, "Items"))
					ok2, why := true, ""
					switch kw {
					case "minimum", "minLength", "minItems":
						if !hasLo || lo < bound {
							ok2, why = false, fmt.Sprintf("the schema requires at least %v, the validation rules %s", bound, describeBound(hasLo, lo, "at least"))
						}
					case "exclusiveMinimum":
						if !hasLo || lo < bound || (lo == bound && !exLo) {
							ok2, why = false, fmt.Sprintf("the schema requires more than %v, the validation rules %s", bound, describeBound(hasLo, lo, "at least"))
						}
					case "maximum", "maxLength", "maxItems":
						if !hasHi || hi > bound {
							ok2, why = false, fmt.Sprintf("the schema allows at most %v, the validation rules %s", bound, describeBound(hasHi, hi, "at most"))
						}
					case "exclusiveMaximum":
						if !hasHi || hi > bound || (hi == bound && !exHi) {
							ok2, why = false, fmt.Sprintf("the schema requires less than %v, the validation rules %s", bound, describeBound(hasHi, hi, "at most"))
						}
					}
					c.ObAt("C11-R7", key, "data/schemas/"+rel, ok2, fmt.Sprintf("%s.%s: %s — a value in between is valid for the library and is published, but does not conform to the published schema", core.TypeName(named), field.Name(), why))
				}
			}
		}
	}
	c.Extra("C11-R7_published_property_bounds", n)
}

func describeBound(has bool, v float64, word string) string {
	if !has {
		return "set no such bound"
	}
	return fmt.Sprintf("%s %v", word, v)
}

// validatorBounds reads validation.Min / Max (numbers) or Length / RuneLength
// (lengths) with constant arguments from the rules the type's validator lists
// for the member.
func validatorBounds(p *core.Program, named *types.Named, field *types.Var, length bool) (lo, hi float64, hasLo, hasHi, exLo, exHi bool) {
	for _, mname := range []string{"Validate", "ValidateWithContext"} {
		obj, _, _ := types.LookupFieldOrMethod(types.NewPointer(named), true, named.Obj().Pkg(), mname)
		fn, _ := obj.(*types.Func)
		fd := p.DeclOf(fn)
		if fd == nil {
			continue
		}
		info := fd.Pkg.TypesInfo
		num := func(e ast.Expr) (float64, bool) {
			tv, ok := info.Types[e]
			if !ok || tv.Value == nil {
				return 0, false
			}
			f, _ := constant.Float64Val(constant.ToFloat(tv.Value))
			return f, true
		}
		for _, sv := range core.StructValidations(info, fd.Decl.Body) {
			for _, fr := range sv.Fields {
				if fr.Field != field || fr.Cond != nil {
					continue
				}
				for _, r := range fr.Rules {
					excl := false
					e := ast.Unparen(r)
					// Min(x).Exclusive()
					if call, ok := e.(*ast.CallExpr); ok {
						if se, ok := call.Fun.(*ast.SelectorExpr); ok && se.Sel.Name == "Exclusive" {
							excl = true
							e = ast.Unparen(se.X)
						}
					}
					call, ok := e.(*ast.CallExpr)
					if !ok {
						continue
					}
					cf := core.Callee(info, call)
					if cf == nil || cf.Pkg() == nil || !strings.HasSuffix(cf.Pkg().Path(), "/validation") {
						continue
					}
					switch {
					case !length && cf.Name() == "Min" && len(call.Args) == 1:
						if v, ok := num(call.Args[0]); ok {
							lo, hasLo, exLo = v, true, excl
						}
					case !length && cf.Name() == "Max" && len(call.Args) == 1:
						if v, ok := num(call.Args[0]); ok {
							hi, hasHi, exHi = v, true, excl
						}
					case length && (cf.Name() == "Length" || cf.Name() == "RuneLength") && len(call.Args) == 2:
						if v, ok := num(call.Args[0]); ok {
							lo, hasLo = v, true
						}
						if v, ok := num(call.Args[1]); ok && v > 0 {
							hi, hasHi = v, true
						}
					}
				}
			}
		}
	}
	return
}

// c11ShippedPatterns — C11-R9: a `pattern` that a shipped schema gives a type is
// the constant the type's JSONSchema method publishes (the one its reader or
// validator compiles, R2). Read from data/schemas/<pkg>/<type>.json ($defs
// entry named like the Go type) and from the Pattern member of the
// jsonschema.Schema literal in the type's JSONSchema method.
func c11ShippedPatterns(c *core.Ctx, rule string) {
	p := c.P
	c.Rule(rule, "type-level patterns in the shipped schemas are the constants the code publishes", 3)
	root := filepath.Join(p.Repo, "data", "schemas")
	var files []string
	filepath.Walk(root, func(path string, info os.FileInfo, err error) error {
		if err == nil && !info.IsDir() && strings.HasSuffix(path, ".json") {
			files = append(files, path)
		}
		return nil
	})
	sort.Strings(files)
	folder := &core.Folder{P: p}
	n := 0
	for _, path := range files {
		b, err := readSubjectFile(path)
		if err != nil {
			continue
		}
		var doc struct {
			Defs map[string]struct {
				Pattern string `json:"pattern"`
			} `json:"$defs"`
		}
		if json.Unmarshal(b, &doc) != nil {
			continue
		}
		rel, _ := filepath.Rel(root, path)
		pkgRel := filepath.Dir(rel)
		if pkgRel == "." {
			pkgRel = ""
		}
		var names []string
		for dn := range doc.Defs {
			names = append(names, dn)
		}
		sort.Strings(names)
		for _, dn := range names {
			shipped := doc.Defs[dn].Pattern
			if shipped == "" {
				continue
			}
			fd := p.Func(pkgRel, dn, "JSONSchema")
			if fd == nil {
				continue // published through struct tags or an extension hook: R2's business
			}
			var code string
			found := false
			ast.Inspect(fd.Decl.Body, func(m ast.Node) bool {
				kv, ok := m.(*ast.KeyValueExpr)
				if !ok {
					return true
				}
				if id, ok := kv.Key.(*ast.Ident); ok && id.Name == "Pattern" {
					if s, ok := folder.Fold(fd.Pkg, kv.Value).(string); ok {
						code, found = s, true
					}
				}
				return true
			})
			if !found {
				continue
			}
			n++
			c.ObAt(rule, fmt.Sprintf("%s/%s#pattern", pkgRel, dn), "data/schemas/"+rel, shipped == code,
				fmt.Sprintf("data/schemas/%s gives %s the pattern %q, the code publishes (and its reader enforces) %q: consumers of the shipped schema accept a different set of texts than the library", rel, dn, shipped, code))
		}
	}
	if n == 0 {
		c.Ob(rule, "UNRESOLVED:type-patterns", token.NoPos, false, "no type-level pattern could be paired with a JSONSchema method")
	}
}

// c11CurrencyEnum — C11-R10: currency.Code.Validate accepts the codes of the
// definitions loaded from data/currency/*.json at start-up, and
// Code.JSONSchema publishes one `const` per definition; the shipped
// data/schemas/currency/code.json must enumerate exactly those codes, or the
// library emits documents (currency "XCG") the published schema rejects —
// or the other way round.
func c11CurrencyEnum(c *core.Ctx, rule string) {
	p := c.P
	c.Rule(rule, "the shipped currency schema enumerates exactly the currency definitions the library loads", 2)
	dir := filepath.Join(p.Repo, "data", "currency")
	ents, err := os.ReadDir(dir)
	if err != nil {
		c.Ob(rule, "UNRESOLVED:data/currency", token.NoPos, false, "directory not readable")
		return
	}
	defs := map[string]bool{}
	for _, e := range ents {
		if e.IsDir() || !strings.HasSuffix(e.Name(), ".json") {
			continue
		}
		b, err := readSubjectFile(filepath.Join(dir, e.Name()))
		if err != nil {
			continue
		}
		var list []struct {
			ISOCode string `json:"iso_code"`
		}
		if json.Unmarshal(b, &list) != nil {
			c.Undecided(rule, "data/currency/"+e.Name(), token.NoPos, "not a list of currency definitions")
			continue
		}
		for _, d := range list {
			if d.ISOCode != "" {
				defs[d.ISOCode] = true
			}
		}
	}
	b, err := readSubjectFile(filepath.Join(p.Repo, "data", "schemas", "currency", "code.json"))
	if err != nil {
		c.Ob(rule, "UNRESOLVED:data/schemas/currency/code.json", token.NoPos, false, "file not readable")
		return
	}
	var doc struct {
		Defs map[string]struct {
			OneOf []struct {
				Const string `json:"const"`
			} `json:"oneOf"`
		} `json:"$defs"`
	}
	if json.Unmarshal(b, &doc) != nil {
		c.Ob(rule, "UNRESOLVED:data/schemas/currency/code.json", token.NoPos, false, "not a schema")
		return
	}
	enum := map[string]bool{}
	for _, o := range doc.Defs["Code"].OneOf {
		enum[o.Const] = true
	}
	var missing, extra []string
	for k := range defs {
		if !enum[k] {
			missing = append(missing, k)
		}
	}
	for k := range enum {
		if !defs[k] {
			extra = append(extra, k)
		}
	}
	sort.Strings(missing)
	sort.Strings(extra)
	c.ObAt(rule, "currency/Code#enum", "data/schemas/currency/code.json", len(missing) == 0 && len(extra) == 0 && len(defs) > 100,
		fmt.Sprintf("the library accepts %d currency codes (data/currency), the shipped schema enumerates %d; accepted but not published: %v; published but not accepted: %v", len(defs), len(enum), missing, extra))
}
