package props

import (
	"go/constant"
	"fmt"
	"go/ast"
	"go/token"
	"go/types"
	"sort"
	"strings"

	"goblcheck/core"
)

func init() { register("C14", C14) }

// C14 — no input crashes the library; failures are structured errors.
func C14(c *core.Ctx) {
	c.Explain("Decided, as exact crash/err shapes (general panic-freedom is undecidable and not claimed): (R1) every value handed to tax.Normalize — a nullable document member or the elements of a document array, which JSON may set to null — has a nil-receiver-safe Normalize method or is provably non-nil; (R2) every use of the definition of a currency code (Code.Def(), currency.Get) that is dereferenced is applied to a code that is a constant, a definition field, or was checked to be known on that path; (R3) no element is removed from a slice inside a range over that slice without leaving the loop; (R5) every panic() in library code is either initialisation-only or a documented Must*/impossible-dispatch site whose dispatch is complete; (R6) every error returned by the exported envelope/parse API of the root package is a keyed gobl error; (R7) the nullable members of a parsed envelope (head, doc) are never dereferenced by an exported Envelope method without a nil test on that path. Not decided: all other dereferences of optional members, arithmetic overflow, recursion depth, termination.")
	c.Rule("C14-R1", "values passed to tax.Normalize are nil-receiver-safe", 40)
	c.Rule("C14-R2", "dereferenced currency definitions come from checked/constant codes", 1)
	c.Rule("C14-R3", "no removal from a slice inside a range over it", 1)
	c.Rule("C14-R5", "panic sites are init-only, Must* or complete impossible-dispatch", 8)
	c.Rule("C14-R6", "root-package API errors are keyed", 10)
	c.Rule("C14-R7", "nullable envelope members are nil-tested before dereference in exported Envelope methods", 8)
	c14Normalize(c)
	c14Currency(c)
	c14RemoveInRange(c)
	c14Panics(c)
	c14KeyedErrors(c)
	c14EnvelopeMembers(c)
	c14Pow(c)
	c14NilElems(c)
	c14NilPointers(c)
	c14OptionalMembers(c)
	c14SelfPayload(c)
	c14FuncMembers(c)
	c14CurrencyExponents(c)
	c14DocNilElems(c)
	c14NilMapWrites(c)
	c14Assertions(c)
	// R13: the rate-row matching predicates dereference no nil percentage or surcharge on any
	// combination of present/absent members (the truth table of C02-R1 records such a use)
	c.Rule("C14-R13", "rate-row matching predicates dereference no nil member (from the C02-R1 truth table)", 2)
	subm := core.NewCtx("C02", c.Tier, c.Seed, c.P, c.VerifDir)
	subm.Quiet = true
	c02Matching(subm)
	for _, o := range subm.Obligations() {
		if o.Rule != "C02-R1" || !strings.HasSuffix(o.Key, "#truth-table") {
			continue
		}
		deref := !o.OK && strings.Contains(o.Msg, " used while ")
		c.ObAt("C14-R13", o.Key, o.Pos, !deref, "a combination of present and absent members makes the predicate dereference a nil pointer: "+o.Msg)
	}
}

// nilSafeReceiver decides whether every dereference of the receiver in a
// pointer-receiver method lies where `recv == nil` is known false. It returns
// "" when safe, else the first unguarded dereference.
func nilSafeReceiver(p *core.Program, fd *core.FuncDecl) string {
	recv := recvVar(fd)
	if recv == nil {
		return ""
	}
	if _, isPtr := recv.Type().(*types.Pointer); !isPtr {
		return "value receiver: calling it through a nil pointer dereferences"
	}
	info := fd.Pkg.TypesInfo
	ff := core.NewFuncFlow(fd)
	// the nil-test leaves of recv
	var leaves []ast.Expr
	ast.Inspect(fd.Decl.Body, func(n ast.Node) bool {
		be, ok := n.(*ast.BinaryExpr)
		if !ok || (be.Op != token.EQL && be.Op != token.NEQ) {
			return true
		}
		x, y := ast.Unparen(be.X), ast.Unparen(be.Y)
		if core.IsNil(info, x) {
			x, y = y, x
		}
		if core.IsNil(info, y) && core.VarOf(info, x) == recv {
			leaves = append(leaves, be)
		}
		return true
	})
	guardedAt := func(n ast.Node) bool {
		cn := ff.Flow.EnclosingNode(n)
		if cn == nil {
			return false
		}
		for _, l := range leaves {
			v, known := ff.Flow.CondAt(cn, l)
			if !known {
				continue
			}
			be := ast.Unparen(l).(*ast.BinaryExpr)
			if (be.Op == token.EQL && !v) || (be.Op == token.NEQ && v) {
				return true
			}
		}
		// short-circuit inside one condition: `recv != nil && recv.X`
		if shortCircuitGuard(info, fd.Decl.Body, n, recv) {
			return true
		}
		// `if recv == nil { recv = new(T) }` earlier in the body
		return nilBranchAssignsStr(info, fd.Decl.Body, n, recv.Name())
	}
	bad := ""
	ast.Inspect(fd.Decl.Body, func(n ast.Node) bool {
		if bad != "" {
			return false
		}
		switch x := n.(type) {
		case *ast.SelectorExpr:
			if core.VarOf(info, x.X) != recv {
				return true
			}
			sel := info.Selections[x]
			if sel == nil {
				return true
			}
			deref := false
			switch sel.Kind() {
			case types.FieldVal:
				deref = true
			case types.MethodVal:
				// calling a value-receiver method, or a promoted method through an embedded value, dereferences
				m := sel.Obj().(*types.Func)
				msig := m.Type().(*types.Signature)
				_, ptrRecv := msig.Recv().Type().(*types.Pointer)
				if !ptrRecv || len(sel.Index()) > 1 {
					deref = true
				} else if mfd := p.DeclOf(m); mfd != nil && m != fd.Obj {
					if why := nilSafeReceiverMemo(p, mfd); why != "" {
						deref = true
					}
				}
			}
			if deref && !guardedAt(x) {
				bad = fmt.Sprintf("%s at %s is evaluated without a nil test of the receiver on that path", types.ExprString(x), p.Rel(x.Pos()))
			}
		case *ast.StarExpr:
			if core.VarOf(info, x.X) == recv && !guardedAt(x) {
				bad = fmt.Sprintf("*%s at %s without a nil test", recv.Name(), p.Rel(x.Pos()))
			}
		}
		return true
	})
	return bad
}

var nilSafeMemo = map[*types.Func]*string{}

func nilSafeReceiverMemo(p *core.Program, fd *core.FuncDecl) string {
	if r, ok := nilSafeMemo[fd.Obj]; ok {
		if r == nil {
			return "" // in progress: assume safe for recursion
		}
		return *r
	}
	nilSafeMemo[fd.Obj] = nil
	r := nilSafeReceiver(p, fd)
	nilSafeMemo[fd.Obj] = &r
	return r
}

// shortCircuitGuard: n lies in the right operand of `v != nil && …` or of
// `v == nil || …`.
func shortCircuitGuard(info *types.Info, body ast.Node, n ast.Node, v *types.Var) bool {
	found := false
	ast.Inspect(body, func(m ast.Node) bool {
		be, ok := m.(*ast.BinaryExpr)
		if !ok || (be.Op != token.LAND && be.Op != token.LOR) {
			return true
		}
		if !(be.Y.Pos() <= n.Pos() && n.End() <= be.Y.End()) {
			return true
		}
		// does X contain the needed nil test as a conjunct/disjunct?
		var has func(e ast.Expr) bool
		has = func(e ast.Expr) bool {
			e = ast.Unparen(e)
			if b2, ok := e.(*ast.BinaryExpr); ok {
				if b2.Op == be.Op {
					return has(b2.X) || has(b2.Y)
				}
				want := token.NEQ
				if be.Op == token.LOR {
					want = token.EQL
				}
				if b2.Op == want {
					x, y := ast.Unparen(b2.X), ast.Unparen(b2.Y)
					if core.IsNil(info, x) {
						x, y = y, x
					}
					return core.IsNil(info, y) && core.VarOf(info, x) == v
				}
			}
			return false
		}
		if has(be.X) {
			found = true
		}
		return true
	})
	return found
}

// nilFilteringFunc: every element appended to the result is dominated by a
// non-nil test of that element (tax.CleanSet and friends).
func nilFilteringFunc(p *core.Program, fn *types.Func) bool {
	fd := p.DeclOf(fn)
	if fd == nil {
		return false
	}
	info := fd.Pkg.TypesInfo
	ff := core.NewFuncFlow(fd)
	ok := true
	n := 0
	ast.Inspect(fd.Decl.Body, func(m ast.Node) bool {
		call, isCall := m.(*ast.CallExpr)
		if !isCall {
			return true
		}
		id, isID := call.Fun.(*ast.Ident)
		if !isID || id.Name != "append" || len(call.Args) < 2 || call.Ellipsis != token.NoPos {
			return true
		}
		n++
		for _, a := range call.Args[1:] {
			v := core.VarOf(info, a)
			if v == nil {
				ok = false
				continue
			}
			guarded := false
			node := ff.Flow.EnclosingNode(call)
			for leaf, val := range ff.Flow.CondsAt(node) {
				g := core.GuardOf(info, leaf, ff.Errs)
				if g.Kind == "nil" && core.VarOf(info, g.X) == v && val == g.Neg {
					guarded = true
				}
				// `if v.IsEmpty() { continue }` where IsEmpty is true for a nil receiver
				if g.Kind == "bool" && !val && core.VarOf(info, core.RecvExpr(g.Call)) == v {
					if m := core.Callee(info, g.Call); m != nil && trueOnNilReceiver(p, m) {
						guarded = true
					}
				}
			}
			if !guarded {
				ok = false
			}
		}
		return true
	})
	return ok && n > 0
}

// trueOnNilReceiver: a bool method whose single return is `recv == nil || …`.
func trueOnNilReceiver(p *core.Program, m *types.Func) bool {
	fd := p.DeclOf(m)
	if fd == nil || len(fd.Decl.Body.List) != 1 {
		return false
	}
	r, ok := fd.Decl.Body.List[0].(*ast.ReturnStmt)
	if !ok || len(r.Results) != 1 {
		return false
	}
	info := fd.Pkg.TypesInfo
	recv := recvVar(fd)
	e := ast.Unparen(r.Results[0])
	for {
		be, ok := e.(*ast.BinaryExpr)
		if !ok {
			return false
		}
		if be.Op == token.LOR {
			e = ast.Unparen(be.X)
			continue
		}
		if be.Op == token.EQL {
			x, y := ast.Unparen(be.X), ast.Unparen(be.Y)
			if core.IsNil(info, x) {
				x, y = y, x
			}
			return core.IsNil(info, y) && core.VarOf(info, x) == recv
		}
		return false
	}
}

func c14Normalize(c *core.Ctx) {
	p := c.P
	normImpl := func(t types.Type) *types.Func {
		o, _, _ := types.LookupFieldOrMethod(t, true, nil, "Normalize")
		fn, _ := o.(*types.Func)
		if fn == nil {
			return nil
		}
		sig := fn.Type().(*types.Signature)
		if sig.Params().Len() != 1 || core.TypeString(sig.Params().At(0).Type()) != "tax.Normalizers" {
			return nil
		}
		return fn
	}
	sites := 0
	skipsNil := c14NormalizeSkipsNil(p)
	for _, fd := range p.AllFuncs() {
		info := fd.Pkg.TypesInfo
		var ff *core.FuncFlow
		var ld *core.LocalDefs
		for _, call := range core.CallsTo(info, fd.Decl.Body, func(f *types.Func) bool { return core.IsFunc(f, core.ModPath+"/tax", "", "Normalize") }) {
			if len(call.Args) != 2 {
				continue
			}
			arg := ast.Unparen(call.Args[1])
			t := info.TypeOf(arg)
			if t == nil {
				continue
			}
			elemNullable := false
			var target types.Type
			switch u := t.Underlying().(type) {
			case *types.Slice:
				if _, isPtr := u.Elem().(*types.Pointer); isPtr {
					target, elemNullable = u.Elem(), true
				}
			case *types.Pointer:
				target = t
			}
			if pt, ok := t.(*types.Pointer); ok {
				target = pt
			}
			if target == nil {
				continue
			}
			sites++
			fn := normImpl(target)
			key := fmt.Sprintf("%s#Normalize(%s)", fd.Name(), types.ExprString(arg))
			if fn == nil {
				// no Normalize method: tax.Normalize falls back to list.Each(doc) which only passes the value on
				c.Ob("C14-R1", key, call.Pos(), true, "")
				continue
			}
			if skipsNil {
				// tax.Normalize itself returns for a nil pointer before it calls anything on it
				c.Ob("C14-R1", key, call.Pos(), true, "")
				continue
			}
			// provably non-nil argument?
			if !elemNullable {
				if u, ok := arg.(*ast.UnaryExpr); ok && u.Op == token.AND {
					c.Ob("C14-R1", key, call.Pos(), true, "")
					continue
				}
				if ff == nil {
					ff = core.NewFuncFlow(fd)
				}
				nonNil := false
				if node := ff.Flow.EnclosingNode(call); node != nil {
					for leaf, val := range ff.Flow.CondsAt(node) {
						g := core.GuardOf(info, leaf, ff.Errs)
						if g.Kind == "nil" && sameExpr(g.X, arg) && val == g.Neg {
							nonNil = true
						}
					}
				}
				if nonNil {
					c.Ob("C14-R1", key, call.Pos(), true, "")
					continue
				}
			} else {
				// slice rebuilt by a nil-filtering helper earlier in this function?
				if ld == nil {
					ld = core.NewLocalDefs(info, fd.Decl.Body)
				}
				filtered := false
				ast.Inspect(fd.Decl.Body, func(m ast.Node) bool {
					as, ok := m.(*ast.AssignStmt)
					if !ok || len(as.Lhs) != 1 || len(as.Rhs) != 1 || as.Pos() > call.Pos() || !sameExpr(as.Lhs[0], arg) {
						return true
					}
					if cl, ok := ast.Unparen(as.Rhs[0]).(*ast.CallExpr); ok {
						if f := core.Callee(info, cl); f != nil && core.InModule(f.Pkg()) && nilFilteringFunc(p, f) {
							filtered = true
						}
					}
					return true
				})
				if filtered {
					c.Ob("C14-R1", key, call.Pos(), true, "")
					continue
				}
			}
			mfd := p.DeclOf(fn)
			if mfd == nil {
				c.Undecided("C14-R1", key, call.Pos(), "Normalize method has no body in the module")
				continue
			}
			why := nilSafeReceiverMemo(p, mfd)
			what := "a nullable document member"
			if elemNullable {
				what = "the elements of a document array (JSON null elements become nil pointers)"
			}
			c.Ob("C14-R1", key, call.Pos(), why == "",
				fmt.Sprintf("%s is passed to tax.Normalize, which calls %s on it even when nil, and that method is not nil-receiver-safe: %s", what, core.FuncName(fn), why))
		}
	}
	c.Extra("tax_normalize_call_sites", sites)
}

// c14NormalizeSkipsNil: tax.Normalize, evaluated for an argument that is a nil
// pointer inside a non-nil interface (what an element of a slice of pointers
// is), returns before it calls or hands on anything: reflect.ValueOf(doc) is of
// kind pointer and IsNil.
func c14NormalizeSkipsNil(p *core.Program) bool {
	fd := p.Func("tax", "", "Normalize")
	if fd == nil {
		return false
	}
	info := fd.Pkg.TypesInfo
	sig := fd.Obj.Type().(*types.Signature)
	if sig.Params().Len() != 2 {
		return false
	}
	doc := sig.Params().At(1)
	ptrKind := int64(-1)
	if rp := reflectConst("Ptr"); rp >= 0 {
		ptrKind = rp
	}
	called := false
	ev := &core.AbsEval{Info: info}
	ev.Atom = func(e ast.Expr) (any, bool) {
		e = ast.Unparen(e)
		switch x := e.(type) {
		case *ast.BinaryExpr:
			if x.Op == token.EQL || x.Op == token.NEQ {
				l, r := ast.Unparen(x.X), ast.Unparen(x.Y)
				if core.IsNil(info, l) {
					l, r = r, l
				}
				if core.IsNil(info, r) && core.VarOf(info, l) == doc {
					return x.Op == token.NEQ, true // the interface itself is not nil
				}
			}
		case *ast.CallExpr:
			fn := core.Callee(info, x)
			if fn == nil || fn.Pkg() == nil || fn.Pkg().Path() != "reflect" {
				return nil, false
			}
			switch fn.Name() {
			case "ValueOf":
				if len(x.Args) == 1 && core.VarOf(info, x.Args[0]) == doc {
					return "reflect-value-of-doc", true
				}
			case "Kind", "IsNil":
				if rv, ok := ev.Eval(core.RecvExpr(x)); ok && rv == any("reflect-value-of-doc") {
					if fn.Name() == "IsNil" {
						return true, true
					}
					return ptrKind, ptrKind >= 0
				}
			}
		}
		return nil, false
	}
	ev.Effect = func(*ast.CallExpr) bool { called = true; return true }
	_, reached := ev.Run(fd.Decl.Body)
	return reached && !called
}

// reflectConst gives the value of reflect.<name> (a Kind constant).
func reflectConst(name string) int64 {
	if subject == nil {
		return -1
	}
	for _, pk := range subject.Pkgs {
		for _, imp := range pk.Imports {
			if imp.PkgPath == "reflect" && imp.Types != nil {
				if c, ok := imp.Types.Scope().Lookup(name).(*types.Const); ok {
					if v, ok := constant.Int64Val(c.Val()); ok {
						return v
					}
				}
			}
		}
	}
	return -1
}

func c14RemoveInRange(c *core.Ctx) {
	p := c.P
	n := 0
	for _, fd := range p.AllFuncs() {
		info := fd.Pkg.TypesInfo
		ast.Inspect(fd.Decl.Body, func(m ast.Node) bool {
			rs, ok := m.(*ast.RangeStmt)
			if !ok {
				return true
			}
			if _, isSlice := info.TypeOf(rs.X).Underlying().(*types.Slice); !isSlice {
				return true
			}
			n++
			// s = append(s[:i], s[i+1:]...) with s the ranged expression
			ast.Inspect(rs.Body, func(k ast.Node) bool {
				as, ok := k.(*ast.AssignStmt)
				if !ok || len(as.Lhs) != 1 || len(as.Rhs) != 1 || !sameExpr(as.Lhs[0], rs.X) {
					return true
				}
				call, ok := ast.Unparen(as.Rhs[0]).(*ast.CallExpr)
				if !ok || call.Ellipsis == token.NoPos || len(call.Args) != 2 {
					return true
				}
				if id, ok := call.Fun.(*ast.Ident); !ok || id.Name != "append" {
					return true
				}
				s1, ok1 := ast.Unparen(call.Args[0]).(*ast.SliceExpr)
				s2, ok2 := ast.Unparen(call.Args[1]).(*ast.SliceExpr)
				if !ok1 || !ok2 || !sameExpr(s1.X, rs.X) || !sameExpr(s2.X, rs.X) {
					return true
				}
				// followed at once by break/return in the same block?
				leaves := false
				if blk := innermostBlock(fd.Decl.Body, as); blk != nil && len(blk.List) > 0 {
					// the block that removes must end by leaving the loop, with nothing
					// in between that could continue it
					switch nx := blk.List[len(blk.List)-1].(type) {
					case *ast.BranchStmt:
						leaves = nx.Tok == token.BREAK && nx.Label == nil
					case *ast.ReturnStmt:
						leaves = true
					}
					for _, s := range blk.List {
						if s.Pos() > as.End() {
							ast.Inspect(s, func(q ast.Node) bool {
								if b, ok := q.(*ast.BranchStmt); ok && b.Tok == token.CONTINUE {
									leaves = false
								}
								return true
							})
						}
					}
				}
				c.Ob("C14-R3", fmt.Sprintf("%s#remove-in-range:%s", fd.Name(), types.ExprString(rs.X)), as.Pos(), leaves,
					"an element is removed from the slice being ranged over and the loop goes on: the range keeps the old length, so a second removal indexes past the shortened slice (slice bounds panic) and elements are skipped")
				return true
			})
			return true
		})
	}
	c.Extra("range_over_slice_loops_scanned", n)
	if c.Count("C14-R3") == 0 {
		c.Ob("C14-R3", "module#no-removal-in-range", token.NoPos, n > 300, fmt.Sprintf("only %d range loops scanned", n))
	}
}

func c14Panics(c *core.Ctx) {
	p := c.P
	cg := (*callers)(nil)
	for _, fd := range p.AllFuncs() {
		info := fd.Pkg.TypesInfo
		rel := core.RelPkg(fd.Obj.Pkg().Path())
		if strings.HasPrefix(rel, "examples") || rel == "gobl" && strings.HasSuffix(p.RelFile(fd.Decl.Pos()), "mage.go") {
			continue
		}
		idx := 0
		ast.Inspect(fd.Decl.Body, func(m ast.Node) bool {
			call, ok := m.(*ast.CallExpr)
			if !ok {
				return true
			}
			id, ok := call.Fun.(*ast.Ident)
			if !ok || id.Name != "panic" {
				return true
			}
			if _, isB := info.Uses[id].(*types.Builtin); !isB {
				return true
			}
			idx++
			key := fmt.Sprintf("%s#panic%d", fd.Name(), idx)
			if cg == nil {
				cg = buildCallers(p)
			}
			// (a) init-only
			if cg.initOnly(fd.Obj) {
				c.Ob("C14-R5", key, call.Pos(), true, "")
				return true
			}
			// (b) Must* API: documented to panic; must not be called from module runtime code
			if strings.HasPrefix(fd.Obj.Name(), "Must") || strings.HasPrefix(fd.Obj.Name(), "must") {
				var bad []string
				for _, cl := range cg.callersOf(fd.Obj) {
					if !cg.initOnly(cl) && !strings.HasPrefix(cl.Name(), "Must") {
						bad = append(bad, core.FuncName(cl))
					}
				}
				sort.Strings(bad)
				c.Ob("C14-R5", key, call.Pos(), len(bad) == 0, "a Must* function that panics is called from runtime code: "+strings.Join(bad, ", "))
				return true
			}
			// (c) impossible panic after a complete type dispatch over what the producer can return
			if why, decided := dispatchComplete(p, fd, call); decided {
				c.Ob("C14-R5", key, call.Pos(), why == "", "panic after a type dispatch that does not cover every type its producer can return: "+why)
				return true
			}
			c.Ob("C14-R5", key, call.Pos(), panicAllowed[key] != "", "panic reachable from runtime code that is neither initialisation-only nor a Must* function nor a reviewed impossible-dispatch site")
			if panicAllowed[key] != "" {
				c.Note("reviewed panic site %s: %s", key, panicAllowed[key])
			}
			return true
		})
	}
}

// panicAllowed lists the reviewed runtime-reachable panic sites, one symbol
// each with the reason the panic cannot fire on any input.
var panicAllowed = map[string]string{
	"note.(Message).JSONSchemaExtend#panic1": "unmarshals a constant JSON literal compiled into the binary; reachable only from schema generation, not from document input",
	"uuid.SetRandomNodeID#panic1":            "start-up helper with no caller in the module; panics only when the system random source fails, not on any input",
}

// dispatchComplete decides a panic that follows type assertions on a value
// produced by a module function returning (interface{}, error): the set of
// static types of that function's non-nil results must be covered by the
// assertions made on every path to the panic. A result that the producer only
// returns when a boolean option field is false is discounted when the caller
// sets that field to true before the call.
func dispatchComplete(p *core.Program, fd *core.FuncDecl, panicCall *ast.CallExpr) (string, bool) {
	info := fd.Pkg.TypesInfo
	ld := core.NewLocalDefs(info, fd.Decl.Body)
	// type assertions with their subjects
	type ta struct {
		v *types.Var
		t types.Type
	}
	var tas []ta
	ast.Inspect(fd.Decl.Body, func(n ast.Node) bool {
		if x, ok := n.(*ast.TypeAssertExpr); ok && x.Type != nil && x.Pos() < panicCall.Pos() {
			if v := core.VarOf(info, x.X); v != nil {
				tas = append(tas, ta{v, info.TypeOf(x.Type)})
			}
		}
		return true
	})
	// a type switch whose default clause holds the panic: the clause types are what was covered
	ast.Inspect(fd.Decl.Body, func(n ast.Node) bool {
		ts, ok := n.(*ast.TypeSwitchStmt)
		if !ok || !(ts.Pos() <= panicCall.Pos() && panicCall.End() <= ts.End()) {
			return true
		}
		var subjExpr ast.Expr
		switch a := ts.Assign.(type) {
		case *ast.AssignStmt:
			if t, ok := ast.Unparen(a.Rhs[0]).(*ast.TypeAssertExpr); ok {
				subjExpr = t.X
			}
		case *ast.ExprStmt:
			if t, ok := ast.Unparen(a.X).(*ast.TypeAssertExpr); ok {
				subjExpr = t.X
			}
		}
		v := core.VarOf(info, subjExpr)
		if v == nil {
			return true
		}
		inDefault := false
		for _, cc := range ts.Body.List {
			cl := cc.(*ast.CaseClause)
			if cl.List == nil && cl.Pos() <= panicCall.Pos() && panicCall.End() <= cl.End() {
				inDefault = true
			}
		}
		if !inDefault {
			return true
		}
		for _, cc := range ts.Body.List {
			for _, te := range cc.(*ast.CaseClause).List {
				if t := info.TypeOf(te); t != nil {
					tas = append(tas, ta{v, t})
				}
			}
		}
		return true
	})
	// a type switch without default that stands before the panic and whose every clause leaves
	// the function: the panic is what remains when no clause applied
	ast.Inspect(fd.Decl.Body, func(n ast.Node) bool {
		ts, ok := n.(*ast.TypeSwitchStmt)
		if !ok || ts.End() > panicCall.Pos() {
			return true
		}
		var subjExpr ast.Expr
		switch a := ts.Assign.(type) {
		case *ast.AssignStmt:
			if t, ok := ast.Unparen(a.Rhs[0]).(*ast.TypeAssertExpr); ok {
				subjExpr = t.X
			}
		case *ast.ExprStmt:
			if t, ok := ast.Unparen(a.X).(*ast.TypeAssertExpr); ok {
				subjExpr = t.X
			}
		}
		v := core.VarOf(info, subjExpr)
		if v == nil {
			return true
		}
		for _, cc := range ts.Body.List {
			cl := cc.(*ast.CaseClause)
			if cl.List == nil || len(cl.Body) == 0 {
				return true
			}
			switch last := cl.Body[len(cl.Body)-1].(type) {
			case *ast.ReturnStmt:
			case *ast.ExprStmt:
				if call, ok := last.X.(*ast.CallExpr); !ok {
					return true
				} else if id, ok := call.Fun.(*ast.Ident); !ok || id.Name != "panic" {
					return true
				}
			default:
				return true
			}
		}
		for _, cc := range ts.Body.List {
			for _, te := range cc.(*ast.CaseClause).List {
				if t := info.TypeOf(te); t != nil {
					tas = append(tas, ta{v, t})
				}
			}
		}
		return true
	})
	if len(tas) == 0 {
		return "", false
	}
	subj := tas[len(tas)-1].v
	// the subject is a parameter of an unexported function: every call site must hand in the
	// result of a producer whose results are covered
	var pcall *ast.CallExpr
	cinfo := info
	cfdecl := fd
	if idx, isParam := paramIndex(fd.Obj, subj); isParam && idx >= 0 && !fd.Obj.Exported() {
		var sites []*ast.CallExpr
		var siteFds []*core.FuncDecl
		for _, ofd := range p.Funcs(fd.Pkg) {
			if ofd.Decl.Body == nil || p.IsTestFile(ofd.Decl.Pos()) {
				continue
			}
			ofd := ofd
			ast.Inspect(ofd.Decl.Body, func(n ast.Node) bool {
				if call, ok := n.(*ast.CallExpr); ok && core.Callee(info, call) == fd.Obj {
					sites = append(sites, call)
					siteFds = append(siteFds, ofd)
				}
				return true
			})
		}
		if len(sites) != 1 || idx >= len(sites[0].Args) {
			return "", false
		}
		av := core.VarOf(info, sites[0].Args[idx])
		if av == nil {
			return "", false
		}
		cfdecl = siteFds[0]
		cld := core.NewLocalDefs(info, cfdecl.Decl.Body)
		d, ok := cld.Before(av, sites[0].Pos())
		if !ok || d.RHS == nil {
			return "", false
		}
		pcall, _ = ast.Unparen(d.RHS).(*ast.CallExpr)
	} else {
		d, ok := ld.Before(subj, panicCall.Pos())
		if !ok || d.RHS == nil {
			return "", false
		}
		pcall, _ = ast.Unparen(d.RHS).(*ast.CallExpr)
	}
	if pcall == nil {
		return "", false
	}
	_ = cinfo
	prod := core.Callee(info, pcall)
	pfd := p.DeclOf(prod)
	if pfd == nil {
		return "", false
	}
	covered := func(t types.Type) bool {
		for _, a := range tas {
			if a.v == subj && types.Identical(a.t, t) {
				return true
			}
		}
		return false
	}
	pinfo := pfd.Pkg.TypesInfo
	pff := core.NewFuncFlow(pfd)
	cff := core.NewFuncFlow(cfdecl)
	why := ""
	for _, r := range pff.Flow.Returns() {
		if !pff.Flow.Reachable(r) || len(r.Results) != 2 || core.IsNil(pinfo, r.Results[0]) {
			continue
		}
		t := pinfo.TypeOf(r.Results[0])
		if _, isIface := t.Underlying().(*types.Interface); isIface {
			return "the producer returns a value of interface type at " + p.Rel(r.Pos()), true
		}
		if covered(t) {
			continue
		}
		// conditional on a boolean option field being false?
		discounted := false
		for leaf, val := range pff.Flow.CondsAt(r) {
			f := core.FieldOf(pinfo, leaf)
			if f == nil || val {
				continue
			}
			// caller sets that field to true before the call
			node := cff.Flow.EnclosingNode(pcall)
			for as := range cff.Flow.AssignsPassedAt(node) {
				if len(as.Lhs) == 1 && core.FieldOf(info, as.Lhs[0]) == f {
					if tv, ok := info.Types[as.Rhs[0]]; ok && tv.Value != nil && tv.Value.String() == "true" {
						discounted = true
					}
				}
			}
		}
		if !discounted {
			why = fmt.Sprintf("%s can return %s (at %s), which no type assertion before the panic handles", core.FuncName(prod), core.TypeString(t), p.Rel(r.Pos()))
		}
	}
	return why, true
}

// callers is a static caller index over module functions.
type callers struct {
	p       *core.Program
	callers map[*types.Func][]*types.Func
	roots   map[*types.Func]bool // referenced from package initialisers (var decls / init funcs)
	runtime map[*types.Func]bool
	// valueRefs: functions used as values somewhere (normalisers, validators, filters)
	valueRefs map[*types.Func]bool
	concrete  []*types.Named
}

// forward: everything the given functions reach through static references,
// function values and the implementations of module interface methods.
func (cg *callers) forward(roots []*types.Func) map[*types.Func]bool {
	p := cg.p
	out := map[*types.Func]bool{}
	var work []*types.Func
	mark := func(f *types.Func) {
		if !out[f] {
			out[f] = true
			work = append(work, f)
		}
	}
	for _, r := range roots {
		mark(r)
	}
	ifaceDone := map[*types.Func]bool{}
	for len(work) > 0 {
		f := work[0]
		work = work[1:]
		for _, g := range p.FuncRefs(f) {
			if !core.InModule(g.Pkg()) {
				continue
			}
			mark(g)
			sig := g.Type().(*types.Signature)
			if sig.Recv() == nil || ifaceDone[g] {
				continue
			}
			it, isIface := sig.Recv().Type().Underlying().(*types.Interface)
			if !isIface {
				continue
			}
			ifaceDone[g] = true
			for _, n := range cg.concrete {
				for _, t := range []types.Type{n, types.NewPointer(n)} {
					if !types.Implements(t, it) {
						continue
					}
					if m, _, _ := types.LookupFieldOrMethod(t, true, g.Pkg(), g.Name()); m != nil {
						if mf, ok := m.(*types.Func); ok && core.InModule(mf.Pkg()) && p.DeclOf(mf.Origin()) != nil {
							mark(mf.Origin())
						}
					}
					break
				}
			}
		}
	}
	return out
}

func buildCallers(p *core.Program) *callers {
	cg := &callers{p: p, callers: map[*types.Func][]*types.Func{}, roots: map[*types.Func]bool{}, runtime: map[*types.Func]bool{}, valueRefs: map[*types.Func]bool{}}
	all := p.AllFuncs()
	for _, fd := range all {
		for _, g := range p.FuncRefs(fd.Obj) {
			if core.InModule(g.Pkg()) {
				cg.callers[g] = append(cg.callers[g], fd.Obj)
			}
		}
	}
	// runtime roots: exported functions/methods (not Register*/Must*), main, and anything referenced by a function value in a composite literal (Validator: fn)
	var work []*types.Func
	mark := func(f *types.Func) {
		if !cg.runtime[f] {
			cg.runtime[f] = true
			work = append(work, f)
		}
	}
	for _, fd := range all {
		name := fd.Obj.Name()
		if name == "init" {
			continue
		}
		if fd.Obj.Exported() && !strings.HasPrefix(name, "Register") && !strings.HasPrefix(name, "Must") {
			mark(fd.Obj)
		}
		if name == "main" {
			mark(fd.Obj)
		}
	}
	// function values stored in package-level variable initialisers are reachable at run time
	for _, pk := range p.Pkgs {
		for _, file := range pk.Syntax {
			if p.IsTestFile(file.Pos()) {
				continue
			}
			for _, d := range file.Decls {
				gd, ok := d.(*ast.GenDecl)
				if !ok || gd.Tok != token.VAR {
					continue
				}
				ast.Inspect(gd, func(n ast.Node) bool {
					switch x := n.(type) {
					case *ast.CallExpr:
						// calls in var initialisers run at init: their callees are init roots
						if fn := core.Callee(pk.TypesInfo, x); fn != nil && core.InModule(fn.Pkg()) {
							cg.roots[fn] = true
						}
					}
					return true
				})
			}
		}
	}
	// a function used as a value (Normalizer: normalize, validation.By(fn), a
	// method value) can be invoked at any later time, wherever the reference
	// itself is evaluated — the regime and addon definitions built during
	// initialisation hold their normalisers and validators this way
	for _, pk := range p.Pkgs {
		if !core.InModule(pk.Types) {
			continue
		}
		for _, file := range pk.Syntax {
			if p.IsTestFile(file.Pos()) {
				continue
			}
			callFun := map[*ast.Ident]bool{}
			ast.Inspect(file, func(n ast.Node) bool {
				if call, ok := n.(*ast.CallExpr); ok {
					switch f := ast.Unparen(call.Fun).(type) {
					case *ast.Ident:
						callFun[f] = true
					case *ast.SelectorExpr:
						callFun[f.Sel] = true
					case *ast.IndexExpr:
						if id, ok := f.X.(*ast.Ident); ok {
							callFun[id] = true
						}
					}
				}
				return true
			})
			ast.Inspect(file, func(n ast.Node) bool {
				id, ok := n.(*ast.Ident)
				if !ok || callFun[id] {
					return true
				}
				if f, ok := pk.TypesInfo.Uses[id].(*types.Func); ok && core.InModule(f.Pkg()) {
					if p.DeclOf(f.Origin()) != nil {
						mark(f.Origin())
						cg.valueRefs[f.Origin()] = true
					}
				}
				return true
			})
		}
	}
	// concrete methods behind a module interface's method
	var concrete []*types.Named
	for _, pk := range p.Pkgs {
		if !core.InModule(pk.Types) {
			continue
		}
		sc := pk.Types.Scope()
		for _, nm := range sc.Names() {
			if tn, ok := sc.Lookup(nm).(*types.TypeName); ok && !tn.IsAlias() {
				if n, ok := tn.Type().(*types.Named); ok && n.TypeParams().Len() == 0 {
					if _, isIface := n.Underlying().(*types.Interface); !isIface {
						concrete = append(concrete, n)
					}
				}
			}
		}
	}
	cg.concrete = concrete
	ifaceDone := map[*types.Func]bool{}
	for len(work) > 0 {
		f := work[0]
		work = work[1:]
		for _, g := range p.FuncRefs(f) {
			if !core.InModule(g.Pkg()) || strings.HasPrefix(g.Name(), "Must") {
				continue
			}
			mark(g)
			sig := g.Type().(*types.Signature)
			if sig.Recv() == nil || ifaceDone[g] {
				continue
			}
			it, isIface := sig.Recv().Type().Underlying().(*types.Interface)
			if !isIface {
				continue
			}
			ifaceDone[g] = true
			for _, n := range concrete {
				for _, t := range []types.Type{n, types.NewPointer(n)} {
					if !types.Implements(t, it) {
						continue
					}
					if m, _, _ := types.LookupFieldOrMethod(t, true, g.Pkg(), g.Name()); m != nil {
						if mf, ok := m.(*types.Func); ok && core.InModule(mf.Pkg()) && p.DeclOf(mf.Origin()) != nil {
							mark(mf.Origin())
						}
					}
					break
				}
			}
		}
	}
	return cg
}

func (cg *callers) callersOf(f *types.Func) []*types.Func { return cg.callers[f] }

// initOnly: not reachable from any runtime root.
func (cg *callers) initOnly(f *types.Func) bool { return !cg.runtime[f] }

// c14KeyedErrors: exported functions and methods of the root package return
// keyed errors only.
func c14KeyedErrors(c *core.Ctx) {
	p := c.P
	root := p.Pkg("")
	errType := p.Named("", "Error")
	keyed := map[*types.Func]int{} // 1 yes 2 no 3 in progress
	var isKeyed func(fd *core.FuncDecl) (bool, string)
	isKeyedExpr := func(ff *core.FuncFlow, at ast.Node, e ast.Expr) (bool, string) {
		info := ff.Info
		e = ast.Unparen(e)
		if core.IsNil(info, e) {
			return true, ""
		}
		t := info.TypeOf(e)
		if pt, ok := t.(*types.Pointer); ok && pt.Elem() == types.Type(errType) {
			return true, ""
		}
		if call, ok := e.(*ast.CallExpr); ok {
			fn := core.Callee(info, call)
			if fn != nil && fn.Pkg() == root.Types {
				if fn.Name() == "wrapError" {
					return true, ""
				}
				if cfd := p.DeclOf(fn); cfd != nil {
					return isKeyed(cfd)
				}
			}
			return false, "error produced by " + types.ExprString(call.Fun) + " is returned without a key"
		}
		if v := core.VarOf(info, e); v != nil {
			if v.Pkg() == root.Types && v.Parent() == root.Types.Scope() {
				if pt, ok := v.Type().(*types.Pointer); ok && pt.Elem() == types.Type(errType) {
					return true, ""
				}
			}
			// local err: all its definitions must be keyed
			ld := core.NewLocalDefs(info, ff.FD.Decl.Body)
			d, ok := ld.Before(v, at.Pos())
			if ok && d.RHS != nil {
				if call, ok := ast.Unparen(d.RHS).(*ast.CallExpr); ok {
					fn := core.Callee(info, call)
					if fn != nil && fn.Pkg() == root.Types {
						if fn.Name() == "wrapError" {
							return true, ""
						}
						if cfd := p.DeclOf(fn); cfd != nil {
							return isKeyed(cfd)
						}
					}
					return false, "error of " + types.ExprString(call.Fun) + " is returned as is, without a gobl error key"
				}
			}
		}
		return false, "returned error " + types.ExprString(e) + " is not a keyed gobl error"
	}
	isKeyed = func(fd *core.FuncDecl) (bool, string) {
		switch keyed[fd.Obj] {
		case 1, 3:
			return true, ""
		case 2:
			return false, "calls " + fd.Name() + " which returns unkeyed errors"
		}
		keyed[fd.Obj] = 3
		sig := fd.Obj.Type().(*types.Signature)
		ei := core.ErrResultIndex(sig)
		if ei < 0 {
			keyed[fd.Obj] = 1
			return true, ""
		}
		ff := core.NewFuncFlow(fd)
		for _, r := range ff.Flow.Returns() {
			if !ff.Flow.Reachable(r) || len(r.Results) == 0 {
				continue
			}
			var e ast.Expr
			if len(r.Results) == sig.Results().Len() {
				e = r.Results[ei]
			} else {
				e = r.Results[0]
			}
			if ok, why := isKeyedExpr(ff, r, e); !ok {
				keyed[fd.Obj] = 2
				return false, fmt.Sprintf("%s (%s)", why, p.Rel(r.Pos()))
			}
		}
		keyed[fd.Obj] = 1
		return true, ""
	}
	for _, fd := range p.Funcs(root) {
		if !fd.Obj.Exported() {
			continue
		}
		if r := core.RecvNamed(fd.Obj); r != nil && !r.Obj().Exported() {
			continue
		}
		sig := fd.Obj.Type().(*types.Signature)
		if core.ErrResultIndex(sig) < 0 {
			continue
		}
		if r := core.RecvNamed(fd.Obj); r != nil && (r == errType || r.Obj().Name() == "FieldErrors") {
			continue // methods of the error types themselves (MarshalJSON of an error)
		}
		if strings.HasSuffix(p.RelFile(fd.Decl.Pos()), "mage.go") {
			continue
		}
		ok, why := isKeyed(fd)
		c.Ob("C14-R6", fd.Name(), fd.Decl.Pos(), ok, "an error surfaced through the envelope API does not carry a documented error key: "+why)
	}
}

// c14EnvelopeMembers: pointer fields of Envelope filled from JSON.
func c14EnvelopeMembers(c *core.Ctx) {
	p := c.P
	env := p.Named("", "Envelope")
	if env == nil {
		c.Ob("C14-R7", "UNRESOLVED:Envelope", token.NoPos, false, "type not found")
		return
	}
	st := env.Underlying().(*types.Struct)
	nullable := map[*types.Var]bool{}
	for i := 0; i < st.NumFields(); i++ {
		if _, ok := st.Field(i).Type().(*types.Pointer); ok {
			nullable[st.Field(i)] = true
		}
	}
	for _, fd := range p.Funcs(p.Pkg("")) {
		if core.RecvNamed(fd.Obj) != env || !fd.Obj.Exported() {
			continue
		}
		c14MemberDerefs(c, fd, nullable, map[*types.Func]bool{}, fd.Name(), nil)
	}
}

// c14MemberDerefs checks one method; `known` holds the members already
// established non-nil by the caller at the call site (for unexported helpers).
func c14MemberDerefs(c *core.Ctx, fd *core.FuncDecl, nullable map[*types.Var]bool, seen map[*types.Func]bool, entry string, known map[*types.Var]bool) {
	p := c.P
	if seen[fd.Obj] {
		return
	}
	seen[fd.Obj] = true
	info := fd.Pkg.TypesInfo
	recv := recvVar(fd)
	ff := core.NewFuncFlow(fd)
	env := core.RecvNamed(fd.Obj)
	nonNilAt := func(n ast.Node, member *types.Var) bool {
		if known[member] {
			return true
		}
		cn := ff.Flow.EnclosingNode(n)
		if cn == nil {
			return false
		}
		for leaf, val := range ff.Flow.CondsAt(cn) {
			g := core.GuardOf(info, leaf, ff.Errs)
			if g.Kind != "nil" && g.Kind != "err" {
				continue
			}
			if g.X != nil && core.FieldOf(info, g.X) == member && core.RootVar(info, g.X) == recv && val == g.Neg {
				return true
			}
		}
		// assigned non-nil earlier on every path (e.Head = head.NewHeader())
		for as := range ff.Flow.AssignsPassedAt(cn) {
			for i, l := range as.Lhs {
				if core.FieldOf(info, l) == member && core.RootVar(info, l) == recv && i < len(as.Rhs) {
					if cl, ok := ast.Unparen(as.Rhs[i]).(*ast.CallExpr); ok {
						if fn := core.Callee(info, cl); fn != nil && (core.IsErrorConstructor(p, fn) || strings.HasPrefix(fn.Name(), "New")) {
							return true
						}
					}
				}
			}
		}
		// required by a struct validation whose error was found nil on this path
		for _, sv := range core.StructValidations(info, fd.Decl.Body) {
			for _, fr := range sv.Fields {
				if fr.Field != member || fr.Base != recv {
					continue
				}
				for _, r := range fr.Rules {
					if core.IsValidationVar(info, r, "Required") && ff.ErrNilAt(cn, sv.Call) == 1 {
						return true
					}
				}
			}
		}
		// assigned on every path from the entry (e.g. in both branches of an if)
		if ff.Flow.EveryPathPasses(cn, func(x ast.Node) bool {
			as, ok := x.(*ast.AssignStmt)
			if !ok {
				return false
			}
			for i, l := range as.Lhs {
				if core.FieldOf(info, l) == member && core.RootVar(info, l) == recv {
					rhs := as.Rhs[0]
					if len(as.Rhs) == len(as.Lhs) {
						rhs = as.Rhs[i]
					}
					return !core.IsNil(info, rhs)
				}
			}
			return false
		}) {
			return true
		}
		// nil-test in the then-branch assigning: `if e.Head == nil { e.Head = New() }` followed by use
		return shortCircuitMember(info, fd.Decl.Body, n, recv, member) || assignedInNilBranch(info, fd.Decl.Body, n, recv, member)
	}
	idx := 0
	ast.Inspect(fd.Decl.Body, func(n ast.Node) bool {
		se, ok := n.(*ast.SelectorExpr)
		if !ok {
			return true
		}
		inner, ok := ast.Unparen(se.X).(*ast.SelectorExpr)
		if !ok {
			return true
		}
		member := core.FieldOf(info, inner)
		if member == nil || !nullable[member] || core.VarOf(info, inner.X) != recv {
			return true
		}
		sel := info.Selections[se]
		if sel == nil {
			return true
		}
		deref := sel.Kind() == types.FieldVal
		if sel.Kind() == types.MethodVal {
			m := sel.Obj().(*types.Func)
			if mfd := p.DeclOf(m); mfd != nil {
				deref = nilSafeReceiverMemo(p, mfd) != ""
			} else {
				deref = true
			}
		}
		if !deref {
			return true
		}
		idx++
		ok = nonNilAt(se, member)
		c.Ob("C14-R7", fmt.Sprintf("%s→%s#%s.%s%d", entry, fd.Obj.Name(), member.Name(), se.Sel.Name, idx), se.Pos(), ok,
			fmt.Sprintf("%s is dereferenced (.%s) although a parsed envelope may have this member null or missing and no nil test precedes it on this path", types.ExprString(inner), se.Sel.Name))
		return true
	})
	// unexported helper methods called on the receiver inherit the obligation
	for _, call := range core.CallsTo(info, fd.Decl.Body, func(f *types.Func) bool {
		return core.RecvNamed(f) == env && !f.Exported()
	}) {
		if core.VarOf(info, core.RecvExpr(call)) != recv {
			continue
		}
		if cfd := p.DeclOf(core.Callee(info, call)); cfd != nil {
			k := map[*types.Var]bool{}
			for m := range nullable {
				if nonNilAt(call, m) {
					k[m] = true
				}
			}
			c14MemberDerefs(c, cfd, nullable, seen, entry, k)
		}
	}
}

func shortCircuitMember(info *types.Info, body ast.Node, n ast.Node, recv, member *types.Var) bool {
	found := false
	ast.Inspect(body, func(m ast.Node) bool {
		be, ok := m.(*ast.BinaryExpr)
		if !ok || (be.Op != token.LAND && be.Op != token.LOR) {
			return true
		}
		if !(be.Y.Pos() <= n.Pos() && n.End() <= be.Y.End()) {
			return true
		}
		var has func(e ast.Expr) bool
		has = func(e ast.Expr) bool {
			e = ast.Unparen(e)
			if b2, ok := e.(*ast.BinaryExpr); ok {
				if b2.Op == be.Op {
					return has(b2.X) || has(b2.Y)
				}
				want := token.NEQ
				if be.Op == token.LOR {
					want = token.EQL
				}
				if b2.Op == want {
					x, y := ast.Unparen(b2.X), ast.Unparen(b2.Y)
					if core.IsNil(info, x) {
						x, y = y, x
					}
					return core.IsNil(info, y) && core.FieldOf(info, x) == member && core.RootVar(info, x) == recv
				}
			}
			return false
		}
		if has(be.X) {
			found = true
		}
		return true
	})
	return found
}

// assignedInNilBranch: an earlier top-level `if recv.M == nil { recv.M = … }`
// precedes n in the same function body.
func assignedInNilBranch(info *types.Info, body *ast.BlockStmt, n ast.Node, recv, member *types.Var) bool {
	for _, s := range body.List {
		if s.Pos() >= n.Pos() {
			break
		}
		is, ok := s.(*ast.IfStmt)
		if !ok {
			continue
		}
		be, ok := ast.Unparen(is.Cond).(*ast.BinaryExpr)
		if !ok || be.Op != token.EQL {
			continue
		}
		x, y := ast.Unparen(be.X), ast.Unparen(be.Y)
		if core.IsNil(info, x) {
			x, y = y, x
		}
		if !core.IsNil(info, y) || core.FieldOf(info, x) != member || core.RootVar(info, x) != recv {
			continue
		}
		for _, bs := range is.Body.List {
			if as, ok := bs.(*ast.AssignStmt); ok && len(as.Lhs) == 1 && core.FieldOf(info, as.Lhs[0]) == member && !core.IsNil(info, as.Rhs[0]) {
				return true
			}
			if _, ok := bs.(*ast.ReturnStmt); ok {
				return true
			}
		}
	}
	return false
}

func c14Currency(c *core.Ctx) {
	// implemented in c14_currency.go
	c14CurrencyImpl(c)
}
