package props

import (
	"os"
	"fmt"
	"go/ast"
	"go/token"
	"go/types"
	"sort"
	"strings"

	"goblcheck/core"
)

// Ownership / freshness analysis for definition objects (E-FRESH).
//
// Abstract origin of a pointer/slice value: Nil, Fresh (allocated in this
// activation, not yet visible to anybody else), Shared (reachable from a
// package-level registry or definition), or P(i): whatever the caller passed
// as parameter i (-1 = receiver). The analysis is flow-insensitive per
// function (a variable's origin is the union over its assignments), with
// function summaries: which parameters a function mutates (stores through, or
// appends to a slice owned by), and what it returns, split by whether the
// receiver is nil (the repo's `if x == nil { return other }` idiom).

type atom struct {
	kind int // 0 nil, 1 fresh, 2 shared, 3 param
	idx  int
}

var (
	aNil    = atom{0, 0}
	aFresh  = atom{1, 0}
	aShared = atom{2, 0}
)

func aParam(i int) atom { return atom{3, i} }

type atomSet map[atom]bool

func (s atomSet) add(o atomSet) bool {
	ch := false
	for a := range o {
		if !s[a] {
			s[a] = true
			ch = true
		}
	}
	return ch
}

func set(as ...atom) atomSet {
	s := atomSet{}
	for _, a := range as {
		s[a] = true
	}
	return s
}

type retCase struct {
	atoms atomSet
	cond  int // 0 any, 1 receiver nil, 2 receiver non-nil
}

type mutation struct {
	param int
	what  string
	pos   token.Pos
	fn    *types.Func
}

type freshSummary struct {
	rets   []retCase
	muts   []mutation // mutations of objects owned by parameters
	// fstores: parameter i's value is stored into a document map field (so a
	// caller that passes a shared map plants it in a document)
	fstores []fieldStoreOf
	done   bool
	inProg bool
}

type freshAnalysis struct {
	p         *core.Program
	protected func(types.Type) bool
	sums      map[*types.Func]*freshSummary
	// violations: mutation of a Shared object
	viol []freshViolation
	// every mutation site examined
	sites int
	// taint: document map fields (tax.Combo.Ext, ...) into which some run-time
	// code stores a map that may be a shared definition's own; every in-place
	// write through such a field, anywhere, may then hit the shared map
	taint    map[*types.Var]string
	taintPos map[*types.Var]token.Pos
	newTaint bool
	impl     func(*types.Func) []*types.Func
}

func (a *freshAnalysis) addTaint(f *types.Var, why string, pos ...token.Pos) {
	if f == nil {
		return
	}
	if _, ok := a.taint[f]; !ok {
		a.taint[f] = why
		if len(pos) > 0 {
			a.taintPos[f] = pos[0]
		}
		a.newTaint = true
	}
}

// reset forgets the summaries (not the taints) for another round.
func (a *freshAnalysis) reset() {
	a.sums = map[*types.Func]*freshSummary{}
	a.viol = nil
	a.sites = 0
	a.newTaint = false
}

type fieldStoreOf struct {
	param int
	field *types.Var
	pos   token.Pos
}

type freshViolation struct {
	fn   *core.FuncDecl
	pos  token.Pos
	what string
	path string
}

func newFreshAnalysis(p *core.Program, protected func(types.Type) bool) *freshAnalysis {
	return &freshAnalysis{p: p, protected: protected, sums: map[*types.Func]*freshSummary{}, taint: map[*types.Var]string{}, taintPos: map[*types.Var]token.Pos{}}
}

func paramIndex(fn *types.Func, v *types.Var) (int, bool) {
	sig := fn.Type().(*types.Signature)
	if sig.Recv() == v {
		return -1, true
	}
	for i := 0; i < sig.Params().Len(); i++ {
		if sig.Params().At(i) == v {
			return i, true
		}
	}
	return 0, false
}

func refLike(t types.Type) bool {
	if t == nil {
		return false
	}
	switch t.Underlying().(type) {
	case *types.Pointer, *types.Slice, *types.Map:
		return true
	}
	return false
}

// funcState is the per-function evaluation state.
type funcState struct {
	a    *freshAnalysis
	fd   *core.FuncDecl
	info *types.Info
	vars map[*types.Var]atomSet
	// fields: what was stored into field F of the object held by variable v
	// (flow-insensitive), so that v.F evaluates to it as well as to v's owner
	fields map[fieldKey]atomSet
	ld     *core.LocalDefs
}

type fieldKey struct {
	v *types.Var
	f string
}

func (a *freshAnalysis) summary(fn *types.Func) *freshSummary {
	fn = fn.Origin()
	if s, ok := a.sums[fn]; ok {
		return s
	}
	s := &freshSummary{inProg: true}
	a.sums[fn] = s
	fd := a.p.DeclOf(fn)
	if fd == nil {
		// no body: unknown callee — results of reference type are Shared, nothing is mutated (stdlib does not know our types)
		s.rets = []retCase{{set(aShared), 0}}
		s.done, s.inProg = true, false
		return s
	}
	st := &funcState{a: a, fd: fd, info: fd.Pkg.TypesInfo, vars: map[*types.Var]atomSet{}, fields: map[fieldKey]atomSet{}, ld: core.NewLocalDefs(fd.Pkg.TypesInfo, fd.Decl.Body)}
	st.solve()
	st.docMapStores(func(f *types.Var, atoms atomSet, pos token.Pos) {
		if os.Getenv("GOBLCHECK_DEBUG_FRESH") != "" {
			fmt.Fprintf(os.Stderr, "FRESH store %s %s <- %v\n", a.p.Rel(pos), f.Name(), atoms)
		}
		for at := range atoms {
			switch at.kind {
			case 2:
				a.addTaint(f, fmt.Sprintf("%s stores a reference that may be a shared definition's own into it (%s)", fd.Name(), a.p.Rel(pos)), pos)
			case 3:
				s.fstores = append(s.fstores, fieldStoreOf{at.idx, f, pos})
			}
		}
	})
	// returns
	ff := core.NewFuncFlow(fd)
	recv := recvVar(fd)
	for _, r := range ff.Flow.Returns() {
		if !ff.Flow.Reachable(r) || len(r.Results) == 0 {
			continue
		}
		e := r.Results[0]
		if !refLike(st.info.TypeOf(e)) {
			continue
		}
		cond := 0
		if recv != nil {
			for leaf, val := range ff.Flow.CondsAt(r) {
				g := core.GuardOf(st.info, leaf, ff.Errs)
				if g.Kind == "nil" && core.VarOf(st.info, g.X) == recv {
					if val != g.Neg {
						cond = 1
					} else {
						cond = 2
					}
				}
			}
		}
		s.rets = append(s.rets, retCase{st.eval(e, 0), cond})
	}
	// mutations
	st.mutations(func(base atomSet, what string, pos token.Pos) {
		a.sites++
		for at := range base {
			switch at.kind {
			case 2:
				a.viol = append(a.viol, freshViolation{fd, pos, what, ""})
			case 3:
				s.muts = append(s.muts, mutation{at.idx, what, pos, fn})
			}
		}
	})
	// propagate callee mutations of our own parameters / shared actuals
	ast.Inspect(fd.Decl.Body, func(n ast.Node) bool {
		call, ok := n.(*ast.CallExpr)
		if !ok {
			return true
		}
		callee := core.Callee(st.info, call)
		if callee == nil || !core.InModule(callee.Pkg()) || callee.Origin() == fn {
			return true
		}
		cs := a.summary(callee)
		for _, fs := range cs.fstores {
			var actual ast.Expr
			if fs.param == -1 {
				actual = core.RecvExpr(call)
			} else if fs.param < len(call.Args) {
				actual = call.Args[fs.param]
			}
			if actual == nil {
				continue
			}
			for at := range st.eval(actual, 0) {
				switch at.kind {
				case 2:
					a.addTaint(fs.field, fmt.Sprintf("%s passes a reference that may be a shared definition's own as %s of %s, which stores it there (%s)", fd.Name(), paramName(callee, fs.param), core.FuncName(callee), a.p.Rel(fs.pos)), fs.pos)
				case 3:
					s.fstores = append(s.fstores, fieldStoreOf{at.idx, fs.field, fs.pos})
				}
			}
		}
		for _, m := range cs.muts {
			var actual ast.Expr
			if m.param == -1 {
				actual = core.RecvExpr(call)
			} else if m.param < len(call.Args) {
				actual = call.Args[m.param]
			}
			if actual == nil {
				continue
			}
			for at := range st.eval(actual, 0) {
				switch at.kind {
				case 2:
					a.viol = append(a.viol, freshViolation{fd, call.Pos(), m.what,
						fmt.Sprintf("%s passes a shared definition object as %s of %s, which %s (%s)", fd.Name(), paramName(callee, m.param), core.FuncName(callee), m.what, a.p.Rel(m.pos))})
				case 3:
					s.muts = append(s.muts, mutation{at.idx, m.what + " via " + core.FuncName(callee), m.pos, callee})
				}
			}
		}
		return true
	})
	s.done, s.inProg = true, false
	return s
}

func paramName(fn *types.Func, i int) string {
	sig := fn.Type().(*types.Signature)
	if i == -1 {
		return "the receiver"
	}
	if i < sig.Params().Len() {
		return "parameter " + sig.Params().At(i).Name()
	}
	return fmt.Sprintf("parameter %d", i)
}

func (st *funcState) solve() {
	// fixpoint over local variable origins
	for iter := 0; iter < 8; iter++ {
		changed := false
		ast.Inspect(st.fd.Decl.Body, func(n ast.Node) bool {
			switch s := n.(type) {
			case *ast.AssignStmt:
				for i, l := range s.Lhs {
					if se, isSel := ast.Unparen(l).(*ast.SelectorExpr); isSel && len(s.Rhs) == len(s.Lhs) {
						if bv := core.VarOf(st.info, se.X); bv != nil && refLike(st.info.TypeOf(se)) {
							k := fieldKey{bv, se.Sel.Name}
							if st.fields[k] == nil {
								st.fields[k] = atomSet{}
							}
							if st.fields[k].add(st.eval(s.Rhs[i], 0)) {
								changed = true
							}
						}
					}
					v := core.VarOf(st.info, l)
					if v == nil || !(refLike(v.Type()) || structLike(v.Type())) {
						continue
					}
					if _, isParam := paramIndex(st.fd.Obj, v); isParam {
						// re-assigned parameter: also holds the new value
					}
					var rhs ast.Expr
					if len(s.Rhs) == len(s.Lhs) {
						rhs = s.Rhs[i]
					} else if len(s.Rhs) == 1 && i == 0 {
						rhs = s.Rhs[0]
					}
					if rhs == nil {
						continue
					}
					if st.vars[v] == nil {
						st.vars[v] = atomSet{}
					}
					if st.vars[v].add(st.eval(rhs, 0)) {
						changed = true
					}
				}
			case *ast.ValueSpec:
				for i, nm := range s.Names {
					v, _ := st.info.Defs[nm].(*types.Var)
					if v == nil || !refLike(v.Type()) {
						continue
					}
					if st.vars[v] == nil {
						st.vars[v] = atomSet{}
					}
					if len(s.Values) == len(s.Names) {
						if st.vars[v].add(st.eval(s.Values[i], 0)) {
							changed = true
						}
					} else if len(s.Values) == 0 {
						if st.vars[v].add(set(aNil)) {
							changed = true
						}
					}
				}
			case *ast.RangeStmt:
				if s.Value != nil {
					if v := core.VarOf(st.info, s.Value); v != nil && (refLike(v.Type()) || structLike(v.Type())) {
						if st.vars[v] == nil {
							st.vars[v] = atomSet{}
						}
						el := atomSet{}
						for at := range st.eval(s.X, 0) {
							switch at.kind {
							case 0:
							case 1:
								el[aShared] = true // elements of a fresh container: unknown owner
							default:
								el[at] = true
							}
						}
						if st.vars[v].add(el) {
							changed = true
						}
					}
				}
			}
			return true
		})
		if !changed {
			break
		}
	}
}

// eval returns the possible origins of a reference-typed expression.
func (st *funcState) eval(e ast.Expr, depth int) atomSet {
	e = ast.Unparen(e)
	if depth > 10 {
		return set(aShared)
	}
	if core.IsNil(st.info, e) {
		return set(aNil)
	}
	switch x := e.(type) {
	case *ast.Ident:
		v := core.VarOf(st.info, x)
		if v == nil {
			return set(aShared)
		}
		out := atomSet{}
		if i, ok := paramIndex(st.fd.Obj, v); ok {
			out[aParam(i)] = true
		}
		if v.Pkg() != nil && v.Parent() == v.Pkg().Scope() {
			return set(aShared)
		}
		out.add(st.vars[v])
		if len(out) == 0 {
			out[aNil] = true // declared, never assigned a reference
		}
		return out
	case *ast.UnaryExpr:
		if x.Op == token.AND {
			if _, ok := ast.Unparen(x.X).(*ast.CompositeLit); ok {
				return st.evalLit(ast.Unparen(x.X).(*ast.CompositeLit))
			}
			// the address of a local variable that holds a value (a copy): a new location
			if id, ok := ast.Unparen(x.X).(*ast.Ident); ok {
				if v := core.VarOf(st.info, id); v != nil && !v.IsField() && !(v.Pkg() != nil && v.Parent() == v.Pkg().Scope()) && !refLike(v.Type()) {
					return set(aFresh)
				}
			}
			return st.eval(x.X, depth+1)
		}
	case *ast.CompositeLit:
		return st.evalLit(x)
	case *ast.StarExpr:
		return st.eval(x.X, depth+1)
	case *ast.SelectorExpr:
		if sel := st.info.Selections[x]; sel != nil && sel.Kind() == types.FieldVal {
			base := st.eval(x.X, depth+1)
			out := atomSet{}
			for at := range base {
				switch at.kind {
				case 0:
					// field of nil: unreachable
				case 1:
					out[aFresh] = true
				default:
					out[at] = true
				}
			}
			if bv := core.VarOf(st.info, x.X); bv != nil {
				for at := range st.fields[fieldKey{bv, x.Sel.Name}] {
					if at != aNil {
						out[at] = true
					}
				}
			}
			if f, ok := sel.Obj().(*types.Var); ok {
				if _, t := st.a.taint[f]; t {
					out[aShared] = true
				}
			}
			out[aNil] = true // a field may hold nil whatever its owner is
			return out
		}
		return set(aShared) // qualified package-level identifier
	case *ast.IndexExpr:
		base := st.eval(x.X, depth+1)
		out := atomSet{}
		for at := range base {
			if at.kind == 1 {
				out[aShared] = true
			} else if at.kind != 0 {
				out[at] = true
			}
		}
		if len(out) == 0 {
			out[aShared] = true
		}
		out[aNil] = true // an element may be nil
		return out
	case *ast.SliceExpr:
		return st.eval(x.X, depth+1)
	case *ast.TypeAssertExpr:
		return st.eval(x.X, depth+1)
	case *ast.CallExpr:
		if id, ok := x.Fun.(*ast.Ident); ok {
			if _, isB := st.info.Uses[id].(*types.Builtin); isB {
				switch id.Name {
				case "new", "make":
					return set(aFresh)
				case "append":
					// the result may share the first operand's backing array
					out := atomSet{}
					out.add(st.eval(x.Args[0], depth+1))
					delete(out, aNil)
					out[aFresh] = true
					return out
				}
			}
		}
		if tv, ok := st.info.Types[x.Fun]; ok && tv.IsType() && len(x.Args) == 1 {
			return st.eval(x.Args[0], depth+1)
		}
		callee := core.Callee(st.info, x)
		if callee == nil {
			return set(aShared)
		}
		if !core.InModule(callee.Pkg()) {
			return set(aShared)
		}
		// a method of a module interface: what any implementation may return
		var sums []*freshSummary
		if sig := callee.Type().(*types.Signature); sig.Recv() != nil {
			if _, isIface := sig.Recv().Type().Underlying().(*types.Interface); isIface {
				if st.a.impl == nil {
					st.a.impl = implementers(st.a.p)
				}
				for _, m := range st.a.impl(callee) {
					ms := st.a.summary(m)
					if ms.inProg {
						return set(aShared)
					}
					sums = append(sums, ms)
				}
				if len(sums) == 0 {
					return set(aShared)
				}
			}
		}
		if sums == nil {
			cs := st.a.summary(callee)
			if cs.inProg {
				return set(aShared)
			}
			sums = []*freshSummary{cs}
		}
		out := atomSet{}
		var recvAtoms atomSet
		if r := core.RecvExpr(x); r != nil && callee.Type().(*types.Signature).Recv() != nil {
			recvAtoms = st.eval(r, depth+1)
		}
		var allRets []retCase
		for _, cs := range sums {
			allRets = append(allRets, cs.rets...)
		}
		for _, rc := range allRets {
			if rc.cond == 1 && recvAtoms != nil && !recvAtoms[aNil] {
				continue
			}
			if rc.cond == 2 && recvAtoms != nil && len(recvAtoms) == 1 && recvAtoms[aNil] {
				continue
			}
			for at := range rc.atoms {
				if at.kind != 3 {
					out[at] = true
					continue
				}
				var actual atomSet
				if at.idx == -1 {
					actual = recvAtoms
					if rc.cond == 2 && actual != nil {
						actual = atomSet{}
						for k := range recvAtoms {
							if k != aNil {
								actual[k] = true
							}
						}
					}
				} else if at.idx < len(x.Args) {
					actual = st.eval(x.Args[at.idx], depth+1)
				}
				if actual == nil {
					out[aShared] = true
				} else {
					out.add(actual)
				}
			}
		}
		if len(out) == 0 {
			out[aShared] = true
		}
		return out
	}
	return set(aShared)
}

func (st *funcState) evalLit(cl *ast.CompositeLit) atomSet {
	// a literal is fresh; reference-typed members that alias non-fresh data do not make the object itself shared
	return set(aFresh)
}

// docMapStores enumerates the stores of a map into a document map field:
// `x.F = m` and `T{F: m}` with F of a named map type of the module.
func (st *funcState) docMapStores(report func(f *types.Var, atoms atomSet, pos token.Pos)) {
	info := st.info
	ast.Inspect(st.fd.Decl.Body, func(n ast.Node) bool {
		switch s := n.(type) {
		case *ast.AssignStmt:
			if len(s.Lhs) != len(s.Rhs) {
				return true
			}
			for i, l := range s.Lhs {
				se, ok := ast.Unparen(l).(*ast.SelectorExpr)
				if !ok {
					continue
				}
				sel := info.Selections[se]
				if sel == nil || sel.Kind() != types.FieldVal {
					continue
				}
				f, _ := sel.Obj().(*types.Var)
				if !isDocMap(info.TypeOf(se)) && !st.a.docRefField(f, info.TypeOf(se.X)) {
					continue
				}
				report(f, st.eval(s.Rhs[i], 0), s.Pos())
			}
		case *ast.CompositeLit:
			if _, stt := core.StructOf(info.TypeOf(s)); stt == nil {
				return true
			}
			for _, el := range s.Elts {
				kv, ok := el.(*ast.KeyValueExpr)
				if !ok {
					continue
				}
				id, ok := kv.Key.(*ast.Ident)
				if !ok {
					continue
				}
				f, _ := info.Uses[id].(*types.Var)
				if f == nil || !f.IsField() || (!isDocMap(f.Type()) && !st.a.docRefField(f, info.TypeOf(s))) {
					continue
				}
				report(f, st.eval(kv.Value, 0), kv.Pos())
			}
		}
		return true
	})
}

// mutations enumerates mutation sites on protected objects.
func (st *funcState) mutations(report func(base atomSet, what string, pos token.Pos)) {
	info := st.info
	ast.Inspect(st.fd.Decl.Body, func(n ast.Node) bool {
		switch s := n.(type) {
		case *ast.AssignStmt:
			for _, l := range s.Lhs {
				l = ast.Unparen(l)
				switch lx := l.(type) {
				case *ast.SelectorExpr:
					if sel := info.Selections[lx]; sel != nil && sel.Kind() == types.FieldVal && st.a.protected(info.TypeOf(lx.X)) {
						report(st.eval(lx.X, 0), "stores into field "+lx.Sel.Name+" of a "+core.TypeString(info.TypeOf(lx.X)), l.Pos())
					}
				case *ast.IndexExpr:
					if own := ownerOf(info, lx.X); own != nil && st.a.protected(info.TypeOf(own)) {
						report(st.eval(own, 0), "stores into an element of "+types.ExprString(lx.X), l.Pos())
					} else if isDocMap(info.TypeOf(lx.X)) {
						report(mapOrigin(st, lx.X), "stores into the map "+types.ExprString(lx.X)+" ("+core.TypeString(info.TypeOf(lx.X))+")", l.Pos())
					}
				case *ast.StarExpr:
					if st.a.protected(info.TypeOf(lx.X)) {
						report(st.eval(lx.X, 0), "overwrites *"+types.ExprString(lx.X), l.Pos())
					}
				}
			}
		case *ast.CallExpr:
			id, ok := s.Fun.(*ast.Ident)
			if ok && id.Name == "delete" && len(s.Args) == 2 {
				if _, isB := info.Uses[id].(*types.Builtin); isB && isDocMap(info.TypeOf(s.Args[0])) {
					report(mapOrigin(st, s.Args[0]), "deletes from the map "+types.ExprString(s.Args[0])+" ("+core.TypeString(info.TypeOf(s.Args[0]))+")", s.Pos())
				}
				return true
			}
			if !ok || id.Name != "append" || len(s.Args) < 1 {
				return true
			}
			if _, isB := info.Uses[id].(*types.Builtin); !isB {
				return true
			}
			// whose slice is it? x.F directly, or a local alias of x.F
			first := ast.Unparen(s.Args[0])
			var owners []ast.Expr
			if own := ownerOf(info, first); own != nil {
				owners = append(owners, own)
			} else if v := core.VarOf(info, first); v != nil {
				for _, d := range st.ld.All(v) {
					if d.RHS == nil {
						continue
					}
					if own := ownerOf(info, ast.Unparen(d.RHS)); own != nil {
						owners = append(owners, own)
					}
				}
			}
			for _, own := range owners {
				if st.a.protected(info.TypeOf(own)) {
					report(st.eval(own, 0), "appends to "+types.ExprString(first)+", a slice owned by a "+core.TypeString(info.TypeOf(own))+" (may write into its backing array)", s.Pos())
				}
			}
		}
		return true
	})
}

// ownerOf returns x for an expression x.F (field selection), else nil.
func ownerOf(info *types.Info, e ast.Expr) ast.Expr {
	se, ok := ast.Unparen(e).(*ast.SelectorExpr)
	if !ok {
		return nil
	}
	if sel := info.Selections[se]; sel != nil && sel.Kind() == types.FieldVal {
		return se.X
	}
	return nil
}

// definitionTypes computes the protected type set: struct types reachable from
// the regime/addon/catalogue definitions that are not document types.
func definitionTypes(c *core.Ctx) (func(types.Type) bool, []string) {
	p := c.P
	var roots []*types.Named
	for _, n := range []string{"RegimeDef", "AddonDef", "CatalogueDef"} {
		if t := p.Named("tax", n); t != nil {
			roots = append(roots, t)
		}
	}
	order, _ := core.StructClosure(roots, nil)
	// document types: closure of the registered document roots that are not the definition roots themselves
	docRoots := []*types.Named{}
	for _, r := range p.RegisteredTypes() {
		switch core.TypeName(r.Named) {
		case "tax.RegimeDef", "tax.AddonDef", "tax.CatalogueDef":
		default:
			docRoots = append(docRoots, r.Named)
		}
	}
	docOrder, _ := core.StructClosure(docRoots, func(from *types.Named, f *types.Var, tag string) bool {
		jn, _ := core.JSONName(tag, f.Name())
		return jn != ""
	})
	isDoc := map[*types.Named]bool{}
	for _, d := range docOrder {
		isDoc[d] = true
	}
	prot := map[*types.Named]bool{}
	var names []string
	for _, n := range order {
		if _, ok := n.Underlying().(*types.Struct); !ok {
			continue
		}
		if isDoc[n] && !strings.HasSuffix(n.Obj().Name(), "Def") && !strings.HasPrefix(core.TypeName(n), "tax.") && !strings.HasPrefix(core.TypeName(n), "cbc.") {
			continue
		}
		switch core.TypeName(n) {
		case "tax.Extensions", "cbc.Meta":
			continue
		}
		prot[n] = true
		names = append(names, core.TypeName(n))
	}
	sort.Strings(names)
	return func(t types.Type) bool {
		if t == nil {
			return false
		}
		n, st := core.StructOf(t)
		return n != nil && st != nil && prot[n]
	}, names
}

// isDocMap: a named map type of the module (tax.Extensions, cbc.Meta, ...):
// document data that definitions also hold, so a document may end up holding a
// definition's own map.
func isDocMap(t types.Type) bool {
	n, ok := t.(*types.Named)
	if !ok || !core.InModule(n.Obj().Pkg()) {
		return false
	}
	_, isMap := n.Underlying().(*types.Map)
	return isMap
}

// mapOrigin: where the map itself (not the object holding it) comes from: only
// Shared matters here — a map that is a field of a parameter belongs to the
// caller's document unless a shared map was stored into that field.
func mapOrigin(st *funcState, e ast.Expr) atomSet {
	e = ast.Unparen(e)
	out := atomSet{}
	if se, ok := e.(*ast.SelectorExpr); ok {
		tainted := false
		if sel := st.info.Selections[se]; sel != nil {
			if f, isVar := sel.Obj().(*types.Var); isVar {
				_, tainted = st.a.taint[f]
			}
		}
		if tainted {
			out[aShared] = true
		}
		if bv := core.VarOf(st.info, se.X); bv != nil {
			for at := range st.fields[fieldKey{bv, se.Sel.Name}] {
				if at.kind == 2 {
					out[at] = true
				}
			}
			return out
		}
		if tainted {
			return out
		}
	}
	for at := range st.eval(e, 0) {
		if at.kind == 2 {
			out[at] = true
		}
	}
	return out
}

// structLike: a struct held by value; its reference-typed members still point
// to wherever the copied struct's members pointed.
func structLike(t types.Type) bool {
	if t == nil {
		return false
	}
	_, ok := t.Underlying().(*types.Struct)
	return ok
}

// taintOf: the reason recorded for the tainted field a violation's site writes
// through, if that is what made it a violation.
func (a *freshAnalysis) taintOf(v freshViolation) string {
	var why string
	info := v.fn.Pkg.TypesInfo
	ast.Inspect(v.fn.Decl.Body, func(n ast.Node) bool {
		se, ok := n.(*ast.SelectorExpr)
		if !ok || why != "" || se.Pos() < v.pos-200 || se.Pos() > v.pos+200 {
			return true
		}
		if sel := info.Selections[se]; sel != nil {
			if f, isVar := sel.Obj().(*types.Var); isVar {
				if w, t := a.taint[f]; t {
					why = w
				}
			}
		}
		return true
	})
	return why
}


// docRefField: a pointer member of a document struct (a module struct that is
// not a definition type) whose target is plain data (an amount, a percentage,
// a date — not another struct of the module that has its own members to own):
// `c.Surcharge = value.Surcharge` makes the document point into whatever
// `value` belongs to.
func (a *freshAnalysis) docRefField(f *types.Var, owner types.Type) bool {
	if f == nil || owner == nil || a.protected(owner) {
		return false
	}
	n, st := core.StructOf(owner)
	if n == nil || st == nil || n.Obj().Pkg() == nil || !core.InModule(n.Obj().Pkg()) {
		return false
	}
	pt, ok := f.Type().(*types.Pointer)
	if !ok {
		return false
	}
	en, _ := pt.Elem().(*types.Named)
	if en == nil || en.Obj().Pkg() == nil || !core.InModule(en.Obj().Pkg()) {
		return false
	}
	switch core.RelPkg(en.Obj().Pkg().Path()) {
	case "num", "cal":
		return true
	}
	return false
}
