package props

import (
	"encoding/json"
	"fmt"
	"go/ast"
	"go/token"
	"os"
	"path/filepath"
	"sort"
	"strings"

	"goblcheck/core"
)

// c19SchemaEnums — C19-R5: the published schemas enumerate the registries. The
// schema generator writes, into every document schema, the list of accepted
// `$regime` values (each registered regime's country and alternative country
// codes: tax.Regime.JSONSchemaExtend) and of accepted `$addons` entries (each
// registered addon's key). The enumerations in data/schemas must therefore be
// exactly the codes of the regime definition literals of the code (country and
// alternative codes) and the keys of the addon definition literals; and the
// alternative codes in data/regimes/<cc>.json those of the literal.
func c19SchemaEnums(c *core.Ctx) {
	p := c.P
	c.Rule("C19-R5", "schema enumerations of regimes and addons equal the definitions of the code", 8)
	folder := &core.Folder{P: p}
	// code side
	regimeCodes := map[string]string{} // code → regime country
	altOf := map[string][]string{}
	addonKeys := map[string]bool{}
	for _, pk := range p.Pkgs {
		rel := core.RelPkg(pk.PkgPath)
		isReg, isAdd := strings.HasPrefix(rel, "regimes/"), strings.HasPrefix(rel, "addons/")
		if !isReg && !isAdd {
			continue
		}
		for _, file := range pk.Syntax {
			if p.IsTestFile(file.Pos()) {
				continue
			}
			ast.Inspect(file, func(n ast.Node) bool {
				cl, ok := n.(*ast.CompositeLit)
				if !ok {
					return true
				}
				switch {
				case isReg && litTypeIs(pk.TypesInfo, cl, "tax.RegimeDef"):
					country := ""
					var alts []string
					undecided := false
					for _, el := range cl.Elts {
						kv, ok := el.(*ast.KeyValueExpr)
						if !ok {
							continue
						}
						id, _ := kv.Key.(*ast.Ident)
						if id == nil {
							continue
						}
						switch id.Name {
						case "Country":
							if s, ok := folder.Fold(pk, kv.Value).(string); ok {
								country = s
							}
						case "AltCountryCodes":
							list, ok := folder.Fold(pk, kv.Value).([]any)
							if !ok {
								undecided = true
								continue
							}
							for _, e := range list {
								if s, ok := e.(string); ok {
									alts = append(alts, s)
								} else {
									undecided = true
								}
							}
						}
					}
					if country == "" {
						return false
					}
					if undecided {
						c.Undecided("C19-R5", "regimes/"+strings.ToLower(country)+"#alt-country-codes", cl.Pos(), "the alternative country codes of this definition are not a literal list of constants")
					}
					regimeCodes[country] = country
					for _, a := range alts {
						regimeCodes[a] = country
					}
					sort.Strings(alts)
					altOf[country] = alts
					return false
				case isAdd && litTypeIs(pk.TypesInfo, cl, "tax.AddonDef"):
					for _, el := range cl.Elts {
						if kv, ok := el.(*ast.KeyValueExpr); ok {
							if id, ok := kv.Key.(*ast.Ident); ok && id.Name == "Key" {
								if s, ok := folder.Fold(pk, kv.Value).(string); ok {
									addonKeys[s] = true
								}
							}
						}
					}
					return false
				}
				return true
			})
		}
	}
	if len(altOf) < 10 || len(addonKeys) < 10 {
		c.Ob("C19-R5", "UNRESOLVED:definitions", token.NoPos, false, fmt.Sprintf("only %d regime and %d addon definition literals folded", len(altOf), len(addonKeys)))
		return
	}
	// data/regimes/<cc>.json: alternative codes as in the literal
	var ccs []string
	for cc := range altOf {
		ccs = append(ccs, cc)
	}
	sort.Strings(ccs)
	for _, cc := range ccs {
		rel := "data/regimes/" + strings.ToLower(cc) + ".json"
		d, err := loadDef(filepath.Join(p.Repo, rel))
		if err != nil {
			continue // R2 reports the missing file
		}
		have := append([]string{}, d.AltCountry...)
		sort.Strings(have)
		c.ObAt("C19-R5", "regimes/"+strings.ToLower(cc)+"#alt-country-codes", rel, strings.Join(have, ",") == strings.Join(altOf[cc], ","),
			fmt.Sprintf("the published regime lists the alternative country codes [%s], the definition in the code [%s]", strings.Join(have, ","), strings.Join(altOf[cc], ",")))
	}
	// does the generator list the alternative codes too? (tax.Regime.JSONSchemaExtend ranges over them)
	withAlts := false
	if fd := p.Func("tax", "Regime", "JSONSchemaExtend"); fd != nil {
		ast.Inspect(fd.Decl.Body, func(n ast.Node) bool {
			if se, ok := n.(*ast.SelectorExpr); ok && se.Sel.Name == "AltCountryCodes" {
				withAlts = true
			}
			return true
		})
	} else {
		c.Ob("C19-R5", "UNRESOLVED:tax.Regime.JSONSchemaExtend", token.NoPos, false, "NOT FOUND: the method that writes the $regime enumeration")
		return
	}
	if !withAlts {
		for code, cc := range regimeCodes {
			if code != cc {
				delete(regimeCodes, code)
			}
		}
	}
	// data/schemas: every $regime / $addons enumeration
	root := filepath.Join(p.Repo, "data", "schemas")
	nReg, nAdd := 0, 0
	var files []string
	filepath.Walk(root, func(path string, info os.FileInfo, err error) error {
		if err == nil && !info.IsDir() && strings.HasSuffix(path, ".json") {
			files = append(files, path)
		}
		return nil
	})
	sort.Strings(files)
	for _, path := range files {
		b, err := readSubjectFile(path)
		if err != nil {
			continue
		}
		var doc struct {
			Defs map[string]struct {
				Properties map[string]json.RawMessage `json:"properties"`
			} `json:"$defs"`
		}
		if json.Unmarshal(b, &doc) != nil {
			continue
		}
		rel, _ := filepath.Rel(p.Repo, path)
		var names []string
		for n := range doc.Defs {
			names = append(names, n)
		}
		sort.Strings(names)
		for _, dn := range names {
			props := doc.Defs[dn].Properties
			type oneOf struct {
				OneOf []struct {
					Const string `json:"const"`
				} `json:"oneOf"`
			}
			if raw, ok := props["$regime"]; ok {
				var o oneOf
				json.Unmarshal(raw, &o)
				if len(o.OneOf) > 0 {
					nReg++
					have := map[string]bool{}
					for _, e := range o.OneOf {
						have[e.Const] = true
					}
					var missing, extra []string
					for code := range regimeCodes {
						if !have[code] {
							missing = append(missing, code)
						}
					}
					for code := range have {
						if _, ok := regimeCodes[code]; !ok {
							extra = append(extra, code)
						}
					}
					sort.Strings(missing)
					sort.Strings(extra)
					c.ObAt("C19-R5", rel+"#"+dn+".$regime", rel, len(missing)+len(extra) == 0,
						fmt.Sprintf("the published schema's list of accepted $regime values is not the code's: missing [%s], not defined by the code [%s] — the library accepts a regime code (tax.RegimeDefFor resolves country and alternative codes) that consumers of the schema reject, or the reverse", strings.Join(missing, ","), strings.Join(extra, ",")))
				}
			}
			if raw, ok := props["$addons"]; ok {
				var o struct {
					Items oneOf `json:"items"`
				}
				json.Unmarshal(raw, &o)
				if len(o.Items.OneOf) > 0 {
					nAdd++
					have := map[string]bool{}
					for _, e := range o.Items.OneOf {
						have[e.Const] = true
					}
					var missing, extra []string
					for k := range addonKeys {
						if !have[k] {
							missing = append(missing, k)
						}
					}
					for k := range have {
						if !addonKeys[k] {
							extra = append(extra, k)
						}
					}
					sort.Strings(missing)
					sort.Strings(extra)
					c.ObAt("C19-R5", rel+"#"+dn+".$addons", rel, len(missing)+len(extra) == 0,
						fmt.Sprintf("the published schema's list of accepted $addons entries is not the code's: missing [%s], not defined by the code [%s]", strings.Join(missing, ","), strings.Join(extra, ",")))
				}
			}
		}
	}
	if nReg < 3 || nAdd < 3 {
		c.Ob("C19-R5", "UNRESOLVED:schema-enumerations", token.NoPos, false, fmt.Sprintf("only %d $regime and %d $addons enumerations found under data/schemas", nReg, nAdd))
	}
}
