package props

import (
	"fmt"
	"go/ast"
	"go/token"
	"go/types"
	"strings"

	"goblcheck/core"
)

// c04FreshPayload — C04-R16: parsing is a function of the bytes alone.
// schema.Object.UnmarshalJSON decodes into the payload instance it has just
// obtained from the registry; encoding/json merges into whatever the target
// already holds, so decoding into a payload kept from an earlier parse leaves
// the earlier document's optional members in the new one (parse → serialise is
// no longer the identity, and the result depends on what the variable held
// before). Decided: on every path to the json.Unmarshal call whose target is
// the payload member, that member was assigned from a call.
func c04FreshPayload(c *core.Ctx) {
	p := c.P
	c.Rule("C04-R16", "schema.Object decodes into a payload obtained for this parse", 1)
	fd := p.Func("schema", "Object", "UnmarshalJSON")
	if fd == nil {
		c.Ob("C04-R16", "UNRESOLVED:schema.Object.UnmarshalJSON", token.NoPos, false, "method not found")
		return
	}
	info := fd.Pkg.TypesInfo
	ff := core.NewFuncFlow(fd)
	n := 0
	for _, call := range core.CallsTo(info, fd.Decl.Body, func(f *types.Func) bool {
		return f.Pkg() != nil && f.Pkg().Path() == "encoding/json" && f.Name() == "Unmarshal"
	}) {
		if len(call.Args) != 2 {
			continue
		}
		target := ast.Unparen(call.Args[1])
		f := core.FieldOf(info, target)
		tv := core.VarOf(info, target)
		if f == nil && (tv == nil || tv == recvVar(fd)) {
			continue
		}
		if f == nil {
			// a local: it must be (or become) the object's payload
			if _, isIface := tv.Type().Underlying().(*types.Interface); !isIface {
				continue
			}
		}
		n++
		node := ff.Flow.EnclosingNode(call)
		fresh := node != nil && ff.Flow.EveryPathPasses(node, func(x ast.Node) bool {
			as, ok := x.(*ast.AssignStmt)
			if !ok {
				return false
			}
			for i, l := range as.Lhs {
				if (f != nil && core.FieldOf(info, l) == f) || (f == nil && core.VarOf(info, l) == tv) {
					rhs := as.Rhs[0]
					if len(as.Rhs) == len(as.Lhs) {
						rhs = as.Rhs[i]
					}
					_, isCall := ast.Unparen(rhs).(*ast.CallExpr)
					return isCall
				}
			}
			return false
		})
		tname := types.ExprString(target)
		if f != nil {
			tname = f.Name()
		}
		c.Ob("C04-R16", fmt.Sprintf("%s#decodes-into:%s%d", fd.Name(), tname, n), call.Pos(), fresh,
			fmt.Sprintf("the bytes are decoded into %s, which on some path is the instance left by an earlier parse: encoding/json merges into it, so members the new document lacks keep the old document's values — parsing depends on the target's history and parse → serialise is not the identity", types.ExprString(target)))
	}
	c.Ob("C04-R16", "decodes#found", token.NoPos, n >= 1, "no json.Unmarshal into a member of the object was found")
}

// c17NoStoreThroughAmountPointers — C17-R8: Invert (and ConvertInto,
// RemoveIncludedTaxes) work on shallow copies of rows, whose optional amounts
// (`Base *num.Amount`, `Quantity`, `Percent`) are pointers shared with the
// source row. A helper that writes through such a pointer (`*a = a.Invert()`)
// changes the source document as well; applied to two rows that share one
// pointer it flips the sign twice. Decided: no function of packages bill, tax
// and pay stores through a parameter of type *num.Amount or *num.Percentage.
func c17NoStoreThroughAmountPointers(c *core.Ctx) {
	p := c.P
	c.Rule("C17-R8", "helpers of the calculation return new amounts: none stores through an amount pointer it is given", 3)
	n := 0
	for _, rel := range []string{"bill", "tax", "pay", "org"} {
		for _, fd := range p.Funcs(p.Pkg(rel)) {
			if p.IsTestFile(fd.Decl.Pos()) || fd.Decl.Body == nil {
				continue
			}
			sig := fd.Obj.Type().(*types.Signature)
			info := fd.Pkg.TypesInfo
			for i := 0; i < sig.Params().Len(); i++ {
				pv := sig.Params().At(i)
				pt, ok := pv.Type().(*types.Pointer)
				if !ok {
					continue
				}
				ts := core.TypeString(pt.Elem())
				if ts != "num.Amount" && ts != "num.Percentage" {
					continue
				}
				n++
				var bad token.Pos
				ast.Inspect(fd.Decl.Body, func(nd ast.Node) bool {
					if as, ok := nd.(*ast.AssignStmt); ok {
						for _, l := range as.Lhs {
							if st, ok := ast.Unparen(l).(*ast.StarExpr); ok && core.VarOf(info, st.X) == pv && !bad.IsValid() {
								bad = as.Pos()
							}
						}
					}
					return true
				})
				pos := fd.Decl.Pos()
				if bad.IsValid() {
					pos = bad
				}
				c.Ob("C17-R8", fmt.Sprintf("%s#param:%s", fd.Name(), pv.Name()), pos, !bad.IsValid(),
					fmt.Sprintf("%s stores through its parameter %s (a %s the caller's row points to): rows copied by value share that pointer with their source, so the source document changes too — and two rows sharing one pointer are changed twice", fd.Name(), pv.Name(), strings.TrimPrefix(ts, "num.")))
			}
		}
	}
	c.Ob("C17-R8", "amount-pointer-parameters#found", token.NoPos, n >= 1, "no function with an amount pointer parameter was found")
}

// c04DefaultsBeforeNormalisers — C04-R17: a type's Normalize first brings its
// own members into shape (defaults, code clean-up) and then runs the regime
// and addon normalisers on itself (normalizers.Each(x)). A member those
// normalisers read must not be assigned afterwards: on the first calculation
// they see the value as typed (an empty order type), on the second the
// default written after them — what they derive from it (pt-saft's work type)
// differs, and calculate → serialise → parse → calculate is not a fixpoint.
func c04DefaultsBeforeNormalisers(c *core.Ctx) {
	p := c.P
	c.Rule("C04-R17", "a Normalize method assigns no member its regime and addon normalisers read after it has run them", 10)
	fe := effectsOf(p)
	// members read by regime / addon functions, per owner type
	readBy := map[*types.Var][]string{}
	for _, fd := range p.AllFuncs() {
		rel := core.RelPkg(fd.Obj.Pkg().Path())
		if (!strings.HasPrefix(rel, "regimes/") && !strings.HasPrefix(rel, "addons/")) || p.IsTestFile(fd.Decl.Pos()) {
			continue
		}
		if !strings.Contains(strings.ToLower(fd.Obj.Name()), "normal") {
			continue
		}
		for f := range fe.reads[fd.Obj] {
			readBy[f] = append(readBy[f], fd.Name())
		}
	}
	n := 0
	for _, fd := range p.AllFuncs() {
		if fd.Obj.Name() != "Normalize" || fd.Decl.Recv == nil || fd.Decl.Body == nil || p.IsTestFile(fd.Decl.Pos()) {
			continue
		}
		info := fd.Pkg.TypesInfo
		recv := recvVar(fd)
		var each *ast.CallExpr
		ast.Inspect(fd.Decl.Body, func(nd ast.Node) bool {
			if call, ok := nd.(*ast.CallExpr); ok && each == nil {
				if fn := core.Callee(info, call); fn != nil && fn.Name() == "Each" && core.IsFunc(fn, core.ModPath+"/tax", "Normalizers", "Each") && len(call.Args) == 1 && core.VarOf(info, call.Args[0]) == recv {
					each = call
				}
			}
			return true
		})
		if each == nil {
			continue
		}
		n++
		bad := ""
		var badPos token.Pos
		ast.Inspect(fd.Decl.Body, func(nd ast.Node) bool {
			as, ok := nd.(*ast.AssignStmt)
			if !ok || as.Pos() < each.End() || bad != "" {
				return true
			}
			for _, l := range as.Lhs {
				se, ok := ast.Unparen(l).(*ast.SelectorExpr)
				if !ok || core.VarOf(info, se.X) != recv {
					continue
				}
				if f := core.FieldOf(info, se); f != nil && len(readBy[f]) > 0 {
					bad = fmt.Sprintf("%s.%s is assigned after the regime and addon normalisers have run, and %s read it", recv.Name(), f.Name(), strings.Join(uniq(readBy[f]), ", "))
					badPos = as.Pos()
				}
			}
			return true
		})
		pos := fd.Decl.Pos()
		if badPos.IsValid() {
			pos = badPos
		}
		c.Ob("C04-R17", fd.Name()+"#defaults-first", pos, bad == "", bad+": on the first calculation they see the value as typed, on the second the one written after them — calculate → serialise → parse → calculate is not a fixpoint")
	}
	c.Ob("C04-R17", "normalize-methods#found", token.NoPos, n >= 10, fmt.Sprintf("only %d Normalize methods that run the normalisers on their receiver were found", n))
}
